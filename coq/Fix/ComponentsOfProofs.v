(* ComponentsOfProofs.v — theorems about modules with COMPONENTS OF and
   extensible enumerations: corollaries of Fix/DistinctProofs.v through the two
   lowerings of Fix/ComponentsOf.v, the places where asn1c's lowering differs
   from X.680's (refuted, with witnesses replayed on the real asn1c), and the
   order check of additional enumerations. *)
From Coq Require Import ZArith List Bool Arith Lia ZifyBool.
From A1 Require Import Fix.Tags Fix.Distinct Fix.DistinctProofs Fix.ComponentsOf.
Import ListNotations.
Local Open Scope Z_scope.

(* ================================================================ xcheck in terms of check *)
Lemma xcheck_accept : forall xm, xcheck xm = XAccept ->
  exists m, expand_c xm = Some m /\ check m = Accept /\ pre_reasons xm = [].
Proof.
  intros xm H. unfold xcheck in H.
  destruct (expand_c xm) as [m|] eqn:Em; [|discriminate].
  exists m. split; [reflexivity|].
  destruct (fix_module m) as [|rs] eqn:Ef; [discriminate|].
  destruct (pre_reasons xm ++ map XCore rs) as [|x l] eqn:Ep; [|discriminate].
  apply app_eq_nil in Ep. destruct Ep as [Ep Er].
  destruct rs; [|discriminate].
  split; [|exact Ep].
  unfold check. rewrite Ef. destruct (compile_ends m); [reflexivity|discriminate].
Qed.

Lemma xcheck_of_check : forall xm m, expand_c xm = Some m -> pre_reasons xm = [] ->
  (check m = Accept -> xcheck xm = XAccept) /\ (check m = Crashes -> xcheck xm = XCrashes).
Proof.
  intros xm m Em Ep. unfold xcheck, check. rewrite Em, Ep.
  destruct (fix_module m) as [|rs]; [split; [discriminate|reflexivity]|].
  destruct rs as [|r rs]; simpl.
  - destruct (compile_ends m); split; (reflexivity || discriminate).
  - split; discriminate.
Qed.

(* ================================================================ order of additional enumerations *)
Lemma ordered_no_c_error : forall l mx, ordered_from mx l = true -> c_order_err mx l = false.
Proof.
  induction l as [|v l IH]; intros mx H; simpl in *; [reflexivity|].
  apply andb_true_iff in H. destruct H as [H1 H2]. rewrite H1. simpl. apply IH. exact H2.
Qed.

Lemma no_c_error_ordered : forall l mx, c_order_err mx l = false -> ordered_from mx l = true.
Proof.
  induction l as [|v l IH]; intros mx H; simpl in *; [reflexivity|].
  apply orb_false_iff in H. destruct H as [H1 H2].
  apply negb_false_iff in H1. rewrite H1 in *. simpl. apply IH. exact H2.
Qed.

(* asn1c's order check passes => X.680 20.4 holds *)
Lemma enum_order_sound : forall l, c_order_err (-1) l = false -> x680_order_ok l = true.
Proof.
  intros [|v l] H; [reflexivity|]. apply no_c_error_ordered in H. simpl in *.
  apply andb_true_iff in H. tauto.
Qed.

(* X.680 20.4 holds and the first additional value is not negative => it passes *)
Lemma enum_order_complete_partial : forall l,
  x680_order_ok l = true -> match l with v :: _ => 0 <= v | [] => True end ->
  c_order_err (-1) l = false.
Proof.
  intros [|v l] H Hv; [reflexivity|]. apply ordered_no_c_error. simpl in *.
  apply andb_true_iff. split; [lia|exact H].
Qed.

(* ... and not in general: { e1(5), ..., e2(-3) } *)
Lemma enum_order_complete_refuted : exists l, x680_order_ok l = true /\ c_order_err (-1) l = true.
Proof. exists [-3]. split; reflexivity. Qed.

Lemma xenum_order_quiet : forall t,
  xenum_order_ok t = true -> xenum_adds_nonneg t = true -> xenum_order_bad_c t = false.
Proof.
  intros t H1 H2. destruct t as [p|root [adds|]|k r1 ext r2|e|r]; try reflexivity.
  simpl in *. apply enum_order_complete_partial; [exact H1|].
  destruct (written_values adds); [exact I|lia].
Qed.

Lemma existsb_false_forall : forall (A : Type) (f : A -> bool) l,
  (forall x, In x l -> f x = false) -> existsb f l = false.
Proof.
  intros A f l H. destruct (existsb f l) eqn:E; [|reflexivity].
  apply existsb_exists in E. destruct E as [x [Hin Hx]]. rewrite (H x Hin) in Hx. discriminate.
Qed.

Lemma pre_reasons_quiet : forall xm,
  xwf_written xm = true -> forallb xenum_adds_nonneg (all_xtypes xm) = true -> pre_reasons xm = [].
Proof.
  intros xm Hwf Hnn. unfold xwf_written in Hwf. apply andb_true_iff in Hwf. destruct Hwf as [Hx Ho].
  apply negb_true_iff in Hx. unfold pre_reasons. rewrite Hx. simpl.
  rewrite existsb_false_forall; [reflexivity|].
  intros t Hin. rewrite forallb_forall in Ho, Hnn. apply xenum_order_quiet; auto.
Qed.

(* ================================================================ the corollaries *)
(* accepted => unambiguous, for modules on which asn1c's expansion is X.680's *)
Theorem compof_sound_partial : forall xm m,
  xcheck xm = XAccept -> expand_x680 xm = Some m -> expand_c xm = Some m ->
  chref_free m -> distinct_spec m.
Proof.
  intros xm m Ha _ Ec Hf. apply xcheck_accept in Ha. destruct Ha as [m' [Em' [Hc _]]].
  rewrite Ec in Em'. inversion Em'; subst m'. apply distinct_sound_partial; assumption.
Qed.

(* unambiguous and well-formed => not rejected, likewise *)
Theorem compof_complete_partial : forall xm m,
  expand_x680 xm = Some m -> expand_c xm = Some m ->
  xwf_written xm = true -> forallb xenum_adds_nonneg (all_xtypes xm) = true ->
  tagging_wf m -> distinct_spec m -> enums_plain m ->
  xcheck xm = XAccept \/ xcheck xm = XCrashes.
Proof.
  intros xm m _ Ec Hwf Hnn H1 H2 H3.
  pose proof (pre_reasons_quiet xm Hwf Hnn) as Hp.
  destruct (xcheck_of_check xm m Ec Hp) as [Ha Hc].
  destruct (distinct_complete_partial' m H1 H2 H3) as [H|H]; [left; auto|right; auto].
Qed.

(* ================================================================ witnesses *)
Definition xc (n : nat) (tg : option mtag) (fl : flag) (t : xty) : option cinfo * xty :=
  (Some {| c_name := n; c_tag := tg; c_flag := fl |}, t).
Definition xcof (r : nat) : option cinfo * xty := (None, XRef r).
Definition ctx (n : Z) : option mtag := Some {| tg_class := CContext; tg_num := n; tg_mode := MDefault |}.

(* AUTOMATIC TAGS
   T1 ::= SEQUENCE { c1 [5] INTEGER, c2 [6] BOOLEAN }
   T2 ::= SEQUENCE { c3 INTEGER OPTIONAL, COMPONENTS OF T1, c4 INTEGER OPTIONAL, c5 INTEGER }
   T2 is tagged automatically [0]..[4]: the tags of T1's components do not
   count as manual tags of T2 (X.680 25.3 NOTE) *)
Definition w_cof_auto : xmodule :=
  {| xm_tagging := TgAutomatic;
     xm_defs := [ {| xd_name := 1; xd_tag := None;
                     xd_ty := XCons KSeq [xc 1 (ctx 5) FMandatory (XPrim PInteger); xc 2 (ctx 6) FMandatory (XPrim PBool)] None [] |};
                  {| xd_name := 2; xd_tag := None;
                     xd_ty := XCons KSeq [xc 3 None FOptional (XPrim PInteger); xcof 1;
                                          xc 4 None FOptional (XPrim PInteger); xc 5 None FMandatory (XPrim PInteger)] None [] |} ] |}.

Example cof_auto_accepted :
  xcheck w_cof_auto = XAccept /\ expand_c w_cof_auto = expand_x680 w_cof_auto /\ expand_c w_cof_auto <> None.
Proof. split; [vm_compute; reflexivity|split; [vm_compute; reflexivity|vm_compute; discriminate]]. Qed.

(* the same under EXPLICIT TAGS: c4 and c5 share [UNIVERSAL 2] *)
Example cof_noauto_rejected :
  xcheck {| xm_tagging := TgExplicit; xm_defs := xm_defs w_cof_auto |} = XReject [XCore RTagClash].
Proof. vm_compute. reflexivity. Qed.

(* an inherited tag clashing with a local one, only visible after expansion:
   T1 ::= SET { c1 [5] INTEGER }   T2 ::= SET { c2 [5] BOOLEAN, COMPONENTS OF T1 } *)
Example cof_inherited_tag_clash :
  xcheck {| xm_tagging := TgImplicit;
            xm_defs := [ {| xd_name := 1; xd_tag := None; xd_ty := XCons KSet [xc 1 (ctx 5) FMandatory (XPrim PInteger)] None [] |};
                         {| xd_name := 2; xd_tag := None;
                            xd_ty := XCons KSet [xc 2 (ctx 5) FMandatory (XPrim PBool); xcof 1] None [] |} ] |}
  = XReject [XCore RTagClash].
Proof. vm_compute. reflexivity. Qed.

(* T1 ::= SEQUENCE { c1 [5] INTEGER, c2 [6] BOOLEAN }   T2 ::= SEQUENCE { c1 NULL, COMPONENTS OF T1 }
   two components of T2 are called c1 (X.680 25.10, after the transformation) *)
Definition w_cof_dupident : xmodule :=
  {| xm_tagging := TgExplicit;
     xm_defs := [ {| xd_name := 1; xd_tag := None;
                     xd_ty := XCons KSeq [xc 1 (ctx 5) FMandatory (XPrim PInteger); xc 2 (ctx 6) FMandatory (XPrim PBool)] None [] |};
                  {| xd_name := 2; xd_tag := None;
                     xd_ty := XCons KSeq [xc 1 None FMandatory (XPrim PNull); xcof 1] None [] |} ] |}.

Lemma compof_sound_refuted_ident :
  exists xm m, xcheck xm = XAccept /\ expand_x680 xm = Some m /\ ~ distinct_spec m.
Proof.
  exists w_cof_dupident. eexists. split; [vm_compute; reflexivity|split; [vm_compute; reflexivity|]].
  intro H.
  match type of H with distinct_spec ?M => set (m := M) in * end.
  assert (Hin : In (TCons KSeq [({| c_name := 1; c_tag := None; c_flag := FMandatory |}, TPrim PNull);
                                ({| c_name := 1; c_tag := ctx 5; c_flag := FMandatory |}, TPrim PInteger);
                                ({| c_name := 2; c_tag := ctx 6; c_flag := FMandatory |}, TPrim PBool)] None [])
                   (all_types m)) by (vm_compute; tauto).
  specialize (H _ Hin). simpl in H. destruct H as [H _].
  inversion H as [|a l Ha _]; subst. apply Ha. simpl. tauto.
Qed.

(* T1 ::= SET { c1 CHOICE { c1 INTEGER, ... } }
   T2 ::= SET { COMPONENTS OF T1, c2 CHOICE { c1 BOOLEAN, ... } }
   two extensible untagged CHOICEs in one SET (X.680 52.7): written out, asn1c
   rejects this ("potentially has the same tag"); through COMPONENTS OF the
   clone of c1's type has lost its extension marker *)
Definition xchoice_ext (p : prim) : xty := XCons KChoice [xc 1 None FMandatory (XPrim p)] (Some []) [].
Definition w_cof_ext : xmodule :=
  {| xm_tagging := TgExplicit;
     xm_defs := [ {| xd_name := 1; xd_tag := None;
                     xd_ty := XCons KSet [xc 1 None FMandatory (xchoice_ext PInteger)] None [] |};
                  {| xd_name := 2; xd_tag := None;
                     xd_ty := XCons KSet [xcof 1; xc 2 None FMandatory (xchoice_ext PBool)] None [] |} ] |}.

Lemma compof_sound_refuted_ext :
  exists xm m, xcheck xm = XAccept /\ expand_x680 xm = Some m /\ ~ distinct_spec m.
Proof.
  exists w_cof_ext. eexists. split; [vm_compute; reflexivity|split; [vm_compute; reflexivity|]].
  intro H.
  match type of H with distinct_spec ?M => set (m := M) in * end.
  assert (Hin : In (TCons KSet [mkc 1 FMandatory (TCons KChoice [mkc 1 FMandatory (TPrim PInteger)] (Some []) []);
                                mkc 2 FMandatory (TCons KChoice [mkc 1 FMandatory (TPrim PBool)] (Some []) [])] None [])
                   (all_types m)) by (vm_compute; tauto).
  specialize (H _ Hin). simpl in H. destruct H as [_ H].
  unfold pairwise_disjoint in H. simpl in H.
  inversion H as [|a l Ha _]; subst. inversion Ha as [|b l' Hab _]; subst.
  apply (Hab OExt); simpl; apply FT_future.
Qed.

(* the same SET written out is rejected by the model (and by asn1c) *)
Example cof_ext_written_out_rejected :
  xcheck {| xm_tagging := TgExplicit;
            xm_defs := [ {| xd_name := 2; xd_tag := None;
                            xd_ty := XCons KSet [xc 1 None FMandatory (xchoice_ext PInteger);
                                                 xc 2 None FMandatory (xchoice_ext PBool)] None [] |} ] |}
  = XReject [XCore RTagClash].
Proof. vm_compute. reflexivity. Qed.

(* T1 ::= ENUMERATED { e1(5), ..., e2(-3) }: nothing is repeated and e2 is the first
   additional enumeration, yet "is not greater than previous values (max -1)" *)
Definition w_enum_neg : xmodule :=
  {| xm_tagging := TgExplicit;
     xm_defs := [ {| xd_name := 1; xd_tag := None;
                     xd_ty := XEnum [(1%nat, Some 5)] (Some [(2%nat, Some (-3))]) |} ] |}.

Lemma enum_ext_complete_refuted :
  exists xm m, expand_x680 xm = Some m /\ expand_c xm = Some m /\ xwf_written xm = true /\
               tagging_wf m /\ distinct_spec m /\ enums_plain m /\ xcheck xm = XReject [XEnumOrder].
Proof.
  exists w_enum_neg. eexists.
  split; [vm_compute; reflexivity|]. split; [vm_compute; reflexivity|]. split; [vm_compute; reflexivity|].
  split; [|split; [|split; [|vm_compute; reflexivity]]].
  - split; [|split].
    + simpl. repeat constructor; simpl; tauto.
    + repeat constructor.
    + intros t Hin. vm_compute in Hin. destruct Hin as [E|[]]. subst. exact I.
  - intros t Hin. vm_compute in Hin. destruct Hin as [E|[]]. subst. simpl. split.
    + repeat constructor; simpl; intuition discriminate.
    + repeat constructor; simpl; intuition discriminate.
  - intros t Hin. vm_compute in Hin. destruct Hin as [E|[]]. subst. simpl.
    left. intros it [E|[E|[]]]; subst; simpl; discriminate.
Qed.

(* enumeration values far outside 32 bits: the model compares in Z, as the C
   compares asn1c_integer_t values *)
Example enum_large_duplicate :
  enum_val_clash [(1%nat, Some 1); (2%nat, Some 3000000000); (3%nat, Some 3000000000)] = true.
Proof. reflexivity. Qed.
Example enum_congruent_mod_2_32_distinct :
  enum_val_clash [(1%nat, Some 0); (2%nat, Some 4294967296)] = false /\
  enum_val_clash [(1%nat, Some (-1)); (2%nat, Some 4294967295)] = false /\
  enum_val_clash [(1%nat, Some 9223372036854775807); (2%nat, Some (-9223372036854775809))] = false.
Proof. repeat split. Qed.

(* non-vacuity of the hypotheses of the two corollaries *)
Example compof_partial_nonvacuous :
  exists m, expand_x680 w_cof_auto = Some m /\ expand_c w_cof_auto = Some m /\
            xcheck w_cof_auto = XAccept /\ chref_free m /\
            xwf_written w_cof_auto = true /\ forallb xenum_adds_nonneg (all_xtypes w_cof_auto) = true.
Proof.
  eexists. split; [vm_compute; reflexivity|]. split; [vm_compute; reflexivity|].
  split; [vm_compute; reflexivity|]. split; [|split; vm_compute; reflexivity].
  intros t Hin c r Hc. vm_compute in Hin.
  repeat (destruct Hin as [E|Hin]; [subst t; simpl in Hc|]); try contradiction;
    repeat (destruct Hc as [E|Hc]; [inversion E; subst|]); try contradiction.
Qed.

(* ================================================================ conservativity *)
(* a core module, read as a surface module (no COMPONENTS OF, no marker in any
   enumeration), expands to itself under either policy: the surface model
   extends the model of Fix/Tags.v *)
Definition embed_comps (f : ty -> xty) := fix go (l : list (cinfo * ty)) : list (option cinfo * xty) :=
  match l with
  | [] => []
  | (c, t') :: l' => (Some c, f t') :: go l'
  end.
Fixpoint embed_ty (t : ty) : xty :=
  match t with
  | TPrim p => XPrim p
  | TEnum items => XEnum items None
  | TCons k r1 ext r2 =>
      XCons k (embed_comps embed_ty r1)
            (match ext with Some a => Some (embed_comps embed_ty a) | None => None end)
            (embed_comps embed_ty r2)
  | TSeqOf e => XSeqOf (embed_ty e)
  | TRef r => XRef r
  end.
Definition embed_def (d : def) : xdef := {| xd_name := d_name d; xd_tag := d_tag d; xd_ty := embed_ty (d_ty d) |}.
Definition embed (m : module) : xmodule := {| xm_tagging := m_tagging m; xm_defs := map embed_def (m_defs m) |}.

Section Conservative.
Variable pol : policy.
Variable tg : tagging.
Variable fin : bool.
Variable done : list def.

Definition xgo (k : kind) := fix go (l : list (option cinfo * xty)) : option (list fcomp) :=
  match l with
  | [] => Some []
  | (oc, t') :: l' =>
      match go l' with
      | None => None
      | Some rest =>
          match oc with
          | Some c =>
              match expand_ty pol tg fin done t' with
              | Some t'' => Some ((false, (c, t'')) :: rest)
              | None => None
              end
          | None =>
              match t' with
              | XRef r =>
                  match inherited pol done k r with
                  | Some inh => Some (map (fun ct => (true, ct)) inh ++ rest)
                  | None => None
                  end
              | _ => None
              end
          end
      end
  end.

Lemma expand_ty_cons : forall k r1 ext r2,
  expand_ty pol tg fin done (XCons k r1 ext r2) =
  match xgo k r1, xgo k r2,
        match ext with
        | None => Some None
        | Some a => match xgo k a with Some a' => Some (Some a') | None => None end
        end with
  | Some e1, Some e2, Some ee => Some (finish pol fin k (xauto tg r1 (xadds ext) r2) e1 ee e2)
  | _, _, _ => None
  end.
Proof. reflexivity. Qed.

Definition own (l : list (cinfo * ty)) : list fcomp := map (fun ct => (false, ct)) l.

Lemma xgo_embed : forall k l,
  Forall (fun c => expand_ty pol tg fin done (embed_ty (snd c)) = Some (snd c)) l ->
  xgo k (embed_comps embed_ty l) = Some (own l).
Proof.
  intros k l H. induction H as [|[c t] l Hc _ IH]; [reflexivity|].
  simpl in *. rewrite IH, Hc. reflexivity.
Qed.

Lemma untag_own : forall l, map untag_inh (own l) = own l.
Proof. induction l as [|[c t] l IH]; simpl; [reflexivity|]. rewrite IH. reflexivity. Qed.
Lemma snd_own : forall l, map snd (own l) = l.
Proof. induction l as [|[c t] l IH]; simpl; [reflexivity|]. rewrite IH. reflexivity. Qed.
Lemma rename_own : forall names b l i, rename_from names b i (own l) = l.
Proof. intros names b. induction l as [|[c t] l IH]; intro i; simpl; [reflexivity|]. rewrite IH. reflexivity. Qed.

Lemma finish_own : forall k auto r1 ext r2,
  finish pol fin k auto (own r1) (match ext with Some a => Some (own a) | None => None end) (own r2)
  = TCons k r1 ext r2.
Proof.
  intros k auto r1 ext r2. unfold finish.
  assert (Hun : forall l, (if fin && auto then map untag_inh (own l) else own l) = own l)
    by (intro l; destruct (fin && auto); [apply untag_own|reflexivity]).
  assert (Hrn : forall names b i l, (if fin && p_rename pol then rename_from names b i (own l) else map snd (own l)) = l)
    by (intros names b i l; destruct (fin && p_rename pol); [apply rename_own|apply snd_own]).
  destruct ext as [a|]; rewrite ?Hun, ?Hrn; reflexivity.
Qed.

Lemma expand_embed_ty : forall t, expand_ty pol tg fin done (embed_ty t) = Some t.
Proof.
  induction t as [p|items|k r1 ext r2 H1 He H2|e IH|r] using ty_ind'; try reflexivity.
  - change (embed_ty (TCons k r1 ext r2)) with
      (XCons k (embed_comps embed_ty r1)
             (match ext with Some a => Some (embed_comps embed_ty a) | None => None end)
             (embed_comps embed_ty r2)).
    rewrite expand_ty_cons. rewrite (xgo_embed k r1 H1), (xgo_embed k r2 H2).
    destruct ext as [a|]; simpl in He.
    + rewrite (xgo_embed k a He). rewrite <- (finish_own k (xauto tg (embed_comps embed_ty r1) (embed_comps embed_ty a) (embed_comps embed_ty r2)) r1 (Some a) r2). reflexivity.
    + rewrite <- (finish_own k (xauto tg (embed_comps embed_ty r1) [] (embed_comps embed_ty r2)) r1 None r2). reflexivity.
  - simpl. rewrite IH. reflexivity.
Qed.
End Conservative.

Lemma expand_defs_embed : forall pol tg ds done out,
  expand_defs pol tg done out (map embed_def ds) = Some (out ++ ds).
Proof.
  intros pol tg. induction ds as [|d ds IH]; intros done out; simpl.
  - rewrite app_nil_r. reflexivity.
  - rewrite !expand_embed_ty. rewrite IH.
    replace (mk_def (embed_def d) (d_ty d)) with d by (destruct d; reflexivity).
    rewrite <- app_assoc. reflexivity.
Qed.

Theorem expand_embed : forall pol m, expand pol (embed m) = Some m.
Proof.
  intros pol m. unfold expand, embed. simpl. rewrite expand_defs_embed. destruct m; reflexivity.
Qed.

(* ---- the verdicts agree on embedded modules ---- *)
Definition xsub_go := fix go (l : list (option cinfo * xty)) : list xty :=
  match l with
  | [] => []
  | (Some _, t') :: l' => xsubtypes t' ++ go l'
  | (None, _) :: l' => go l'
  end.
Lemma xsubtypes_cons : forall k r1 ext r2,
  xsubtypes (XCons k r1 ext r2) =
  XCons k r1 ext r2 :: xsub_go r1 ++ xsub_go r2 ++ match ext with Some a => xsub_go a | None => [] end.
Proof. reflexivity. Qed.

Lemma xsubtypes_embed : forall t, xsubtypes (embed_ty t) = map embed_ty (subtypes t).
Proof.
  induction t as [p|items|k r1 ext r2 H1 He H2|e IH|r] using ty_ind'; try reflexivity.
  - change (embed_ty (TCons k r1 ext r2)) with
      (XCons k (embed_comps embed_ty r1)
             (match ext with Some a => Some (embed_comps embed_ty a) | None => None end)
             (embed_comps embed_ty r2)).
    rewrite xsubtypes_cons, subtypes_cons.
    assert (G : forall l, Forall (fun c => xsubtypes (embed_ty (snd c)) = map embed_ty (subtypes (snd c))) l ->
                xsub_go (embed_comps embed_ty l) = map embed_ty (sub_go l)).
    { intros l F. induction F as [|[c t] l Hc _ IHl]; [reflexivity|].
      simpl in *. rewrite Hc, IHl, map_app. reflexivity. }
    rewrite map_cons. f_equal.
    rewrite !map_app. rewrite (G r1 H1), (G r2 H2).
    destruct ext as [a|]; simpl in He; [rewrite (G a He)|]; reflexivity.
  - simpl. rewrite IH. reflexivity.
Qed.

Lemma all_xtypes_embed : forall m, all_xtypes (embed m) = map embed_ty (all_types m).
Proof.
  intro m. unfold all_xtypes, all_types, embed. simpl.
  induction (m_defs m) as [|d ds IH]; [reflexivity|].
  simpl. rewrite IH, map_app. rewrite xsubtypes_embed. reflexivity.
Qed.

Lemma xhas_tag_embed : forall l, existsb xhas_tag (embed_comps embed_ty l) = existsb has_tag l.
Proof. induction l as [|[c t] l IH]; [reflexivity|]. simpl. rewrite IH. reflexivity. Qed.

Lemma embed_comps_app : forall l l', embed_comps embed_ty (l ++ l') = embed_comps embed_ty l ++ embed_comps embed_ty l'.
Proof. induction l as [|[c t] l IH]; intro l'; [reflexivity|]. simpl. rewrite IH. reflexivity. Qed.

Lemma xexttag_embed : forall tg t,
  xexttag_bad tg (embed_ty t) =
  match t with TCons _ r1 (Some a) r2 => exttag_error tg (root_of r1 r2) a | _ => false end.
Proof.
  intros tg t. destruct t as [p|items|k r1 [a|] r2|e|r]; try reflexivity; simpl.
  - destruct tg; try reflexivity. unfold exttag_error, root_of.
    rewrite <- embed_comps_app, !xhas_tag_embed. reflexivity.
Qed.

Lemma fix_ok_pre_quiet : forall m, fix_module m = NOk [] -> pre_reasons (embed m) = [].
Proof.
  intros m H. unfold fix_module in H. apply nres_app_ok in H. destruct H as [_ Hd].
  assert (Hn : forall t, In t (all_types m) -> exists p, check_node m (compare_fuel m) p t = NOk []).
  { intros t Hin. unfold all_types in Hin. apply in_flat_map in Hin. destruct Hin as [d [Hd1 Hd2]].
    pose proof (check_defs_ok m _ _ Hd d Hd1) as Hdef. unfold check_def in Hdef.
    apply nres_app_ok in Hdef. destruct Hdef as [_ Hty].
    exact (check_ty_ok m _ _ _ Hty t Hd2). }
  unfold pre_reasons. rewrite all_xtypes_embed.
  rewrite !existsb_false_forall; [reflexivity| |].
  - intros x Hx. apply in_map_iff in Hx. destruct Hx as [t [E _]]. subst x.
    destruct t as [p|items|k r1 ext r2|e|r]; reflexivity.
  - intros x Hx. apply in_map_iff in Hx. destruct Hx as [t [E Hin]]. subst x.
    rewrite xexttag_embed. destruct t as [p|items|k r1 [a|] r2|e|r]; try reflexivity.
    destruct (Hn _ Hin) as [p Hp]. unfold check_node in Hp.
    destruct (scan_all m (compare_fuel m) match k with KSeq => true | _ => false end
                       (members (m_tagging m) p r1 (Some a) r2)) as [|c]; [discriminate|].
    inversion Hp as [E]. apply app_eq_nil in E. destruct E as [E _].
    apply app_eq_nil in E. destruct E as [_ E]. apply app_eq_nil in E. destruct E as [_ E].
    apply when_nil in E. exact E.
Qed.

Theorem xcheck_embed_accept : forall m, xcheck (embed m) = XAccept <-> check m = Accept.
Proof.
  intro m. split; intro H.
  - apply xcheck_accept in H. destruct H as [m' [Em [Hc _]]].
    unfold expand_c in Em. rewrite expand_embed in Em. inversion Em; subst. exact Hc.
  - apply (xcheck_of_check (embed m) m); [apply expand_embed| |exact H].
    apply fix_ok_pre_quiet. apply accept_fix_ok. exact H.
Qed.

Theorem xcheck_embed_crashes : forall m, xcheck (embed m) = XCrashes <-> check m = Crashes.
Proof.
  intro m. unfold xcheck, check, expand_c. rewrite expand_embed.
  destruct (fix_module m) as [|rs] eqn:Ef; [tauto|].
  destruct rs as [|r rs].
  - rewrite (fix_ok_pre_quiet m Ef). simpl. destruct (compile_ends m); split; (reflexivity || discriminate).
  - destruct (pre_reasons (embed m)); simpl; split; discriminate.
Qed.
