(* TagMode.v — executable model of how asn1c decides the tagging MODE of every tag, and of
   the tag lists that follow from it, along type-reference chains of any length; and the
   specification of the same from X.680.  No proofs here (extraction reads this file).

   Code modelled:
     libasn1fix/asn1fix_constr.c   _asn1f_check_if_tag_must_be_explicit, _asn1f_fix_type_tag,
                                   asn1f_fix_constr_tag (top-level type, components, SEQUENCE OF /
                                   SET OF element), asn1f_fix_constr_autotag
     libasn1fix/asn1fix_tags.c     asn1f_fetch_tags_impl (ADD_TAG, skip/count; flags 0,
                                   AFT_FULL_COLLECT, AFT_FETCH_OUTMOST, AFT_IMAGINARY_ANY)
     libasn1fix/asn1fix_retrieve.c asn1f_find_terminal_type
     libasn1compiler/asn1c_C.c     emit_tags_vectors (tags / all_tags of a definition),
                                   emit_member_table (member tag and tag_mode)

   The algebra keeps exactly what these functions look at: a type is an untagged CHOICE, an
   open type (ANY), a reference, or "something else" with its universal tag; a definition or a
   use may carry a tag [class number] with a written mode (nothing / IMPLICIT / EXPLICIT).
   Fix/Tags.v's [must_explicit] is this file's [must_explicit_c] on the image of the module
   (TagModeProofs.v, [must_explicit_abs]). *)
From Coq Require Import ZArith List Bool Arith.
From A1 Require Import Fix.Tags.
Import ListNotations.
Local Open Scope Z_scope.

Inductive body := BChoice | BOpen | BOther (u : Z) | BRef (r : nat).
Record tdef := { td_name : nat; td_tag : option mtag; td_body : body }.

Definition tlookup (ds : list tdef) (n : nat) : option tdef :=
  find (fun d => Nat.eqb (td_name d) n) ds.

Definition etag := (tclass * Z)%type.

(* ---------------------------------------------------------------- must the tag be EXPLICIT? *)
(* asn1f_fetch_outmost_tag(v, flags 0) == 0 on v with its own tag removed: is there any tag
   below?  A reference costs one unit of fuel (the C stops a cycle by TM_RECURSION marks). *)
Fixpoint has_tag_below (ds : list tdef) (fuel : nat) (b : body) : bool :=
  match b with
  | BOther _ => true
  | BChoice => false
  | BOpen => false                      (* no AFT_IMAGINARY_ANY here *)
  | BRef r =>
      match fuel with
      | O => false
      | S f =>
          match tlookup ds r with
          | None => false
          | Some d => match td_tag d with
                      | Some _ => true
                      | None => has_tag_below ds f (td_body d)
                      end
          end
      end
  end.

(* asn1f_find_terminal_type: tags are not looked at; None = missing or circular *)
Fixpoint tterminal (ds : list tdef) (fuel : nat) (b : body) : option body :=
  match b with
  | BRef r =>
      match fuel with
      | O => None
      | S f => match tlookup ds r with
               | None => None
               | Some d => tterminal ds f (td_body d)
               end
      end
  | _ => Some b
  end.

Definition terminal_needs_explicit (ds : list tdef) (fuel : nat) (b : body) : bool :=
  match tterminal ds fuel b with
  | Some BChoice | Some BOpen => true
  | _ => false
  end.

(* _asn1f_check_if_tag_must_be_explicit *)
Definition must_explicit_c (ds : list tdef) (fuel : nat) (b : body) : bool :=
  if has_tag_below ds fuel b then false else terminal_needs_explicit ds fuel b.

(* the same decision taken after looking at ONE reference hop only (the mistake of seeded
   change C11-5): "the referenced definition carries a tag" instead of "some tag lies below" *)
Definition must_explicit_1hop (ds : list tdef) (fuel : nat) (b : body) : bool :=
  match b with
  | BRef r =>
      match tlookup ds r with
      | Some d => match td_tag d with
                  | Some _ => false
                  | None => terminal_needs_explicit ds fuel b
                  end
      | None => terminal_needs_explicit ds fuel b
      end
  | _ => terminal_needs_explicit ds fuel b
  end.

(* ---------------------------------------------------------------- _asn1f_fix_type_tag *)
Inductive mres := MErr | MOk (md : tmode).

Definition module_implicit (tg : tagging) : bool :=
  match tg with TgExplicit => false | _ => true end.

Definition fix_type_tag (tg : tagging) (me : bool) (written : tmode) : mres :=
  let md := match written with
            | MDefault => if me || negb (module_implicit tg) then MExplicit else MImplicit
            | w => w
            end in
  if me then match md with MImplicit => MErr | _ => MOk MExplicit end
  else MOk md.

(* asn1f_fix_constr_autotag *)
Definition auto_mode (me : bool) : tmode := if me then MExplicit else MImplicit.

Definition tm_fuel (ds : list tdef) : nat := length ds.

Definition resolve_tag (tg : tagging) (ds : list tdef) (t : mtag) (b : body) : mres :=
  fix_type_tag tg (must_explicit_c ds (tm_fuel ds) b) (tg_mode t).

(* the definitions as they are after asn1f_fix_constr_tag(arg, 1): written modes replaced by
   effective ones (an illegal IMPLICIT stays IMPLICIT, as in the C; the run is rejected) *)
Definition with_mode (t : mtag) (md : tmode) : mtag :=
  {| tg_class := tg_class t; tg_num := tg_num t; tg_mode := md |}.
Definition resolved_tag (tg : tagging) (ds : list tdef) (t : option mtag) (b : body) : option mtag :=
  match t with
  | None => None
  | Some t => Some (match resolve_tag tg ds t b with MOk md => with_mode t md | MErr => t end)
  end.
Definition resolve_defs (tg : tagging) (ds : list tdef) : list tdef :=
  map (fun d => {| td_name := td_name d; td_tag := resolved_tag tg ds (td_tag d) (td_body d); td_body := td_body d |}) ds.

(* ---------------------------------------------------------------- asn1f_fetch_tags_impl *)
(* ADD_TAG(skip, newtag): new skip counter and what is appended *)
Definition add_tag (full : bool) (skip : nat) (c : tclass) (n : Z) (md : tmode) : nat * list etag :=
  let implicit := match md with MImplicit => true | _ => false end in
  if negb (Nat.eqb skip 0) && negb full
  then ((if implicit then skip else pred skip), [])
  else ((if implicit then S skip else skip), [(c, n)]).

(* the expression's own tag, if any: "if(expr->tag.tag_class != TC_NOCLASS) ADD_TAG(skip, expr->tag)" *)
Definition own_tag (full : bool) (skip : nat) (tg : option mtag) : nat * list etag :=
  match tg with
  | Some t => add_tag full skip (tg_class t) (tg_num t) (tg_mode t)
  | None => (skip, [])
  end.

(* flags = 0 ([full = false]) or AFT_FULL_COLLECT; None = the C returns -1.  [cbody] is the
   part of asn1f_fetch_tags_impl after the own tag; [count] = tags collected so far. *)
Fixpoint cbody (ds : list tdef) (fuel : nat) (full : bool) (count skip : nat) (b : body) : option (list etag) :=
  match b with
  | BOther u => Some (snd (add_tag full skip CUniversal u MDefault))
  | BOpen => None
  | BChoice => if Nat.eqb count 0 then None else Some []
  | BRef r =>
      match fuel with
      | O => None
      | S f =>
          match tlookup ds r with
          | None => None
          | Some d =>
              let so := own_tag full skip (td_tag d) in
              option_map (app (snd so)) (cbody ds f full (count + length (snd so)) (fst so) (td_body d))
          end
      end
  end.

Definition ctags (ds : list tdef) (fuel : nat) (full : bool) (count skip : nat)
           (tg : option mtag) (b : body) : option (list etag) :=
  let so := own_tag full skip tg in
  option_map (app (snd so)) (cbody ds fuel full (count + length (snd so)) (fst so) b).

(* emit_tags_vectors: the vectors asn_DEF_x_tags[] (effective) and asn_DEF_x_all_tags[]; when
   either fetch fails nothing is emitted ("No effective tags") *)
Definition emitted_tags (ds : list tdef) (tg : option mtag) (b : body) : list etag * list etag :=
  match ctags ds (S (tm_fuel ds)) false 0 0 tg b, ctags ds (S (tm_fuel ds)) true 0 0 tg b with
  | Some e, Some a => (e, a)
  | _, _ => ([], [])
  end.

(* asn1f_fetch_outmost_tag(.., AFT_IMAGINARY_ANY) as emit_member_table uses it *)
Inductive otag1 := OTag (t : etag) | OAny | ONone.
Fixpoint outmost (ds : list tdef) (fuel : nat) (tg : option mtag) (b : body) : otag1 :=
  match tg with
  | Some t => OTag (tg_class t, tg_num t)
  | None =>
      match b with
      | BOther u => OTag (CUniversal, u)
      | BOpen => OAny
      | BChoice => ONone
      | BRef r =>
          match fuel with
          | O => ONone
          | S f => match tlookup ds r with
                   | None => ONone
                   | Some d => outmost ds f (td_tag d) (td_body d)
                   end
          end
      end
  end.

(* ---------------------------------------------------------------- a module of the tie *)
(* holder = a SEQUENCE/SET/CHOICE (components: root first, then the additions) or a
   SEQUENCE OF / SET OF (one element) whose members are uses of the definitions *)
Inductive hkind := HStruct (nroot : nat) | HOf.
Record site := { s_ident : nat; s_tag : option mtag; s_body : body }.
Record holder := { h_name : nat; h_kind : hkind; h_sites : list site }.
Record tmmod := { tmm_tagging : tagging; tmm_defs : list tdef; tmm_holders : list holder }.

Definition site_tagged (s : site) : bool := match s_tag s with Some _ => true | None => false end.

(* asn1f_fix_constr_tag: auto_tags_OK / the 28.4 complaint *)
Definition h_auto (tg : tagging) (h : holder) : bool :=
  match tg, h_kind h with
  | TgAutomatic, HStruct _ => negb (existsb site_tagged (h_sites h))
  | _, _ => false
  end.
Definition h_exttag_error (tg : tagging) (h : holder) : bool :=
  match tg, h_kind h with
  | TgAutomatic, HStruct nroot =>
      negb (existsb site_tagged (firstn nroot (h_sites h))) && existsb site_tagged (skipn nroot (h_sites h))
  | _, _ => false
  end.

(* one use after the fixer: its tag with the effective mode (None: untagged), or MErr *)
Inductive sres := SErr | STag (t : option mtag).
Definition fix_site (m : tmmod) (auto : bool) (pos : nat) (s : site) : sres :=
  let ds := tmm_defs m in
  if auto then
    STag (Some {| tg_class := CContext; tg_num := Z.of_nat pos;
                  tg_mode := auto_mode (must_explicit_c ds (tm_fuel ds) (s_body s)) |})
  else match s_tag s with
       | None => STag None
       | Some t => match resolve_tag (tmm_tagging m) ds t (s_body s) with
                   | MErr => SErr
                   | MOk md => STag (Some (with_mode t md))
                   end
       end.

Fixpoint fix_sites (m : tmmod) (auto : bool) (pos : nat) (l : list site) : list sres :=
  match l with
  | [] => []
  | s :: l' => fix_site m auto pos s :: fix_sites m auto (S pos) l'
  end.

(* what the run prints / emits *)
Inductive tmerr := EDef (n : nat) | ESite (h : nat) (ident : nat) | EExtTag (h : nat).

Definition def_errors (m : tmmod) : list tmerr :=
  flat_map (fun d => match td_tag d with
                     | Some t => match resolve_tag (tmm_tagging m) (tmm_defs m) t (td_body d) with
                                 | MErr => [EDef (td_name d)]
                                 | MOk _ => []
                                 end
                     | None => []
                     end) (tmm_defs m).

Definition holder_errors (m : tmmod) (h : holder) : list tmerr :=
  let auto := h_auto (tmm_tagging m) h in
  (if h_exttag_error (tmm_tagging m) h then [EExtTag (h_name h)] else []) ++
  flat_map (fun p => match snd p with SErr => [ESite (h_name h) (s_ident (fst p))] | STag _ => [] end)
           (combine (h_sites h) (fix_sites m auto 0 (h_sites h))).

Definition tm_errors (m : tmmod) : list tmerr :=
  def_errors m ++ flat_map (holder_errors m) (tmm_holders m).

(* per definition: effective mode of its tag, emitted (tags, all_tags) *)
Definition def_report (m : tmmod) (d : tdef) : option tmode * (list etag * list etag) :=
  let rds := resolve_defs (tmm_tagging m) (tmm_defs m) in
  let rt := resolved_tag (tmm_tagging m) (tmm_defs m) (td_tag d) (td_body d) in
  (option_map tg_mode rt, emitted_tags rds rt (td_body d)).

(* per use: effective mode, member tag *)
Definition site_report (m : tmmod) (auto : bool) (pos : nat) (s : site) : option (option tmode * otag1) :=
  let rds := resolve_defs (tmm_tagging m) (tmm_defs m) in
  match fix_site m auto pos s with
  | SErr => None
  | STag t => Some (option_map tg_mode t, outmost rds (S (tm_fuel rds)) t (s_body s))
  end.

Fixpoint site_reports (m : tmmod) (auto : bool) (pos : nat) (l : list site) :=
  match l with
  | [] => []
  | s :: l' => site_report m auto pos s :: site_reports m auto (S pos) l'
  end.

Definition holder_report (m : tmmod) (h : holder) :=
  site_reports m (h_auto (tmm_tagging m) h) 0 (h_sites h).

(* ================================================================ specification (X.680) *)
(* 31.2.7: "... untagged choice type, an untagged open type, ..." — looking through
   references to untagged definitions *)
Inductive uo (ds : list tdef) : body -> Prop :=
| UO_choice : uo ds BChoice
| UO_open : uo ds BOpen
| UO_ref : forall r d, tlookup ds r = Some d -> td_tag d = None -> uo ds (td_body d) -> uo ds (BRef r).

(* 31.2.7 a)-c), and 31.2.7 c) NOTE (IMPLICIT written there is illegal) *)
Inductive tagging_mode (ds : list tdef) (tg : tagging) : tmode -> body -> mres -> Prop :=
| TM_explicit : forall b, tagging_mode ds tg MExplicit b (MOk MExplicit)
| TM_implicit : forall b, ~ uo ds b -> tagging_mode ds tg MImplicit b (MOk MImplicit)
| TM_illegal : forall b, uo ds b -> tagging_mode ds tg MImplicit b MErr
| TM_env_explicit : forall b, tg = TgExplicit -> tagging_mode ds tg MDefault b (MOk MExplicit)
| TM_must : forall b, uo ds b -> tagging_mode ds tg MDefault b (MOk MExplicit)
| TM_env_implicit : forall b, tg <> TgExplicit -> ~ uo ds b -> tagging_mode ds tg MDefault b (MOk MImplicit).

(* 28.3 automatic tagging: "IMPLICIT unless the type is an untagged choice / open type" *)
Inductive automatic_mode (ds : list tdef) : body -> tmode -> Prop :=
| AM_explicit : forall b, uo ds b -> automatic_mode ds b MExplicit
| AM_implicit : forall b, ~ uo ds b -> automatic_mode ds b MImplicit.

(* 30.6 / X.690 8.14: the tags of a type, outermost first, with effective modes in [ds] *)
Inductive tags_of (ds : list tdef) : option mtag -> body -> list etag -> Prop :=
| TO_other : forall u, tags_of ds None (BOther u) [(CUniversal, u)]
| TO_choice : tags_of ds None BChoice []
| TO_open : tags_of ds None BOpen []
| TO_ref : forall r d l, tlookup ds r = Some d -> tags_of ds (td_tag d) (td_body d) l -> tags_of ds None (BRef r) l
| TO_explicit : forall t b l, tg_mode t <> MImplicit -> tags_of ds None b l ->
    tags_of ds (Some t) b ((tg_class t, tg_num t) :: l)
| TO_implicit : forall t b x l, tg_mode t = MImplicit -> tags_of ds None b (x :: l) ->
    tags_of ds (Some t) b ((tg_class t, tg_num t) :: l).

(* every tag written along the way *)
Inductive all_tags_of (ds : list tdef) : option mtag -> body -> list etag -> Prop :=
| TA_other : forall u, all_tags_of ds None (BOther u) [(CUniversal, u)]
| TA_choice : all_tags_of ds None BChoice []
| TA_open : all_tags_of ds None BOpen []
| TA_ref : forall r d l, tlookup ds r = Some d -> all_tags_of ds (td_tag d) (td_body d) l -> all_tags_of ds None (BRef r) l
| TA_tag : forall t b l, all_tags_of ds None b l -> all_tags_of ds (Some t) b ((tg_class t, tg_num t) :: l).

(* the module is legal as far as 31.2.7 c) goes: no IMPLICIT tag sits on an untagged
   CHOICE / open type *)
Definition tag_legal (ds : list tdef) (t : option mtag) (b : body) : Prop :=
  match t with Some t => tg_mode t = MImplicit -> ~ uo ds b | None => True end.
Definition defs_legal (ds : list tdef) : Prop :=
  forall d, In d ds -> tag_legal ds (td_tag d) (td_body d).

(* ================================================================ image of a Fix/Tags.v module *)
Definition abs_ty (t : ty) : body :=
  match t with
  | TRef r => BRef r
  | TCons KChoice _ _ _ => BChoice
  | _ => match universal_of t with Some u => BOther u | None => BChoice end
  end.
Definition abs_def (d : def) : tdef :=
  {| td_name := d_name d; td_tag := d_tag d; td_body := abs_ty (d_ty d) |}.
Definition abs_defs (m : module) : list tdef := map abs_def (m_defs m).
