(* Fix/PerOerProofs.v — the row emit_single_member_PER_constraint prints is the
   layout X.691 derives from (lower bound, upper bound, extensibility) of the
   computed range (CtSpec.tables_of), and theorems about compute on leaves. *)
From Coq Require Import ZArith List Lia Bool ZifyBool.
From A1 Require Import Fix.Crange Fix.PerOerVisible Fix.CtSpec Fix.CrangeProofs.
Import ListNotations.
Local Open Scope Z_scope.

Definition two128 : Z := 340282366920938463463374607431768211456.

Lemma bits_loop_log2 : forall fuel k cover r dflt,
  0 <= k -> cover = 2 ^ k -> (k = 0 \/ 2 ^ (k - 1) < r) -> 1 <= r ->
  r <= 2 ^ (k + Z.of_nat fuel - 1) ->
  bits_loop fuel k cover r dflt = Z.log2_up r.
Proof.
  induction fuel; intros k cover r dflt Hk Hc Hlow Hr Hup.
  - exfalso. simpl in Hup. replace (k + 0 - 1) with (k - 1) in Hup by lia.
    destruct Hlow as [->|Hlow]; [simpl in Hup; lia | lia].
  - cbn [bits_loop]. destruct (r <=? cover) eqn:E.
    + apply Z.leb_le in E. subst cover. symmetry.
      destruct (Z.eq_dec k 0) as [->|Hk0].
      * apply Z.log2_up_eqn0. simpl in E. lia.
      * destruct Hlow as [?|Hlow]; [lia|]. apply Z.log2_up_unique; [lia|]. replace (Z.pred k) with (k - 1) by lia. lia.
    + apply Z.leb_gt in E. apply IHfuel; try lia.
      * subst cover. rewrite Z.pow_add_r by lia. simpl (2 ^ 1). lia.
      * right. replace (k + 1 - 1) with k by lia. subst cover. lia.
      * replace (k + 1 + Z.of_nat fuel - 1) with (k + Z.of_nat (S fuel) - 1) by lia. exact Hup.
Qed.

Lemma bits_loop_dflt : forall fuel k cover r dflt,
  0 <= k -> cover = 2 ^ k -> 2 ^ (k + Z.of_nat fuel - 1) < r -> 1 <= r ->
  bits_loop fuel k cover r dflt = dflt.
Proof.
  induction fuel; intros k cover r dflt Hk Hc Hup Hr; [reflexivity|].
  cbn [bits_loop]. destruct (r <=? cover) eqn:E.
  - exfalso. apply Z.leb_le in E. subst cover.
    assert (2 ^ k <= 2 ^ (k + Z.of_nat (S fuel) - 1)) by (apply Z.pow_le_mono_r; lia). lia.
  - apply IHfuel; try lia.
    + subst cover. rewrite Z.pow_add_r by lia. simpl (2 ^ 1). lia.
    + replace (k + 1 + Z.of_nat fuel - 1) with (k + Z.of_nat (S fuel) - 1) by lia. exact Hup.
Qed.

Lemma range_bits_log2 : forall r, 1 <= r <= two128 -> range_bits r = Z.log2_up r.
Proof.
  intros r H. unfold range_bits.
  destruct (Z.le_gt_cases r (2 ^ 127)) as [L|G].
  - apply bits_loop_log2; try lia; try exact L.
  - rewrite bits_loop_dflt; try lia; try exact G.
    symmetry. apply Z.log2_up_unique; [lia|]. change (2 ^ Z.pred 128) with (2 ^ 127).
    change (2 ^ 128) with two128. lia.
Qed.

Lemma effective_bits_spec : forall r hi, 1 <= r ->
  effective_bits r hi = if (r <=? 65536) && (hi <? 65536) then Z.log2_up r else -1.
Proof.
  intros r hi Hr. unfold effective_bits.
  destruct (Z.le_gt_cases r 65536) as [L|G].
  - rewrite (bits_loop_log2 17 0 1 r 17); try lia; try exact L.
    assert (Z.log2_up r <= 16).
    { apply Z.log2_up_le_pow2; [lia|]. exact L. }
    replace (r <=? 65536) with true by lia. simpl.
    destruct (hi <? 65536) eqn:E1; destruct (hi >=? 65536) eqn:E2; try lia.
    + replace (Z.log2_up r =? 17) with false by lia. reflexivity.
    + rewrite orb_true_r. reflexivity.
  - rewrite bits_loop_dflt; try lia; try exact G.
    replace (r <=? 65536) with false by lia. reflexivity.
Qed.

(* the effective constraint a computed range stands for: its hull and its marker *)
Definition xz_of (e : edge) : xz := match e with EMin => NegInf | EMax => PosInf | EV z => Fin z end.
Definition eff_of_range (rg : range) : eff :=
  mkEff (xz_of (r_left rg)) (xz_of (r_right rg)) (r_ext rg) (r_empty rg).

(* the emitted row is the X.691 layout of the range's hull — except that an
   unconstrained root loses its extension bit (C09-unconstrained-extensible) *)
Theorem per_row_is_layout_partial : forall rg,
  r_incompat rg = false -> r_notPER rg = false -> r_empty rg = false ->
  r_left rg <> EMax -> r_right rg <> EMin ->
  (forall lo hi, r_left rg = EV lo -> r_right rg = EV hi -> lo <= hi /\ hi - lo + 1 <= two128) ->
  (r_left rg = EMin -> r_ext rg = false) ->
  per_row_of (Some rg) = tables_of (eff_of_range rg).
Proof.
  intros rg Hi Hp He Hl Hr Hb Hq. unfold per_row_of, tables_of, eff_of_range. rewrite Hi, Hp.
  cbn [orb e_lb e_ub e_ext e_empty].
  destruct (r_left rg) as [| |lo] eqn:El; [| congruence |]; cbn [xz_of].
  - rewrite (Hq eq_refl). reflexivity.
  - destruct (r_right rg) as [| |hi] eqn:Er; [congruence | reflexivity |]; cbn [xz_of].
    rewrite He. destruct (Hb lo hi eq_refl eq_refl) as [B1 B2].
    replace (1 + hi - lo) with (hi - lo + 1) by lia.
    rewrite range_bits_log2 by lia. rewrite effective_bits_spec by lia. reflexivity.
Qed.

Lemma per_row_is_layout_refuted : exists rg,
  r_incompat rg = false /\ r_notPER rg = false /\ r_empty rg = false /\
  per_row_of (Some rg) <> tables_of (eff_of_range rg).
Proof.
  exists (mkRange EMin (EV 10) [] true false false true false).
  repeat split; try reflexivity. vm_compute. discriminate.
Qed.

(* consequently: two computed ranges with the same hull and marker get the same row *)
Corollary equal_hull_equal_row : forall r1 r2,
  r_incompat r1 = false -> r_notPER r1 = false -> r_incompat r2 = false -> r_notPER r2 = false ->
  r_left r1 = r_left r2 -> r_right r1 = r_right r2 -> r_ext r1 = r_ext r2 -> r_empty r1 = r_empty r2 ->
  per_row_of (Some r1) = per_row_of (Some r2).
Proof.
  intros r1 r2 I1 P1 I2 P2 L R X E. unfold per_row_of. rewrite I1, P1, I2, P2, L, R, X, E. reflexivity.
Qed.

(* ---- compute on a leaf (single value / value range applied to a parent) ---- *)
Lemma den_single : forall l r z,
  den (mkRange l r [] false false false false false) z <-> inp (l, r) z.
Proof.
  intros. unfold den, parts; simpl. rewrite inl_one. split; [intros [_ H]; exact H | auto].
Qed.

Theorem leaf_denotes_partial : forall lo hi m r,
  wfr m -> leaf lo hi VisNone (Some m) true = ROk r ->
  wfp (fill lo (Some m), fill hi (Some m)) -> guard_free (fill lo (Some m), fill hi (Some m)) ->
  (forall z, den r z <-> den m z /\ inp (fill lo (Some m), fill hi (Some m)) z) /\ wfr r.
Proof.
  intros lo hi m r Wm H Wp G. unfold leaf in H. cbn [negb is_oer andb] in H.
  set (l := fill lo (Some m)) in *. set (rr := fill hi (Some m)) in *.
  set (rng := mkRange l rr [] false false false false false) in *.
  match type of H with (if ?c then _ else _) = _ => destruct c; [discriminate|] end.
  destruct (range_intersection m rng true false) as [c| | |] eqn:RI; try discriminate.
  injection H as <-.
  assert (Wrng : wfr rng) by (intros _; unfold parts; simpl; constructor; auto).
  assert (Grng : Forall guard_free (parts rng)) by (unfold parts; simpl; constructor; auto).
  destruct (intersection_denotes _ _ _ _ RI Wm Wrng Grng) as [D Wc].
  destruct (canonicalize_denotes _ Wc) as [D2 Wc2].
  split; [|exact Wc2]. intro z. rewrite D2, D. unfold rng. rewrite den_single. tauto.
Qed.

(* ---- the full statement "the emitted row is the layout of the effective
   constraint" is false of the code: four witnesses (the four known findings) ---- *)
Definition accepted (chain : list (list spec)) : Prop :=
  exists r, compute_top TInteger (pullup false chain) ReqValue VisNone = TOk r.
Definition crange_effective_at (chain : list (list spec)) : Prop :=
  fst (per_tables TInteger (pullup false chain)) = tables_of (per_effective false chain).

Ltac refute := split; [eexists; vm_compute; reflexivity | split; [vm_compute; reflexivity | vm_compute; discriminate]].

(* INTEGER (1..10, ..., 20..30): additions merged into the root, 5 bits instead of 4 *)
Lemma crange_effective_refuted_additions : exists chain,
  accepted chain /\ e_empty (per_effective false chain) = false /\ ~ crange_effective_at chain.
Proof. exists [[SExtAdd (ERange (BInt 1) (BInt 10)) (ERange (BInt 20) (BInt 30))]]. refute. Qed.

(* A ::= INTEGER (1..10, ...)   B ::= A (1..5, ...)(2..3): B comes out extensible *)
Lemma crange_effective_refuted_chain_marker : exists chain,
  accepted chain /\ e_empty (per_effective false chain) = false /\ ~ crange_effective_at chain.
Proof.
  exists [[SExt (ERange (BInt 1) (BInt 10))]; [SExt (ERange (BInt 1) (BInt 5)); SRoot (ERange (BInt 2) (BInt 3))]].
  refute.
Qed.

(* INTEGER ((1..5) ^ (7..9) | 20..30): flagged empty, unconstrained instead of 20..30 *)
Lemma crange_effective_refuted_empty_operand : exists chain,
  accepted chain /\ e_empty (per_effective false chain) = false /\ ~ crange_effective_at chain.
Proof.
  exists [[SRoot (EUnion (EInter (EParen (ERange (BInt 1) (BInt 5))) (EParen (ERange (BInt 7) (BInt 9))))
                         (ERange (BInt 20) (BInt 30)))]].
  refute.
Qed.

(* INTEGER (MIN..10, ...): no extension bit *)
Lemma crange_effective_refuted_unconstrained_ext : exists chain,
  accepted chain /\ e_empty (per_effective false chain) = false /\ ~ crange_effective_at chain.
Proof. exists [[SExt (ERange BMin (BInt 10))]]. refute. Qed.

(* non-vacuity: instances where the statement holds *)
Example crange_effective_ex1 : crange_effective_at [[SRoot (EUnion (ERange (BInt 1) (BInt 10)) (ERange (BInt 20) (BInt 30)))]].
Proof. vm_compute. reflexivity. Qed.
Example crange_effective_ex2 :
  crange_effective_at [[SExt (ERange (BInt 1) (BInt 10))]; [SRoot (ERange BMin (BInt 5))]].
Proof. vm_compute. reflexivity. Qed.
(* two definitions denoting the same root set and extensibility get the same row *)
Example equal_sets_equal_layout_ex :
  fst (per_tables TInteger (pullup false [[SRoot (EUnion (ERange (BInt 1) (BInt 4)) (ERange (BInt 5) (BInt 10)))]]))
  = fst (per_tables TInteger (pullup false [[SRoot (ERange (BInt 0) (BInt 20)); SRoot (EExcept (ERange (BInt 1) (BInt 10)) (EVal 3))]])).
Proof. vm_compute. reflexivity. Qed.
