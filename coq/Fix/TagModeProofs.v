(* TagModeProofs.v — the tagging-mode decision of asn1c (Fix/TagMode.v) against X.680 31.2.7,
   for reference chains of ANY length (no bound on the module, cycles and dangling
   references included), the one-hop variant refuted, the emitted tag lists against
   X.680 30.6, and the link with Fix/Tags.v's [must_explicit]. *)
From Coq Require Import ZArith List Bool Arith Lia.
From A1 Require Import Fix.Tags Fix.Distinct Fix.TagMode.
Import ListNotations.
Local Open Scope Z_scope.

(* ================================================================ reference chains *)
Section Chains.
Variable ds : list tdef.

Definition is_bref (b : body) : Prop := match b with BRef _ => True | _ => False end.

(* [reaches b k e]: k reference hops lead from b to the non-reference e *)
Inductive reaches : body -> nat -> body -> Prop :=
| R0 : forall b, ~ is_bref b -> reaches b 0 b
| RS : forall r d k e, tlookup ds r = Some d -> reaches (td_body d) k e -> reaches (BRef r) (S k) e.

Lemma reaches_det : forall b k e, reaches b k e -> forall k' e', reaches b k' e' -> k = k' /\ e = e'.
Proof.
  intros b k e H. induction H as [b N | r d k e L H IH]; intros k' e' H'.
  - inversion H' as [b' N' | r' d' k'' e'' L' H'']; subst; [auto|]. simpl in N. tauto.
  - inversion H' as [b' N' | r' d' k'' e'' L' H'']; subst.
    + simpl in N'. tauto.
    + rewrite L in L'. inversion L'; subst. destruct (IH _ _ H'') as [E1 E2]. subst. auto.
Qed.

Lemma tlookup_name_In : forall r d, tlookup ds r = Some d -> In r (map td_name ds).
Proof.
  intros r d L. unfold tlookup in L. apply find_some in L. destruct L as [Hin E].
  apply Nat.eqb_eq in E. subst r. apply in_map. exact Hin.
Qed.

(* the definitions a chain passes through are pairwise different: a chain is determined by
   its first name, so meeting a name twice would give two different lengths *)
Lemma reaches_names : forall b k e, reaches b k e ->
  exists names, length names = k /\ NoDup names /\ incl names (map td_name ds) /\
                forall n, In n names -> exists j, (j < k)%nat /\ reaches (BRef n) (S j) e.
Proof.
  intros b k e H. induction H as [b N | r d k e L H [names [Hl [Hnd [Hinc Hj]]]]].
  - exists []. split; [reflexivity|]. split; [constructor|]. split; [intros x []|intros n []].
  - exists (r :: names). split; [simpl; rewrite Hl; reflexivity|]. split; [|split].
    + constructor; [|exact Hnd]. intro Hin. destruct (Hj r Hin) as [j [Hlt Hr]].
      assert (Hr' : reaches (BRef r) (S k) e) by (eapply RS; eassumption).
      destruct (reaches_det _ _ _ Hr _ _ Hr') as [E _]. lia.
    + intros n [E|Hin]; [subst n; eapply tlookup_name_In; eassumption | apply Hinc; exact Hin].
    + intros n [E|Hin].
      * subst n. exists k. split; [lia|]. eapply RS; eassumption.
      * destruct (Hj n Hin) as [j [Hlt Hn]]. exists j. split; [lia | exact Hn].
Qed.

(* pigeonhole: a chain that ends has at most as many hops as there are definitions *)
Theorem reaches_short : forall b k e, reaches b k e -> (k <= length ds)%nat.
Proof.
  intros b k e H. destruct (reaches_names b k e H) as [names [Hl [Hnd [Hinc _]]]].
  pose proof (NoDup_incl_length Hnd Hinc) as Hlen. rewrite map_length in Hlen. lia.
Qed.

Lemma terminal_reaches : forall fuel b e, tterminal ds fuel b = Some e -> exists k, reaches b k e /\ (k <= fuel)%nat.
Proof.
  induction fuel as [|f IH]; intros b e H.
  - destruct b; simpl in H; try discriminate; inversion H; subst; exists 0%nat; (split; [apply R0; simpl; tauto | lia]).
  - destruct b as [| |u|r]; simpl in H; try (inversion H; subst; exists 0%nat; (split; [apply R0; simpl; tauto | lia])).
    destruct (tlookup ds r) as [d|] eqn:L; [|discriminate].
    destruct (IH _ _ H) as [k [Hr Hk]]. exists (S k). split; [eapply RS; eassumption | lia].
Qed.

Lemma reaches_terminal : forall b k e, reaches b k e -> forall fuel, (k <= fuel)%nat -> tterminal ds fuel b = Some e.
Proof.
  intros b k e H. induction H as [b N | r d k e L H IH]; intros fuel Hf.
  - destruct b; try reflexivity; [destruct fuel; reflexivity.. | simpl in N; tauto].
  - destruct fuel as [|f]; [lia|]. simpl. rewrite L. apply IH. lia.
Qed.

(* ---------------------------------------------------------------- must_explicit = uo *)
Lemma uo_no_tag_below : forall b, uo ds b -> forall fuel, has_tag_below ds fuel b = false.
Proof.
  intros b H. induction H as [| |r d L T U IH]; intros fuel; try (destruct fuel; reflexivity).
  destruct fuel as [|f]; [reflexivity|]. simpl. rewrite L, T. apply IH.
Qed.

Lemma uo_reaches : forall b, uo ds b -> exists k e, reaches b k e /\ (e = BChoice \/ e = BOpen).
Proof.
  intros b H. induction H as [| |r d L T U [k [e [Hr He]]]].
  - exists 0%nat, BChoice. split; [apply R0; simpl; tauto | auto].
  - exists 0%nat, BOpen. split; [apply R0; simpl; tauto | auto].
  - exists (S k), e. split; [eapply RS; eassumption | exact He].
Qed.

Lemma no_tag_terminal_uo : forall fuel b e,
  has_tag_below ds fuel b = false -> tterminal ds fuel b = Some e -> e = BChoice \/ e = BOpen -> uo ds b.
Proof.
  induction fuel as [|f IH]; intros b e Hh Ht He.
  - destruct b as [| |u|r]; simpl in Ht.
    + constructor.
    + constructor.
    + inversion Ht; subst. destruct He; discriminate.
    + discriminate.
  - destruct b as [| |u|r]; simpl in Ht.
    + constructor.
    + constructor.
    + inversion Ht; subst. destruct He; discriminate.
    + simpl in Hh. destruct (tlookup ds r) as [d|] eqn:L; [|discriminate].
      destruct (td_tag d) as [g|] eqn:G; [discriminate|].
      eapply UO_ref; [exact L | exact G | eapply IH; eassumption].
Qed.

(* the verdict of _asn1f_check_if_tag_must_be_explicit is X.680's "untagged CHOICE or open
   type", for every module and every chain; fuel = number of definitions suffices *)
Theorem must_explicit_sound : forall fuel b, must_explicit_c ds fuel b = true -> uo ds b.
Proof.
  intros fuel b H. unfold must_explicit_c in H.
  destruct (has_tag_below ds fuel b) eqn:Hh; [discriminate|].
  unfold terminal_needs_explicit in H.
  destruct (tterminal ds fuel b) as [e|] eqn:Ht; [|discriminate].
  eapply no_tag_terminal_uo; [exact Hh | exact Ht|].
  destruct e; try discriminate; auto.
Qed.

Theorem must_explicit_complete : forall fuel b, (length ds <= fuel)%nat -> uo ds b -> must_explicit_c ds fuel b = true.
Proof.
  intros fuel b Hf H. unfold must_explicit_c. rewrite (uo_no_tag_below b H fuel).
  destruct (uo_reaches b H) as [k [e [Hr He]]].
  pose proof (reaches_short _ _ _ Hr) as Hk.
  unfold terminal_needs_explicit. rewrite (reaches_terminal _ _ _ Hr fuel ltac:(lia)).
  destruct He; subst; reflexivity.
Qed.

Theorem must_explicit_iff : forall fuel b, (length ds <= fuel)%nat -> (must_explicit_c ds fuel b = true <-> uo ds b).
Proof.
  intros fuel b Hf. split; [apply must_explicit_sound | apply must_explicit_complete; exact Hf].
Qed.

(* the fuel does not matter once it covers the definitions *)
Corollary must_explicit_fuel : forall f1 f2 b, (length ds <= f1)%nat -> (length ds <= f2)%nat ->
  must_explicit_c ds f1 b = must_explicit_c ds f2 b.
Proof.
  intros f1 f2 b H1 H2.
  destruct (must_explicit_c ds f1 b) eqn:E1; destruct (must_explicit_c ds f2 b) eqn:E2; try reflexivity.
  - apply must_explicit_sound in E1. rewrite (must_explicit_complete f2 b H2 E1) in E2. discriminate.
  - apply must_explicit_sound in E2. rewrite (must_explicit_complete f1 b H1 E2) in E1. discriminate.
Qed.

(* ---------------------------------------------------------------- the one-hop variant *)
(* it is right as long as the chain has at most one hop ... *)
Theorem one_hop_partial : forall fuel b,
  (forall r d, b = BRef r -> tlookup ds r = Some d -> ~ is_bref (td_body d)) ->
  must_explicit_1hop ds fuel b = must_explicit_c ds fuel b.
Proof.
  intros fuel b H. unfold must_explicit_1hop, must_explicit_c.
  destruct b as [| |u|r].
  - destruct fuel; reflexivity.
  - destruct fuel; reflexivity.
  - destruct fuel; reflexivity.
  - destruct (tlookup ds r) as [d|] eqn:L.
    + specialize (H r d eq_refl L).
      destruct fuel as [|f].
      * simpl. destruct (td_tag d); reflexivity.
      * simpl. rewrite L. destruct (td_tag d) as [g|]; [reflexivity|].
        unfold terminal_needs_explicit. simpl. rewrite L.
        destruct (td_body d) as [| |u|r']; try (destruct f; reflexivity). simpl in H. tauto.
    + destruct fuel as [|f]; [reflexivity|]. simpl. rewrite L. unfold terminal_needs_explicit. simpl. rewrite L. reflexivity.
Qed.
End Chains.

(* ... and wrong beyond:  Name ::= [APPLICATION 1] CHOICE {..}   Alias ::= Name ; the type "Alias"
   is tagged, the one-hop test says "must be EXPLICIT" *)
Definition w_name : tdef := {| td_name := 1; td_tag := Some {| tg_class := CApplication; tg_num := 1; tg_mode := MDefault |}; td_body := BChoice |}.
Definition w_alias : tdef := {| td_name := 2; td_tag := None; td_body := BRef 1 |}.
Definition w_defs : list tdef := [w_name; w_alias].

Lemma w_alias_not_uo : ~ uo w_defs (BRef 2).
Proof.
  intro H. inversion H as [| |r d L T U]; subst. vm_compute in L. inversion L; subst. clear L.
  simpl in U. inversion U as [| |r' d' L' T' U']; subst. vm_compute in L'. inversion L'; subst. simpl in T'. discriminate.
Qed.

Theorem one_hop_refuted :
  exists ds b, must_explicit_1hop ds (length ds) b = true /\ ~ uo ds b /\ must_explicit_c ds (length ds) b = false.
Proof.
  exists w_defs, (BRef 2). split; [vm_compute; reflexivity|]. split; [exact w_alias_not_uo | vm_compute; reflexivity].
Qed.

(* ================================================================ the mode *)
Section Modes.
Variable ds : list tdef.
Variable tg : tagging.

Lemma me_dec : forall fuel b, (length ds <= fuel)%nat ->
  (must_explicit_c ds fuel b = true /\ uo ds b) \/ (must_explicit_c ds fuel b = false /\ ~ uo ds b).
Proof.
  intros fuel b Hf. destruct (must_explicit_c ds fuel b) eqn:E.
  - left. split; [reflexivity | eapply must_explicit_sound; exact E].
  - right. split; [reflexivity|]. intro U. rewrite (must_explicit_complete ds fuel b Hf U) in E. discriminate.
Qed.

(* _asn1f_fix_type_tag computes X.680 31.2.7's mode, or reports exactly the illegal IMPLICIT *)
Theorem fix_type_tag_spec : forall fuel w b, (length ds <= fuel)%nat ->
  tagging_mode ds tg w b (fix_type_tag tg (must_explicit_c ds fuel b) w).
Proof.
  intros fuel w b Hf. destruct (me_dec fuel b Hf) as [[E U]|[E U]]; rewrite E; unfold fix_type_tag.
  - destruct w; simpl.
    + apply TM_must. exact U.
    + apply TM_illegal. exact U.
    + apply TM_explicit.
  - destruct w; simpl.
    + destruct tg; simpl.
      * apply TM_env_explicit. reflexivity.
      * apply TM_env_implicit; [discriminate | exact U].
      * apply TM_env_implicit; [discriminate | exact U].
    + apply TM_implicit. exact U.
    + apply TM_explicit.
Qed.

Theorem tagging_mode_functional : forall w b r1 r2,
  tagging_mode ds tg w b r1 -> tagging_mode ds tg w b r2 -> r1 = r2.
Proof.
  intros w b r1 r2 H1 H2. inversion H1; subst; inversion H2; subst; try reflexivity; try tauto; try congruence.
Qed.

Corollary fix_type_tag_iff : forall fuel w b r, (length ds <= fuel)%nat ->
  (fix_type_tag tg (must_explicit_c ds fuel b) w = r <-> tagging_mode ds tg w b r).
Proof.
  intros fuel w b r Hf. split.
  - intro E. subst r. apply fix_type_tag_spec. exact Hf.
  - intro H. eapply tagging_mode_functional; [apply fix_type_tag_spec; exact Hf | exact H].
Qed.

(* asn1f_fix_constr_autotag *)
Theorem auto_mode_spec : forall fuel b, (length ds <= fuel)%nat ->
  automatic_mode ds b (auto_mode (must_explicit_c ds fuel b)).
Proof.
  intros fuel b Hf. destruct (me_dec fuel b Hf) as [[E U]|[E U]]; rewrite E; simpl; constructor; exact U.
Qed.
End Modes.

(* with the one-hop test both halves of the clause fail: a legal IMPLICIT is refused, and a
   default that X.680 makes IMPLICIT becomes EXPLICIT *)
Theorem one_hop_mode_refuted :
  exists ds b,
    (forall tg, tagging_mode ds tg MImplicit b (MOk MImplicit)) /\
    (forall tg, fix_type_tag tg (must_explicit_1hop ds (length ds) b) MImplicit = MErr) /\
    tagging_mode ds TgImplicit MDefault b (MOk MImplicit) /\
    fix_type_tag TgImplicit (must_explicit_1hop ds (length ds) b) MDefault = MOk MExplicit /\
    automatic_mode ds b MImplicit /\
    auto_mode (must_explicit_1hop ds (length ds) b) = MExplicit.
Proof.
  exists w_defs, (BRef 2).
  split; [intro tg; apply TM_implicit; exact w_alias_not_uo|].
  split; [intro tg; destruct tg; vm_compute; reflexivity|].
  split; [apply TM_env_implicit; [discriminate | exact w_alias_not_uo]|].
  split; [vm_compute; reflexivity|].
  split; [apply AM_implicit; exact w_alias_not_uo | vm_compute; reflexivity].
Qed.

(* ================================================================ link with Fix/Tags.v *)
Section Link.
Variable m : module.

Lemma find_map_abs : forall (l : list def) r,
  find (fun d => Nat.eqb (td_name d) r) (map abs_def l) = option_map abs_def (find (fun d => Nat.eqb (d_name d) r) l).
Proof.
  induction l as [|d l IH]; intro r; [reflexivity|]. simpl.
  destruct (Nat.eqb (d_name d) r); [reflexivity | apply IH].
Qed.

Lemma tlookup_abs : forall r, tlookup (abs_defs m) r = option_map abs_def (lookup m r).
Proof. intro r. unfold tlookup, abs_defs, lookup. apply find_map_abs. Qed.

Lemma abs_defs_length : length (abs_defs m) = length (m_defs m).
Proof. unfold abs_defs. apply map_length. Qed.

Definition fetched (o : option otag) : bool := match o with Some _ => true | None => false end.

Lemma fetch_tagged' : forall fuel M p c n t, fetch m fuel M p (NTy (Some (c, n)) t) = Some (OT c n).
Proof. destruct fuel; reflexivity. Qed.

Lemma has_tag_below_abs : forall fuel p t,
  has_tag_below (abs_defs m) fuel (abs_ty t) = fetched (fetch m fuel [] p (NTy None t)).
Proof.
  induction fuel as [|f IH]; intros p t.
  - destruct t as [pr|items|k a b c|el|r]; try (destruct pr; reflexivity); try reflexivity.
    + destruct k; reflexivity.
    + simpl. destruct (lookup m r); reflexivity.
  - destruct t as [pr|items|k a b c|el|r]; try (destruct pr; reflexivity); try reflexivity.
    + destruct k; reflexivity.
    + simpl. rewrite tlookup_abs. destruct (lookup m r) as [d|]; [|reflexivity]. simpl.
      destruct (d_tag d) as [g|] eqn:G.
      * simpl. rewrite fetch_tagged'. reflexivity.
      * simpl. apply IH.
Qed.

Lemma tterminal_nonref : forall ds fuel b, ~ is_bref b -> tterminal ds fuel b = Some b.
Proof. intros ds fuel b N. destruct b; try (destruct fuel; reflexivity). simpl in N. tauto. Qed.

Lemma abs_ty_nonref : forall t, ~ is_reference t -> ~ is_bref (abs_ty t).
Proof.
  intros t N. destruct t as [pr|items|k a b c|el|r]; simpl; try tauto.
  - destruct pr; simpl; tauto.
  - destruct k; simpl; tauto.
Qed.

Lemma terminal_abs : forall fuel t,
  tterminal (abs_defs m) fuel (abs_ty t) = option_map abs_ty (terminal m fuel t).
Proof.
  induction fuel as [|f IH]; intro t.
  - destruct t as [pr|items|k a b c|el|r];
      try (rewrite tterminal_nonref by (apply abs_ty_nonref; simpl; tauto); reflexivity).
    simpl. destruct (lookup m r); reflexivity.
  - destruct t as [pr|items|k a b c|el|r];
      try (rewrite tterminal_nonref by (apply abs_ty_nonref; simpl; tauto); reflexivity).
    simpl. rewrite tlookup_abs. destruct (lookup m r) as [d|]; [|reflexivity]. simpl. apply IH.
Qed.

Definition is_choice_ty (t : ty) : bool := match t with TCons KChoice _ _ _ => true | _ => false end.

Lemma abs_ty_choice : forall t,
  match abs_ty t with BChoice | BOpen => true | _ => false end = is_choice_ty t.
Proof.
  destruct t as [pr|items|k a b c|el|r]; try reflexivity.
  - destruct pr; reflexivity.
  - destruct k; reflexivity.
Qed.

Lemma needs_explicit_abs : forall fuel t,
  terminal_needs_explicit (abs_defs m) fuel (abs_ty t) =
  match terminal m fuel t with Some (TCons KChoice _ _ _) => true | _ => false end.
Proof.
  intros fuel t. unfold terminal_needs_explicit. rewrite terminal_abs.
  destruct (terminal m fuel t) as [t'|]; [|reflexivity]. simpl.
  destruct t' as [pr|items|k a b c|el|r]; try reflexivity.
  - destruct pr; reflexivity.
  - destruct k; reflexivity.
Qed.

(* Fix/Tags.v's must_explicit is must_explicit_c on the image of the module *)
Theorem must_explicit_abs : forall p t,
  must_explicit m p t = must_explicit_c (abs_defs m) (S (length (m_defs m))) (abs_ty t).
Proof.
  intros p t. unfold must_explicit, must_explicit_c, out, fetch_fuel, term_fuel. cbn [n_path n_kind].
  rewrite (has_tag_below_abs (S (length (m_defs m))) p t). rewrite needs_explicit_abs.
  destruct (fetch m (S (length (m_defs m))) [] p (NTy None t)); reflexivity.
Qed.

Lemma abs_ty_is_choice : forall t, abs_ty t = BChoice -> exists r1 e r2, t = TCons KChoice r1 e r2.
Proof.
  destruct t as [pr|items|k a b c|el|r]; simpl; intro H; try discriminate.
  - destruct pr; discriminate.
  - destruct k; try discriminate. eauto.
Qed.

Lemma abs_ty_is_ref : forall t r, abs_ty t = BRef r -> t = TRef r.
Proof.
  destruct t as [pr|items|k a b c|el|r']; simpl; intros r H; try discriminate.
  - destruct pr; discriminate.
  - destruct k; discriminate.
  - inversion H. reflexivity.
Qed.

Lemma abs_ty_not_open : forall t, abs_ty t <> BOpen.
Proof.
  destruct t as [pr|items|k a b c|el|r]; simpl; try discriminate.
  - destruct pr; discriminate.
  - destruct k; discriminate.
Qed.

Lemma uo_abs_1 : forall b, uo (abs_defs m) b -> forall t, abs_ty t = b -> untagged_choice m t.
Proof.
  intros b H. induction H as [| |r d L T U IH]; intros t E.
  - destruct (abs_ty_is_choice t E) as [r1 [e [r2 Et]]]. subst. constructor.
  - exfalso. eapply abs_ty_not_open. exact E.
  - apply abs_ty_is_ref in E. subst t. rewrite tlookup_abs in L.
    destruct (lookup m r) as [d0|] eqn:L0; [|discriminate]. simpl in L. inversion L; subst d. simpl in T.
    eapply UC_ref; [exact L0 | exact T | apply IH; reflexivity].
Qed.

Lemma uo_abs_2 : forall t, untagged_choice m t -> uo (abs_defs m) (abs_ty t).
Proof.
  intros t H. induction H as [r1 e r2 | r d L T U IH].
  - simpl. constructor.
  - simpl. eapply UO_ref with (d := abs_def d); [rewrite tlookup_abs, L; reflexivity | exact T | exact IH].
Qed.

(* the decision of the full model (Fix/Tags.v) is X.680's, in both directions *)
Theorem must_explicit_iff_untagged_choice : forall p t, must_explicit m p t = true <-> untagged_choice m t.
Proof.
  intros p t. rewrite must_explicit_abs. split.
  - intro H. eapply uo_abs_1; [eapply must_explicit_sound; exact H | reflexivity].
  - intro H. apply must_explicit_complete; [rewrite abs_defs_length; lia | apply uo_abs_2; exact H].
Qed.

(* the diagnostic "tagged in IMPLICIT mode but must be EXPLICIT" appears exactly where
   [implicit_ok] (Fix/Distinct.v, from X.680 31.2.7 c) fails *)
Theorem implicit_error_iff : forall p tg t, implicit_error m p tg t = false <-> implicit_ok m tg t.
Proof.
  intros p tg t. unfold implicit_error, implicit_ok. destruct tg as [g|]; [|tauto].
  destruct (tg_mode g) eqn:Md; try (split; [intros _ E; discriminate | reflexivity]).
  split.
  - intros H _ U. apply (must_explicit_iff_untagged_choice p t) in U. congruence.
  - intro H. destruct (must_explicit m p t) eqn:E; [|reflexivity].
    exfalso. apply (H eq_refl). apply (must_explicit_iff_untagged_choice p t). exact E.
Qed.
End Link.

(* ================================================================ the emitted tag lists *)
Lemma tmode_eq_dec_implicit : forall t : mtag, {tg_mode t = MImplicit} + {tg_mode t <> MImplicit}.
Proof. intro t. destruct (tg_mode t); [right; discriminate | left; reflexivity | right; discriminate]. Qed.

Section TagLists.
Variable ds : list tdef.

Definition ends_open (b : body) : Prop := exists k, reaches ds b k BOpen.

Lemma ctags_none : forall fuel full count skip b,
  ctags ds fuel full count skip None b = cbody ds fuel full count skip b.
Proof.
  intros. unfold ctags. simpl. rewrite Nat.add_0_r. destruct (cbody ds fuel full count skip b); reflexivity.
Qed.

Definition tagof (t : mtag) : etag := (tg_class t, tg_num t).

Lemma ctags_explicit_0 : forall fuel count t b, tg_mode t <> MImplicit ->
  ctags ds fuel false count 0 (Some t) b = option_map (cons (tagof t)) (cbody ds fuel false (count + 1) 0 b).
Proof.
  intros fuel count t b H. unfold ctags, own_tag, add_tag. simpl.
  destruct (tg_mode t); try (exfalso; apply H; reflexivity); simpl; reflexivity.
Qed.

Lemma ctags_implicit_0 : forall fuel count t b, tg_mode t = MImplicit ->
  ctags ds fuel false count 0 (Some t) b = option_map (cons (tagof t)) (cbody ds fuel false (count + 1) 1 b).
Proof.
  intros fuel count t b H. unfold ctags, own_tag, add_tag. simpl. rewrite H. simpl. reflexivity.
Qed.

Lemma ctags_explicit_1 : forall fuel count t b, tg_mode t <> MImplicit ->
  ctags ds fuel false count 1 (Some t) b = cbody ds fuel false count 0 b.
Proof.
  intros fuel count t b H. unfold ctags, own_tag, add_tag. simpl.
  destruct (tg_mode t); try (exfalso; apply H; reflexivity); simpl; rewrite Nat.add_0_r;
    destruct (cbody ds fuel false count 0 b); reflexivity.
Qed.

Lemma ctags_implicit_1 : forall fuel count t b, tg_mode t = MImplicit ->
  ctags ds fuel false count 1 (Some t) b = cbody ds fuel false count 1 b.
Proof.
  intros fuel count t b H. unfold ctags, own_tag, add_tag. simpl. rewrite H. simpl. rewrite Nat.add_0_r.
  destruct (cbody ds fuel false count 1 b); reflexivity.
Qed.

Lemma cbody_ref : forall f full count skip r d, tlookup ds r = Some d ->
  cbody ds (S f) full count skip (BRef r) = ctags ds f full count skip (td_tag d) (td_body d).
Proof. intros. simpl. rewrite H. reflexivity. Qed.

Lemma tags_of_reaches : forall tg b l, tags_of ds tg b l -> exists k e, reaches ds b k e.
Proof.
  intros tg b l H. induction H as [u| | |r d l L H [k [e Hr]]|t b l M H IH|t b x l M H IH]; try exact IH.
  - exists 0%nat, (BOther u). apply R0. simpl. tauto.
  - exists 0%nat, BChoice. apply R0. simpl. tauto.
  - exists 0%nat, BOpen. apply R0. simpl. tauto.
  - exists (S k), e. eapply RS; eassumption.
Qed.

(* ---------------------------------------------------------------- completeness *)
Lemma ctags_complete_gen : forall tg b l, tags_of ds tg b l -> ~ ends_open b ->
  forall fuel count, (forall k e, reaches ds b k e -> (k <= fuel)%nat) ->
    ((0 < count)%nat \/ l <> [] -> ctags ds fuel false count 0 tg b = Some l) /\
    ((0 < count)%nat -> forall x l', l = x :: l' -> ctags ds fuel false count 1 tg b = Some l').
Proof.
  intros tg b l H.
  induction H as [u| | |r d l L H IH|t b l M H IH|t b x l M H IH]; intros NO fuel count Hf.
  - rewrite !ctags_none. split.
    + intros _. destruct fuel; reflexivity.
    + intros _ x l' E. inversion E; subst. destruct fuel; reflexivity.
  - rewrite !ctags_none. split.
    + intros [Hc|Hn]; [|exfalso; apply Hn; reflexivity].
      destruct fuel; simpl; (destruct count; [lia | reflexivity]).
    + intros _ x l' E. discriminate.
  - exfalso. apply NO. exists 0%nat. apply R0. simpl. tauto.
  - destruct (tags_of_reaches _ _ _ H) as [k [e Hr]].
    assert (Hr' : reaches ds (BRef r) (S k) e) by (eapply RS; eassumption).
    pose proof (Hf _ _ Hr') as Hk. destruct fuel as [|f]; [lia|].
    rewrite !ctags_none. rewrite !(cbody_ref f false count _ r d L).
    apply IH.
    + intros [k' Ho]. apply NO. exists (S k'). eapply RS; eassumption.
    + intros k' e' Hr''. assert (H2 : reaches ds (BRef r) (S k') e') by (eapply RS; eassumption).
      pose proof (Hf _ _ H2). lia.
  - destruct (IH NO fuel (count + 1)%nat Hf) as [IH0 _]. destruct (IH NO fuel count Hf) as [IH0' _].
    split.
    + intros _. rewrite ctags_explicit_0 by exact M. rewrite ctags_none in IH0.
      rewrite IH0 by (left; lia). reflexivity.
    + intros Hc x l' E. inversion E; subst. rewrite ctags_explicit_1 by exact M. rewrite ctags_none in IH0'.
      apply IH0'. left. exact Hc.
  - destruct (IH NO fuel (count + 1)%nat Hf) as [_ IH1]. destruct (IH NO fuel count Hf) as [_ IH1'].
    split.
    + intros _. rewrite ctags_implicit_0 by exact M. rewrite ctags_none in IH1.
      rewrite (IH1 ltac:(lia) x l eq_refl). reflexivity.
    + intros Hc x' l' E. inversion E; subst. rewrite ctags_implicit_1 by exact M. rewrite ctags_none in IH1'.
      apply (IH1' Hc x l' eq_refl).
Qed.

Theorem ctags_complete : forall tg b l fuel, tags_of ds tg b l -> l <> [] -> ~ ends_open b ->
  (length ds <= fuel)%nat -> ctags ds fuel false 0 0 tg b = Some l.
Proof.
  intros tg b l fuel H Hn NO Hf.
  destruct (ctags_complete_gen tg b l H NO fuel 0%nat) as [H0 _].
  - intros k e Hr. pose proof (reaches_short ds _ _ _ Hr). lia.
  - apply H0. right. exact Hn.
Qed.

(* ---------------------------------------------------------------- soundness *)
Definition body_sound (fuel : nat) : Prop :=
  forall count skip b l, cbody ds fuel false count skip b = Some l ->
    (skip = 0%nat -> tags_of ds None b l) /\
    (skip = 1%nat -> ~ uo ds b -> exists x, tags_of ds None b (x :: l)).

Definition ctags_sound_at (fuel : nat) : Prop :=
  forall count skip tg b l, tag_legal ds tg b -> ctags ds fuel false count skip tg b = Some l ->
    (skip = 0%nat -> tags_of ds tg b l) /\
    (skip = 1%nat -> ~ (tg = None /\ uo ds b) -> exists x, tags_of ds tg b (x :: l)).

Lemma ctags_of_body : forall fuel, body_sound fuel -> ctags_sound_at fuel.
Proof.
  intros fuel HB count skip tg b l Leg H. destruct tg as [t|].
  - simpl in Leg. destruct (tmode_eq_dec_implicit t) as [M|M].
    + (* IMPLICIT *) pose proof (Leg M) as NU. split; intro Sk; subst skip.
      * rewrite ctags_implicit_0 in H by exact M.
        destruct (cbody ds fuel false (count + 1) 1 b) as [l0|] eqn:C; [|discriminate].
        simpl in H. inversion H; subst l.
        destruct (HB _ _ _ _ C) as [_ H1]. destruct (H1 eq_refl NU) as [x Hx].
        eapply TO_implicit; eassumption.
      * intros _. rewrite ctags_implicit_1 in H by exact M.
        destruct (HB _ _ _ _ H) as [_ H1]. destruct (H1 eq_refl NU) as [x Hx].
        exists (tagof t). eapply TO_implicit; eassumption.
    + (* not IMPLICIT *) split; intro Sk; subst skip.
      * rewrite ctags_explicit_0 in H by exact M.
        destruct (cbody ds fuel false (count + 1) 0 b) as [l0|] eqn:C; [|discriminate].
        simpl in H. inversion H; subst l.
        destruct (HB _ _ _ _ C) as [H0 _]. apply TO_explicit; [exact M | apply H0; reflexivity].
      * intros _. rewrite ctags_explicit_1 in H by exact M.
        destruct (HB _ _ _ _ H) as [H0 _]. exists (tagof t). apply TO_explicit; [exact M | apply H0; reflexivity].
  - rewrite ctags_none in H. destruct (HB _ _ _ _ H) as [H0 H1]. split; [exact H0|].
    intros Sk NU. apply H1; [exact Sk|]. intro U. apply NU. split; [reflexivity | exact U].
Qed.

Lemma tlookup_In : forall r d, tlookup ds r = Some d -> In d ds.
Proof. intros r d L. unfold tlookup in L. apply find_some in L. tauto. Qed.

Lemma body_sound_nonref : forall fuel count skip b l, ~ is_bref b ->
  cbody ds fuel false count skip b = Some l ->
  (skip = 0%nat -> tags_of ds None b l) /\
  (skip = 1%nat -> ~ uo ds b -> exists x, tags_of ds None b (x :: l)).
Proof.
  intros fuel count skip b l N H. destruct b as [| |u|r].
  - assert (E : l = []).
    { destruct fuel; simpl in H; destruct (Nat.eqb count 0); try discriminate; inversion H; reflexivity. }
    subst l. split; [intros _; constructor|]. intros _ NU. exfalso. apply NU. constructor.
  - destruct fuel; discriminate.
  - assert (E : l = snd (add_tag false skip CUniversal u MDefault)) by (destruct fuel; simpl in H; inversion H; reflexivity).
    split; intro Sk; subst skip; simpl in E; subst l.
    + constructor.
    + intros _. exists (CUniversal, u). constructor.
  - simpl in N. tauto.
Qed.

Hypothesis Legal : defs_legal ds.

Lemma body_sound_all : forall fuel, body_sound fuel.
Proof.
  induction fuel as [|f IH]; intros count skip b l H.
  - destruct b as [| |u|r]; try (apply (body_sound_nonref 0 count skip _ l); [simpl; tauto | exact H]). discriminate.
  - destruct b as [| |u|r]; try (apply (body_sound_nonref (S f) count skip _ l); [simpl; tauto | exact H]).
    destruct (tlookup ds r) as [d|] eqn:L; [|simpl in H; rewrite L in H; discriminate].
    rewrite (cbody_ref f false count skip r d L) in H.
    destruct (ctags_of_body f IH count skip (td_tag d) (td_body d) l (Legal d (tlookup_In r d L)) H) as [H0 H1].
    split.
    + intro Sk. eapply TO_ref; [exact L | apply H0; exact Sk].
    + intros Sk NU. destruct (H1 Sk) as [x Hx].
      * intros [T U]. apply NU. eapply UO_ref; eassumption.
      * exists x. eapply TO_ref; eassumption.
Qed.

(* what asn1f_fetch_tags returns for a legal module is X.680's tag list *)
Theorem ctags_sound : forall fuel tg b l, tag_legal ds tg b ->
  ctags ds fuel false 0 0 tg b = Some l -> tags_of ds tg b l.
Proof.
  intros fuel tg b l Leg H.
  destruct (ctags_of_body fuel (body_sound_all fuel) 0%nat 0%nat tg b l Leg H) as [H0 _]. apply H0. reflexivity.
Qed.

(* ---------------------------------------------------------------- AFT_FULL_COLLECT *)
Lemma add_tag_full : forall skip c n md, snd (add_tag true skip c n md) = [(c, n)].
Proof. intros. unfold add_tag. rewrite andb_false_r. reflexivity. Qed.

Lemma cbody_other_full : forall fuel count skip u, cbody ds fuel true count skip (BOther u) = Some [(CUniversal, u)].
Proof. intros. destruct fuel; simpl; rewrite add_tag_full; reflexivity. Qed.

Lemma ctags_full_some : forall fuel count skip t b,
  ctags ds fuel true count skip (Some t) b =
  option_map (cons (tagof t)) (cbody ds fuel true (count + 1) (if tmode_eq_dec_implicit t then S skip else skip) b).
Proof.
  intros. unfold ctags, own_tag, add_tag. rewrite andb_false_r.
  destruct (tmode_eq_dec_implicit t) as [M|M].
  - rewrite M. simpl. reflexivity.
  - destruct (tg_mode t); try (exfalso; apply M; reflexivity); simpl; reflexivity.
Qed.

Lemma all_tags_reaches : forall tg b l, all_tags_of ds tg b l -> exists k e, reaches ds b k e.
Proof.
  intros tg b l H. induction H as [u| | |r d l L H [k [e Hr]]|t b l H IH]; try exact IH.
  - exists 0%nat, (BOther u). apply R0. simpl. tauto.
  - exists 0%nat, BChoice. apply R0. simpl. tauto.
  - exists 0%nat, BOpen. apply R0. simpl. tauto.
  - exists (S k), e. eapply RS; eassumption.
Qed.

Lemma ctags_full_complete_gen : forall tg b l, all_tags_of ds tg b l -> ~ ends_open b ->
  forall fuel count skip, (forall k e, reaches ds b k e -> (k <= fuel)%nat) ->
    (0 < count)%nat \/ l <> [] -> ctags ds fuel true count skip tg b = Some l.
Proof.
  intros tg b l H.
  induction H as [u| | |r d l L H IH|t b l H IH]; intros NO fuel count skip Hf Hc.
  - rewrite ctags_none. apply cbody_other_full.
  - rewrite ctags_none. destruct Hc as [Hc|Hn]; [|exfalso; apply Hn; reflexivity].
    destruct fuel; simpl; (destruct count; [lia | reflexivity]).
  - exfalso. apply NO. exists 0%nat. apply R0. simpl. tauto.
  - destruct (all_tags_reaches _ _ _ H) as [k [e Hr]].
    assert (Hr' : reaches ds (BRef r) (S k) e) by (eapply RS; eassumption).
    pose proof (Hf _ _ Hr') as Hk. destruct fuel as [|f]; [lia|].
    rewrite ctags_none. rewrite (cbody_ref f true count skip r d L).
    apply IH.
    + intros [k' Ho]. apply NO. exists (S k'). eapply RS; eassumption.
    + intros k' e' Hr''. assert (H2 : reaches ds (BRef r) (S k') e') by (eapply RS; eassumption).
      pose proof (Hf _ _ H2). lia.
    + exact Hc.
  - rewrite ctags_full_some.
    assert (Hc1 : (0 < count + 1)%nat \/ l <> []) by (left; lia).
    specialize (IH NO fuel (count + 1)%nat (if tmode_eq_dec_implicit t then S skip else skip) Hf Hc1).
    rewrite ctags_none in IH. rewrite IH. reflexivity.
Qed.

Definition body_full_sound (fuel : nat) : Prop :=
  forall count skip b l, cbody ds fuel true count skip b = Some l -> all_tags_of ds None b l.

Lemma ctags_full_of_body : forall fuel, body_full_sound fuel ->
  forall count skip tg b l, ctags ds fuel true count skip tg b = Some l -> all_tags_of ds tg b l.
Proof.
  intros fuel HB count skip tg b l H. destruct tg as [t|].
  - rewrite ctags_full_some in H.
    destruct (cbody ds fuel true (count + 1) (if tmode_eq_dec_implicit t then S skip else skip) b) as [l0|] eqn:C; [|discriminate].
    simpl in H. inversion H; subst l. apply TA_tag. eapply HB. exact C.
  - rewrite ctags_none in H. eapply HB. exact H.
Qed.

Lemma body_full_sound_all : forall fuel, body_full_sound fuel.
Proof.
  induction fuel as [|f IH]; intros count skip b l H.
  - destruct b as [| |u|r]; try (rewrite cbody_other_full in H; inversion H; constructor); simpl in H; try discriminate.
    destruct (Nat.eqb count 0); [discriminate|]. inversion H. constructor.
  - destruct b as [| |u|r]; try (rewrite cbody_other_full in H; inversion H; constructor); simpl in H; try discriminate.
    + destruct (Nat.eqb count 0); [discriminate|]. inversion H. constructor.
    + destruct (tlookup ds r) as [d|] eqn:L; [|discriminate].
      eapply TA_ref; [exact L|]. eapply (ctags_full_of_body f IH count skip). unfold ctags. exact H.
Qed.

(* ---------------------------------------------------------------- what is emitted *)
Lemma tags_le_all : forall tg b l, tags_of ds tg b l -> forall a, all_tags_of ds tg b a -> (length l <= length a)%nat.
Proof.
  intros tg b l H. induction H as [u| | |r d l L H IH|t b l M H IH|t b x l M H IH]; intros a Ha.
  - inversion Ha; subst. simpl. lia.
  - simpl. lia.
  - simpl. lia.
  - inversion Ha as [| | |r' d' a' L' Ha'|]; subst. rewrite L in L'. inversion L'; subst. apply IH. exact Ha'.
  - inversion Ha as [| | | |t' b' a' Ha']; subst. specialize (IH _ Ha'). simpl. lia.
  - inversion Ha as [| | | |t' b' a' Ha']; subst. specialize (IH _ Ha'). simpl in *. lia.
Qed.

(* emit_tags_vectors writes X.680's effective tags and the full list of written tags,
   for every legal definition that does not end in an open type *)
Theorem emitted_tags_spec : forall tg b l a,
  tags_of ds tg b l -> all_tags_of ds tg b a -> l <> [] -> ~ ends_open b ->
  emitted_tags ds tg b = (l, a).
Proof.
  intros tg b l a Hl Ha Hn NO. unfold emitted_tags, tm_fuel.
  rewrite (ctags_complete tg b l (S (length ds)) Hl Hn NO ltac:(lia)).
  assert (Hna : a <> []).
  { pose proof (tags_le_all _ _ _ Hl _ Ha) as Hle. destruct l; [exfalso; apply Hn; reflexivity|]. destruct a; simpl in Hle; [lia | discriminate]. }
  rewrite (ctags_full_complete_gen tg b a Ha NO (S (length ds)) 0%nat 0%nat).
  - reflexivity.
  - intros k e Hr. pose proof (reaches_short ds _ _ _ Hr). lia.
  - right. exact Hna.
Qed.

(* conversely, whatever is emitted is X.680's *)
Theorem emitted_tags_sound : forall tg b e a, tag_legal ds tg b ->
  emitted_tags ds tg b = (e, a) -> e <> [] -> tags_of ds tg b e /\ all_tags_of ds tg b a.
Proof.
  intros tg b e a Leg H Hn. unfold emitted_tags in H.
  destruct (ctags ds (S (tm_fuel ds)) false 0 0 tg b) as [e'|] eqn:C1.
  - destruct (ctags ds (S (tm_fuel ds)) true 0 0 tg b) as [a'|] eqn:C2.
    + inversion H; subst. split.
      * eapply ctags_sound; eassumption.
      * eapply ctags_full_of_body; [apply body_full_sound_all | exact C2].
    + inversion H; subst. exfalso. apply Hn. reflexivity.
  - inversion H; subst. exfalso. apply Hn. reflexivity.
Qed.

(* an untagged CHOICE / open type has no tag vector *)
Lemma uo_cbody_none : forall b, uo ds b -> forall fuel full skip, cbody ds fuel full 0 skip b = None.
Proof.
  intros b H. induction H as [| |r d L T U IH]; intros fuel full skip.
  - destruct fuel; reflexivity.
  - destruct fuel; reflexivity.
  - destruct fuel as [|f]; [reflexivity|]. simpl. rewrite L, T. simpl. rewrite IH. reflexivity.
Qed.

Theorem emitted_tags_untagged : forall b, uo ds b -> emitted_tags ds None b = ([], []).
Proof.
  intros b U. unfold emitted_tags. rewrite ctags_none. rewrite (uo_cbody_none b U). reflexivity.
Qed.
End TagLists.

(* the tags of a tagged open type are lost:  An ::= [APPLICATION 2] EXPLICIT ANY *)
Theorem emitted_tags_open_refuted :
  exists ds tg b l, defs_legal ds /\ tag_legal ds tg b /\ tags_of ds tg b l /\ l <> [] /\ emitted_tags ds tg b = ([], []).
Proof.
  exists [], (Some {| tg_class := CApplication; tg_num := 2; tg_mode := MExplicit |}), BOpen, [(CApplication, 2)].
  split; [intros d []|]. split; [simpl; discriminate|]. split.
  - apply (TO_explicit [] {| tg_class := CApplication; tg_num := 2; tg_mode := MExplicit |} BOpen []); [discriminate | constructor].
  - split; [discriminate | reflexivity].
Qed.

(* ================================================================ accepted => legal *)
Section Resolved.
Variable tg : tagging.
Variable ds : list tdef.

Definition rdef (d : tdef) : tdef :=
  {| td_name := td_name d; td_tag := resolved_tag tg ds (td_tag d) (td_body d); td_body := td_body d |}.

Lemma tlookup_resolved : forall r, tlookup (resolve_defs tg ds) r = option_map rdef (tlookup ds r).
Proof.
  intro r. unfold resolve_defs, tlookup.
  assert (G : forall l, find (fun d => Nat.eqb (td_name d) r) (map rdef l) = option_map rdef (find (fun d => Nat.eqb (td_name d) r) l)).
  { induction l as [|d l IH]; [reflexivity|]. simpl. destruct (Nat.eqb (td_name d) r); [reflexivity | apply IH]. }
  apply G.
Qed.

Lemma resolved_tag_none : forall t b, resolved_tag tg ds t b = None <-> t = None.
Proof. intros t b. destruct t; simpl; split; intro H; try discriminate; reflexivity. Qed.

Lemma uo_resolved : forall b, uo (resolve_defs tg ds) b <-> uo ds b.
Proof.
  intro b. split; intro H.
  - induction H as [| |r d L T U IH]; try constructor.
    rewrite tlookup_resolved in L. destruct (tlookup ds r) as [d0|] eqn:L0; [|discriminate].
    simpl in L. inversion L; subst d. simpl in T, IH. apply resolved_tag_none in T.
    eapply UO_ref; eassumption.
  - induction H as [| |r d L T U IH]; try constructor.
    eapply UO_ref with (d := rdef d).
    + rewrite tlookup_resolved, L. reflexivity.
    + simpl. apply resolved_tag_none. exact T.
    + exact IH.
Qed.

(* a run of the fixer without "must be EXPLICIT" complaints leaves only legal tags *)
Theorem resolved_legal :
  (forall d t, In d ds -> td_tag d = Some t -> resolve_tag tg ds t (td_body d) <> MErr) ->
  defs_legal (resolve_defs tg ds).
Proof.
  intros H d' Hin. unfold resolve_defs in Hin. apply in_map_iff in Hin. destruct Hin as [d [E Hd]]. subst d'.
  unfold tag_legal. simpl. destruct (td_tag d) as [t|] eqn:T; simpl; [|exact I].
  specialize (H d t Hd T). intros M U. apply uo_resolved in U.
  unfold resolve_tag in *. unfold tm_fuel in *.
  destruct (me_dec ds (length ds) (td_body d) (le_n _)) as [[E _]|[_ NU]]; [|tauto].
  rewrite E in *. unfold fix_type_tag in *. destruct (tg_mode t); simpl in *; try discriminate; try (apply H; reflexivity).
Qed.
End Resolved.
