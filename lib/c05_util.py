"""c05_util — helpers of checks/c05.py: BER variants of a DER encoding derived along
the model type (indefinite lengths per tag chain, non-minimal long-form lengths,
segmented OCTET STRINGs), chunk schedules and the hand-written modules."""
from modgen import first_tags, resolve, module_text

# ------------------------------------------------------------------ TLV walk along the type


def read_tl(b, pos):
    """-> (tag number*4+class, tag octets, constructed, length, header length)"""
    p = pos
    first = b[p]
    cls = first >> 6
    cons = bool(first & 0x20)
    num = first & 0x1f
    p += 1
    if num == 0x1f:
        num = 0
        while True:
            o = b[p]
            p += 1
            num = num * 128 + (o & 0x7f)
            if not (o & 0x80):
                break
    tagoct = bytes(b[pos:p])
    o = b[p]
    p += 1
    if o < 0x80:
        ln = o
    else:
        k = o & 0x7f
        ln = int.from_bytes(b[p:p + k], "big")
        p += k
    return num * 4 + cls, tagoct, cons, ln, p - pos


class Node:
    """one TLV of the DER encoding, annotated from the type.
    link: this TLV and its only child belong to one tag chain of the C (one ber_check_tags call)
    ctx:  the chain is checked by a decoder that keeps a restart context (constructed types)"""
    __slots__ = ("tag", "cons", "kids", "content", "kind", "link")

    def __init__(self, tag, cons, kind):
        self.tag, self.cons, self.kind = tag, cons, kind
        self.kids, self.content, self.link = [], b"", False


def annotate(tree, b, pos):
    """parse the DER TLV at pos as a value of `tree` -> (Node, next position)"""
    k = tree[0]
    if k == "?":
        return annotate(tree[1], b, pos)
    if k == "c":
        tg = read_tl(b, pos)[0]
        for a in tree[1]:
            if tg in first_tags(a):
                return annotate(a, b, pos)
        raise ValueError("no alternative for tag %d" % tg)
    tg, tagoct, cons, ln, hl = read_tl(b, pos)
    if tg != tree[1]:
        raise ValueError("tag %d where %d expected" % (tg, tree[1]))
    end = pos + hl + ln
    n = Node(tagoct, cons, k)
    p = pos + hl
    if k in ("b", "n", "i", "o"):
        n.content = bytes(b[p:end])
        p = end
    elif k == "x":
        kid, p = annotate(tree[2], b, p)
        n.kids = [kid]
        inner = tree[2]
        n.link = inner[0] != "c"          # a CHOICE ends the chain: its alternative is decoded by its own decoder
    elif k == "s":
        for m in tree[2]:
            if m[0] == "?":
                if p >= end or read_tl(b, p)[0] not in first_tags(m):
                    continue
            kid, p = annotate(m, b, p)
            n.kids.append(kid)
    elif k in ("q", "t"):
        while p < end:
            kid, p = annotate(tree[3], b, p)
            n.kids.append(kid)
    if p != end:
        raise ValueError("length mismatch at %d" % pos)
    return n, end


def blind(b, pos=0, end=None):
    """type-blind TLV forest of a DER encoding (hand-written modules without a model tree)"""
    out = []
    end = len(b) if end is None else end
    while pos < end:
        tg, tagoct, cons, ln, hl = read_tl(b, pos)
        n = Node(tagoct, cons, "?")
        if cons:
            n.kids = blind(b, pos + hl, pos + hl + ln)
            n.link = len(n.kids) == 1          # conservative: could be one tag chain
        else:
            n.content = bytes(b[pos + hl:pos + hl + ln])
        out.append(n)
        pos += hl + ln
    return out


def enc_len(n, pad=None):
    """pad None: minimal (DER) form; pad k >= 0: long form with k superfluous leading zero octets"""
    if n < 128 and pad is None:
        return bytes([n])
    raw = n.to_bytes(max(1, (n.bit_length() + 7) // 8), "big")
    raw = b"\0" * (pad or 0) + raw
    return bytes([0x80 | len(raw)]) + raw


class Variant:
    """renders a Node tree under a policy; records the tag chains (offsets of their headers)"""

    def __init__(self, rng, indef, longp, segp):
        self.rng, self.indef, self.longp, self.segp = rng, indef, longp, segp   # probabilities in 1/8
        self.chains = []     # (start offset, [end offset of each TL of the chain], indefinite?, keeps-context?)
        self.segmented = False
        self.segmented_tagged = False   # some segmented string is not a bare UNIVERSAL 4 TLV
        self.nindef = 0

    def pick(self, p8):
        return self.rng.below(8) < p8

    def render(self, node, base=0):
        # collect the chain
        chain = [node]
        while chain[-1].link and len(chain[-1].kids) == 1:
            chain.append(chain[-1].kids[0])
        last = chain[-1]
        # segmented (constructed) form of an OCTET STRING, whatever its tags (IMPLICIT: the string's own TLV carries
        # another tag; EXPLICIT: it ends a chain of tags); the segments are UNIVERSAL 4 (X.690 8.7.3.2).
        # Type-blind trees: only a UNIVERSAL 4 TLV is known to be an OCTET STRING
        seg = ((last.kind == "o" or (last.kind == "?" and last.tag == b"\x04")) and not last.cons
               and len(last.content) >= 2 and self.pick(self.segp))
        can_indef = last.cons or seg
        ind = can_indef and self.pick(self.indef)
        if seg:
            self.segmented = True
            if last.tag != b"\x04" or len(chain) > 1:
                self.segmented_tagged = True
        # body of the last element
        if last.cons:
            # children are rendered relative to an unknown base: render twice would disturb the PRNG, so
            # render with a placeholder base and fix the chain offsets afterwards
            mark = len(self.chains)
            body = b""
            for kid in last.kids:
                body += self.render(kid, len(body))
            inner_chains = self.chains[mark:]
            del self.chains[mark:]
        elif seg:
            c = last.content
            cut = sorted(set([self.rng.range(1, len(c) - 1) for _ in range(self.rng.range(1, 3))]))
            parts = [c[i:j] for i, j in zip([0] + cut, cut + [len(c)])]
            body = b"".join(b"\x04" + enc_len(len(x)) + x for x in parts)
            inner_chains = []
        else:
            body = last.content
            inner_chains = []
        # headers inside-out
        heads = []
        total = body
        tail = b""
        for i in range(len(chain) - 1, -1, -1):
            nd = chain[i]
            tagoct = nd.tag
            if nd is last and seg:
                tagoct = bytes([tagoct[0] | 0x20]) + tagoct[1:]
            if ind:
                h = tagoct + b"\x80"
                tail += b"\0\0"
                self.nindef += 1
            else:
                h = tagoct + enc_len(len(total) + len(tail), self.rng.range(0, 2) if self.pick(self.longp) else None)
            heads.insert(0, h)
            total = h + total
        out = total + tail
        # offsets
        ends, p = [], base
        for h in heads:
            p += len(h)
            ends.append(p)
        keeps_ctx = last.cons or last.kind in ("o", "?")
        self.chains.append((base, ends, bool(ind), keeps_ctx))
        for (st, es, i2, kc) in inner_chains:
            self.chains.append((st + p, [e + p for e in es], i2, kc))
        return out


def ber_variants(tree, der, rng, nrand=2):
    """[(name, bytes, Variant)] — valid BER encodings of the value `der` denotes"""
    root, end = annotate(tree, der, 0)
    assert end == len(der)
    out = []
    for name, (i, l, s) in [("der", (0, 0, 0)), ("indef", (8, 0, 0)), ("long", (0, 8, 0)), ("seg", (4, 2, 8))] + \
                           [("rand%d" % k, (4, 3, 3)) for k in range(nrand)]:
        v = Variant(rng, i, l, s)
        bs = v.render(root)
        if name == "der":
            assert bs == bytes(der), (bs.hex(), bytes(der).hex())
        out.append((name, bs, v))
    return out


def ber_variants_blind(der, rng):
    roots = blind(der)
    assert len(roots) == 1
    out = []
    for name, (i, l, s) in [("der", (0, 0, 0)), ("long", (0, 8, 0)), ("indef", (8, 0, 0))]:
        v = Variant(rng, i, l, s)
        out.append((name, v.render(roots[0]), v))
    return out


def restart_positions(v):
    """split points s at which ber_check_tags of a context-keeping decoder returns RC_WMORE after having
    consumed at least one TL of a multi-tag chain: end(TL_1) <= s < end(TL_last) (coverage counter)"""
    pos = set()
    for (st, ends, ind, kc) in v.chains:
        if len(ends) >= 2 and kc:
            pos.update(range(ends[0], ends[-1]))
    return pos


# ------------------------------------------------------------------ schedules

def schedules(rng, n, k):
    """k sampled chunk schedules (lists of sizes summing to n) incl. empty chunks"""
    out = []
    for _ in range(k):
        parts = rng.range(2, 9)
        cuts = sorted(rng.below(n + 1) for _ in range(parts - 1))
        sizes = [b - a for a, b in zip([0] + cuts, cuts + [n])]
        if rng.chance(1, 3):
            sizes.insert(rng.below(len(sizes) + 1), 0)
        out.append(sizes)
    return out


# ------------------------------------------------------------------ hand-written modules

def chain_module(name="MC5"):
    """modgen-style module of multi-tag chains (EXPLICIT tags on constructed types): the shapes on which
    ber_check_tags runs with a restart context over more than one tag"""
    I = {"k": "int", "con": None}
    B = {"k": "bool"}
    defs = [
        ("U", {"k": "seq", "tag": ("CONTEXT", 5, "EXPLICIT"), "ms": [("x", dict(I, tag=("CONTEXT", 7, "EXPLICIT")), False)]}),
        ("V", {"k": "seqof", "con": None, "el": B, "tag": ("CONTEXT", 1, "EXPLICIT")}),
        ("V2", {"k": "ref", "ref": "V", "tag": ("CONTEXT", 2, "EXPLICIT")}),
        ("W", {"k": "seq", "ms": [("a", {"k": "seq", "tag": ("CONTEXT", 0, "EXPLICIT"), "ms": [("b", B, False)]}, False),
                                  ("c", {"k": "choice", "tag": ("CONTEXT", 1, "EXPLICIT"),
                                         "ms": [("d", {"k": "null"}, False), ("e", I, False)]}, True),
                                  ("f", {"k": "setof", "con": None, "tag": ("CONTEXT", 2, "EXPLICIT"),
                                         "el": {"k": "oct", "con": None}}, False)]}),
        ("Y", {"k": "setof", "con": None, "tag": ("APPLICATION", 3, "EXPLICIT"),
               "el": {"k": "oct", "con": None, "tag": ("CONTEXT", 4, "EXPLICIT")}}),
        ("Z", {"k": "oct", "con": None, "tag": ("PRIVATE", 40, "EXPLICIT")}),
    ]
    env = dict(defs)
    trees = {n: resolve(t, "IMPLICIT", env) for n, t in defs}
    return {"name": name, "default": "IMPLICIT", "defs": defs, "trees": trees, "text": module_text(name, "IMPLICIT", defs)}


# Hand-written types outside the model algebra, described so that the OER layout can be walked:
#   ("u8",) INTEGER (0..255)   ("int",) INTEGER   ("bool",)   ("str", asn1name)   ("oct",)
#   ("enum",)  ENUMERATED {red, green, blue}
#   ("seq", [(name, ty, optional)], None | [(name, ty)])      None: not extensible; list: extension additions (all optional)
#   ("seqof", ty)   ("choice", [(name, ty)])   ("ref", name)
WIDE_DEFS = [
    ("Ext1", ("seq", [("a", ("u8",), False)], [("b", ("u8",)), ("c", ("str", "UTF8String"))])),
    ("Ext2", ("seq", [("a", ("bool",), True), ("b", ("oct",), False), ("i", ("int",), True)],
              [("c", ("int",)), ("d", ("str", "IA5String")), ("e", ("bool",))])),
    ("Ext3", ("seq", [("h", ("ref", "Ext1"), False), ("l", ("seqof", ("ref", "Ext1")), False), ("t", ("u8",), False)], [])),
    ("Ext4", ("seq", [("p", ("u8",), False)], [("q", ("ref", "Ext1")), ("r", ("seqof", ("u8",)))])),
    ("Str1", ("seq", [("u", ("str", "UTF8String"), False), ("i", ("str", "IA5String"), False), ("p", ("str", "PrintableString"), True),
                      ("e", ("enum",), False), ("o", ("oct",), False), ("n", ("int",), False)], None)),
    ("Ch1", ("choice", [("a", ("int",)), ("b", ("str", "UTF8String")), ("c", ("bool",)), ("d", ("ref", "Ext1"))])),
    ("Lst1", ("seqof", ("ref", "Ch1"))),
]


def wide_type_text(t):
    k = t[0]
    if k == "u8":
        return "INTEGER (0..255)"
    if k == "int":
        return "INTEGER"
    if k == "bool":
        return "BOOLEAN"
    if k == "oct":
        return "OCTET STRING"
    if k == "enum":
        return "ENUMERATED { red, green, blue }"
    if k == "str":
        return t[1]
    if k == "ref":
        return t[1]
    if k == "seqof":
        return "SEQUENCE OF " + wide_type_text(t[1])
    if k == "choice":
        return "CHOICE { %s }" % ", ".join("%s %s" % (n, wide_type_text(x)) for n, x in t[1])
    if k == "seq":
        ms = ["%s %s%s" % (n, wide_type_text(x), " OPTIONAL" if o else "") for n, x, o in t[1]]
        if t[2] is not None:
            ms.append("...")
            ms += ["%s %s OPTIONAL" % (n, wide_type_text(x)) for n, x in t[2]]
        return "SEQUENCE { %s }" % ", ".join(ms)
    raise ValueError(k)


def wide_module(name="MX5"):
    text = "%s DEFINITIONS AUTOMATIC TAGS ::= BEGIN\n" % name
    for n, t in WIDE_DEFS:
        text += "  %s ::= %s\n" % (n, wide_type_text(t))
    text += "END\n"
    return {"name": name, "default": "AUTOMATIC", "defs": [(n, None) for n, _ in WIDE_DEFS], "trees": {}, "text": text,
            "wide": dict(WIDE_DEFS)}
