"""c10_refs — region R of C10's input space: TYPE REFERENCES as a swept dimension of the generator.

A type assignment whose right-hand side is a reference (`Key ::= Blob`, `Handle ::= [APPLICATION 3] IMPLICIT Key`,
`Short ::= Key (SIZE(1..4))`) goes through its own code path of the emitter (asn1c_lang_C_type_REFERENCE ->
asn1c_lang_C_type_SIMPLE_TYPE -> emit_type_DEF with expr_type == A1TC_REFERENCE): the descriptor of the alias is
assembled from the TERMINAL type's op table, member table and specifics and the alias's own name, tags and constraint
records.  Every `switch`/`if` ladder there has one arm per group of basic types.  Rounds 1-2 had two hand-made modules
(SpRefChains, SpDeepTagsRef) over INTEGER, ENUMERATED, SET, SEQUENCE OF: 4 of ~45 type kinds, no alias of the five
types whose skeleton exports a shared specifics record.

Swept here, one module per basic type KIND (KINDS: every built-in type, the five with shared specifics, REAL, the time
types, both OIDs, ENUMERATED, every constructed kind, a parameterized instance):
  x alias chains of length 1..3                                     (hop tree below)
  x tagged / untagged at EACH hop (all 2^k patterns for k = 1, 2; 3 of 8 in quick and all 8 in thorough for k = 3),
    the tag written as `[n]` (module default mode), `[APPLICATION n] IMPLICIT`, `[PRIVATE n] EXPLICIT` in rotation,
    the module's tagging default rotating over none / IMPLICIT / AUTOMATIC / EXPLICIT
  x with / without a constraint added at the hop, and a further hop over the constrained alias
  x used as: top-level type (every alias is one), mandatory untagged SEQUENCE member, tagged OPTIONAL member,
    member with DEFAULT (kinds with a value notation asn1c supports), SEQUENCE OF / SET OF element,
    CHOICE alternative (tagged; untagged where the outer tags differ), SET member, actual parameter of a template,
    and - for a few kinds - imported from another module (alias of an imported type).
Each module carries `hops`: [(alias, target, tag | None, mode 'E'|'I'|None, constrained)] - what the generator KNOWS
about the reference structure; the tie (checks/c10.py) evaluates the alias invariant on the dumped descriptors with it
and hands it to the Coq checker (coq/Rt/WfAlias.v) as part of the generated obligation.
"""
import re

CLASS = {"UNIVERSAL": 0, "APPLICATION": 1, "CONTEXT": 2, "PRIVATE": 3}

STRINGS = ["IA5String", "PrintableString", "VisibleString", "ISO646String", "NumericString", "UTF8String", "BMPString", "UniversalString",
           "GeneralString", "GraphicString", "TeletexString", "T61String", "VideotexString", "ObjectDescriptor"]

# (kind name, definition, constraint that may be added at a hop | None, DEFAULT value | None, flags)
#   flags: "untagged" the type has no tag of its own (CHOICE, ANY): an IMPLICIT tag on it is EXPLICIT by X.680 31.2.7;
#          "numeric"  a constraint on an alias may change the C representation's specifics (unsigned / float)
KINDS = [
    ("Bool", "BOOLEAN", None, "TRUE", ""),
    ("Null", "NULL", None, None, ""),
    ("Int", "INTEGER", "(0..7)", "5", "numeric"),
    ("IntNamed", "INTEGER { one(1), two(2) }", "(1..2)", "one", "numeric"),
    ("IntCons", "INTEGER (0..255)", "(0..7)", "3", "numeric"),
    ("IntNeg", "INTEGER (-128..127)", "(-1..1)", "-1", "numeric"),
    ("IntUns", "INTEGER (0..4294967295)", "(0..100)", "7", "numeric"),
    ("IntToUns", "INTEGER", "(0..4294967295)", None, "numeric"),
    ("IntExt", "INTEGER (0..7, ...)", None, None, "numeric"),
    ("Enum", "ENUMERATED { a, b, c }", None, "b", ""),
    ("EnumExt", "ENUMERATED { a(5), b(-1), ..., c(7) }", None, "a", ""),
    ("Real", "REAL", "(0..10)", None, "numeric"),
    ("RealF32", "REAL (WITH COMPONENTS { mantissa (-16777215..16777215), base (2), exponent (-126..104) })", None, None, "numeric"),
    ("RealF64", "REAL (WITH COMPONENTS { mantissa (-9007199254740991..9007199254740991), base (2), exponent (-1074..971) })", None, None, "numeric"),
    ("RealToF32", "REAL", "(WITH COMPONENTS { mantissa (-16777215..16777215), base (2), exponent (-126..104) })", None, "numeric"),
    ("Bits", "BIT STRING", "(SIZE(8))", "'0101'B", ""),
    ("BitsNamed", "BIT STRING { x(0), y(3) }", "(SIZE(4..8))", None, ""),
    ("Octs", "OCTET STRING", "(SIZE(1..4))", "'AB'H", ""),
    ("OctsCons", "OCTET STRING (SIZE(0..16))", "(SIZE(2))", None, ""),
    ("Oid", "OBJECT IDENTIFIER", None, None, ""),
    ("RelOid", "RELATIVE-OID", None, None, ""),
    ("Utc", "UTCTime", None, None, ""),
    ("GenTime", "GeneralizedTime", None, None, ""),
] + [("S" + s, s, "(SIZE(1..8))", '"ab"' if s in ("IA5String", "PrintableString", "VisibleString", "UTF8String") else None, "") for s in STRINGS] + [
    ("IA5From", "IA5String (FROM(\"a\"..\"z\"))", "(SIZE(2))", None, ""),
    ("BmpCons", "BMPString (SIZE(1..10))", "(FROM(\"A\"..\"Z\"))", None, ""),
    ("UnivCons", "UniversalString (SIZE(2))", None, None, ""),
    # an extensible permitted alphabet is not PER-visible: the emitter's special cases for the two wide string types
    ("BmpFromExt", "BMPString (FROM(\"a\"..\"z\", ...))", "(SIZE(1..4))", None, ""),
    ("UnivFromExt", "UniversalString (FROM(\"a\"..\"z\", ...))", "(SIZE(1..4))", None, ""),
    ("IA5FromExt", "IA5String (FROM(\"a\"..\"z\", ...))", None, None, ""),
    ("Any", "ANY", None, None, "untagged"),
    ("Seq", "SEQUENCE { a INTEGER OPTIONAL, b BOOLEAN }", "(WITH COMPONENTS { ..., a PRESENT })", "{ b TRUE }", ""),
    ("SeqExt", "SEQUENCE { a INTEGER, ..., b BOOLEAN OPTIONAL }", None, None, ""),
    ("SeqEmpty", "SEQUENCE { }", None, None, ""),
    ("SeqTagged", "[APPLICATION 20] IMPLICIT SEQUENCE { a [0] INTEGER, c [1] CHOICE { x NULL, y BOOLEAN } }", None, None, ""),
    ("Set", "SET { a [0] INTEGER, b [1] BOOLEAN OPTIONAL }", None, None, ""),
    ("Choice", "CHOICE { a INTEGER, b BOOLEAN }", None, None, "untagged"),
    ("ChoiceExt", "CHOICE { a [0] INTEGER, ..., b [1] BOOLEAN }", None, None, "untagged"),
    ("ChoiceTagged", "[7] EXPLICIT CHOICE { a INTEGER, b BOOLEAN, g CHOICE { d NULL, e OCTET STRING } }", None, None, ""),
    ("SeqOf", "SEQUENCE OF INTEGER", "(SIZE(1..3))", None, ""),
    ("SeqOfSized", "SEQUENCE (SIZE(0..5)) OF BOOLEAN", "(SIZE(2))", None, ""),
    ("SetOf", "SET OF IA5String", "(SIZE(1..3))", None, ""),
    ("SeqOfStruct", "SEQUENCE OF SEQUENCE { x INTEGER, y ENUMERATED { p, q } }", None, None, ""),
    ("SetOfChoice", "SET OF CHOICE { u INTEGER, v NULL }", None, None, ""),
    ("ParamInst", "Tmpl {BOOLEAN}", None, None, "param"),
]

SHARED_SPECIFICS = ("Bits", "BitsNamed", "Octs", "OctsCons", "SBMPString", "SUniversalString", "BmpCons", "UnivCons", "BmpFromExt", "UnivFromExt", "Any")


def tagval(cls, num):
    return num * 4 + CLASS[cls]


class Mod:
    """one reference module under construction"""

    def __init__(self, name, tagging):
        self.name, self.tagging = name, tagging
        self.lines, self.hops, self.ntag = [], [], 0

    def default_mode(self):
        return "I" if self.tagging in ("IMPLICIT", "AUTOMATIC") else "E"

    def tag(self, untagged_target):
        """the next tag in rotation: (text, tag value, effective mode)"""
        self.ntag += 1
        n, form = 10 + self.ntag, self.ntag % 3
        if form == 1:
            return "[%d]" % n, tagval("CONTEXT", n), self.default_mode()
        if form == 2:
            # IMPLICIT on a CHOICE / open type is illegal to WRITE (X.680 31.2.7 makes a defaulted one EXPLICIT)
            return ("[APPLICATION %d] %s" % (n, "EXPLICIT" if untagged_target else "IMPLICIT")), tagval("APPLICATION", n), "E" if untagged_target else "I"
        return "[PRIVATE %d] EXPLICIT" % n, tagval("PRIVATE", n), "E"

    def alias(self, name, target, tagged, constr, untagged_target):
        t = self.tag(untagged_target) if tagged else None
        self.lines.append("  %s ::= %s%s%s" % (name, (t[0] + " ") if t else "", target, (" " + constr) if constr else ""))
        self.hops.append((name, target, t[1] if t else None, t[2] if t else None, bool(constr)))
        return name

    def text(self, extra=""):
        return "%s DEFINITIONS %s ::= BEGIN\n%s%s\nEND\n" % (self.name, (self.tagging + " TAGS") if self.tagging else "", extra, "\n".join(self.lines))


L3_QUICK = ("uuu", "utu", "ttt")
L3_ALL = ("uuu", "uut", "utu", "utt", "tuu", "tut", "ttu", "ttt")


def kind_module(idx, kind, tier):
    kname, definition, constr, dflt, flags = kind
    tagging = ("", "IMPLICIT", "AUTOMATIC", "EXPLICIT")[idx % 4]
    m = Mod("Rf" + kname, tagging)
    pre = "  Tmpl {T} ::= SEQUENCE { v T, w INTEGER OPTIONAL }\n" if "param" in flags else ""
    m.lines.append("  Base ::= %s" % definition)
    # the terminal is untagged (CHOICE / ANY): stays so along untagged hops only
    unt = {"Base": "untagged" in flags}

    def hop(name, target, tagged, c=None):
        m.alias(name, target, tagged, c, unt[target])
        unt[name] = unt[target] and not tagged
        return name

    # hop tree: every tag pattern of length 1 and 2, patterns of length 3 from the tier's list (pattern letters are
    # read from the terminal outwards: "tu" = a tagged alias of Base, then an untagged alias of that)
    names = {"": "Base"}
    pats = ["u", "t", "uu", "ut", "tu", "tt"] + list(L3_QUICK if tier == "quick" else L3_ALL)
    for p in pats:
        names[p] = hop("A" + p.upper(), names[p[:-1]], p[-1] == "t")
    leaves = [names[p] for p in pats]
    cons = []
    if constr:
        cons.append(hop("C1", "Base", False, constr))                 # constraint on the first hop
        cons.append(hop("C2", names["u"], False, constr))              # on the second hop, untagged chain
        cons.append(hop("C2T", names["t"], True, constr))              # tagged hop over a tagged alias, with constraint
        cons.append(hop("C3", names["tu"], False, constr))             # third hop
        cons.append(hop("D1", "C1", False))                            # plain alias of a constrained alias
        cons.append(hop("D1T", "C2", True))                            # tagged alias of a constrained alias
    allal = leaves + cons
    # ---- uses
    use = []
    use.append("  UseSeq ::= SEQUENCE { %s }" % ", ".join("m%d %s" % (i, a) for i, a in enumerate(allal)))
    use.append("  UseOpt ::= SEQUENCE { %s, z BOOLEAN }" % ", ".join("o%d [%d] %s OPTIONAL" % (i, i, a) for i, a in enumerate(allal)))
    use.append("  UseSet ::= SET { %s }" % ", ".join("s%d [%d] %s" % (i, i, a) for i, a in enumerate(allal[:6])))
    use.append("  UseChoice ::= CHOICE { %s }" % ", ".join("c%d [%d] %s" % (i, i, a) for i, a in enumerate(allal)))
    # untagged alternatives: the aliases whose OUTERMOST tag is a fresh one (pattern ends in "t"); all distinct
    outer = [names[p] for p in pats if p[-1] == "t"]
    use.append("  UseChoiceU ::= CHOICE { %s }" % ", ".join("k%d %s" % (i, a) for i, a in enumerate(outer)))
    for i, a in enumerate([names["u"], names["t"], names["tu"], names[pats[-1]]] + cons[:1] + cons[4:5]):
        use.append("  UseOf%d ::= %s OF %s" % (i, "SEQUENCE" if i % 2 == 0 else "SET", a))
    use.append("  UseOfSized ::= SEQUENCE (SIZE(1..4)) OF %s" % names["uu"])
    if dflt:
        use.append("  UseDflt ::= SEQUENCE { d0 [0] %s DEFAULT %s, d1 [1] %s DEFAULT %s, z BOOLEAN }" % (names["u"], dflt, names["tu"], dflt))
    # (a float-sized REAL is emitted as an inner type of its own in every instance: the member name clashes without -fcompound-names)
    if "param" not in flags and kname != "RealF32":
        use.append("  Box {T} ::= SEQUENCE { v T, w INTEGER OPTIONAL }")
        use.append("  UseBox ::= SEQUENCE { b0 Box {%s}, b1 Box {%s}%s }" % (names["u"], names[pats[-1]], (", b2 Box {%s}" % cons[0]) if cons else ""))
    # a second-level alias used ONLY as a member (never a PDU of its own besides -pdu=all)
    m.lines += use
    return {"name": m.name, "text": m.text(pre), "origin": "refs", "expect": "valid", "hops": m.hops, "kind": kname, "tagging": tagging,
            "untagged_kind": "untagged" in flags, "numeric": "numeric" in flags, "family": "type references: " + kname}


def imported_modules():
    """aliases whose target lives in ANOTHER module (IMPORTS and Module.Type forms), for the kinds with a branch of their
    own in emit_type_DEF: shared specifics, unsigned INTEGER, ENUMERATED, constructed"""
    lib = [("Blob", "OCTET STRING"), ("Flags", "BIT STRING { f(0) }"), ("Wide", "BMPString"), ("Uni", "UniversalString"), ("Open", "ANY"),
           ("Uns", "INTEGER (0..4294967295)"), ("Col", "ENUMERATED { r, g }"), ("Rec", "SEQUENCE { a INTEGER, b Blob OPTIONAL }"),
           ("Alt", "CHOICE { a INTEGER, b BOOLEAN }"), ("Lst", "SEQUENCE OF Blob"), ("Blob2", "Blob"), ("Rec2", "[3] Rec")]
    libtext = "RfLib DEFINITIONS ::= BEGIN\n  EXPORTS ALL;\n%s\nEND\n" % "\n".join("  %s ::= %s" % x for x in lib)
    m = Mod("RfUser", "IMPLICIT")
    hops = []
    names = [n for n, _ in lib]
    for i, n in enumerate(names):
        unt = n in ("Open", "Alt")
        m.alias("I" + n, n, False, None, unt)
        m.alias("T" + n, n, True, None, unt)
        m.alias("Q" + n, "RfLib." + n, False, None, unt)
    m.alias("JBlob", "IBlob", False, "(SIZE(1..4))", False)
    m.lines.append("  UseImp ::= SEQUENCE { %s }" % ", ".join("m%d %s" % (i, a) for i, a in enumerate(["I" + n for n in names] + ["T" + n for n in names])))
    usertext = m.text("  IMPORTS %s FROM RfLib;\n" % ", ".join(names))
    out = []
    # hops inside the library too; the target of a hop is looked up by its bare name (RfLib.X -> X)
    libhops = [("Blob2", "Blob", None, None, False), ("Rec2", "Rec", tagval("CONTEXT", 3), "E", False)]
    allhops = libhops + [(a, t.split(".")[-1], tg, md, c) for a, t, tg, md, c in m.hops]
    for k, files in enumerate(([("RfLib.asn1", libtext), ("RfUser.asn1", usertext)], [("RfUser.asn1", usertext), ("RfLib.asn1", libtext)],
                               [("RfBoth.asn1", usertext + libtext)])):
        out.append({"name": "RfImp%d" % k, "text": "".join(t for _, t in files), "files": files, "origin": "refs", "expect": "valid", "hops": allhops,
                    "kind": "imported", "tagging": "IMPLICIT", "family": "type references: imported target"})
    return out


def ref_modules(rng, tier):
    mods = [kind_module(i, k, tier) for i, k in enumerate(KINDS)] + imported_modules()
    # random after directed: chains with random kinds, lengths, tag patterns and constraint positions
    n = 4 if tier == "quick" else 24
    for r in range(n):
        tagging = rng.choice(["", "IMPLICIT", "AUTOMATIC", "EXPLICIT"])
        m = Mod("RfRnd%d" % r, tagging)
        pool = []
        unt, con = {}, {}
        cand = [x for x in KINDS if "param" not in x[4]]
        for b in range(rng.range(2, 4)):
            k = cand.pop(rng.below(len(cand)))      # distinct kinds: two anonymous inner types of one name clash without -fcompound-names
            bn = "B%d" % b
            m.lines.append("  %s ::= %s" % (bn, k[1]))
            unt[bn], con[bn] = "untagged" in k[4], k[2]
            pool.append(bn)
        for a in range(rng.range(4, 9)):
            tgt = rng.choice(pool)
            tagged = rng.below(2) == 1
            c = con[tgt] if con[tgt] and rng.below(4) == 0 else None
            an = "R%d" % a
            m.alias(an, tgt, tagged, c, unt[tgt])
            unt[an], con[an] = unt[tgt] and not tagged, None if c else con[tgt]      # at most one added constraint per chain
            pool.append(an)
        als = [h[0] for h in m.hops]
        m.lines.append("  UseSeq ::= SEQUENCE { %s }" % ", ".join("m%d %s" % (i, a) for i, a in enumerate(als)))
        m.lines.append("  UseChoice ::= CHOICE { %s }" % ", ".join("c%d [%d] %s" % (i, i, a) for i, a in enumerate(als)))
        m.lines.append("  UseOf ::= SET OF %s" % als[-1])
        mods.append({"name": m.name, "text": m.text(), "origin": "refs", "expect": "valid", "hops": m.hops, "kind": "random", "tagging": tagging,
                     "family": "type references: random chains"})
    return mods


# ------------------------------------------------------------------ hops of the OTHER modules of the corpus, read from the text

HOP_RE = re.compile(r"^(?:\[\s*(UNIVERSAL|APPLICATION|PRIVATE|CONTEXT)?\s*(\d+)\s*\]\s*(IMPLICIT|EXPLICIT)?\s*)?([A-Z][\w-]*)\s*(\(.*\))?$", flags=re.S)


def hops_from_text(text):
    """alias hops of a single-module text written one assignment per line (the hand-made and generated modules):
    `Name ::= [tag] Other (constraint)` with Other a non-parameterized type of the same module.  None if the text
    has several modules or parameterized types (the reference structure is then not a plain name lookup)."""
    t = re.sub(r"--.*?(--|\n)", "\n", text)
    if len(re.findall(r"\bDEFINITIONS\b", t)) != 1 or re.search(r"(?m)^\s*[A-Z][\w-]*\s*\{[^}]*\}\s*::=", t):
        return None
    head = re.search(r"\bDEFINITIONS\b(.*?)::=\s*BEGIN", t, flags=re.S)
    mode = "I" if head and re.search(r"\b(IMPLICIT|AUTOMATIC)\s+TAGS\b", head.group(1)) else "E"
    body = re.search(r"\bBEGIN\b(.*)\bEND\b", t, flags=re.S)
    if not body:
        return None
    parts = re.split(r"(?m)^\s*([A-Z][\w-]*)\s*::=", body.group(1))
    defs = [(parts[i], parts[i + 1].strip()) for i in range(1, len(parts) - 1, 2)]
    names = {n for n, _ in defs}
    if len(names) != len(defs):
        return None
    hops = []
    for n, rhs in defs:
        mm = HOP_RE.match(rhs)
        if not mm or mm.group(4) not in names:
            continue
        cls, num, kw, tgt, c = mm.groups()
        tag = tagval(cls or "CONTEXT", int(num)) if num else None
        md = None if tag is None else ("I" if kw == "IMPLICIT" else "E" if kw == "EXPLICIT" else mode)
        hops.append((n, tgt, tag, md, bool(c)))
    return hops
