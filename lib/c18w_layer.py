"""c18w_layer — round 4 of C18 (hooked into checks/c18.py): the shape of the governing SEQUENCE and rows with zero-bit encodings.

check_shape: per frame-shape module (lib/c18w_util.py)
  (R) the generated selectors read back from Frame.c: the member each one reads (`offsetof(struct Frame, <member>)`), through a pointer
      or not, constraining / for column - against Python's own name resolution (oracle) and the model's resolve_ref (correspondence);
  (S) `selm`: the class-field members set to every directed combination of identifier values, the generated selectors called:
      the alternative = the row the object set pairs with the value of the NAMED member, in the column of that member's class field
      (Python: oracle; OpenTypeFrame.select_named: correspondence);
  (D) frames assembled in Python in BER, UPER and XER: valid frames (every open type holds the type of the row its named member
      selects) must come back byte for byte in every syntax, frames where an open type holds the type ANOTHER member's value would select
      must fail, frames whose named member has no row / is absent must fail.
  a reference that names no member (`@ident.x`, wrong case, a longer name): asn1c must refuse the module with its diagnostic.
check_zero: identifier x container contents x UPER, OER, BER on the palette of zero-bit / 1 / 2 / 3 octet rows; oracle = Python's
  fixed-width decoders + the container-exhaustion rule; correspondence with the frame model (uper, ber) and OpenTypeContainer.oer_dec_open.
Violation kinds: oracle:selector_reads_named_member, oracle:named_identifier_selects, oracle:named_identifier_decodes(<syn>),
  oracle:reference_names_member, oracle:container_exhausted(<syn>), oracle:opentype_decodes_row(<syn>), correspondence:OpenTypeFrame.*,
  correspondence:OpenTypeContainer.*, crash:*, leak:*."""
import os, re
from vlib import *
from c18_util import run_resilient, int_octets
from c18w_util import *


def mrun(model, lines):
    if not lines:
        return []
    rc, out, err = run_lines(model, lines, timeout=1200)
    if rc != 0 or len(out) != len(lines):
        raise RuntimeError("model driver failed: rc=%s %d/%d %s" % (rc, len(out), len(lines), err))
    return out


def crun(run, m, lines, name):
    outs, crashes, leak = run_resilient(m["exe"], lines)
    if leak is not None:
        bad = None
        for l in lines[:400]:
            rc, o, e = run_lines(m["exe"], [l], env=SAN_ENV, timeout=120)
            if rc != 0 and len(o) == 1:
                bad, leak = l, e
                break
        run.violation("leak:" + name, {"what": "the driver answered every command but exited non-zero: LeakSanitizer (or another sanitizer at exit)",
                                       "module": m["text"], "command_line": bad, "stderr_tail": leak[-2500:]})
    return outs, crashes


def _univ_int(v):
    c = int_octets(v)
    return (bytes([2, len(c)]) + c).hex()


def check_shape(run, rng, model, m, tier, light=False):
    members, fs = m["members"], m["fs"]
    opens = [(k, o) for k, o in enumerate(members) if o["k"] == "open"]
    names = " ".join(x["name"] for x in members)
    base = {"module": m["text"], "options": m["opts"], "shape": m["shape_tag"]}
    run.case("%s build %s" % (fs, m["name"]))
    run.count("frameshape_" + m["shape_tag"])
    mres = mrun(model, ["c18wres %s%s %s" % (o["sp"], o["ref"], names) for k, o in opens])
    pyres = [py_named(members, o) for k, o in opens]
    for (k, o), mr, pr in zip(opens, mres, pyres):
        if mr != ("NONE" if pr is None else str(pr)):
            run.violation("model:OpenTypeFrame.resolve_ref", dict(base, what="the model resolves %s%s to %s, Python's exact match over the member names to %s" % (o["sp"], o["ref"], mr, pr)),
                          no_input=True)
    if not shape_resolvable(members):
        # the reference names no member: the compiler must refuse (FATAL "Can not find", exit 70)
        run.count("frameshape_refused_expected")
        if m.get("asn1c_rc") == 0:
            got = {}
            try:
                got = parse_selectors(os.path.join(m["dir"], "Frame.c"))
            except OSError:
                pass
            run.violation("oracle:reference_names_member",
                          dict(base, what="the component relation constraint names no member of the SEQUENCE (%s), asn1c accepted it; the selector reads %s" %
                               (", ".join(o["sp"] + o["ref"] for k, o in opens), {k: v["reads"] for k, v in got.items()}),
                               input="any frame: the open type is governed by a member the specification does not name"))
        elif m.get("asn1c_rc", 0) < 0 or "Can not find" not in m.get("asn1c_out", ""):
            run.violation("oracle:clean_refusal", dict(base, what="asn1c did not refuse an unresolvable `{@...}` reference with its diagnostic", asn1c_rc=m.get("asn1c_rc"),
                                                       asn1c_out=m.get("asn1c_out", "")[-800:]))
        return
    if m.get("asn1c_rc") == 70 and "-fcompound-names" not in m["opts"] and 'Use "-fcompound-names" flag' in m.get("asn1c_out", ""):
        run.count("skipped_name_clash_without_compound_names")
        return
    if not m.get("exe"):
        run.violation("build:module", dict(base, what="asn1c rejected a frame-shape module or its output does not compile", asn1c_rc=m.get("asn1c_rc"),
                                           asn1c_out=m.get("asn1c_out", "")[-1500:], build_log=m.get("build_log", "")[-1500:]))
        return
    # ---------------------------------------------------------------- (R) read-back
    try:
        sels = parse_selectors(os.path.join(m["dir"], "Frame.c"))
    except OSError as e:
        run.violation("oracle:selector_reads_named_member", dict(base, what="generated Frame.c cannot be read back: %r" % (e,)))
        return
    for (k, o), mr, i in zip(opens, mres, pyres):
        run.case("%s selector-readback %s %s" % (fs, m["name"], o["name"]))
        want = (c_name(members[i]["name"]), SHAPE_COLS.index(members[i]["field"]), SHAPE_COLS.index(o["field"]), members[i]["opt"])
        got = sels.get("Frame_" + c_name(o["name"]))
        rp = dict(base, member=o["name"], reference=o["sp"] + o["ref"], selector=got, expected_member=want[0])
        if not got or len(got["reads"]) != 1 or got["struct"] != ["Frame"]:
            run.violation("oracle:selector_reads_named_member", dict(rp, what="no generated selector for the open-type member, or it does not read exactly one member of struct Frame"))
            continue
        if mr.isdigit() and c_name(members[int(mr)]["name"]) != got["reads"][0]:
            run.violation("correspondence:OpenTypeFrame.resolve_ref", dict(rp, what="the generated selector reads member `%s`, the model resolves the reference to `%s`" %
                                                                                (got["reads"][0], members[int(mr)]["name"])), no_input=True)
        if got["reads"][0] != want[0]:
            run.violation("oracle:selector_reads_named_member",
                          dict(rp, what="the selector of `%s` (governed by {%s%s}) reads offsetof(struct Frame, %s); the member NAMED by the reference is `%s`" %
                               (o["name"], o["sp"], o["ref"], got["reads"][0], want[0]),
                               input="a frame in which `%s` and `%s` select different rows" % (got["reads"][0], want[0])))
        if (got["ccol"], got["fcol"]) != want[1:3]:
            run.violation("oracle:selector_columns", dict(rp, what="constraining / for column %s, expected %s (the column of the named member's class field, the open type's field)" %
                                                           ((got["ccol"], got["fcol"]), want[1:3])))
        if got["pointer"] != want[3]:
            run.violation("oracle:selector_reads_named_member", dict(rp, what="the named member is %sOPTIONAL, the selector reads it %s a pointer" %
                                                                      ("" if want[3] else "not ", "through" if got["pointer"] else "without")))
    # ---------------------------------------------------------------- (S) selector probes
    assigns = shape_assignments(rng, members, 12 if tier == "quick" else 40)
    rows_tok = "%d %s" % (len(SHAPE_ROWS), " ".join("%d,%d" % (r["&id"], r["&code"]) for r in SHAPE_ROWS))
    lines, mlines = [], []
    for a in assigns:
        lines.append("selm Frame " + " ".join("%s %s" % (members[i]["name"], _univ_int(v)) for i, v in sorted(a.items()) if v is not None))
        mtok = " ".join("%s %s %s" % (x["name"], SHAPE_COLS.index(x["field"]) if x["k"] == "idref" else "-",
                                      a[i] if x["k"] == "idref" and a.get(i) is not None else "-") for i, x in enumerate(members))
        for k, o in opens:
            mlines.append("c18wsel %s%s %d %s %s" % (o["sp"], o["ref"], len(members), mtok, rows_tok))
    co, crashes = crun(run, m, lines, "selm")
    mo = iter(mrun(model, mlines))
    for n, (a, l, o) in enumerate(zip(assigns, lines, co)):
        run.case(fs + " " + l)
        run.count("selm_probe")
        mp = [next(mo) for _ in opens]
        rp = dict(base, command_line=l, c=o, values={members[i]["name"]: v for i, v in a.items()})
        if o == "CRASH":
            run.violation("crash:selector", dict(rp, what="the generated selector crashed", stderr_tail=crashes.get(n, "")[-2500:]))
            continue
        f = [x.split(":") for x in o.split()]
        if len(f) != len(opens) or any(len(x) != 3 for x in f):
            run.violation("oracle:named_identifier_selects", dict(rp, what="selector probe failed"))
            continue
        for (k, op), x, p in zip(opens, f, mp):
            r = py_row(members, op, a)
            want = ("0", "-") if r is None else (str(r + 1), SHAPE_ROWS[r][op["field"]])
            if x[0] != p:
                run.violation("correspondence:OpenTypeFrame.select_named", dict(rp, member=op["name"], what="the generated selector answers presence %s, the model's select_named %s" % (x[0], p)),
                              no_input=True)
            if (x[0], x[1]) != want:
                run.violation("oracle:named_identifier_selects",
                              dict(rp, member=op["name"], what="open type `%s` is governed by {%s%s}: the object set pairs the value of `%s` with %s, the selector answers %s" %
                                   (op["name"], op["sp"], op["ref"], op["ref"], want, (x[0], x[1]))))
    if light:
        return
    if not shape_decodable(members):
        run.count("frameshape_identifier_after_open_type")       # decoding is the recorded defect C18-identifier-after-open-type (probe PR2)
        return
    # ---------------------------------------------------------------- (D) frames in BER, UPER, XER
    frames = []     # (kind, assignment, inner)
    idrefs = [i for i, x in enumerate(members) if x["k"] == "idref"]
    for a in assigns:
        rows = {k: py_row(members, o, a) for k, o in opens}
        if all(r is not None for r in rows.values()):
            inner = {k: SHAPE_ROWS[rows[k]][members[k]["field"]] for k, _ in opens}
            frames.append(("valid", a, inner))
            # an open type holding what ANOTHER member's value (or the named member's value in another column) would select
            for k, o in opens:
                ni = py_named(members, o)
                decoys = []
                for j in idrefs:
                    if a.get(j) is None:
                        continue
                    for col in ("&id", "&code"):
                        if j == ni and col == members[ni]["field"]:
                            continue
                        decoys += [r for r, row in enumerate(SHAPE_ROWS) if row[col] == a[j]]
                for d in sorted(set(decoys) - {rows[k]})[:2 if tier == "quick" else 4]:
                    frames.append(("decoy", a, dict(list(inner.items()) + [(k, SHAPE_ROWS[d][o["field"]])])))
        else:
            inner = {k: SHAPE_ROWS[rows[k] if rows[k] is not None else 0][members[k]["field"]] for k, _ in opens}
            frames.append(("norow", a, inner))
    lines, meta = [], []
    for kind, a, inner in frames:
        b, u, x = shape_frames(members, a, inner)
        xh = x.encode().hex()
        cmds = ["dec Frame ber " + b, "dec Frame uper " + u, "dec Frame xer " + xh]
        if kind == "valid":
            cmds += ["xcode Frame der %s uper" % b, "xcode Frame der %s cxer" % b, "rt Frame der " + b]
        for c in cmds:
            lines.append(c)
            meta.append((kind, a, inner, b, u, xh))
    co, crashes = crun(run, m, lines, "frameshape")
    for n, (l, o, (kind, a, inner, b, u, xh)) in enumerate(zip(lines, co, meta)):
        run.case(fs + " " + l)
        w = l.split()
        run.count("frameshape_%s_%s" % (kind, w[2] if w[0] == "dec" else w[0] + "_" + w[-1] if w[0] == "xcode" else "rt"))
        rp = dict(base, frame=kind, command_line=l, c=o, values={members[i]["name"]: v for i, v in a.items()}, open_types_hold=inner,
                  named={o_["name"]: o_["ref"] for _, o_ in opens})
        if o == "CRASH":
            run.violation("crash:frameshape", dict(rp, what="decoder crashed on a frame of the shape sweep", stderr_tail=crashes.get(n, "")[-2500:]))
            continue
        if w[0] == "dec":
            syn, enc = w[2], w[3]
            if kind == "valid":
                if not o.startswith("OK %d %s ck=" % (len(enc) // 2, b)):
                    run.violation("oracle:named_identifier_decodes(%s)" % syn,
                                  dict(rp, what="every open type holds the type of the row its NAMED member selects: the frame must decode and come back byte for byte (DER %s)" % b))
            elif o.startswith("OK"):
                run.violation("oracle:named_identifier_decodes(%s)" % syn,
                              dict(rp, what=("an open type holds the type of the row ANOTHER member's value selects" if kind == "decoy" else
                                             "the named member has no row / is absent") + ": the frame must fail, it was accepted"))
        elif w[0] == "xcode":
            want = "OK " + (u if w[-1] == "uper" else xh)
            if o != want:
                run.violation("oracle:frame_encoding(%s)" % w[-1], dict(rp, what="the C encoder's output differs from the frame assembled from the rows' own encodings", expected=want))
        elif "=" not in o:
            run.violation("oracle:opentype_roundtrip", dict(rp, what="round-trip battery failed"))
        else:
            for part in o.split():
                syn, _, st = part.partition("=")
                if st == "OK" or syn == "coer":
                    continue
                mt = re.match(r"DEC:OK:(\d+)/(\d+)$", st)
                if syn == "xer" and mt and int(mt.group(1)) + 1 == int(mt.group(2)):
                    continue
                run.violation("oracle:opentype_roundtrip(%s)" % syn, dict(rp, what="encode-then-decode does not return the frame: " + st))


def check_zero(run, model, m, Fc, tier):
    """identifier x container contents x UPER, OER, BER on a zero_module"""
    fs = m["fs"]
    base = {"module": m["text"], "options": m["opts"]}
    tyname = {r["id"]: r["types"][0] for r in m["rows"]}
    cases = [(syn, r["id"], p) for syn in ("uper", "oer", "ber") for r in m["rows"] for p in zero_patterns(syn)]
    lines = ["dec Frame %s %s" % (syn, zero_frame(syn, i, bytes.fromhex(p))) for syn, i, p in cases]
    co, crashes = crun(run, m, lines, "zero")
    # BER: what the C's own decoder of the selected row's type says about the contents, standalone
    sb = [(n, "dec %s ber %s" % (tyname[i], p)) for n, (syn, i, p) in enumerate(cases) if syn == "ber" and p]
    so, _ = crun(run, m, [l for _, l in sb], "zero-standalone")
    standalone = {n: o for (n, _), o in zip(sb, so)}
    # the models: the frame decoders (uper, ber) and the OER container reader
    ml = []
    for (syn, i, p), l in zip(cases, lines):
        if syn == "oer":
            c = bytes.fromhex(p)
            ml.append("c18woer %s %s" % (model_str(m["trees"][tyname[i]]), (bytes([len(c)]) + c).hex()))
        else:
            ml.append("%s %s %s" % ("c18uperdec" if syn == "uper" else "c18dec", Fc, l.split()[3]))
    mo = mrun(model, ml)
    for n, ((syn, i, p), l, o, mf) in enumerate(zip(cases, lines, co, mo)):
        tn, c = tyname[i], bytes.fromhex(p)
        flen = len(l.split()[3]) // 2
        run.case(fs + " " + l)
        rp = dict(base, syntax=syn, identifier=i, row_type=tn, container=p or "(empty)", command_line=l, c=o, model=mf)
        if o == "CRASH":
            run.violation("crash:zero", dict(rp, what="decoder crashed in the zero-bit sweep", stderr_tail=crashes.get(n, "")[-2500:]))
            continue
        c_ok = o.startswith("OK ")
        if c_ok and not o.startswith("OK %d " % flen):
            run.violation("oracle:container_exhausted(%s)" % syn, dict(rp, what="the frame was accepted without consuming its %d octets" % flen))
            continue
        if not c_ok and not o.startswith(("FAIL", "MORE")):
            run.violation("oracle:zero", dict(rp, what="unexpected driver output"))
            continue
        # ---- oracle
        if syn == "ber":
            s = standalone.get(n, "FAIL 0 - ck=0")
            inner_ok = s.startswith("OK %d " % len(c)) and len(c) > 0
            der = bytes.fromhex(s.split()[2]) if inner_ok else None
            consumed = len(c) if inner_ok else None
            judged = True
            rp["standalone"] = s
        else:
            d = zero_decode(tn, syn, c)
            inner_ok = d is not None and container_rule(syn, c, d[0])
            consumed = d[0] if d is not None else None
            der = d[1] if d is not None else None
            judged = der is not None
        run.count("zero_%s_%s" % (syn, "accept" if inner_ok else "leftover" if consumed is not None else "nodecode"))
        if syn != "ber" and d is not None and not inner_ok:
            # the selected type decodes from the container and does not use it up
            # (OER: refused since C18-fix-9, `dr.consumed == container_len` in oer_open_type_get; finding C18-oer-open-type-leftover is fixed,
            # no classifier: an accepted left-over is a violation in every syntax)
            if c_ok:
                run.violation("oracle:container_exhausted(%s)" % syn,
                              dict(rp, what="identifier %d selects %s, which takes %d %s of the %d-octet container %s: the left-over %s silently accepted" %
                                   (i, tn, consumed, "bits" if syn == "uper" else "octets", len(c), p, "is" if syn == "oer" else "octets are")))
        elif not inner_ok:
            if c_ok:
                run.violation("oracle:opentype_decodes_row(%s)" % syn, dict(rp, what="the container does not hold an encoding of the selected row's type %s, the frame was accepted" % tn))
        elif judged:
            want = "OK %d %s " % (flen, zero_frame_der(i, der))
            if not o.startswith(want):
                run.violation("oracle:opentype_decodes_row(%s)" % syn, dict(rp, what="the container holds exactly one encoding of the selected row's type %s: expected %s" % (tn, want)))
        # ---- correspondence
        m_ok = mf.startswith("OK ")
        if syn == "oer":
            if judged and m_ok != c_ok:
                run.violation("correspondence:OpenTypeContainer.oer_dec_open", dict(rp, what="C frame decoder and the model's OER container reader disagree"), no_input=True)
        elif m_ok != c_ok and syn == "ber" and c_ok == inner_ok:
            # the shared reference decoder is stricter than the C on invalid inner bytes (BOOLEAN with empty contents ...): what C18 states
            # is that the frame carries exactly what the C's decoder of the selected row's type makes of the container (judged above)
            run.count("zero_ber_reference_decoder_differs")
        elif m_ok != c_ok:
            run.violation("correspondence:OpenType.%s_dec_frame" % syn, dict(rp, what="C decoder and the frame model disagree in the zero-bit sweep"), no_input=(c_ok == inner_ok))
