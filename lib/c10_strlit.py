"""c10_strlit — C10 round 4, region L: the CONTENT of string literals as a swept dimension.

Region (closed after seeded change C10-7 was missed): every cstring of the corpus (FROM alphabets, DEFAULTs, values) was
drawn from printable ASCII, so no octet >= 0x80 (and no 0x7f, no control character, no doubled quote next to one) ever went
through the lexer -> asn1p_value -> asn1fix_crange (`_range_fill` walks the octets of the literal) -> asn1c_constraint.c
(`permitted_alphabet_table_N[256]`, `assert((v - range_start) >= 0)`) -> emit_default_string_value path.

Swept: every restricted string type (the five with a bounded built-in alphabet, BMPString / UniversalString / UTF8String,
the six the fixer does not bound: TeletexString, T61String, GeneralString, GraphicString, VideotexString, ObjectDescriptor)
  x octet classes of the literal: 0x01, 0x7f, 0x80, 0xa0, 0xff, mixed with ASCII, first / last position, a single high
    octet (the `if()` path, no table), duplicates, UTF-8 sequences of 2 / 3 / 4 octets, doubled quotes alone and next to a
    high octet, ranges "\\x7f".."\\xff" and "a".."\\xe9";
  x constraint position: FROM at type level, SIZE ^ FROM, (SIZE)(FROM) in series, SEQUENCE member, alias of the type with
    the FROM added, union with a second alphabet, SEQUENCE OF element, actual parameter; and value positions: value
    assignment used as DEFAULT, literal DEFAULT, single-value constraint, FROM through a value reference.
A module text is a str over U+0000..U+00FF and is written as Latin-1 (mod["latin1"]): each character is one octet of the file.

Oracle (c10_util.alphabet_oracle, on the C output alone): asn1c never dies; where it exits 0 and emits a checker, the set
of units the emitted `check_permitted_alphabet_N` admits (table cells != 0, or the range comparisons, parsed with
lib/c08_alpha.parse_emitted) is EXACTLY the set of octets of the literal (a byte >= 0x80 in a cstring is the character with
that code: asn1c's reading, the only way to write such a character - tuple / quadruple notation is refused)."""

BOUNDED = ["IA5String", "VisibleString", "ISO646String", "PrintableString", "NumericString"]
WIDE_UNITS = ["BMPString", "UniversalString", "UTF8String"]
UNBOUNDED = ["TeletexString", "T61String", "GeneralString", "GraphicString", "VideotexString", "ObjectDescriptor"]
TYPES = BOUNDED + WIDE_UNITS + UNBOUNDED

# class id -> (literal text as written between FROM( ), the set of octets it denotes)
def _lit(s):
    return '"%s"' % s.replace('"', '""'), {ord(c) for c in s}


def _rng(a, b):
    return '"%s".."%s"' % (a, b), set(range(ord(a), ord(b) + 1))


LITERALS = {
    "hi-last": _lit("ab\xe9"),              # the adversary's shape: ASCII then one Latin-1 octet
    "hi-first": _lit("\xc0\xc1z"),
    "del": _lit("a\x7f"),
    "c1": _lit("\x80b"),
    "nbsp": _lit("a\xa0"),
    "ff": _lit("\xffz"),
    "hi3": _lit("\x80\xa0\xff"),
    "ctl": _lit("\x01z"),
    "one-hi": _lit("\xe9"),                 # a single character: comparison, no table
    "one-ff": _lit("\xff"),
    "one-80": _lit("\x80"),
    "dup": _lit("\xe9\xe9a\xe9"),
    "utf2": _lit("a\xc3\xa9"),
    "utf3": _lit("\xe2\x82\xac"),
    "utf4": _lit("x\xf0\x9f\x98\x80"),
    "qq": _lit('a"b'),
    "qq-hi": _lit('"\xe9'),
    "rng-hi": _rng("\x7f", "\xff"),
    "rng-cross": _rng("a", "\xe9"),
}
LIT_ORDER = list(LITERALS)
VALUE_LITS = ["hi-last", "ff", "utf3", "qq-hi", "del", "ctl"]      # as values (DEFAULT, assignment, single value): no ranges

POSITIONS = ["top", "member", "size-and", "size-serial", "alias", "union", "of-element", "actual"]


def site(pos, base, lit, k):
    """-> (assignments [text], alphabet site (c file stem, checker fn regex, expected octets) or None)"""
    text, octs = LITERALS[lit]
    n = "T%d" % k
    if pos == "top":
        return ["%s ::= %s (FROM(%s))" % (n, base, text)], (n, r"%s_constraint" % n, octs)
    if pos == "size-and":
        return ["%s ::= %s (SIZE(1..4) ^ FROM(%s))" % (n, base, text)], (n, r"%s_constraint" % n, octs)
    if pos == "size-serial":
        return ["%s ::= %s (SIZE(1..4)) (FROM(%s))" % (n, base, text)], (n, r"%s_constraint" % n, octs)
    if pos == "member":
        return ["%s ::= SEQUENCE { m%d %s (FROM(%s)), z BOOLEAN }" % (n, k, base, text)], (n, r"memb_m%d_constraint_\d+" % k, octs)
    if pos == "alias":
        return ["B%d ::= %s" % (k, base), "%s ::= B%d (FROM(%s))" % (n, k, text)], (n, r"%s_constraint" % n, octs)
    if pos == "union":
        return ["%s ::= %s (FROM(%s | \"q\"))" % (n, base, text)], (n, r"%s_constraint" % n, octs | {ord("q")})
    if pos == "of-element":
        return ["%s ::= SEQUENCE OF %s (FROM(%s))" % (n, base, text)], None
    if pos == "actual":
        return ["P%d {X} ::= SEQUENCE { a X }" % k, "%s ::= P%d { %s (FROM(%s)) }" % (n, k, base, text)], None
    raise ValueError(pos)


def value_site(pos, base, lit, k):
    text, _ = LITERALS[lit]
    n = "T%d" % k
    if pos == "value-default":
        return ["v%d %s ::= %s" % (k, base, text), "%s ::= SEQUENCE { m%d %s DEFAULT v%d, z BOOLEAN }" % (n, k, base, k)]
    if pos == "literal-default":
        return ["%s ::= SEQUENCE { m%d %s DEFAULT %s, z BOOLEAN }" % (n, k, base, text)]
    if pos == "single-value":
        return ["%s ::= %s (%s)" % (n, base, text)]
    if pos == "from-valueref":
        return ["w%d %s ::= %s" % (k, base, text), "%s ::= %s (FROM(w%d))" % (n, base, k)]
    raise ValueError(pos)


VALUE_POSITIONS = ["value-default", "literal-default", "single-value", "from-valueref"]


def mod(name, lines, sites, optset, **kw):
    text = "%s DEFINITIONS AUTOMATIC TAGS ::= BEGIN\n%s\nEND\n" % (name, "\n".join("  " + l for l in lines))
    d = {"name": name, "text": text, "origin": "strlit", "expect": "valid", "latin1": True, "alpha_sites": [s for s in sites if s], "optsets": [optset]}
    d.update(kw)
    return d


def cname(t):
    return t.replace("String", "").replace("ObjectDescriptor", "ObjDescr")


def strlit_modules(rng, tier):
    import c10_util
    Q = c10_util.QUICK_OPTSETS
    rot = [Q[0], Q[1], Q[3], ("-fwide-types",)]
    out = []
    full = tier != "quick"
    for ti, base in enumerate(TYPES):
        if base in BOUNDED:
            # the fixer refuses an octet outside the built-in alphabet: one small module per literal class (a refusal masks nothing)
            for li, lit in enumerate(LIT_ORDER):
                poss = POSITIONS if full else ["top", POSITIONS[1 + (ti + li) % 7]]
                lines, sites = [], []
                for k, pos in enumerate(poss):
                    l_, s_ = site(pos, base, lit, k)
                    lines += l_
                    sites.append(s_)
                out.append(mod("Sl%s%s" % (cname(base), "".join(w.capitalize() for w in lit.split("-"))), lines, sites, rot[(ti + li) % 4], base=base, literal=lit))
        else:
            # nothing is refused: all literal classes in one module; quick: every class at type level, every other position
            # for 3-4 rotating classes (thorough: the full product)
            lines, sites, k = [], [], 0
            for li, lit in enumerate(LIT_ORDER):
                poss = POSITIONS if full else ["top"] + [p for pi, p in enumerate(POSITIONS[1:]) if (li + pi + ti) % 7 == 0]
                for pos in poss:
                    l_, s_ = site(pos, base, lit, k)
                    lines += l_
                    sites.append(s_)
                    k += 1
            out.append(mod("Sl%sAll" % cname(base), lines, sites, rot[ti % 3], base=base, literal="all"))
        # value positions: quick 1 of the 6 value literal classes per type in rotation (thorough: all)
        vl = VALUE_LITS if full else [VALUE_LITS[ti % 6]]
        for lit in dict.fromkeys(vl):
            lines = []
            for k, pos in enumerate(VALUE_POSITIONS):
                lines += value_site(pos, base, lit, k)
            out.append(mod("Sv%s%s" % (cname(base), "".join(w.capitalize() for w in lit.split("-"))), lines, [], rot[(ti + 1) % 3], base=base, literal=lit, values=True))
    # random: a random octet string (2..6 octets over the boundary octets and random ones) for a random unbounded type and position
    n = 6 if tier == "quick" else 40
    pool = [0x01, 0x20, 0x22, 0x41, 0x7e, 0x7f, 0x80, 0x81, 0x9f, 0xa0, 0xbf, 0xc0, 0xe9, 0xfe, 0xff]
    for i in range(n):
        base = rng.choice(WIDE_UNITS[:2] + UNBOUNDED)
        octs = [rng.choice(pool) if rng.below(3) else rng.range(0x20, 0xff) for _ in range(rng.range(2, 6))]
        octs = [o for o in octs if o not in (0x27, 0x09, 0x0a, 0x0b, 0x0c, 0x0d)] or [0xe9, 0x41]
        key = "rnd%d" % i
        LITERALS[key] = _lit("".join(chr(o) for o in octs))
        lines, sites = [], []
        for k, pos in enumerate(["top", rng.choice(POSITIONS[1:6])]):
            l_, s_ = site(pos, base, key, k)
            lines += l_
            sites.append(s_)
        out.append(mod("SlRnd%d" % i, lines, sites, rot[i % 4], base=base, literal=key))
    return out
