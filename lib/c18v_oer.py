"""C18, big rows in OER (decoder side only: the skeletons have no OER encoder for open types).  The open type is a length determinant
(X.696 8.6: short form below 128, else 0x80|k and k octets) in front of the row's OER; the earlier rounds only ever sent containers of a few octets,
so the long forms (1, 2 and 3 length octets) of the open type's own determinant were never read.  Python's own X.696."""
from c18v_util import content, int_octets, ROW_ID

OER_BOUNDARY_L = [127, 128, 129, 255, 256, 257, 65535, 65536, 65537, 81920]


def oer_len(n):
    if n < 128:
        return bytes([n])
    b = n.to_bytes((n.bit_length() + 7) // 8, "big")
    return bytes([0x80 | len(b)]) + b


def oer_inner(kind, n, seed):
    if kind == "oct":
        return oer_len(n) + content(seed, n)
    if kind == "bits":
        nb = (n + 7) // 8
        c = bytearray(content(seed, nb))
        if nb:
            c[-1] &= (0xff << (nb * 8 - n)) & 0xff
            c[-1] |= 1 << (nb * 8 - n)
        return oer_len(nb + 1) + bytes([nb * 8 - n]) + bytes(c)
    q = n.to_bytes(max(1, (n.bit_length() + 7) // 8), "big")
    return bytes([len(q)]) + q + content(seed, n)          # quantity, then n elements of one octet each (SIZE(1): no length)


def oer_inner_len(kind, n):
    if kind == "oct":
        return len(oer_len(n)) + n
    if kind == "bits":
        nb = (n + 7) // 8
        return len(oer_len(nb + 1)) + 1 + nb
    return 1 + max(1, (n.bit_length() + 7) // 8) + n


def oer_sizes_for(kind, L):
    """an item count whose OER is exactly L octets (bits: a count that is not a multiple of 8), or None"""
    for n in range(max(0, L - 8), L + 1):
        m = n * 8 - 3 if kind == "bits" and n else n
        if oer_inner_len(kind, m) == L:
            return m
    return None


def frame_oer(kind, idv, n, seed, tail, flag):
    ic = int_octets(idv)
    inner = oer_inner(kind, n, seed)
    return bytes([len(ic)]) + ic + (b"" if flag < 0 else (b"\xff" if flag else b"\x00")) + oer_len(len(inner)) + inner + bytes([tail]), len(inner)
