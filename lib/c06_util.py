"""c06_util — the representation mutator of the C06 check.

 * ber_of(tree, value, style): a BER encoder over the model trees of lib/modgen.py that
   writes SET OF elements in the order of the Python list (what ber_decode puts into
   memory) and, on request, non-canonical forms: long-form / indefinite lengths,
   constructed OCTET STRING, INTEGER contents with redundant leading octets.
 * permutations of the SET OF lists of a value (any depth).
 * XER text variants (white space and comments between tags).
 * hand-written modules for the representation changes outside the modelled algebra
   (wide INTEGER_t, DEFAULT, BIT STRING, decode-from-variant) with their input pairs."""
import itertools
from vlib import Rng


# ---------------------------------------------------------------- BER writer

def tag_octets(tg, constructed):
    cls, num = tg % 4, tg // 4
    first = cls * 64 + (32 if constructed else 0)
    if num <= 30:
        return bytes([first + num])
    ds = []
    n = num
    while True:
        ds.insert(0, n % 128)
        n //= 128
        if n == 0:
            break
    return bytes([first + 31] + [d | 0x80 for d in ds[:-1]] + [ds[-1]])


def len_octets(n, pad=0):
    """definite length; pad > 0: long form with that many redundant leading zero octets"""
    if n <= 127 and pad == 0:
        return bytes([n])
    b = n.to_bytes(max(1, (n.bit_length() + 7) // 8), "big")
    b = b"\0" * (pad - 1 if n <= 127 and pad > 0 else pad) + b
    return bytes([0x80 | len(b)]) + b


def int_octets(z):
    n = 1
    while not (-(1 << (8 * n - 1)) <= z < (1 << (8 * n - 1))):
        n += 1
    return z.to_bytes(n, "big", signed=True)


class Style:
    """how to write each TLV.  rng None = canonical forms (DER except for the SET OF order)"""
    def __init__(self, rng=None, indef=0, longlen=0, intpad=0, consoct=0):
        self.rng, self.indef, self.longlen, self.intpad, self.consoct = rng, indef, longlen, intpad, consoct
        self.used = set()

    def hit(self, pct, what):
        if self.rng is not None and pct and self.rng.below(100) < pct:
            self.used.add(what)
            return True
        return False


def tlv(tg, constructed, content, st):
    if constructed and st.hit(st.indef, "indefinite"):
        return tag_octets(tg, True) + b"\x80" + content + b"\0\0"
    pad = (1 + st.rng.below(2)) if st.hit(st.longlen, "longlen") else 0
    return tag_octets(tg, constructed) + len_octets(len(content), pad) + content


def ber_of(tree, v, st=None):
    st = st or Style()
    k = tree[0]
    if k == "b":
        return tlv(tree[1], False, b"\xff" if v else b"\0", st)
    if k == "n":
        return tlv(tree[1], False, b"", st)
    if k == "i":
        c = int_octets(v)
        if st.hit(st.intpad, "intpad") and len(c) < 8:
            # the padded form must still fit the 8 octets a native long decoder accepts after stripping
            c = (b"\xff" if v < 0 else b"\0") * (1 + st.rng.below(3)) + c
        return tlv(tree[1], False, c, st)
    if k == "o":
        if len(v) >= 2 and st.hit(st.consoct, "constructed-octet-string"):
            cut = 1 + st.rng.below(len(v) - 1)
            parts = tlv(16, False, v[:cut], st) + tlv(16, False, v[cut:], st)     # 16 = UNIVERSAL 4
            return tlv(tree[1], True, parts, st)
        return tlv(tree[1], False, bytes(v), st)
    if k == "s":
        body = b""
        for m, x in zip(tree[2], v[1]):
            if m[0] == "?":
                if x[0] == "!":
                    body += ber_of(m[1], x[1], st)
            else:
                body += ber_of(m, x, st)
        return tlv(tree[1], True, body, st)
    if k in ("q", "t"):
        return tlv(tree[1], True, b"".join(ber_of(tree[3], x, st) for x in v[1]), st)
    if k == "c":
        return ber_of(tree[1][v[1]], v[2], st)
    if k == "x":
        return tlv(tree[1], True, ber_of(tree[2], v, st), st)
    raise ValueError(k)


# ---------------------------------------------------------------- SET OF permutations

def setof_sites(tree, v, path=()):
    """paths of the SET OF lists with at least two members inside a value"""
    k = tree[0]
    out = []
    if k == "s":
        for i, (m, x) in enumerate(zip(tree[2], v[1])):
            if m[0] == "?":
                if x[0] == "!":
                    out += setof_sites(m[1], x[1], path + (("s?", i),))
            else:
                out += setof_sites(m, x, path + (("s", i),))
    elif k in ("q", "t"):
        if k == "t" and len(v[1]) >= 2:
            out.append(path)
        for i, x in enumerate(v[1]):
            out += setof_sites(tree[3], x, path + (("l", i),))
    elif k == "c":
        out += setof_sites(tree[1][v[1]], v[2], path + (("c",),))
    elif k == "x":
        out += setof_sites(tree[2], v, path)
    return out


def has_setof(tree):
    k = tree[0]
    if k == "t":
        return True
    if k == "s":
        return any(has_setof(m) for m in tree[2])
    if k == "c":
        return any(has_setof(m) for m in tree[1])
    if k == "q":
        return has_setof(tree[3])
    if k in ("x", "?"):
        return has_setof(tree[-1])
    return False


def map_setofs(tree, v, f):
    """rebuild v with every SET OF member list (after its members were rebuilt) replaced by f(list)"""
    k = tree[0]
    if k == "s":
        out = []
        for m, x in zip(tree[2], v[1]):
            if m[0] == "?":
                out.append(("!", map_setofs(m[1], x[1], f)) if x[0] == "!" else x)
            else:
                out.append(map_setofs(m, x, f))
        return ("S", out)
    if k in ("q", "t"):
        xs = [map_setofs(tree[3], x, f) for x in v[1]]
        return ("L", f(xs) if k == "t" else xs)
    if k == "c":
        return ("C", v[1], map_setofs(tree[1][v[1]], v[2], f))
    if k == "x":
        return map_setofs(tree[2], v, f)
    return v


def permuted_values(tree, v, rng, limit):
    """values equal to v up to the order of SET OF members: every permutation when there is one
    small SET OF (<= 4 members), otherwise `limit` sampled ones (each site shuffled), plus reversal"""
    sites = setof_sites(tree, v)
    if not sites:
        return []
    out = []
    if len(sites) == 1:
        n = [0]

        def count(xs):
            n[0] = len(xs)
            return xs
        map_setofs(tree, v, count)
        if n[0] <= 4:
            for p in itertools.permutations(range(n[0])):
                if list(p) == list(range(n[0])):
                    continue
                out.append(map_setofs(tree, v, lambda xs, p=p: [xs[i] for i in p] if len(xs) == len(p) else xs))
            return out
    out.append(map_setofs(tree, v, lambda xs: list(reversed(xs))))
    for _ in range(limit):
        def shuf(xs):
            xs = list(xs)
            rng.shuffle(xs)
            return xs
        out.append(map_setofs(tree, v, shuf))
    return out


# ---------------------------------------------------------------- XER variants

def xer_variant(text, rng):
    """white space and comments between tags (X.693 8.1.4 and 8.2: allowed between items)"""
    fillers = [" ", "\n", "\t", "\r\n  ", "<!-- c -->", " <!--x--> ", "\n\n"]
    out = []
    i = 0
    changed = False
    n = len(text)
    while i < n:
        ch = text[i]
        out.append(ch)
        if ch == ">" and i + 1 < n and text[i + 1] == "<" and rng.chance(1, 2):
            # only between an end tag and what follows it, or between two start tags:
            # never between a start tag and its own end tag (that would be content)
            j = text.rfind("<", 0, i)
            this_tag = text[j:i + 1]
            k = text.find(">", i + 1)
            next_tag = text[i + 1:k + 1]
            this_end = this_tag.startswith("</") or this_tag.endswith("/>")
            next_end = next_tag.startswith("</")
            if (this_end or not next_end) and not (not this_end and next_tag.endswith("/>")):
                out.append(rng.choice(fillers))
                changed = True
        i += 1
    return "".join(out), changed


# ---------------------------------------------------------------- hand-written modules

def hand_module(name, text, typenames):
    return {"name": name, "default": None, "defs": [(t, None) for t in typenames], "trees": {}, "text": text}


WIDE_INT = """W-INT DEFINITIONS AUTOMATIC TAGS ::= BEGIN
  I    ::= INTEGER
  IC   ::= INTEGER (0..255)
  IN   ::= INTEGER (-70000..70000)
  IS   ::= INTEGER (0..MAX)
  IE   ::= INTEGER (0..7, ...)
  IB   ::= INTEGER (0..18446744073709551615)
  SI   ::= SEQUENCE { a INTEGER, b INTEGER (0..255), c INTEGER (0..7, ...) OPTIONAL }
  LI   ::= SEQUENCE OF INTEGER
  TI   ::= SET OF INTEGER
  CI   ::= CHOICE { a INTEGER, b BOOLEAN }
END
"""
WIDE_INT_TYPES = ["I", "IC", "IN", "IS", "IE", "IB", "SI", "LI", "TI", "CI"]

DEFAULTS = """D-DEF DEFINITIONS AUTOMATIC TAGS ::= BEGIN
  DS   ::= SEQUENCE { a INTEGER DEFAULT 5, b BOOLEAN DEFAULT TRUE, c INTEGER (0..255) DEFAULT 7, z NULL }
  DX   ::= SEQUENCE { z BOOLEAN, ..., a INTEGER DEFAULT 5, b BOOLEAN DEFAULT TRUE }
  DE   ::= SEQUENCE { e ENUMERATED { red(0), green(1), blue(2) } DEFAULT green, z BOOLEAN }
  DN   ::= SEQUENCE { i SEQUENCE { a INTEGER DEFAULT 5 } , l SEQUENCE OF SEQUENCE { a INTEGER DEFAULT 3, z BOOLEAN } }
END
"""
DEFAULTS_TYPES = ["DS", "DX", "DE", "DN"]

BITS = """B-BIT DEFINITIONS AUTOMATIC TAGS ::= BEGIN
  B    ::= BIT STRING
  BF   ::= BIT STRING (SIZE(4))
  BV   ::= BIT STRING (SIZE(0..20))
  BE   ::= BIT STRING (SIZE(4, ...))
  SB   ::= SEQUENCE { a BIT STRING, b BIT STRING (SIZE(12)) OPTIONAL }
  TB   ::= SET OF BIT STRING
  CB   ::= CHOICE { a BIT STRING, b NULL }
END
"""
BITS_TYPES = ["B", "BF", "BV", "BE", "SB", "TB", "CB"]


def ctx(n, content, constructed=False):
    return tag_octets(n * 4 + 2, constructed) + len_octets(len(content)) + content


def uni(n, content, constructed=False):
    return tag_octets(n * 4, constructed) + len_octets(len(content)) + content
