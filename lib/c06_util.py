"""c06_util — the representation mutator of the C06 check.

 * ber_of(tree, value, style): a BER encoder over the model trees of lib/modgen.py that
   writes SET OF elements in the order of the Python list (what ber_decode puts into
   memory) and, on request, non-canonical forms: long-form / indefinite lengths,
   constructed OCTET STRING, INTEGER contents with redundant leading octets.
 * permutations of the SET OF lists of a value (any depth).
 * XER text variants (white space and comments between tags).
 * hand-written modules for the representation changes outside the modelled algebra
   (wide INTEGER_t, DEFAULT, BIT STRING, decode-from-variant) with their input pairs."""
import itertools
from vlib import Rng


# ---------------------------------------------------------------- BER writer

def tag_octets(tg, constructed):
    cls, num = tg % 4, tg // 4
    first = cls * 64 + (32 if constructed else 0)
    if num <= 30:
        return bytes([first + num])
    ds = []
    n = num
    while True:
        ds.insert(0, n % 128)
        n //= 128
        if n == 0:
            break
    return bytes([first + 31] + [d | 0x80 for d in ds[:-1]] + [ds[-1]])


def len_octets(n, pad=0):
    """definite length; pad > 0: long form with that many redundant leading zero octets"""
    if n <= 127 and pad == 0:
        return bytes([n])
    b = n.to_bytes(max(1, (n.bit_length() + 7) // 8), "big")
    b = b"\0" * (pad - 1 if n <= 127 and pad > 0 else pad) + b
    return bytes([0x80 | len(b)]) + b


def int_octets(z):
    n = 1
    while not (-(1 << (8 * n - 1)) <= z < (1 << (8 * n - 1))):
        n += 1
    return z.to_bytes(n, "big", signed=True)


class Style:
    """how to write each TLV.  rng None = canonical forms (DER except for the SET OF order)"""
    def __init__(self, rng=None, indef=0, longlen=0, intpad=0, consoct=0):
        self.rng, self.indef, self.longlen, self.intpad, self.consoct = rng, indef, longlen, intpad, consoct
        self.used = set()

    def hit(self, pct, what):
        if self.rng is not None and pct and self.rng.below(100) < pct:
            self.used.add(what)
            return True
        return False


def tlv(tg, constructed, content, st):
    if constructed and st.hit(st.indef, "indefinite"):
        return tag_octets(tg, True) + b"\x80" + content + b"\0\0"
    pad = (1 + st.rng.below(2)) if st.hit(st.longlen, "longlen") else 0
    return tag_octets(tg, constructed) + len_octets(len(content), pad) + content


def ber_of(tree, v, st=None):
    st = st or Style()
    k = tree[0]
    if k == "b":
        return tlv(tree[1], False, b"\xff" if v else b"\0", st)
    if k == "n":
        return tlv(tree[1], False, b"", st)
    if k == "i":
        c = int_octets(v)
        if st.hit(st.intpad, "intpad") and len(c) < 8:
            # the padded form must still fit the 8 octets a native long decoder accepts after stripping
            c = (b"\xff" if v < 0 else b"\0") * (1 + st.rng.below(3)) + c
        return tlv(tree[1], False, c, st)
    if k == "o":
        if len(v) >= 2 and st.hit(st.consoct, "constructed-octet-string"):
            cut = 1 + st.rng.below(len(v) - 1)
            parts = tlv(16, False, v[:cut], st) + tlv(16, False, v[cut:], st)     # 16 = UNIVERSAL 4
            return tlv(tree[1], True, parts, st)
        return tlv(tree[1], False, bytes(v), st)
    if k == "s":
        body = b""
        for m, x in zip(tree[2], v[1]):
            if m[0] == "?":
                if x[0] == "!":
                    body += ber_of(m[1], x[1], st)
            else:
                body += ber_of(m, x, st)
        return tlv(tree[1], True, body, st)
    if k in ("q", "t"):
        return tlv(tree[1], True, b"".join(ber_of(tree[3], x, st) for x in v[1]), st)
    if k == "c":
        return ber_of(tree[1][v[1]], v[2], st)
    if k == "x":
        return tlv(tree[1], True, ber_of(tree[2], v, st), st)
    raise ValueError(k)


# ---------------------------------------------------------------- SET OF permutations

def setof_sites(tree, v, path=()):
    """paths of the SET OF lists with at least two members inside a value"""
    k = tree[0]
    out = []
    if k == "s":
        for i, (m, x) in enumerate(zip(tree[2], v[1])):
            if m[0] == "?":
                if x[0] == "!":
                    out += setof_sites(m[1], x[1], path + (("s?", i),))
            else:
                out += setof_sites(m, x, path + (("s", i),))
    elif k in ("q", "t"):
        if k == "t" and len(v[1]) >= 2:
            out.append(path)
        for i, x in enumerate(v[1]):
            out += setof_sites(tree[3], x, path + (("l", i),))
    elif k == "c":
        out += setof_sites(tree[1][v[1]], v[2], path + (("c",),))
    elif k == "x":
        out += setof_sites(tree[2], v, path)
    return out


def has_setof(tree):
    k = tree[0]
    if k == "t":
        return True
    if k == "s":
        return any(has_setof(m) for m in tree[2])
    if k == "c":
        return any(has_setof(m) for m in tree[1])
    if k == "q":
        return has_setof(tree[3])
    if k in ("x", "?"):
        return has_setof(tree[-1])
    return False


def map_setofs(tree, v, f):
    """rebuild v with every SET OF member list (after its members were rebuilt) replaced by f(list)"""
    k = tree[0]
    if k == "s":
        out = []
        for m, x in zip(tree[2], v[1]):
            if m[0] == "?":
                out.append(("!", map_setofs(m[1], x[1], f)) if x[0] == "!" else x)
            else:
                out.append(map_setofs(m, x, f))
        return ("S", out)
    if k in ("q", "t"):
        xs = [map_setofs(tree[3], x, f) for x in v[1]]
        return ("L", f(xs) if k == "t" else xs)
    if k == "c":
        return ("C", v[1], map_setofs(tree[1][v[1]], v[2], f))
    if k == "x":
        return map_setofs(tree[2], v, f)
    return v


def permuted_values(tree, v, rng, limit):
    """values equal to v up to the order of SET OF members: every permutation when there is one
    small SET OF (<= 4 members), otherwise `limit` sampled ones (each site shuffled), plus reversal"""
    sites = setof_sites(tree, v)
    if not sites:
        return []
    out = []
    if len(sites) == 1:
        n = [0]

        def count(xs):
            n[0] = len(xs)
            return xs
        map_setofs(tree, v, count)
        if n[0] <= 4:
            for p in itertools.permutations(range(n[0])):
                if list(p) == list(range(n[0])):
                    continue
                out.append(map_setofs(tree, v, lambda xs, p=p: [xs[i] for i in p] if len(xs) == len(p) else xs))
            return out
    out.append(map_setofs(tree, v, lambda xs: list(reversed(xs))))
    for _ in range(limit):
        def shuf(xs):
            xs = list(xs)
            rng.shuffle(xs)
            return xs
        out.append(map_setofs(tree, v, shuf))
    return out


# ---------------------------------------------------------------- XER variants

def xer_variant(text, rng):
    """white space and comments between tags (X.693 8.1.4 and 8.2: allowed between items)"""
    fillers = [" ", "\n", "\t", "\r\n  ", "<!-- c -->", " <!--x--> ", "\n\n"]
    out = []
    i = 0
    changed = False
    n = len(text)
    while i < n:
        ch = text[i]
        out.append(ch)
        if ch == ">" and i + 1 < n and text[i + 1] == "<" and rng.chance(1, 2):
            # only between an end tag and what follows it, or between two start tags:
            # never between a start tag and its own end tag (that would be content)
            j = text.rfind("<", 0, i)
            this_tag = text[j:i + 1]
            k = text.find(">", i + 1)
            next_tag = text[i + 1:k + 1]
            this_end = this_tag.startswith("</") or this_tag.endswith("/>")
            next_end = next_tag.startswith("</")
            if (this_end or not next_end) and not (not this_end and next_tag.endswith("/>")):
                out.append(rng.choice(fillers))
                changed = True
        i += 1
    return "".join(out), changed


# ---------------------------------------------------------------- hand-written modules

def hand_module(name, text, typenames):
    return {"name": name, "default": None, "defs": [(t, None) for t in typenames], "trees": {}, "text": text}


WIDE_INT = """W-INT DEFINITIONS AUTOMATIC TAGS ::= BEGIN
  I    ::= INTEGER
  IC   ::= INTEGER (0..255)
  IN   ::= INTEGER (-70000..70000)
  IS   ::= INTEGER (0..MAX)
  IE   ::= INTEGER (0..7, ...)
  IB   ::= INTEGER (0..18446744073709551615)
  SI   ::= SEQUENCE { a INTEGER, b INTEGER (0..255), c INTEGER (0..7, ...) OPTIONAL }
  LI   ::= SEQUENCE OF INTEGER
  TI   ::= SET OF INTEGER
  CI   ::= CHOICE { a INTEGER, b BOOLEAN }
END
"""
WIDE_INT_TYPES = ["I", "IC", "IN", "IS", "IE", "IB", "SI", "LI", "TI", "CI"]

DEFAULTS = """D-DEF DEFINITIONS AUTOMATIC TAGS ::= BEGIN
  DS   ::= SEQUENCE { a INTEGER DEFAULT 5, b BOOLEAN DEFAULT TRUE, c INTEGER (0..255) DEFAULT 7, z NULL }
  DX   ::= SEQUENCE { z BOOLEAN, ..., a INTEGER DEFAULT 5, b BOOLEAN DEFAULT TRUE }
  DE   ::= SEQUENCE { e ENUMERATED { red(0), green(1), blue(2) } DEFAULT green, z BOOLEAN }
  DN   ::= SEQUENCE { i SEQUENCE { a INTEGER DEFAULT 5 } , l SEQUENCE OF SEQUENCE { a INTEGER DEFAULT 3, z BOOLEAN } }
END
"""
DEFAULTS_TYPES = ["DS", "DX", "DE", "DN"]

BITS = """B-BIT DEFINITIONS AUTOMATIC TAGS ::= BEGIN
  B    ::= BIT STRING
  BF   ::= BIT STRING (SIZE(4))
  BV   ::= BIT STRING (SIZE(0..20))
  BE   ::= BIT STRING (SIZE(4, ...))
  SB   ::= SEQUENCE { a BIT STRING, b BIT STRING (SIZE(12)) OPTIONAL }
  TB   ::= SET OF BIT STRING
  CB   ::= CHOICE { a BIT STRING, b NULL }
END
"""
BITS_TYPES = ["B", "BF", "BV", "BE", "SB", "TB", "CB"]


def ctx(n, content, constructed=False):
    return tag_octets(n * 4 + 2, constructed) + len_octets(len(content)) + content


def uni(n, content, constructed=False):
    return tag_octets(n * 4, constructed) + len_octets(len(content)) + content


# ---------------------------------------------------------------- long SET OF values (`lset` of moddrv_c06.inc)

M64 = (1 << 64) - 1


def lset_values(n, a, b, m, order):
    """the member values of `lset <T> <elem> n a b m <order>` in memory order (same arithmetic as the C)"""
    v = [((a * k + b) & M64) % m for k in range(n)]
    if order == "gen":
        return v
    v.sort()
    if order == "asc":
        return v
    if order == "desc":
        v.reverse()
        return v
    if order.startswith("rot:"):
        r = int(order[4:]) % n if n else 0
        return v[r:] + v[:r]
    if order.startswith("shuf:"):
        x = int(order[5:]) & M64
        for i in range(n - 1, 0, -1):
            x = (x * 6364136223846793005 + 1442695040888963407) & M64
            j = (x >> 33) % (i + 1)
            v[i], v[j] = v[j], v[i]
        return v
    raise ValueError(order)


def lset_member(elem, v):
    """python value (lib/modgen.py form) of one member"""
    if elem == "int":
        return v
    if elem == "bool":
        return bool(v & 1)
    if elem.startswith("oct:"):
        return v.to_bytes(int(elem[4:]), "big")
    if elem.startswith("ostr:"):
        f = int(elem[5:])
        return bytes((f + 3 * i) & 0xff for i in range(v))
    raise ValueError(elem)


def lset_model_value(elem, vals):
    """the value string of drv_rt.ml without building a python tree (long lists)"""
    if elem == "int":
        return "L{" + "".join("I%d;" % x for x in vals) + "}"
    if elem == "bool":
        return "L{" + "".join("T" if x & 1 else "F" for x in vals) + "}"
    return "L{" + "".join("O%s;" % lset_member(elem, x).hex() for x in vals) + "}"


def oer_quantity(n):
    b = n.to_bytes(max(1, (n.bit_length() + 7) // 8), "big")
    return bytes([len(b)]) + b


def oer_length(n):
    if n <= 127:
        return bytes([n])
    b = n.to_bytes((n.bit_length() + 7) // 8, "big")
    return bytes([0x80 | len(b)]) + b


def lset_coer(elem, fixed_size, vals):
    """OER of the list with the members in the order given (what SET_OF_encode_oer writes): the quantity, then
    INTEGER (0..255) = one octet, BOOLEAN = 00/ff, OCTET STRING = (length unless the size is fixed) octets"""
    out = [oer_quantity(len(vals))]
    for x in vals:
        if elem == "int":
            out.append(bytes([x]))
        elif elem == "bool":
            out.append(b"\xff" if x & 1 else b"\0")
        else:
            c = lset_member(elem, x)
            out.append(c if fixed_size else oer_length(len(c)) + c)
    return b"".join(out)


def par_lines(binary, batches, env=None, unlimited_stack=False, timeout=1500, workdir=None):
    """run several batches of command lines through separate processes of one line-protocol driver at the same
    time (files, no threads, no preexec_fn); returns a list of (rc, output lines, stderr tail) per batch"""
    import subprocess, tempfile, os
    d = tempfile.mkdtemp(prefix="c06par.", dir=workdir)
    procs = []
    for i, lines in enumerate(batches):
        fin, fout, ferr = (os.path.join(d, "%s%d" % (x, i)) for x in ("in", "out", "err"))
        with open(fin, "w") as f:
            f.write("\n".join(lines) + "\n")
        cmd = "%sexec '%s' < '%s' > '%s' 2> '%s'" % ("ulimit -s unlimited 2>/dev/null; " if unlimited_stack else "", binary, fin, fout, ferr)
        procs.append((fout, ferr, subprocess.Popen(["bash", "-c", cmd], env=env) if lines else None))
    res = []
    for fout, ferr, p in procs:
        if p is None:
            res.append((0, [], ""))
            continue
        rc = p.wait(timeout=timeout)
        out = open(fout, errors="replace").read().split("\n")
        if out and out[-1] == "":
            out.pop()
        res.append((rc, out, open(ferr, errors="replace").read()[-4000:]))
    import shutil
    shutil.rmtree(d, ignore_errors=True)
    return res


def spread(items, nproc, cost=lambda x: 1):
    """indices of items distributed over nproc batches, heaviest first"""
    order = sorted(range(len(items)), key=lambda i: -cost(items[i]))
    batches = [[] for _ in range(nproc)]
    load = [0] * nproc
    for i in order:
        j = load.index(min(load))
        batches[j].append(i)
        load[j] += cost(items[i])
    return [sorted(b) for b in batches]


# ---------------------------------------------------------------- DEFAULT in extension additions: types and groups

ENUM3 = "ENUMERATED { red(0), grn(1), blu(2) }"


def dmember(name, kind, default=None, optional=False, ext=False, con=None, grp=None):
    """kind: int | bool | enum;  default: python value or None;  con: (lo, hi) for int; grp: version-bracket number"""
    return {"name": name, "kind": kind, "default": default, "optional": optional, "ext": ext, "con": con, "grp": grp}


def dtype_text(tn, ms):
    parts, i, in_ext, cur_grp = [], 0, False, None
    for m in ms:
        t = {"int": "INTEGER", "bool": "BOOLEAN", "enum": ENUM3}[m["kind"]]
        if m["con"]:
            t += " (%d..%d)" % m["con"]
        if m["default"] is not None:
            d = m["default"]
            t += " DEFAULT " + ({True: "TRUE", False: "FALSE"}[d] if m["kind"] == "bool" else ("red", "grn", "blu")[d] if m["kind"] == "enum" else str(d))
        elif m["optional"]:
            t += " OPTIONAL"
        pre = ""
        if m["ext"] and not in_ext:
            pre = "..., "
            in_ext = True
        if m["grp"] != cur_grp:
            if cur_grp is not None:
                parts[-1] += " ]]"
            if m["grp"] is not None:
                pre += "[[ "
            cur_grp = m["grp"]
        parts.append(pre + "%s %s" % (m["name"], t))
    if cur_grp is not None:
        parts[-1] += " ]]"
    return "  %s ::= SEQUENCE { %s }" % (tn, ", ".join(parts))


def dvalue_octets(m, v, form=None):
    if m["kind"] == "bool":
        return (form or b"\xff") if v else b"\0"
    return int_octets(v)


def dnondefault(m, rng):
    """a value of the member different from its DEFAULT"""
    if m["kind"] == "bool":
        return not m["default"] if m["default"] is not None else rng.chance(1, 2)
    if m["kind"] == "enum":
        return rng.choice([x for x in (0, 1, 2) if x != m["default"]])
    lo, hi = m["con"] if m["con"] else (-70000, 70000)
    pool = [x for x in (lo, hi, 0, 1, 5, 6, 7, 127, 128, 255, 256, -1, -128, 300) if lo <= x <= hi and x != m["default"]]
    return rng.choice(pool)


def dgroups(tn, ms, rng, max_abs=6):
    """groups of BER inputs (AUTOMATIC TAGS: member i has the tag [i]) that denote one abstract value and differ in
    which components equal to their DEFAULT are spelled out.  The first input of a group spells none.
    -> (tn, kind, [inputs], info) with info = {"value":..., "ff": indices of inputs that write a DEFAULT TRUE as ff}"""
    dms = [i for i, m in enumerate(ms) if m["default"] is not None]
    # abstract values: every default-bearing member at its DEFAULT; exactly one away from it; all away; random mixes
    patterns = [frozenset()] + [frozenset([i]) for i in dms] + [frozenset(dms)]
    while len(patterns) < max_abs and len(dms) > 1:
        patterns.append(frozenset(i for i in dms if rng.chance(1, 2)))
    out, seen = [], set()
    for away in patterns:
        if away in seen:
            continue
        seen.add(away)
        val = {}
        for i, m in enumerate(ms):
            if m["default"] is not None:
                val[i] = dnondefault(m, rng) if i in away else m["default"]
            elif m["optional"]:
                val[i] = dnondefault(m, rng) if rng.chance(1, 2) else None
            else:
                val[i] = dnondefault(m, rng)
        at_default = [i for i in dms if i not in away]
        inputs, ff, descr, assign = [], set(), [], []
        subsets = [()]
        for r in range(1, len(at_default) + 1):
            subsets += list(itertools.combinations(at_default, r))
        for sub in subsets:
            for true_form in ((b"\x01", b"\xff") if any(ms[i]["kind"] == "bool" and ms[i]["default"] is True for i in sub) else (b"\x01",)):
                body = b""
                stored = {}
                for i, m in enumerate(ms):
                    v = val[i]
                    if v is None or (i in at_default and i not in sub):
                        continue
                    form = true_form if (m["kind"] == "bool" and i in sub) else None
                    body += ctx(i, dvalue_octets(m, v, form))
                    stored[i] = v
                assign.append(stored)
                if true_form == b"\xff":
                    ff.add(len(inputs))
                inputs.append(uni(16, body, True))
                descr.append("+".join(ms[i]["name"] for i in sub) or "-")
        ext_explicit = any(ms[i]["ext"] for i in at_default)
        kind = "default-ext" if ext_explicit else "default-root"
        if len(inputs) < 2:
            continue
        out.append((tn, kind, inputs, {"value": {ms[i]["name"]: val[i] for i in val}, "ff": ff, "spelled": descr, "assign": assign, "ms": ms}))
    return out


def dx_directed():
    """the directed types: a DEFAULT in an extension addition alone / with other additions / in version brackets /
    together with a root DEFAULT; DEFAULT 0 and FALSE (asn1c keeps those members inline) and others (pointer)"""
    z = dmember("z", "bool")
    return [
        ("X1", [z, dmember("j", "int", 7, ext=True, con=(0, 255))]),
        ("X2", [z, dmember("k", "int", 0, ext=True)]),
        ("X3", [z, dmember("f", "bool", False, ext=True), dmember("t", "bool", True, ext=True)]),
        ("X4", [z, dmember("a", "int", 5, ext=True), dmember("o", "int", optional=True, ext=True), dmember("e", "enum", 1, ext=True)]),
        ("X5", [z, dmember("a", "int", 5, ext=True, grp=1), dmember("b", "bool", False, ext=True, grp=1), dmember("c", "int", 3, ext=True, con=(0, 7))]),
        ("X6", [dmember("r", "int", 1), z, dmember("a", "int", 1, ext=True), dmember("m", "bool", ext=True, optional=True)]),
        ("X7", [dmember("r", "int", 0, con=(0, 255)), dmember("q", "bool", True), z, dmember("k", "int", 0, ext=True, con=(0, 255)), dmember("n", "int", -1, ext=True),
                dmember("e", "enum", 0, ext=True)]),
    ]


def dx_random(rng, i):
    ms = []
    for j in range(rng.below(3)):
        ms.append(dx_random_member(rng, "r%d" % j, False))
    ms.append(dmember("z", "bool"))
    for j in range(1 + rng.below(4)):
        ms.append(dx_random_member(rng, "x%d" % j, True))
    if not any(m["default"] is not None and m["ext"] for m in ms):
        ms.append(dmember("xd", "int", rng.choice([0, 1, 5, 255]), ext=True))
    return ("R%d" % i, ms)


def dx_random_member(rng, name, ext):
    kind = rng.choice(["int", "int", "cint", "bool", "enum"])
    what = rng.choice(["default", "default", "optional"])
    if kind == "cint":
        con = rng.choice([(0, 255), (0, 7), (-5, 5), (0, 65535), (1, 100)])
        d = rng.choice([con[0], con[1], (con[0] + con[1]) // 2]) if what == "default" else None
        return dmember(name, "int", d, optional=(what == "optional"), ext=ext, con=con)
    if kind == "int":
        d = rng.choice([0, 1, 5, -1, 127, 128, 300, -129]) if what == "default" else None
        return dmember(name, "int", d, optional=(what == "optional"), ext=ext)
    if kind == "bool":
        d = rng.chance(1, 2) if what == "default" else None
        return dmember(name, "bool", d, optional=(what == "optional"), ext=ext)
    d = rng.below(3) if what == "default" else None
    return dmember(name, "enum", d, optional=(what == "optional"), ext=ext)


def dx_module(types, name="D-DX"):
    return name + " DEFINITIONS AUTOMATIC TAGS ::= BEGIN\n" + "\n".join(dtype_text(tn, ms) for tn, ms in types) + "\nEND\n"


# ---------------------------------------------------------------- SET OF over members with different leading tags

SANY = """S-ANY DEFINITIONS AUTOMATIC TAGS ::= BEGIN
  TA   ::= SET OF ANY
  TX   ::= SET OF CHOICE { i INTEGER, s UTF8String, e ENUMERATED { a(0), b(1) }, b BIT STRING, n NULL, q SEQUENCE { x INTEGER OPTIONAL } }
  TY   ::= SET OF CHOICE { u INTEGER, a [APPLICATION 1] INTEGER, c [1] INTEGER, p [PRIVATE 1] INTEGER, h [PRIVATE 1000] INTEGER }
  TS   ::= SEQUENCE { n INTEGER, m SET OF ANY }
END
"""
SANY_TYPES = ["TA", "TX", "TY", "TS"]


def tl(tagbytes, content):
    return bytes(tagbytes) + len_octets(len(content)) + content


def sany_pools():
    """member TLVs per type: different classes, tag lengths, content lengths; members whose contents are prefixes of
    another's; first octets 0x80 and more apart"""
    any_pool = [tl([0x02], b"\x05"), tl([0x82], b"\x05"), tl([0xc1], b"\x05"), tl([0x80], b"\x05"), tl([0x04], b"\x00\x80"), tl([0x04], b"\x00"),
                tl([0x04], b""), tl([0x30], tl([0x02], b"\x01")), tl([0x9f, 0x1f], b"\x00"), tl([0xdf, 0x87, 0x68], b"\x05"), tl([0x02], b"\x00\x80"),
                tl([0x02], b"\x7f"), tl([0x41], b"\x05"), tl([0x0c], b"ab"), tl([0x0c], b"a"), tl([0x04], bytes(range(130))), tl([0x04], bytes(range(127)))]
    tx_pool = [ctx(0, b"\x05"), ctx(0, b"\x00\x80"), ctx(1, b"a"), ctx(1, b"ab"), ctx(1, b""), ctx(2, b"\x01"), ctx(3, b"\x04\xa0"), ctx(3, b"\x00"), ctx(4, b""),
               ctx(5, b"", True), ctx(5, ctx(0, b"\x07"), True), ctx(0, b"\x80"), ctx(1, b"\xc3\xa9")]
    ty_pool = [tl([0x02], b"\x05"), tl([0x41], b"\x05"), tl([0x81], b"\x05"), tl([0xc1], b"\x05"), tl([0xdf, 0x87, 0x68], b"\x05"), tl([0x02], b"\x00\x80"),
               tl([0x81], b"\x80"), tl([0xc1], b"\x01\x00"), tl([0x02], b"\x05")]
    return {"TA": any_pool, "TX": tx_pool, "TY": ty_pool}


def sany_groups(rng, tier):
    """(type, "setof-perm", [BER inputs = the same members in different orders], info)"""
    pools = sany_pools()
    out = []
    directed = {"TA": [[0, 1], [0, 1, 2], [0, 3, 2], [5, 6, 4], [8, 9, 0, 12], [13, 14], [15, 16, 6]],
                "TX": [[0, 1], [2, 3, 4], [7, 8, 9, 10], [0, 11]],
                "TY": [[0, 2], [0, 2, 3], [0, 1, 2, 3], [4, 3, 0], [5, 6, 7, 8]]}
    nrand = 3 if tier == "quick" else 12
    for tn, pool in pools.items():
        picks = [list(p) for p in directed[tn]]
        for _ in range(nrand):
            k = 2 + rng.below(6)
            picks.append([rng.below(len(pool)) for _ in range(k)])
        for p in picks:
            members = [pool[i] for i in p]
            if len(members) <= 3:
                orders = [list(q) for q in itertools.permutations(range(len(members)))]
            else:
                orders = [list(range(len(members))), list(reversed(range(len(members)))), list(range(1, len(members))) + [0]]
                for _ in range(3):
                    q = list(range(len(members)))
                    rng.shuffle(q)
                    orders.append(q)
            inputs = [uni(17, b"".join(members[i] for i in q), True) for q in orders]
            out.append((tn, "setof-perm", inputs, {"members": [m.hex() for m in members]}))
            if tn == "TA":
                out.append(("TS", "setof-perm", [uni(16, ctx(0, b"\x01") + ctx(1, b"".join(members[i] for i in q), True), True) for q in orders],
                            {"members": [m.hex() for m in members]}))
    return out


def dx_vstr(m, v):
    return ("T" if v else "F") if m["kind"] == "bool" else "I%d;" % v


def dx_model(ms):
    """(ety, dfl root, dfl adds) strings of ocaml/drv_c06.ml for a generated type: AUTOMATIC TAGS give member i the tag [i];
    an ENUMERATED { red(0), grn(1), blu(2) } is written as INTEGER (0..2) (same tag, same DER / UPER / OER octets)"""
    def tstr(i, m):
        tg = i * 4 + 2
        if m["kind"] == "bool":
            return "b%d" % tg
        if m["kind"] == "enum":
            return "i%d[0,2,0]" % tg
        lo, hi = m["con"] if m["con"] else ("*", "*")
        return "i%d[%s,%s,0]" % (tg, lo, hi)
    root = [(i, m) for i, m in enumerate(ms) if not m["ext"]]
    adds = [(i, m) for i, m in enumerate(ms) if m["ext"]]
    ety = "E64{%s}{%s}" % ("".join(("?" if (m["default"] is not None or m["optional"]) else "") + tstr(i, m) for i, m in root),
                            "".join(tstr(i, m) for i, m in adds))
    d = lambda part: "{" + "".join(dx_vstr(m, m["default"]) if m["default"] is not None else "_" for i, m in part) + "}"
    return ety, d(root), d(adds)


def dx_model_value(ms, stored):
    """the structure as stored: S{root members, then _ / !val per addition}"""
    out = []
    for i, m in enumerate(ms):
        omissible = m["ext"] or m["default"] is not None or m["optional"]
        if i in stored:
            out.append(("!" if omissible else "") + dx_vstr(m, stored[i]))
        else:
            out.append("_")
    return "S{" + "".join(out) + "}"


# ---------------------------------------------------------------- the fragment loop with a parameter (spec side, python)

def py_pad_key(bits):
    b = bits + "0" * (-len(bits) % 8)
    return bytes(int(b[i:i + 8], 2) for i in range(0, len(b), 8))


def py_len_det(n):
    return format(n, "08b") if n <= 127 else format(n + 32768, "016b")


def py_fragments(K, items, sort_each=False):
    """X.691 11.9 with the fragment unit K instead of 16K; items = bit strings; sort_each: every fragment sorted on its own"""
    srt = lambda l: sorted(l, key=py_pad_key)
    if not sort_each:
        items = srt(items)
    out = ""
    while True:
        n = len(items)
        if n < K:
            part = srt(items) if sort_each else items
            return out + py_len_det(n) + "".join(part)
        m = min(n // K, 4)
        part = items[:m * K]
        if sort_each:
            part = srt(part)
        out += format(192 + m, "08b") + "".join(part)
        items = items[m * K:]
