"""C09, nested extension markers: generator of SIZE-constraint expressions whose
OPERANDS carry markers of their own, and an independent Python oracle for the
X.680 extensibility / root of such set arithmetic.

Grammar facts (asn1c's asn1p_y.y, checked against the built asn1c):
  * a marker is only allowed in ElementSetSpecs, i.e. directly inside a
    Constraint "( ... )"; a parenthesised operand is '(' ElementSetSpec ')', so
    "(1..5 | (7..9,...))", "((1..5,...))", "(1..5, ... | 7)" are syntax errors:
    an INTEGER value constraint cannot have a nested marker; SIZE inside an
    INTEGER constraint is refused ("SizeConstraint is not applicable");
  * a SizeConstraint operand is "SIZE Constraint" and has its own marker:
    (SIZE(7..9) | SIZE(1..5,...)), ((SIZE(1..5,...)) ^ SIZE(2..9)),
    (SIZE(1..9,...) EXCEPT SIZE(3)), UNION / INTERSECTION spelled out,
    "SIZE((1..5) | (7..9),...)" (parentheses inside SIZE are marker-free);
    "SIZE((1..5,...))" and "SIZE(1..5)(2..3)" are syntax errors;
  * SEQUENCE/SET OF also accept the un-parenthesised "SEQUENCE SIZE(...) OF".

trees:  ness  ('S', spec) ('u',a,b) ('i',a,b) ('e',a,b) ('p',a)      spec as in checks/c09.py
        nspec ('r', n) ('x', n) ('a', n, n2);  link = [nspec];  chain = [link]

Oracle (X.680 (2002) 46.x and G.4.3 "set arithmetic with extensible sets";
clause 50 / G.4 in later editions — quoted from memory, there is no copy of the
standard on this machine): a union or intersection is extensible iff at least
one operand is; A EXCEPT B is extensible iff A is; the root of the result is
the operation on the roots; additions never contribute root values; a serially
applied constraint replaces the extensibility of its parent.  PER-visible
reading (X.691 10.3.19): "EXCEPT B" is dropped."""
import math

INF = math.inf

# ---------------------------------------------------------------- printing


def b_txt(b):
    return b if isinstance(b, str) else str(b)


def ess_txt(e):
    k = e[0]
    if k == 'v':
        return str(e[1])
    if k == 'g':
        return "%s..%s" % (b_txt(e[1]), b_txt(e[2]))
    if k == 'u':
        return "%s | %s" % (ess_txt(e[1]), ess_txt(e[2]))
    if k == 'i':
        return "%s ^ %s" % (ess_txt(e[1]), ess_txt(e[2]))
    if k == 'e':
        return "%s EXCEPT %s" % (ess_txt(e[1]), ess_txt(e[2]))
    if k == 'p':
        return "(%s)" % ess_txt(e[1])
    raise ValueError(k)


def ess_tok(e):
    k = e[0]
    if k == 'v':
        return "v %d" % e[1]
    if k == 'g':
        return "g %s %s" % (b_txt(e[1]), b_txt(e[2]))
    if k in 'uie':
        return "%s %s %s" % (k, ess_tok(e[1]), ess_tok(e[2]))
    return "%s %s" % (k, ess_tok(e[1]))


def spec_txt(s):
    if s[0] == 'r':
        return ess_txt(s[1])
    if s[0] == 'x':
        return ess_txt(s[1]) + ", ..."
    return "%s, ..., %s" % (ess_txt(s[1]), ess_txt(s[2]))


def spec_tok(s):
    return " ".join([s[0]] + [ess_tok(x) for x in s[1:]])


def ness_txt(n, words=False):
    k = n[0]
    if k == 'S':
        return "SIZE(%s)" % spec_txt(n[1])
    if k == 'p':
        return "(%s)" % ness_txt(n[1], words)
    op = {'u': " UNION " if words else " | ", 'i': " INTERSECTION " if words else " ^ ", 'e': " EXCEPT "}[k]
    return ness_txt(n[1], words) + op + ness_txt(n[2], words)


def ness_tok(n):
    k = n[0]
    if k == 'S':
        return "S " + spec_tok(n[1])
    if k == 'p':
        return "p " + ness_tok(n[1])
    return "%s %s %s" % (k, ness_tok(n[1]), ness_tok(n[2]))


def nspec_txt(s, words=False):
    if s[0] == 'r':
        return ness_txt(s[1], words)
    if s[0] == 'x':
        return ness_txt(s[1], words) + ", ..."
    return "%s, ..., %s" % (ness_txt(s[1], words), ness_txt(s[2], words))


def nspec_tok(s):
    return " ".join([s[0]] + [ness_tok(x) for x in s[1:]])


def nchain_tok(chain):
    return " ".join([str(len(chain))] + [" ".join([str(len(l))] + [nspec_tok(s) for s in l]) for l in chain])


BASE = {"O": "OCTET STRING", "B": "BIT STRING", "I": "IA5String", "M": "BMPString", "Q": "SEQUENCE %s OF INTEGER", "W": "SET %s OF INTEGER"}


def nlink_txt(link, words=False):
    return " ".join("(%s)" % nspec_txt(s, words) for s in link)


def ngroup_defs(kind, bare, name, chain, words=False):
    """ASN.1 definitions of one group; the last one is the type under test"""
    defs, prev = [], None
    for i, link in enumerate(chain):
        nm = name if i == len(chain) - 1 else "%sp%d" % (name, i)
        if prev is None:
            if kind in "QW":
                assert len(link) <= 1
                c = nlink_txt(link, words)
                if bare:
                    assert len(link) == 1 and link[0][0] == 'r' and link[0][1][0] == 'S'
                    c = ness_txt(link[0][1])
                defs.append("%s ::= %s" % (nm, BASE[kind] % c))
            else:
                defs.append(("%s ::= %s %s" % (nm, BASE[kind], nlink_txt(link, words))).rstrip())
        else:
            defs.append(("%s ::= %s %s" % (nm, prev, nlink_txt(link, words))).rstrip())
        prev = nm
    return defs


# smart constructors: add the parentheses the grammar needs (Unions > Intersections > EXCEPT > Elements)
def U(a, b):
    return ('u', a, ('p', b) if b[0] == 'u' else b)


def I(a, b):
    return ('i', ('p', a) if a[0] == 'u' else a, ('p', b) if b[0] in 'ui' else b)


def E(a, b):
    return ('e', ('p', a) if a[0] in 'uie' else a, ('p', b) if b[0] in 'uie' else b)


OPS = {'u': U, 'i': I, 'e': E}


def atom(lo, hi, mark=False, add=None):
    g = ('v', lo) if lo == hi and isinstance(lo, int) else ('g', lo, hi)
    if add is not None:
        return ('S', ('a', g, add))
    return ('S', ('x' if mark else 'r', g))


# ---------------------------------------------------------------- oracle


def mk(lo, hi):
    return [(lo, hi)] if lo <= hi and lo != INF and hi != -INF else []


def s_inter(s, t):
    out = []
    for a in s:
        for b in t:
            out += mk(max(a[0], b[0]), min(a[1], b[1]))
    return out


def s_norm(s):
    out = []
    for lo, hi in sorted(s):
        if out and lo <= out[-1][1] + 1:
            out[-1] = (out[-1][0], max(out[-1][1], hi))
        else:
            out.append((lo, hi))
    return out


def s_lb(s):
    return min([a for a, _ in s], default=INF)


def s_ub(s):
    return max([b for _, b in s], default=-INF)


def o_ess(P, e, qe):
    """root values (PER-visible reading) of an integer element set, relative to the parent set P"""
    k = e[0]
    if k == 'v':
        return mk(e[1], e[1])
    if k == 'g':
        lo = s_lb(P) if e[1] == "MIN" else s_ub(P) if e[1] == "MAX" else e[1]
        hi = s_lb(P) if e[2] == "MIN" else s_ub(P) if e[2] == "MAX" else e[2]
        return mk(lo, hi)
    if k == 'u':
        a = o_ess(P, e[1], qe)
        if qe and not a:
            return []
        return a + o_ess(P, e[2], qe)
    if k == 'i':
        return s_inter(o_ess(P, e[1], qe), o_ess(P, e[2], qe))
    if k == 'e':
        return o_ess(P, e[1], qe)
    if k == 'p':
        return o_ess(P, e[1], qe)
    raise ValueError(k)


def o_ness(P, n, kept, qa, qe):
    """-> (root set, extensible) of an element set over SIZE atoms (G.4)"""
    k = n[0]
    if k == 'S':
        s = n[1]
        r = o_ess(P, s[1], qe)
        if s[0] == 'a' and kept and qa:
            if not (qe and not r):
                r = r + o_ess(P, s[2], qe)
        return s_inter(P, r), s[0] != 'r'
    if k == 'p':
        return o_ness(P, n[1], kept, qa, qe)
    ra, xa = o_ness(P, n[1], kept, qa, qe)
    if k == 'e':
        return ra, xa
    rb, xb = o_ness(P, n[2], kept, qa, qe)
    if k == 'u':
        return ([] if (qe and not ra) else ra + rb), xa or xb
    return s_inter(ra, rb), xa or xb


def o_nspec(P, s, kept, qa, qe):
    r, x = o_ness(P, s[1], kept, qa, qe)
    if s[0] == 'a' and kept and qa and not (qe and not r):
        r = r + o_ness(P, s[2], kept, qa, qe)[0]
    return s_inter(P, r), (x or s[0] != 'r')


def oracle(chain, bare=False, quirks=""):
    """effective PER-visible size constraint of the chain: dict(root, ext, empty, vis, PER, OER).
    quirks: letters of the recorded deviations of asn1c applied to the Spec
      a  additions contribute to the root where the marker survives   (C09-additions-in-root)
      c  own non-last constraints of a referencing type keep markers  (C09-chain-marker-kept)
      e  a union whose first operand is empty is empty                (C09-empty-union-operand)
    (the un-parenthesised SEQUENCE SIZE(...) OF spelling, `bare`, has no reading of its own:
     C09-bare-size-marker-lost is repaired)"""
    qa, qc, qe = ('a' in quirks), ('c' in quirks), ('e' in quirks)
    links = [l for l in chain if l]
    P = [(0, INF)]
    ext = False
    for li, link in enumerate(links):
        lastlink = li == len(links) - 1
        all_kept = qc and lastlink and li > 0
        for si, s in enumerate(link):
            kept = lastlink and (si == len(link) - 1 or all_kept)
            P, x = o_nspec(P, s, kept, qa, qe)
            if kept:
                ext = (ext or x) if all_kept else x
            elif not all_kept:
                ext = False
    root = s_norm(P)
    anymark = any(has_marker(s) for l in chain for s in l)
    out = {"root": root, "ext": ext, "empty": not root, "anymark": anymark}

    def edge(z):
        return "MIN" if z == -INF else "MAX" if z == INF else str(z)
    body = "|".join(edge(a) if a == b else "%s..%s" % (edge(a), edge(b)) for a, b in root)
    out["vis"] = "(SIZE(%s%s))" % (body, ",..." if ext else "")
    if root:
        lb, ub = s_lb(root), s_ub(root)
        if ub == INF:
            out["PER"] = "S%s,-1,-1,%d,0" % ("X" if ext else "", lb)
        else:
            r = ub - lb + 1
            rb = (r - 1).bit_length()
            eb = rb if (r <= 65536 and ub < 65536) else -1
            out["PER"] = "C%s,%d,%d,%d,%d" % ("X" if ext else "", rb, eb, lb, ub)
        out["OER"] = "unclaimed" if anymark else str(lb if lb == ub else -1)
    else:
        out["PER"], out["OER"] = "-", "empty"
    return out


def has_marker(s):
    if s[0] != 'r':
        return True

    def nm(n):
        if n[0] == 'S':
            return n[1][0] != 'r'
        return any(nm(x) for x in n[1:])
    return nm(s[1])


def n_atoms(n):
    if n[0] == 'S':
        return 1
    return sum(n_atoms(x) for x in n[1:])


def n_depth(n):
    """nesting depth: 0 = a single SIZE atom, 1 = one level of operators, +1 per level of parentheses"""
    if n[0] == 'S':
        return 0
    if n[0] == 'p':
        return 1 + n_depth(n[1])
    return max(1, max(n_depth(x) for x in n[1:]))


def marker_mask(n):
    """which atoms (left to right) carry a marker"""
    if n[0] == 'S':
        return "1" if n[1][0] != 'r' else "0"
    return "".join(marker_mask(x) for x in n[1:])


# ---------------------------------------------------------------- generator

RANGES = [(1, 5), (7, 9), (3, 8), (0, 3), (5, 5), (6, 12), (2, "MAX"), ("MIN", 4), (10, 20)]


class NGen:
    def __init__(self, rng, universe):
        self.rng, self.U = rng, universe

    def inner(self, d):
        """integer element set inside SIZE( )"""
        r = self.rng
        if r.chance(1, 6):
            return ('v', r.choice(self.U))
        lo = "MIN" if r.chance(1, 8) else r.choice(self.U)
        hi = "MAX" if r.chance(1, 8) else r.choice(self.U)
        if isinstance(lo, int) and isinstance(hi, int) and lo > hi:
            lo, hi = hi, lo
        g = ('g', lo, hi)
        if d > 0 and r.chance(1, 5):
            return (r.choice("uui"), g, self.inner(0))
        return g

    def atom(self):
        k = self.rng.below(20)
        if k < 14:
            return ('S', ('r', self.inner(1)))
        if k < 19:
            return ('S', ('x', self.inner(1)))
        return ('S', ('a', self.inner(1), self.inner(0)))

    def elem(self, d):
        if d > 0 and self.rng.chance(1, 3):
            return ('p', self.unions(d - 1))
        return self.atom()

    def ie(self, d):
        e = self.elem(d)
        if self.rng.chance(1, 6):
            return ('e', e, self.elem(d))
        return e

    def inters(self, d):
        e = self.ie(d)
        for _ in range(self.rng.choice([0, 0, 0, 0, 1, 1, 2]) if d > 0 else self.rng.choice([0, 0, 0, 1])):
            e = ('i', e, self.ie(d))
        return e

    def unions(self, d):
        e = self.inters(d)
        for _ in range(self.rng.choice([0, 1, 1, 2])):
            e = ('u', e, self.inters(d))
        return e

    def nspec(self, d):
        k = self.rng.below(20)
        if k < 16:
            return ('r', self.unions(d))
        if k < 19:
            return ('x', self.unions(d))
        return ('a', self.unions(d), self.unions(0))


def directed(rng, tier):
    """-> list of (kind, bare, chain, origin, words).  Operand order x which operands carry
    a marker x operator x depth <= 3, for every SIZE-constrained kind."""
    out = []
    kinds = "OQIBWM"
    kc = [0]

    def kind():
        kc[0] += 1
        return kinds[kc[0] % len(kinds)]

    def add(chain, origin, k=None, bare=False, words=False):
        out.append((k or kind(), bare, chain, origin, words))

    full = tier != "quick"
    # two operands: operator x marker mask x order x top-level marker form
    pairs = [((1, 5), (7, 9)), ((1, 8), (3, 12)), ((0, 3), (4, 9)), ((2, "MAX"), (0, 6))]
    for (a, b) in (pairs if full else pairs[:3]):
        for op in "uie":
            for ma in (0, 1, 2):            # 2 = marker with an addition
                for mb in (0, 1, 2):
                    A = atom(a[0], a[1], ma == 1, ('v', 15) if ma == 2 else None)
                    B = atom(b[0], b[1], mb == 1, ('v', 17) if mb == 2 else None)
                    for (x, y) in ((A, B), (B, A)):
                        n = OPS[op](x, y)
                        tops = "rxa" if (full or (ma < 2 and mb < 2)) else "r"
                        for top in tops:
                            s = (top, n) if top != 'a' else ('a', n, atom(30, 31))
                            add([[s]], "nest-2op")
    # every kind once with the shape of the reported miss and its mirror image
    for k in kinds:
        add([[('r', U(atom(7, 9), atom(1, 5, True)))]], "nest-kind", k)
        add([[('r', U(atom(1, 5, True), atom(7, 9)))]], "nest-kind", k)
        add([[('r', I(atom(2, 9), atom(1, 5, True)))]], "nest-kind", k)
    add([[('r', U(atom(7, 9), atom(1, 5, True)))]], "nest-words", "O", words=True)
    add([[('r', I(atom(2, 9), atom(1, 5, True)))]], "nest-words", "Q", words=True)
    # three operands: all permutations x all marker masks, flat unions / intersections and mixed
    trip = [(1, 3), (5, 8), (10, 12)]
    perms = [(0, 1, 2), (0, 2, 1), (1, 0, 2), (1, 2, 0), (2, 0, 1), (2, 1, 0)]
    shapes = [lambda a, b, c: U(U(a, b), c), lambda a, b, c: U(a, ('p', U(b, c))),
              lambda a, b, c: U(a, I(b, c)),
              lambda a, b, c: I(('p', U(a, b)), c), lambda a, b, c: U(I(a, b), c),
              lambda a, b, c: U(E(a, b), c), lambda a, b, c: E(('p', U(a, b)), c),
              lambda a, b, c: U(a, ('p', E(b, c)))]
    wide = [(0, 9), (2, 12), (4, 20)]
    for si, sh in enumerate(shapes):
        base = trip if si in (0, 1) else wide
        for p in (perms if (full or si == 0) else perms[:3]):
            for mask in range(8):
                ats = [atom(base[p[j]][0], base[p[j]][1], bool(mask >> j & 1)) for j in range(3)]
                add([[('r', sh(*ats))]], "nest-3op")
    # depth 3: parentheses three deep, the marked atom at each position
    for pos in range(4):
        for op3 in "ui":
            ats = [atom(*r, mark=(j == pos)) for j, r in enumerate([(0, 9), (2, 12), (4, 20), (6, 30)])]
            n = OPS[op3](ats[3], ('p', OPS['i'](ats[2], ('p', U(ats[1], ('p', I(ats[0], atom(0, 40))))))))
            add([[('r', n)]], "nest-depth3")
            n = OPS[op3](('p', OPS['i'](('p', U(('p', I(atom(0, 40), ats[0])), ats[1])), ats[2])), ats[3])
            add([[('r', n)]], "nest-depth3")
    # an EMPTY operand (disjoint intersection) that carries the only marker: "ignore empty
    # constraints in OR logic" must still take its flag (second / third position; an empty
    # FIRST operand is the recorded deviation C09-empty-union-operand)
    for m1 in (False, True):
        for m2 in (False, True):
            emp = I(atom(1, 2, m1), atom(7, 8, m2))
            add([[('r', U(atom(1, 5), emp))]], "nest-empty-operand")
            add([[('r', U(U(atom(1, 5), emp), atom(9, 9)))]], "nest-empty-operand")
            add([[('r', U(U(atom(1, 5), atom(9, 9)), emp))]], "nest-empty-operand")
            add([[('r', U(atom(1, 5), ('p', U(atom(12, 13), emp))))]], "nest-empty-operand")
    # serial application and reference chains: the nested marker in the last / a non-last constraint
    for order in (0, 1):
        A, B = atom(1, 5, True), atom(7, 9)
        n = U(A, B) if order == 0 else U(B, A)
        par = ('r', atom(0, 20))
        child = ('r', atom(1, 8))
        for k in "OQI":
            add([[par, ('r', n)]] if k != "Q" else [[par], [('r', n)]], "nest-serial", k)      # marker in the last: kept
            add([[('r', n), child]] if k != "Q" else [[('r', n)], [child]], "nest-serial", k)  # not last: dropped
            add([[par], [('r', n)]], "nest-chain", k)
            add([[('r', n)], [child]], "nest-chain", k)
            add([[('r', n)], []], "nest-chain", k)
            add([[('x', atom(0, 30))], [('r', n)]], "nest-chain", k)
    # the un-parenthesised SEQUENCE SIZE(...) OF spelling
    for k in "QW":
        add([[('r', atom(1, 10))]], "nest-bare", k, bare=True)
        add([[('r', atom(1, 10, True))]], "nest-bare", k, bare=True)
        add([[('r', atom(1, 10, add=('v', 20)))]], "nest-bare", k, bare=True)
        add([[('r', atom(1, 10, True))], []], "nest-bare", k, bare=True)
    add([[('r', atom(1, 10))], [('r', atom(2, 3))]], "nest-bare-child", "Q", bare=True)
    return out


def make_nested(rng, tier):
    cases = directed(rng, tier)
    nrand = {"quick": 500, "thorough": 8000}[tier]
    small = NGen(rng, [0, 1, 2, 3, 5, 9, 10])
    big = NGen(rng, [0, 1, 2, 127, 128, 255, 256, 16383, 16384, 65535, 65536, 65537, 2**31 - 1, 2**32])
    kinds = "OOQIBWM"
    for i in range(nrand):
        g = big if i % 5 == 4 else small
        kind = rng.choice(kinds)
        d = rng.choice([0, 1, 1, 2, 2])
        form = rng.below(10)
        if form < 6:
            chain = [[g.nspec(d)]]
        elif form < 8:
            chain = [[g.nspec(d)], [g.nspec(max(d - 1, 0))]] if kind in "QW" else [[g.nspec(d), g.nspec(max(d - 1, 0))]]
        elif form < 9:
            chain = [[g.nspec(d)], [g.nspec(max(d - 1, 0))]]
        else:
            chain = [[g.nspec(d)], []]
        cases.append((kind, False, chain, "nest-random", rng.chance(1, 12)))
    return cases
