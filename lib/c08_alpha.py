"""c08_alpha — C08's permitted-alphabet dimension (module `MA0`).

Region (closed after seeded change C08-5 was missed): FROM constraints as a SWEPT dimension, tied to
the Coq model coq/Rt/Alphabet.v, not only to a Python oracle over a handful of alphabets:
  * alphabets = unions of ranges and single characters whose lowest / highest code, or whose hole, sits at
    a row boundary of the emitted table (16k-1, 16k, 16k+1 for every k the type's repertoire reaches) and at
    0x00/0x01, 0x7e/0x7f/0x80/0x81, 0xfe/0xff (table vs range-comparison paths, uint8 / 16-bit / 32-bit units);
    holed (table) and contiguous (range comparisons), single characters, the full built-in repertoire;
    written as ranges, in reversed order, or as one multi-character cstring;
  * for every string type asn1c builds a permitted-alphabet checker for: IA5String, VisibleString,
    PrintableString, NumericString, BMPString, UniversalString, UTF8String and the not-known-multiplier
    one-octet types GeneralString, GraphicString, T61String, TeletexString, VideotexString, ObjectDescriptor
    (ISO646String aborts the compiler: finding C10-iso646string-assert);
  * with and without SIZE; at member level (SEQUENCE member, CHOICE alternative, SEQUENCE OF element three
    levels down), at type level, and through references (plain, with an added SIZE, with an added FROM =
    intersection, as a member type);
  * values: strings that contain exactly the lowest, the highest, both edges of every hole, their outside
    neighbours, 0x7f/0x80/0xff/0x100/0xffff, in first / middle / last position; SIZE edges; odd octet counts.
A byte >= 0x80 inside a cstring is read by asn1c as the character with that code (there is no other way to
write such a character: tuple / quadruple notation is refused by the lexer); the oracle takes the same reading.

Three comparisons:
  1. the emitted text (`permitted_alphabet_table_N[]`, `permitted_alphabet_code2value_N[]`, the loop of
     `check_permitted_alphabet_N`) is parsed and compared with the extracted model (`c08atab`);
  2. the parsed table is evaluated against the alphabet computed here, independently: cell != 0 <=> member, cell = rank,
     whole rows of 16, code2value = the sorted members;
  3. asn_check_constraints on the values against the model (`c08achk` + the SIZE model) and against the Spec."""
import os, re, subprocess
from c08_util import tlv, in_parts, parts_text, PRINTABLE, NUMERIC, VISIBLE, IA5

# base type -> (universal tag, unit kind for the model, built-in repertoire as asn1c's default alphabet, known-multiplier?)
ALL8 = set(range(0, 256))
TYPES = {
    "IA5String": (22, "1", IA5, True),
    "VisibleString": (26, "1", VISIBLE, True),
    "PrintableString": (19, "1", PRINTABLE, True),
    "NumericString": (18, "1", NUMERIC, True),
    "BMPString": (30, "2", ALL8, True),              # alphabets above 0xff cannot be written; values can be
    "UniversalString": (28, "4", ALL8, True),
    "UTF8String": (12, "u", set(range(0, 128)), False),
    "GeneralString": (27, "1", ALL8, False),
    "GraphicString": (25, "1", ALL8, False),
    "T61String": (20, "1", ALL8, False),
    "TeletexString": (20, "1", ALL8, False),
    "VideotexString": (21, "1", ALL8, False),
    "ObjectDescriptor": (7, "1", ALL8, False),
}
UNIT_MAX = {"1": 0xff, "2": 0xffff, "4": 0xffffffff, "u": 0x10ffff}
# characters that cannot (', asn1c's lexer) or should not (white space that X.680 strips from a cstring) be written
UNWRITABLE = set([0x27, 0x09, 0x0a, 0x0b, 0x0c, 0x0d])


def canon(runs):
    """sorted, disjoint, non-adjacent intervals of a union of intervals"""
    out = []
    for a, b in sorted(runs):
        if out and a <= out[-1][1] + 1:
            out[-1] = (out[-1][0], max(out[-1][1], b))
        else:
            out.append((a, b))
    return out


def members(runs):
    s = set()
    for a, b in runs:
        s.update(range(a, b + 1))
    return s


def runs_of(s):
    return canon([(c, c) for c in s])


def q(c):
    return '"%s"' % ('""' if c == 0x22 else chr(c))


def alpha_text(runs, style):
    """FROM(...) text of the union of `runs` (as written: order kept)"""
    if style == "charset":
        cs = [c for a, b in runs for c in range(a, b + 1)]
        return 'FROM("%s")' % "".join('""' if c == 0x22 else chr(c) for c in cs)
    if style == "reversed":
        runs = list(reversed(runs))
    return "FROM(%s)" % " | ".join(q(a) if a == b else "%s..%s" % (q(a), q(b)) for a, b in runs)


def alpha_s(cn):
    return ",".join("%d:%d" % r for r in cn)


class Site:
    """one string type with a permitted alphabet (and maybe a SIZE), usable inline"""

    def __init__(self, sid, base, runs, size, style, why):
        self.id, self.base, self.runs, self.size, self.style, self.why = sid, base, list(runs), list(size), style, why
        self.tag, self.kind, self.builtin, self.km = TYPES[base]
        self.set = members(runs)
        self.canon = canon(runs)
        cs = []
        if size:
            cs.append("SIZE(%s)" % parts_text(size))
        cs.append(alpha_text(runs, style))
        self.text = "%s (%s)" % (base, " ^ ".join(cs))
        self.got_size = bool(size) and size != [(0, None)]

    def derived(self, sid, size=None, sub=None):
        """the same type seen through a reference that adds SIZE / FROM (intersection)"""
        s = Site.__new__(Site)
        s.__dict__.update(self.__dict__)
        s.id = sid
        if size is not None:                              # only used on sites without a SIZE of their own
            s.size = list(size)
            s.got_size = True
        if sub is not None:
            s.set = self.set & members(sub)
            s.canon = runs_of(s.set)
        return s


def boundary_codes(dom):
    s = set()
    for k in range(0, 17):
        s.update([16 * k - 1, 16 * k, 16 * k + 1])
    s.update([0, 1, 0x7e, 0x7f, 0x80, 0x81, 0xfe, 0xff])
    return sorted(c for c in s if c in dom)


def run_in(dom, a, b):
    return a <= b and all(c in dom for c in range(a, b + 1))


def shapes_for(dom, t):
    """alphabets (lists of runs) around the boundary code t inside the writable repertoire dom:
    [(shape name, runs)]"""
    lo, hi = min(dom), max(dom)
    out = []

    def below(limit, n=2):
        # a run of n codes inside dom that ends at least two below `limit`
        for x in range(limit - 2 - n, lo - 1, -1):
            if run_in(dom, x, x + n - 1):
                return (x, x + n - 1)
        return None

    def above(limit, n=2):
        for x in range(limit + 2, hi - n + 2):
            if run_in(dom, x, x + n - 1):
                return (x, x + n - 1)
        return None
    b = below(t, 3) or below(t, 1)
    a = above(t, 2) or above(t, 1)
    if b:
        out.append(("top-single", [b, (t, t)]))                        # table; the highest code alone in its run
        if run_in(dom, t - 2, t) and b[1] < t - 3:
            out.append(("top-run", [b, (t - 2, t)]))
    if a:
        out.append(("bottom-single", [(t, t), a]))                     # table; the lowest code
    if run_in(dom, t - 3, t):
        out.append(("contig-top", [(t - 3, t)]))                       # range comparisons
    if run_in(dom, t, t + 3):
        out.append(("contig-bottom", [(t, t + 3)]))
    if run_in(dom, t - 2, t - 1) and run_in(dom, t + 1, t + 2):
        out.append(("hole", [(t - 2, t - 1), (t + 1, t + 2)]))         # the hole is exactly t
    out.append(("single", [(t, t)]))
    return out


SIZES = [[], [(1, 4)], [], [(0, 3)], [], [(2, 2)], [], [(1, None)], [], [(0, 0), (2, 3)]]
STYLES = ["ranges", "ranges", "reversed", "charset"]


MINOR = ("GraphicString", "T61String", "TeletexString", "VideotexString", "ObjectDescriptor")
MAIN_SHAPES = ("top-single", "bottom-single", "contig-top")


def plan(rng, tier):
    """the member-level sites.  Quick: for every type every multiple of 16 of its repertoire as the highest code of a
    holed alphabet (table), as the lowest code, and as the end of a contiguous one (range comparisons); the codes
    0/1, 0x7e..0x81, 0xfe/0xff likewise; 16k-1 and 16k+1 and the remaining shapes for a seeded third of the k's; the
    five rarely used one-octet types share the k's among them.  Thorough: everything."""
    sites, n = [], 0
    off = rng.below(3)
    for base, (tag, kind, builtin, km) in TYPES.items():
        dom = set(builtin) - UNWRITABLE
        minor = MINOR.index(base) if base in MINOR else None
        for t in boundary_codes(dom):
            row = (t + 1) // 16
            special = t in (0, 1, 0x7e, 0x7f, 0x80, 0x81, 0xfe, 0xff, max(dom), min(dom))
            mult = t % 16 == 0
            for shape, runs in shapes_for(dom, t):
                n += 1
                if tier == "quick":
                    if minor is not None and row % len(MINOR) != minor:
                        continue
                    if mult or special:
                        if not (shape in ("top-single", "contig-top") or (shape == "bottom-single" and (row + off) % 2 == 0)
                                or (shape == "hole" and (row + off) % 3 == 0)):
                            continue
                    elif (row + off) % 3 or shape != "top-single":
                        continue
                elif minor is not None and row % len(MINOR) != minor and not (mult and shape in MAIN_SHAPES):
                    continue
                if base == "UTF8String" and shape in ("contig-top", "contig-bottom", "single") and row % 2:
                    continue                         # not checked at all (known finding): a sample is enough
                size = SIZES[n % len(SIZES)]
                style = STYLES[n % len(STYLES)]
                if style == "charset" and not (2 <= len(members(runs)) <= 10):
                    style = "ranges"
                sites.append(Site("a%d" % len(sites), base, runs, size, style, "%s@%02x" % (shape, t)))
        # the whole built-in repertoire, and a union whose pieces touch (canonicalised into one range)
        full = runs_of(dom)
        if len(full) == 1:
            sites.append(Site("a%d" % len(sites), base, full, [], "ranges", "full"))
        m = sorted(dom)[len(dom) // 2]
        if run_in(dom, m - 3, m + 3):
            sites.append(Site("a%d" % len(sites), base, [(m - 3, m), (m + 1, m + 3)], [(1, 3)], "ranges", "adjacent"))
    # UTF8String alphabets reaching 0x80 and beyond: no table (max_table_size 128), nothing checked (known finding)
    for i, runs in enumerate([[(0x61, 0x61), (0x80, 0x80)], [(0x7f, 0x7f), (0x81, 0x82)], [(0x41, 0x43), (0xff, 0xff)], [(0x70, 0x7f), (0x80, 0x8f)]]):
        sites.append(Site("a%d" % len(sites), "UTF8String", runs, SIZES[i % 2 * 3], "ranges", "utf8-high"))
    # random alphabets: 2..5 runs anywhere in the repertoire
    nrand = 24 if tier == "quick" else 120
    bases = list(TYPES)
    for i in range(nrand):
        base = bases[rng.below(len(bases))]
        dom = sorted(set(TYPES[base][2]) - UNWRITABLE)
        runs = []
        for _ in range(rng.range(2, 5)):
            a = dom[rng.below(len(dom))]
            b = a + rng.range(0, 5)
            if run_in(set(dom), a, b):
                runs.append((a, b))
        if not runs:
            continue
        sites.append(Site("a%d" % len(sites), base, runs, SIZES[i % len(SIZES)], "ranges", "random"))
    return sites


# ---------------------------------------------------------------- values
def enc_units(kind, cps):
    if kind == "u":
        return "".join(chr(c) for c in cps).encode("utf-8")
    w = {"1": 1, "2": 2, "4": 4}[kind]
    return b"".join(c.to_bytes(w, "big") for c in cps)


def model_units(kind, cps):
    return list(enc_units("u", cps)) if kind == "u" else list(cps)


def site_values(site, rng, full=True):
    """[(label, code points)]: around every edge of the alphabet and of the SIZE"""
    S, kind = site.set, site.kind
    umax = UNIT_MAX[kind]
    pool = sorted(S)
    if not pool:
        return [("empty", [])]
    cn = site.canon
    lo, hi = cn[0][0], cn[-1][1]
    good_lens = [n for n in (1, 2, 3, 4, 5) if not site.size or in_parts(site.size, n)] or [1]
    n3 = max(good_lens) if max(good_lens) <= 3 else 3
    out, seen = [], set()

    def add(label, cps):
        key = tuple(cps)
        if key in seen or any(c < 0 or c > umax or 0xd800 <= c <= 0xdfff for c in cps):
            return
        seen.add(key)
        out.append((label, list(cps)))

    def fill(n):
        return [pool[rng.below(len(pool))] for _ in range(n)]
    # exactly the lowest / the highest / both
    add("lowest", [lo])
    add("highest", [hi])
    add("lowest+highest", [lo, hi] if 2 in good_lens or not site.size else [lo])
    for pos in range(n3):
        v = fill(n3)
        v[pos] = hi
        add("highest@%d/%d" % (pos, n3), v)
        v = fill(n3)
        v[pos] = lo
        add("lowest@%d/%d" % (pos, n3), v)
    cand = set([lo - 1, lo + 1, hi - 1, hi + 1])
    for (a1, b1), (a2, b2) in zip(cn, cn[1:]):
        cand.update([b1, b1 + 1, a2 - 1, a2])                   # both edges of the hole and the members next to it
    cand.update([0, 0x7f, 0x80, 0xff, 0x100, 0xffff, 0x10000])
    for k, c in enumerate(sorted(cand)):
        n = good_lens[k % len(good_lens)] if full else good_lens[0]
        n = min(n, 4)
        pos = [0, n // 2, n - 1][k % 3]
        v = fill(n)
        v[pos] = c
        add("char:%x@%d/%d" % (c, pos, n), v)
        if n != 1 and 1 in good_lens and c in (lo - 1, hi + 1):
            add("char:%x alone" % c, [c])
    # SIZE edges with permitted characters only
    lens = set([0])
    for a, b in site.size or []:
        lens.update([max(a - 1, 0), a, a + 1] + ([b, b + 1] if b is not None else [a + 3]))
    for n in sorted(lens):
        if n <= 8:
            add("len:%d" % n, fill(n))
    return out


def judge(site, cps):
    bad = []
    if site.size and not in_parts(site.size, len(cps)):
        bad.append("size")
    if any(c not in site.set for c in cps):
        bad.append("from")
    return bad


def utf8_unchecked(site):
    """the predicate of finding C08-utf8-from-unchecked: a UTF8String alphabet that is not compiled into a table"""
    return site.base == "UTF8String" and (len(site.canon) == 1 or site.canon[-1][1] >= 0x80)


def prim(site, cps):
    return tlv(site.tag * 4, False, enc_units(site.kind, cps))


def retag(der, n):
    assert n < 31
    return bytes([(der[0] & 0x20) | 0x80 | n]) + der[1:]


# ---------------------------------------------------------------- the module
def alpha_module(rng, tier, name="MA0"):
    """-> (module dict, sites by id, cases).  case: tn, site id, label, der (hex), units (model), nchars, bad, known, what, text"""
    sites = plan(rng, tier)
    lines = ["%s DEFINITIONS AUTOMATIC TAGS ::= BEGIN" % name]
    defs, cases, where = [], [], {}      # where: site id -> [(type name whose .c file holds the checker, function name regex)]
    by_id = {}

    def case(tn, site, label, der, cps, text, odd=False):
        bad = judge(site, cps) + (["octets"] if odd else [])
        known = "C08-utf8-from-unchecked" if (bad == ["from"] and utf8_unchecked(site)) else None
        cases.append({"tn": tn, "sid": site.id, "label": label.split(":")[0].split("@")[0], "der": der.hex(), "units": None if odd else model_units(site.kind, cps),
                      "nchars": len(cps), "bad": bad, "known": known, "what": "%s [%s] %s %s" % (site.text, site.why, label, cps), "text": text})

    def define(tn, text):
        lines.append("  %s ::= %s" % (tn, text))
        defs.append((tn, None))
        return "%s ::= %s" % (tn, text)

    G = 8
    # (1) member level: SEQUENCE of G sites; the other members hold a valid value
    for gi in range(0, len(sites), G):
        g = sites[gi:gi + G]
        tn = "AS%d" % (gi // G)
        text = define(tn, "SEQUENCE { %s }" % ", ".join("%s %s" % (s.id, s.text) for s in g))
        valid = []
        for s in g:
            by_id[s.id] = s
            where[s.id] = (tn, r"memb_%s_constraint_\d+" % s.id)
            ok = [v for _l, v in site_values(s, rng, False) if not judge(s, v)]
            valid.append(prim(s, ok[0]) if ok else None)
        for j, s in enumerate(g):
            if any(v is None for v in valid):
                continue
            for label, cps in site_values(s, rng):
                body = b"".join(retag(prim(s, cps) if k == j else valid[k], k) for k in range(len(g)))
                case(tn, s, label, tlv(16 * 4, True, body), cps, text[:1200])
            if s.kind in ("2", "4"):
                # an octet count that is not a multiple of the unit: not a string of this type at all (refused before the loop)
                ok = [v for _l, v in site_values(s, rng, False) if not judge(s, v) and v][:1]
                for v in ok:
                    for extra in (1, int(s.kind) - 1):
                        der = tlv(s.tag * 4, False, enc_units(s.kind, v) + bytes([sorted(s.set)[0]] * extra))
                        body = b"".join(retag(der if k == j else valid[k], k) for k in range(len(g)))
                        case(tn, s, "odd:%d" % extra, tlv(16 * 4, True, body), v, text[:1200], odd=True)
    # (2) type level + references: the sites whose top or bottom code is a multiple of 16, around 0x7f/0x80/0xff, and a share
    pick = [s for s in sites if any(x in s.why for x in ("top-single", "bottom-single", "contig-top", "hole", "random", "full"))]
    chosen, seen = [], set()
    for s in pick:
        t = s.canon[-1][1] if "top" in s.why else s.canon[0][0]
        key = (s.base, s.why.split("@")[0], t % 16 == 0, t >= 0x7f)
        if key in seen:
            continue
        seen.add(key)
        chosen.append(s)
    if tier == "quick":
        chosen = [s for i, s in enumerate(chosen) if (s.canon[-1][1] % 16 == 0 and "top" in s.why) or i % 3 == 0]
    tsites = []
    for i, s in enumerate(chosen):
        t = s.derived("AT%d" % i)
        text = define(t.id, s.text)
        by_id[t.id] = t
        where[t.id] = (t.id, r"%s_constraint" % t.id)
        tsites.append(t)
        for label, cps in site_values(t, rng):
            case(t.id, t, label, prim(t, cps), cps, text)
        if i % 3 == 0:                                   # plain reference
            r = t.derived("AR%d" % i)
            text = define(r.id, t.id)
            by_id[r.id] = r
            where[r.id] = (r.id, r"%s_constraint" % r.id)
            for label, cps in site_values(r, rng):
                case(r.id, r, label, prim(r, cps), cps, text + "  -- " + s.text)
        if i % 3 == 1 and not s.size:                    # reference + SIZE
            r = t.derived("AQ%d" % i, size=[(1, 3)])
            text = define(r.id, "%s (SIZE(1..3))" % t.id)
            by_id[r.id] = r
            where[r.id] = (r.id, r"%s_constraint" % r.id)
            for label, cps in site_values(r, rng):
                case(r.id, r, label, prim(r, cps), cps, text + "  -- " + s.text)
        if i % 3 == 2 and len(s.set) >= 3:               # reference + FROM: the intersection keeps the highest and the lowest code
            lo, hi = s.canon[0][0], s.canon[-1][1]
            drop = sorted(s.set)[len(s.set) // 2]
            sub = runs_of(s.set - set([drop]))
            if drop not in (lo, hi):
                r = t.derived("AI%d" % i, sub=sub)
                text = define(r.id, "%s (%s)" % (t.id, alpha_text(sub, "ranges")))
                by_id[r.id] = r
                where[r.id] = (r.id, r"%s_constraint" % r.id)
                for label, cps in site_values(r, rng):
                    case(r.id, r, label, prim(r, cps), cps, text + "  -- " + s.text)
    # (3) CHOICE alternative / SEQUENCE OF CHOICE three levels down / member whose type is a reference (with and without SIZE)
    deep = [s for s in sites if "top-single" in s.why and s.canon[-1][1] % 16 == 0]
    if tier == "quick":
        deep = deep[rng.below(4)::4]
    for gi in range(0, len(deep), 6):
        g = deep[gi:gi + 6]
        i = gi // 6
        alts = [s.derived("c%dx%d" % (i, j)) for j, s in enumerate(g)]
        tn = "AC%d" % i
        text = define(tn, "CHOICE { %s }" % ", ".join("%s %s" % (a.id, s.text) for a, s in zip(alts, g)))
        for j, a in enumerate(alts):
            by_id[a.id] = a
            where[a.id] = (tn, r"memb_%s_constraint_\d+" % a.id)
            for label, cps in site_values(a, rng, False)[:12]:
                case(tn, a, "choice-alt:" + label, retag(prim(a, cps), j), cps, text[:1200])
        alts = [s.derived("d%dx%d" % (i, j)) for j, s in enumerate(g)]
        tn = "AD%d" % i
        text = define(tn, "SEQUENCE { d%dl SEQUENCE OF CHOICE { %s } }" % (i, ", ".join("%s %s" % (a.id, s.text) for a, s in zip(alts, g))))
        for j, a in enumerate(alts):
            by_id[a.id] = a
            where[a.id] = (tn, r"memb_%s_constraint_\d+" % a.id)
            ok = [v for _l, v in site_values(a, rng, False) if not judge(a, v)][0]
            for k, (label, cps) in enumerate(site_values(a, rng, False)[:10]):
                items = [retag(prim(a, cps), j), retag(prim(a, ok), j)]
                if k % 2:
                    items.reverse()
                case(tn, a, "deep:" + label, tlv(16 * 4, True, tlv(2, True, b"".join(items))), cps, text[:1200])
    for gi in range(0, len(tsites), 4):
        g = [t for t in tsites[gi:gi + 4]]
        i = gi // 4
        tn = "AM%d" % i
        ms, msites = [], []
        for j, t in enumerate(g):
            if j % 2 == 0 or t.size:
                a = t.derived("m%dx%d" % (i, j))
                ms.append("%s %s" % (a.id, t.id))
                where[a.id] = (t.id, r"%s_constraint" % t.id)       # no member checker: the referenced type's
            else:
                a = t.derived("m%dx%d" % (i, j), size=[(1, 2)])
                ms.append("%s %s (SIZE(1..2))" % (a.id, t.id))
                where[a.id] = (tn, r"memb_%s_constraint_\d+" % a.id)
            by_id[a.id] = a
            msites.append(a)
        text = define(tn, "SEQUENCE { %s }" % ", ".join(ms))
        valid = [prim(a, [v for _l, v in site_values(a, rng, False) if not judge(a, v)][0]) for a in msites]
        for j, a in enumerate(msites):
            for label, cps in site_values(a, rng, False)[:12]:
                body = b"".join(retag(prim(a, cps) if k == j else valid[k], k) for k in range(len(msites)))
                case(tn, a, "ref-member:" + label, tlv(16 * 4, True, body), cps, text[:1200])
    lines.append("END")
    text = "\n".join(lines) + "\n"
    m = {"name": name, "default": "AUTOMATIC", "defs": defs, "text": text, "latin1": True,
         "names": sorted(set(re.findall(r"[A-Za-z][A-Za-z0-9-]*", text)))}
    return m, by_id, where, cases


# ---------------------------------------------------------------- building a module whose text has bytes >= 0x80
def build_latin1(build_modules, mods, **kw):
    """lib/modbuild.gen_code writes the module text in the locale's encoding; a module with raw octets in its
    cstrings has to be written as Latin-1.  The shared function is wrapped, not edited."""
    import modbuild

    orig = modbuild.gen_code

    def gen_code(asn1c, skel, mod, outdir, opts=("-fcompound-names",)):
        if not mod.get("latin1"):
            return orig(asn1c, skel, mod, outdir, opts)
        os.makedirs(outdir, exist_ok=True)
        open(os.path.join(outdir, mod["name"] + ".asn1"), "wb").write(mod["text"].encode("latin-1"))
        cmd = [asn1c, "-S", skel, "-R"] + list(opts) + [mod["name"] + ".asn1"]
        p = subprocess.run(cmd, cwd=outdir, stdout=subprocess.PIPE, stderr=subprocess.STDOUT, text=True, errors="replace", timeout=120)
        cs = sorted(f for f in os.listdir(outdir) if f.endswith(".c"))
        return p.returncode, p.stdout, cs
    modbuild.gen_code = gen_code
    try:
        return build_modules(mods, **kw)
    finally:
        modbuild.gen_code = orig


# ---------------------------------------------------------------- parsing what asn1c emitted
def _ints(body):
    body = re.sub(r"/\*.*?\*/", "", body, flags=re.S)
    return [int(x) for x in body.replace("\n", " ").split(",") if x.strip()]


def _cmp(text):
    """one interval's comparison text -> the model's notation"""
    t = text.strip()
    m = re.fullmatch(r"cv >= (\d+) && cv <= (\d+)", t)
    if m:
        return "bt:%s:%s" % m.groups()
    m = re.fullmatch(r"cv (<=|>=|==) (\d+)", t)
    if m:
        return {"<=": "le", ">=": "ge", "==": "eq"}[m.group(1)] + ":" + m.group(2)
    return "?" + t


def parse_emitted(cfile, fn_regex):
    """what the checker function matching fn_regex in cfile does about the permitted alphabet:
    {'mode': TABLE|RANGE|UTF8LEN|NONE|MISSING, 'size', 'cells', 'card', 'c2v', 'text', 'unit', 'guard'}"""
    try:
        src = open(cfile, errors="replace").read()
    except OSError:
        return {"mode": "MISSING", "why": "no file " + os.path.basename(cfile)}
    m = re.search(r"^(%s)\(const asn_TYPE_descriptor_t \*td.*?^}" % fn_regex, src, re.S | re.M)
    if not m:
        return {"mode": "MISSING", "why": "no function " + fn_regex}
    body = m.group(0)
    c = re.search(r"check_permitted_alphabet_(\d+)\(", body)
    if not c:
        return {"mode": "NONE"}
    n = c.group(1)
    f = re.search(r"static int check_permitted_alphabet_%s\(const void \*sptr\) \{(.*?)^}" % n, src, re.S | re.M)
    if not f:
        return {"mode": "MISSING", "why": "no check_permitted_alphabet_" + n}
    fb = f.group(1)
    out = {"index": n}
    if "uint32_t cv" in fb:
        out["unit"] = "4" if "st->size % 4" in fb else "4?"
    elif "uint16_t cv" in fb:
        out["unit"] = "2" if "st->size % 2" in fb else "2?"
    elif "uint8_t cv" in fb:
        out["unit"] = "1"
    if "UTF8String_length" in fb:
        out["mode"] = "UTF8LEN"
        return out
    if "permitted_alphabet_table_%s;" % n in fb:
        out["mode"] = "TABLE"
        out["guard"] = "255" if "if(cv > 255) return -1;" in fb else "128" if "if(cv >= 0x80) return -1;" in fb else "-"
        if "if(!table[cv]) return -1;" not in fb:
            out["mode"] = "MISSING"
            out["why"] = "table loop without lookup"
        t = re.search(r"static const int permitted_alphabet_table_%s\[(\d+)\] = \{(.*?)\};" % n, src, re.S)
        if not t:
            return {"mode": "MISSING", "why": "no table " + n}
        out["size"], out["cells"] = int(t.group(1)), _ints(t.group(2))
        v = re.search(r"static const int permitted_alphabet_code2value_%s\[(\d+)\] = \{(.*?)\};" % n, src, re.S)
        if v:
            out["card"], out["c2v"] = int(v.group(1)), _ints(v.group(2))
        return out
    r = re.search(r"if\(!\((.*)\)\) return -1;", fb)
    if r:
        txt = r.group(1)
        parts = [p for p in re.split(r"\) \|\| \(", txt)]
        if len(parts) > 1:
            parts[0] = parts[0].lstrip("(")
            parts[-1] = parts[-1].rstrip(")")
        elif txt.startswith("(") and txt.endswith(")"):
            parts = [txt[1:-1]]
        out["mode"], out["text"] = "RANGE", "|".join(_cmp(p) for p in parts)
        return out
    if "(void)cv;" in fb:
        out["mode"], out["text"] = "RANGE", "-"
        return out
    return {"mode": "MISSING", "why": "unrecognised loop"}


def emitted_line(e, per):
    """the parsed text in the notation of the model's c08atab"""
    if e["mode"] == "TABLE":
        s = "TABLE size=%d cells=%s" % (e["size"], ",".join(map(str, e["cells"])) or "-")
        if per:
            s += " card=%s c2v=%s" % (e.get("card", "absent"), (",".join(map(str, e["c2v"])) or "-") if "c2v" in e else "absent")
        return s
    if e["mode"] == "RANGE":
        return "RANGE " + e["text"]
    return e["mode"]


def model_line(line, per, km):
    """the model's c08atab answer restricted to what is emitted under this flag set / for this type"""
    if line.startswith("TABLE") and not (per and km):
        return line.split(" card=")[0] + (" card=absent c2v=absent" if per else "")
    return line


def table_oracle(site, e, per):
    """the emitted table against the alphabet computed here (no model): -> list of problems"""
    S = site.set
    bad = []
    cells, size = e["cells"], e["size"]
    if len(cells) % 16:
        bad.append("%d cells printed: not whole rows of 16" % len(cells))
    if len(cells) > size:
        bad.append("%d cells printed into an array of %d" % (len(cells), size))
    if size not in (128, 256) or (size == 128) != (site.base == "UTF8String"):
        bad.append("declared size %d" % size)
    order = sorted(S)
    for c in range(0, 256):
        cell = cells[c] if c < len(cells) else 0
        if c >= size:
            cell = None                       # outside the array: the loop must have refused the unit before the lookup
        if (c in S) != bool(cell):
            bad.append("cell %d (0x%02x) is %s but the character is %s" % (c, c, cell, "permitted" if c in S else "not permitted"))
        elif c in S and cell != order.index(c) + 1:
            bad.append("cell %d holds %d, the rank of the character is %d" % (c, cell, order.index(c) + 1))
    if per and site.km:
        if e.get("c2v") != order:
            bad.append("code2value %s differs from the sorted alphabet %s" % (e.get("c2v"), order))
        if e.get("card") != len(order):
            bad.append("code2value declared with %s elements for %d characters" % (e.get("card"), len(order)))
    want_guard = {"1": "-", "2": "255", "4": "255", "u": "128"}[site.kind]
    if e.get("guard") != want_guard:
        bad.append("guard in front of the lookup is '%s', expected '%s'" % (e.get("guard"), want_guard))
    return bad[:6]
