"""c03_xskip — XER: unknown extension additions whose XML subtree is ARBITRARY (round c03w, seeded/C03-9).

Region: "unknown extension additions are skipped" was sampled on the XER side with the library's own output of a newer type of
the extgen families only (C05), whose element names r<i> / e<i> / x<i> never repeat the name of an enclosing element: the
decision `xer_skip_unknown` takes on a tag that carries the ENCLOSING element's name (XCT_OPENING / XCT_CLOSING instead of
XCT_UNKNOWN_*) was never reached inside a skipped subtree.

Level 1 (corpus), written by the independent XER writer below (nothing comes from the C encoder):
  (D) directed module MK7: extensible SEQUENCE / SET / CHOICE readers at top level, as a member (enclosing element = the member
      name), as a SEQUENCE OF element (enclosing element = the type name) and nested in another extensible type; unknown additions
      = XML forests over an inductive tree type: nesting depth 0..6, names drawn from {the enclosing element's name, its
      prefix / extension, names of known members (earlier / later), the addition's own name, names of the outer elements, fresh},
      `<n/>` / `<n />` / `<n></n>` / text content, several unknown additions in a row, after the known ones / between them
      (SET: any position), absent known additions in front; random forests after the directed ones;
  (F) the extgen families (modules built by lib/ext_layer.py, older-reader cases of lib/c05x_util.ext_cases - imported): the
      sender's value written for the NEWER type, read by the older ones; extensible CHOICE families with an unknown alternative.
  Layouts: CANONICAL (no white space), BASIC (one element per line, indented), mixed (SP / HT / LF / CRLF and comments - also
  comments that contain the enclosing element's closing tag - between any two tags).
Level 2 (oracle, on the C alone): `dec <reader> xer <doc>` = `OK <len(doc)> <DER of the known part>` (DER computed here).
Level 3 (tie of coq/Rt/XerSkip.v): for every non-empty unknown element, the skip machine started behind its opening tag:
  C (`xsk`, harness/moddrv_c03.inc: xer_next_token + xer_check_tag + xer_skip_unknown as phase 3 calls them) = extracted model
  (`xskrun`) = the subtree's length computed here (return value, tags looked at, octets consumed)."""
import c05x_util as X5
import extgen
from c05x_util import tlv, der_int

# ------------------------------------------------------------------ XML trees
# node: ("e", name, [kids]) element | ("b", name) empty-element tag | ("t", text) text (already escaped)
#       ("u", N, kind, [nodes]) an extensions section: the nodes are UNKNOWN to the reader, the enclosing element is called N,
#       kind = seq | set | choice (written inline; only marks the place)


def el(n, *kids):
    return ("e", n, list(kids))


def I(n, v):
    return el(n, ("t", str(v)))


def B(n, v):
    return el(n, ("b", "true" if v else "false"))


GAPS = ["", " ", "\n", "\t", "\r\n", "  \n  ", "<!-- c -->", "<!---->", " <!-- <x> </y> --> "]


class Writer:
    """document = list of tokens (kind, text): kind o(pen) c(lose) b(oth) t(ext / white space / comment)"""

    def __init__(self, layout, rng=None):
        self.layout, self.rng, self.toks = layout, rng, []
        self.unknown = []       # (N, kind, index of the opening token, index of the closing token, node)
        self.encl = []
        self.top_section = None  # (N, index of the first token) of an extensions section that ends the document element

    def gap(self, level, names):
        if self.layout == "basic":
            self.toks.append(("t", "\n" + "    " * level))
        elif self.layout == "mix":
            g = self.rng.choice(GAPS)
            if self.rng.chance(1, 8) and names:
                # a comment that contains a closing / opening tag of an enclosing element
                n = self.rng.choice(names)
                g = self.rng.choice(["<!-- </%s> -->", "<!--<%s>-->", "<!-- <%s/> </%s> -->"]).replace("%s", n)
            if g:
                self.toks.append(("t", g))

    def node(self, nd, level, unk=None):
        k = nd[0]
        if k == "e" and not nd[2] and self.layout == "mix" and self.rng.chance(1, 3):
            nd, k = ("b", nd[1]), "b"
        if k == "t":
            self.toks.append(("t", nd[1]))
        elif k == "b":
            sp = " " if (self.layout == "mix" and self.rng.chance(1, 3)) else ""
            self.toks.append(("b", "<%s%s/>" % (nd[1], sp), nd[1]))
        elif k == "u":
            for x in nd[3]:
                self.node(x, level, unk=(nd[1], nd[2]))
        else:
            io = len(self.toks)
            self.toks.append(("o", "<%s>" % nd[1], nd[1]))
            kids = nd[2]
            flat = []
            for x in kids:
                flat += x[3] if x[0] == "u" else [x]
            elems_only = bool(flat) and all(x[0] != "t" for x in flat)
            self.encl.append(nd[1])
            if elems_only:
                # (X.693 8.1.4: white space between tags of element-only content; BOOLEAN value items count as content)
                valitem = len(flat) == 1 and flat[0][0] == "b" and flat[0][1] in ("true", "false") and self.layout == "basic"
                for x in kids:
                    if x[0] == "u":
                        if level == 0 and x is kids[-1] and x[2] != "choice":
                            self.top_section = (x[1], len(self.toks))
                        for y in x[3]:
                            self.gap(level + 1, self.encl)
                            self.node(y, level + 1, unk=(x[1], x[2]))
                    else:
                        if not valitem:
                            self.gap(level + 1, self.encl)
                        self.node(x, level + 1)
                if not valitem:
                    self.gap(level, self.encl)
            else:
                for x in kids:
                    self.node(x, level + 1)
            self.encl.pop()
            self.toks.append(("c", "</%s>" % nd[1], nd[1]))
            if unk:
                self.unknown.append((unk[0], unk[1], io, len(self.toks) - 1, nd))

    def text(self):
        return "".join(t[1] for t in self.toks)


def write(tree, layout, rng=None):
    w = Writer(layout, rng)
    w.node(tree, 0)
    return w


# ------------------------------------------------------------------ unknown forests

def chain(names, leaf):
    """<n1><n2>..leaf..</n2></n1>"""
    nd = leaf
    for n in reversed(names):
        nd = ("e", n, [nd] if nd is not None else [])
    return nd


def leaves(name):
    return [None, ("t", "7"), ("t", "a &amp; b&#x3C;&gt; > c"), ("b", name), ("e", name, []), ("e", name, [("t", "x")])]


def pool(h):
    """names an unknown subtree is swept over, by category"""
    N = h["N"]
    p = [("encl", N), ("encl+", N + "2"), ("encl+", N + "-x")]
    if len(N) > 1:
        p.append(("encl-", N[:-1]))
    p += [("known<", n) for n in h["before"][:2]] + [("known>", n) for n in h["after"][:2]]
    p += [("outer", n) for n in h.get("outer", [])[:2]]
    p += [("fresh", "zz9"), ("fresh", "Other-Type"), ("value", "true")]
    return p


def root_names(h):
    """names a new addition / alternative may carry (not those of the known members)"""
    N = h["N"]
    out = [("fresh", "x9"), ("fresh", "ext-new"), ("encl+", N + "2"), ("encl+", N + "-x")]
    if len(N) > 1 and N[:-1] not in h["before"] + h["after"]:
        out.append(("encl-", N[:-1]))
    return out


def directed_forests(h, tier):
    """[(label, [nodes])]: the unknown additions put into one extensions section"""
    quick = tier == "quick"
    P = pool(h)
    out = []
    own = "x9"
    # depth 0: every form of an element without children
    for rc, rn in root_names(h):
        out += [("d0:both:" + rc, [("b", rn)]), ("d0:empty:" + rc, [("e", rn, [])]), ("d0:text:" + rc, [("e", rn, [("t", "0")])]),
                ("d0:text2:" + rc, [("e", rn, [("t", "a &amp; b&#x3C;&gt; > c")])])]
    # depth 1..6, every element of the chain called the same (every category), every leaf form
    for cat, n in P + [("own", own)]:
        for d in (range(1, 7) if (not quick or cat in ("encl", "own")) else (1, 2, 6)):
            for li, leaf in enumerate(leaves(n)):
                if quick and d > 2 and li not in (0, 2, 3):
                    continue
                out.append(("chain:%s:d%d:l%d" % (cat, d, li), [("e", own, [chain([n] * d, leaf)])]))
    # pairs: outer name x inner name (depth 2 and 3 below the addition), the inner one non-empty / empty / <n/>
    for c1, n1 in P:
        for c2, n2 in P:
            if quick and c1 != "encl" and c2 != "encl" and (c1, c2) not in (("known<", "fresh"), ("fresh", "known>")):
                continue
            for li, leaf in ((1, ("t", "5")), (3, ("b", n2)), (4, ("e", n2, []))):
                out.append(("pair:%s/%s:l%d" % (c1, c2, li), [("e", own, [("e", n1, [chain([n2], leaf), ("e", "q", [("t", "1")])])])]))
                if not quick:
                    out.append(("pair3:%s/%s:l%d" % (c1, c2, li), [("e", own, [("e", "w", [("e", n1, [("e", n2, [leaf])])]), ("b", n1)])]))
    # the enclosing name at EVERY depth of a chain of fresh names (where the counter stands when the clash happens)
    N = h["N"]
    for d in range(1, 7):
        for pos in range(d):
            names = ["f%d" % i for i in range(d)]
            names[pos] = N
            out.append(("encl-at:%d/%d" % (pos, d), [("e", own, [chain(names, ("t", "1"))])]))
            out.append(("encl-at-sib:%d/%d" % (pos, d), [("e", own, [chain(names, ("b", N)), ("e", N, [("t", "2")]), ("b", N)])]))
    # the shapes recursive types give: the addition is a list of / contains the very type
    out.append(("rec:list", [("e", "more", [("e", N, [I("a", 2)]), ("e", N, [I("a", 3), ("e", "more", [("e", N, [I("a", 4)])])])])]))
    out.append(("rec:member", [("e", "sub", [("e", N, [("b", "true")]), I("n", 3)])]))
    # several unknown additions in a row
    seq = [("b", "x9"), ("e", "y9", [("e", N, [("t", "1")])]), ("e", "z9", []), ("e", "w9", [("e", N, []), ("b", N), ("e", N, [("e", N, [("t", "t")])])]),
           ("b", N + "2"), ("e", "v9", [("t", "text")])]
    for k in range(2, len(seq) + 1):
        out.append(("row:%d" % k, seq[:k]))
    out.append(("row:rev", list(reversed(seq))))
    # the addition carries the name of the element it is in (X.680 allows it: the identifiers of ONE type must differ)
    out += [("own=encl:both", [("b", N)]), ("own=encl:empty", [("e", N, [])]), ("own=encl:text", [("e", N, [("t", "1")])]),
            ("own=encl:nested", [("e", N, [("e", N, [("t", "1")]), ("b", N)])]), ("own=encl:row", [("b", "x9"), ("e", N, [("t", "1")]), ("b", "y9")])]
    return out


def random_forest(h, rng, maxdepth=6):
    P = [n for _, n in pool(h)] + ["x9", "y9"]
    roots = [n for _, n in root_names(h)]

    def tree(d, root=False):
        n = rng.choice(roots) if root else rng.choice(P)
        r = rng.below(10)
        if r == 0:
            return ("b", n)
        if r == 1 or d >= maxdepth:
            return ("e", n, [("t", rng.choice(["1", "text", "a&amp;b", " "]))] if rng.chance(1, 2) else [])
        return ("e", n, [tree(d + 1 + rng.below(2)) for _ in range(rng.range(1, 3))])
    return [tree(0, root=True) for _ in range(rng.range(1, 3))]


# ------------------------------------------------------------------ MK7: readers, frames, DER of the known part

MK7_TEXT = """MK7 DEFINITIONS AUTOMATIC TAGS ::= BEGIN
  Sq ::= SEQUENCE { a INTEGER, b BOOLEAN OPTIONAL, ..., e0 INTEGER OPTIONAL, e1 BOOLEAN OPTIONAL }
  Sr ::= SEQUENCE { a INTEGER, ... }
  So ::= SEQUENCE { a INTEGER, o1 INTEGER OPTIONAL, o2 BOOLEAN OPTIONAL, ... }
  St ::= SET { a INTEGER, b BOOLEAN OPTIONAL, ..., e0 INTEGER OPTIONAL }
  Ch ::= CHOICE { a INTEGER, b BOOLEAN, ..., e0 INTEGER }
  Wq ::= SEQUENCE { hdr INTEGER, item Sq, tail BOOLEAN }
  Wr ::= SEQUENCE { hdr INTEGER, item Sr, tail BOOLEAN }
  Ws ::= SEQUENCE { hdr INTEGER, item St, tail BOOLEAN }
  Wc ::= SEQUENCE { hdr INTEGER, item Ch, tail BOOLEAN }
  Lq ::= SEQUENCE OF Sq
  Ls ::= SEQUENCE OF St
  Lc ::= SEQUENCE OF Ch
  Nq ::= SEQUENCE { a INTEGER, inner Sq, ..., e0 INTEGER OPTIONAL }
  Cq ::= CHOICE { a INTEGER, s Sq, ... }
END
"""
MK7_TYPES = ["Sq", "Sr", "So", "St", "Ch", "Wq", "Wr", "Ws", "Wc", "Lq", "Ls", "Lc", "Nq", "Cq"]


def module():
    return {"name": "MK7", "default": "AUTOMATIC", "defs": [(t, None) for t in MK7_TYPES], "trees": {}, "text": MK7_TEXT}


def boolb(v):
    return b"\xff" if v else b"\0"


class Frame:
    """one reader context: doc(sections) -> (tree, DER hex | None); holes = the extensions sections a document has"""

    def __init__(self, name, tn, holes, build):
        self.name, self.tn, self.holes, self.build = name, tn, holes, build


def sq_nodes(N, v, u):
    a, b, e0, e1 = v
    return ("e", N, [I("a", a)] + ([B("b", b)] if b is not None else []) + ([I("e0", e0)] if e0 is not None else []) +
            ([B("e1", e1)] if e1 is not None else []) + [("u", N, "seq", u)])


def sq_der(tag, v):
    a, b, e0, e1 = v
    return tlv(tag, tlv(0x80, der_int(a)) + (tlv(0x81, boolb(b)) if b is not None else b"") + (tlv(0x82, der_int(e0)) if e0 is not None else b"") +
               (tlv(0x83, boolb(e1)) if e1 is not None else b""))


def st_nodes(N, v, us, order):
    a, b, e0 = v
    ms = [I("a", a)] + ([B("b", b)] if b is not None else []) + ([I("e0", e0)] if e0 is not None else [])
    ms = [ms[i] for i in order if i < len(ms)]
    out = []
    for i in range(len(ms) + 1):
        out.append(("u", N, "set", us[i] if i < len(us) else []))
        if i < len(ms):
            out.append(ms[i])
    return ("e", N, out)


def st_der(tag, v):
    a, b, e0 = v
    return tlv(tag, tlv(0x80, der_int(a)) + (tlv(0x81, boolb(b)) if b is not None else b"") + (tlv(0x82, der_int(e0)) if e0 is not None else b""))


SQ_VALUES = [(5, True, 7, False), (-129, None, None, None), (0, False, None, True), (300, None, 70000, None)]
ST_VALUES = [(5, True, 7), (-1, None, None), (128, None, 9)]


def frames(rng, tier):
    fs = []
    hq = lambda N, v, outer=(): {"N": N, "kind": "seq", "before": ["a"] + [n for n, x in zip(("b", "e0", "e1"), v[1:]) if x is not None],
                                 "after": [n for n, x in zip(("b", "e0", "e1"), v[1:]) if x is None], "outer": list(outer)}
    hs = lambda N, outer=(): {"N": N, "kind": "set", "before": ["a", "b"], "after": ["e0"], "outer": list(outer)}
    hc = lambda N, outer=(): {"N": N, "kind": "choice", "before": ["a", "b"], "after": ["e0"], "outer": list(outer)}
    for vi, v in enumerate(SQ_VALUES):
        fs.append(Frame("Sq/top/v%d" % vi, "Sq", [hq("Sq", v)], lambda u, v=v: (sq_nodes("Sq", v, u[0]), sq_der(0x30, v))))
        fs.append(Frame("Sq/member/v%d" % vi, "Wq", [hq("item", v, ["Wq", "hdr", "tail"])],
                        lambda u, v=v: (el("Wq", I("hdr", 1), sq_nodes("item", v, u[0]), B("tail", True)),
                                        tlv(0x30, tlv(0x80, b"\x01") + sq_der(0xa1, v) + tlv(0x82, b"\xff")))))
    v0, v1 = SQ_VALUES[0], SQ_VALUES[1]
    fs.append(Frame("Sq/element", "Lq", [hq("Sq", v0, ["Lq"]), hq("Sq", v1, ["Lq"])],
                    lambda u: (el("Lq", sq_nodes("Sq", v0, u[0]), sq_nodes("Sq", v1, u[1])), tlv(0x30, sq_der(0x30, v0) + sq_der(0x30, v1)))))
    fs.append(Frame("Sq/nested", "Nq", [hq("inner", v1, ["Nq"]), {"N": "Nq", "kind": "seq", "before": ["a", "inner"], "after": ["e0"], "outer": []}],
                    lambda u: (el("Nq", I("a", 9), sq_nodes("inner", v1, u[0]), ("u", "Nq", "seq", u[1])), tlv(0x30, tlv(0x80, b"\x09") + sq_der(0xa1, v1)))))
    fs.append(Frame("Sq/alternative", "Cq", [hq("s", v1, ["Cq"])], lambda u: (el("Cq", sq_nodes("s", v1, u[0])), sq_der(0xa1, v1))))
    fs.append(Frame("Sr/top", "Sr", [{"N": "Sr", "kind": "seq", "before": ["a"], "after": [], "outer": []}],
                    lambda u: (el("Sr", I("a", 5), ("u", "Sr", "seq", u[0])), tlv(0x30, tlv(0x80, b"\x05")))))
    fs.append(Frame("Sr/member", "Wr", [{"N": "item", "kind": "seq", "before": ["a"], "after": [], "outer": ["Wr", "tail"]}],
                    lambda u: (el("Wr", I("hdr", 1), el("item", I("a", 5), ("u", "item", "seq", u[0])), B("tail", False)),
                               tlv(0x30, tlv(0x80, b"\x01") + tlv(0xa1, tlv(0x80, b"\x05")) + tlv(0x82, b"\0")))))
    for oi, (o1, o2) in enumerate([(None, None), (4, None), (None, True)]):
        fs.append(Frame("So/top/v%d" % oi, "So", [{"N": "So", "kind": "seq", "before": ["a"], "after": ["o1", "o2"], "outer": []}],
                        lambda u, o1=o1, o2=o2: (el("So", I("a", 5), *([I("o1", o1)] if o1 is not None else []) + ([B("o2", o2)] if o2 is not None else []) + [("u", "So", "seq", u[0])]),
                                                 tlv(0x30, tlv(0x80, b"\x05") + (tlv(0x81, der_int(o1)) if o1 is not None else b"") + (tlv(0x82, boolb(o2)) if o2 is not None else b"")))))
    for vi, v in enumerate(ST_VALUES):
        nm = 1 + sum(1 for x in v[1:] if x is not None)
        orders = [list(range(nm)), list(reversed(range(nm)))]
        for oi, order in enumerate(orders[:1] if nm == 1 else orders):
            fs.append(Frame("St/top/v%d/o%d" % (vi, oi), "St", [hs("St") for _ in range(nm + 1)],
                            lambda u, v=v, order=order: (st_nodes("St", v, u, order), st_der(0x31, v))))
            fs.append(Frame("St/member/v%d/o%d" % (vi, oi), "Ws", [hs("item", ["Ws", "hdr", "tail"]) for _ in range(nm + 1)],
                            lambda u, v=v, order=order: (el("Ws", I("hdr", 1), st_nodes("item", v, u, order), B("tail", True)),
                                                         tlv(0x30, tlv(0x80, b"\x01") + st_der(0xa1, v) + tlv(0x82, b"\xff")))))
    vs = ST_VALUES[0]
    fs.append(Frame("St/element", "Ls", [hs("St", ["Ls"]) for _ in range(8)],
                    lambda u: (el("Ls", st_nodes("St", vs, u[:4], [0, 1, 2]), st_nodes("St", vs, u[4:], [2, 0, 1])), tlv(0x30, st_der(0x31, vs) * 2))))
    # CHOICE: an alternative the reader does not know: RC_OK, everything consumed, nothing selected (the DER encoder refuses)
    fs.append(Frame("Ch/top", "Ch", [hc("Ch")], lambda u: (el("Ch", ("u", "Ch", "choice", u[0])), None)))
    fs.append(Frame("Ch/member", "Wc", [hc("item", ["Wc", "hdr", "tail"])], lambda u: (el("Wc", I("hdr", 1), el("item", ("u", "item", "choice", u[0])), B("tail", True)), None)))
    fs.append(Frame("Ch/element", "Lc", [hc("Ch", ["Lc"])], lambda u: (el("Lc", el("Ch", I("a", 3)), el("Ch", ("u", "Ch", "choice", u[0])), el("Ch", B("b", True))), None)))
    return fs


def directed_docs(rng, tier):
    """-> [{tn, label, tree, der, sections: [(hole, forest)]}]"""
    quick = tier == "quick"
    out = []
    for f in frames(rng, tier):
        nh = len(f.holes)
        h0 = f.holes[0]
        forests = directed_forests(h0, tier)
        if quick and ("/v" in f.name and not f.name.endswith("v0") and not f.name.endswith("v1/o0") and "So/" not in f.name):
            # the other known-part values: the name clashes only
            forests = [x for x in forests if x[0].split(":")[0] in ("encl-at", "rec", "row", "own=encl") or ":encl:" in x[0] or "encl/" in x[0] or "/encl" in x[0]]
        if h0["kind"] == "choice":
            forests = [(l, fo) for l, fo in forests if len(fo) == 1]        # a CHOICE value is ONE alternative
        for lab, fo in forests:
            # the forest in one section, the others empty (every section in turn for the short list; the last otherwise)
            which = range(nh) if (lab.split(":")[0] in ("encl-at", "rec", "own=encl") or nh <= 2) else [nh - 1]
            for hi in which:
                h = f.holes[hi]
                fo2 = retarget(fo, h0["N"], h["N"])
                u = [[] for _ in range(nh)]
                u[hi] = fo2
                out.append(mkcase(f, u, "%s|%s@%d" % (f.name, lab, hi)))
        # every section filled at once
        if nh > 1 and h0["kind"] != "choice":
            for lab, fo in forests[::7 if quick else 2]:
                u = [retarget(fo, h0["N"], h["N"]) for h in f.holes]
                out.append(mkcase(f, u, "%s|all:%s" % (f.name, lab)))
        for i in range(12 if quick else 60):
            u = [random_forest(h, rng) if (h["kind"] != "choice" and rng.chance(2, 3)) else [] for h in f.holes]
            if h0["kind"] == "choice":
                u = [random_forest(h0, rng)[:1]]
            out.append(mkcase(f, u, "%s|random" % f.name))
    return out


def retarget(forest, n_from, n_to):
    """the same shape for another extensions section: the enclosing element's name follows"""
    if n_from == n_to:
        return forest

    def nm(s):
        return n_to + s[len(n_from):] if (s == n_from or s in (n_from + "2", n_from + "-x")) else (n_to[:-1] if (s == n_from[:-1] and len(n_to) > 1) else s)

    def go(nd):
        if nd is None or nd[0] == "t":
            return nd
        if nd[0] == "b":
            return ("b", nm(nd[1]))
        return ("e", nm(nd[1]), [go(x) for x in nd[2]])
    return [go(x) for x in forest]


def mkcase(f, u, label):
    tree, der = f.build(u)
    return {"tn": f.tn, "label": label, "tree": tree, "der": der.hex() if der is not None else None,
            "sections": [(h, fo) for h, fo in zip(f.holes, u)], "frame": f.name}


# ------------------------------------------------------------------ (F) extgen families: XER writer and DER of the base algebra

def der_tree(tree, v):
    """DER of a value of a resolved modgen tree (independent of the model and of lib/c03_tagmap.py)"""
    k = tree[0]
    if k == "b":
        return dtlv(tree[1], False, boolb(v))
    if k == "n":
        return dtlv(tree[1], False, b"")
    if k == "i":
        return dtlv(tree[1], False, der_int(v))
    if k == "o":
        return dtlv(tree[1], False, bytes(v))
    if k == "x":
        return dtlv(tree[1], True, der_tree(tree[2], v))
    if k == "c":
        return der_tree(tree[1][v[1]], v[2])
    if k == "s":
        out = b""
        for m, mv in zip(tree[2], v[1]):
            if m[0] == "?":
                if mv[0] == "!":
                    out += der_tree(m[1], mv[1])
            else:
                out += der_tree(m, mv)
        return dtlv(tree[1], True, out)
    if k in ("q", "t"):
        items = [der_tree(tree[3], x) for x in v[1]]
        if k == "t":
            items.sort(key=lambda b: (b, ))
        return dtlv(tree[1], True, b"".join(items))
    raise ValueError(k)


def dtlv(tag, cons, content):
    cls, num = tag % 4, tag // 4
    first = (cls << 6) | (0x20 if cons else 0)
    if num < 31:
        ident = bytes([first | num])
    else:
        grp = [num & 0x7f]
        num >>= 7
        while num:
            grp.append(0x80 | (num & 0x7f))
            num >>= 7
        ident = bytes([first | 31]) + bytes(reversed(grp))
    return ident + X5.der_len(len(content)) + content


ELEM_TAG = {"int": "INTEGER", "oct": "OCTET_STRING", "null": "NULL", "seq": "SEQUENCE", "seqof": "SEQUENCE_OF", "setof": "SET_OF", "choice": "CHOICE"}


def xer_content(t, v):
    """the nodes between the tags of a value of the modgen type dict t (X.693 BASIC-XER as asn1c names things)"""
    k = t["k"]
    if k == "bool":
        return [("b", "true" if v else "false")]
    if k == "null":
        return []
    if k == "int":
        return [("t", str(v))]
    if k == "oct":
        return [("t", bytes(v).hex().upper())] if len(v) else []
    if k == "seq":
        out = []
        for (n, mt, opt), mv in zip(t["ms"], v[1]):
            if opt:
                if mv[0] == "_":
                    continue
                mv = mv[1]
            out.append(xer_elem(n, mt, mv))
        return out
    if k == "choice":
        n, mt, _ = t["ms"][v[1]]
        return [xer_elem(n, mt, v[2])]
    if k in ("seqof", "setof"):
        et = t["el"]
        if et["k"] == "bool":
            return [("b", "true" if x else "false") for x in v[1]]
        if et["k"] == "null":
            return [("b", "NULL") for x in v[1]]        # (the library writes a NULL element of a list as <NULL/>)
        return [xer_elem(ELEM_TAG[et["k"]], et, x) for x in v[1]]
    raise ValueError(k)


def xer_elem(name, t, v):
    # (a NULL, an empty string / list / SEQUENCE is written <name></name> as the library's CANONICAL-XER does, so that the tight
    # layout can be compared with it; the mixed layout turns one in three into <name/>, the directed documents carry every form)
    return ("e", name, xer_content(t, v))


def family_docs(mods, rng, tier):
    """the older-reader corpus of lib/c05x_util.py (extensible SEQUENCE families) + extensible CHOICE families with an unknown
    alternative -> cases like directed_docs() plus `sender` (type, DER of the whole value) for the writer's self-check"""
    out = []
    for c in X5.ext_cases(mods, rng, tier):
        x, v = c["x"], c["v"]
        if len(val_bytes(v)) > 3000:
            continue
        comps = list(x["root"]) + [(n, t, True) for n, t, _ in x["adds"]]
        nodes = []
        for (n, t, opt), mv in zip(comps, v[1]):
            if opt:
                if mv[0] == "_":
                    nodes.append(None)
                    continue
                mv = mv[1]
            nodes.append(xer_elem(n, t, mv))
        sder = der_tree(X5.ext_tree(x), v).hex()
        for rn in c["readers"]:
            xr = c["m"]["x"][rn]
            import ext_layer
            if ext_layer.degenerate(xr):
                continue
            nk = len(xr["root"]) + xr["nadd"]
            known = [nd for nd in nodes[:nk] if nd is not None]
            unk = [nd for nd in nodes[nk:] if nd is not None]
            h = {"N": rn, "kind": "seq", "before": [n for n, _, _ in comps[:nk]], "after": [], "outer": []}
            tree = ("e", rn, known + [("u", rn, "seq", unk)])
            tv = extgen.truncate_value(x, xr, v)
            if any(nd[0] == "e" and any(k[0] == "e" for k in nd[2]) for nd in unk):
                # the same document with every element INSIDE the unknown additions called like the reader's element (what a
                # recursive newer version would send): the family's own names never clash with an enclosing element
                unk2 = [rename_inner(nd, rn) for nd in unk]
                out.append({"mod": c["m"], "tn": rn, "label": "family-renamed:%s:%s<-%s:%s" % (c["m"]["name"], rn, c["tn"], c["cat"]),
                            "tree": ("e", rn, known + [("u", rn, "seq", unk2)]), "der": der_tree(X5.ext_tree(xr), tv).hex(),
                            "sections": [(h, unk2)], "frame": "family"})
            out.append({"mod": c["m"], "tn": rn, "label": "family:%s:%s<-%s:%s" % (c["m"]["name"], rn, c["tn"], c["cat"]), "tree": tree,
                        "der": der_tree(X5.ext_tree(xr), tv).hex(), "sections": [(h, unk)], "frame": "family",
                        "sender": (c["tn"], sder, ("e", c["tn"], [nd for nd in nodes if nd is not None]))})
    # CHOICE families
    for m in mods:
        if not m.get("exe"):
            continue
        fams = {}
        for tn, x in m["x"].items():
            if x["kind"] == "choice":
                fams.setdefault(x["family"], []).append(tn)
        for fam, tns in sorted(fams.items()):
            tns.sort(key=lambda tn: m["x"][tn]["nadd"])
            big = m["x"][tns[-1]]
            alts = list(big["root"]) + list(big["adds"])
            trees = big["rtrees"] + big["atrees"]
            for rn in tns[:-1]:
                xr = m["x"][rn]
                nk = len(xr["root"]) + xr["nadd"]
                idx = sorted(set([0, nk - 1, nk, len(alts) - 1] + [rng.range(nk, len(alts) - 1) for _ in range(2 if tier == "quick" else 6)]))
                for i in idx:
                    val = extgen.value(trees[i], rng, 1)
                    nd = xer_elem(alts[i][0], alts[i][1], val)
                    h = {"N": rn, "kind": "choice", "before": [n for n, _, _ in alts[:nk]], "after": [], "outer": []}
                    if i < nk:
                        tree, der, secs = ("e", rn, [nd]), der_tree(trees[i], val).hex(), []
                    else:
                        tree, der, secs = ("e", rn, [("u", rn, "choice", [nd])]), None, [(h, [nd])]
                    out.append({"mod": m, "tn": rn, "label": "family:%s:%s:alt%d%s" % (m["name"], rn, i, "" if i < nk else ":unknown"), "tree": tree, "der": der,
                                "sections": secs, "frame": "family", "setof": "t" in big["ety"], "sender": (tns[-1], der_tree(trees[i], val).hex(), ("e", tns[-1], [nd]))})
    return out


def rename_inner(nd, name, root=True):
    if nd[0] == "t" or (nd[0] == "b" and (root or nd[1] in ("true", "false"))):
        return nd
    if nd[0] == "b":
        return ("b", name)
    return ("e", nd[1] if root else name, [rename_inner(k, name, False) for k in nd[2]])


def val_bytes(v):
    return extgen.val_str(v)


# ------------------------------------------------------------------ running

def skip_jobs(w, doc_bytes, ids):
    """for every non-empty unknown ROOT element of the document: (N, offset behind its opening tag, expected ret / tags / octets,
    model token string of the rest of the document)"""
    offs = [0]
    for t in w.toks:
        offs.append(offs[-1] + len(t[1].encode("utf-8")))
    jobs = []
    for (N, kind, io, ic, nd) in w.unknown:
        ntags = sum(1 for t in w.toks[io + 1:ic + 1] if t[0] != "t")
        # answer 1 at the element's own closing tag, whatever the element is called (the enclosing element's name included:
        # fix 01 of notes/fixes/I retired the answer 2); the caller advances over that tag
        ret = 1
        cons = offs[ic + 1] - offs[io + 1]
        jobs.append({"N": N, "kind": kind, "start": offs[io + 1], "ret": ret, "ntags": ntags, "cons": cons, "mtoks": model_toks(w.toks[io + 1:], N), "own": nd[1],
                     "offs": [o - offs[io + 1] for o in offs[io + 1:]]})
    return jobs


def model_toks(toks, N):
    """token string of ocaml/drv_c03.ml: names become numbers (N = 0; distinct strings = distinct numbers), a text token (white
    space, character data, comments: any number of chunks for the C) is one `t`"""
    names = {N: 0}
    return ",".join("t" if t[0] == "t" else "%s%d" % (t[0], names.setdefault(t[2], len(names))) for t in toks) or "-"


def run_cases(run, model, m, cases, rng, tier, run_mod, run_lines, tagname):
    """oracle + tie for the cases of one module"""
    lines, meta = [], []
    slines, smeta = [], []
    for c in cases:
        layouts = ["tight", "basic", "mix"] + (["mix"] if tier != "quick" else [])
        seen = set()
        for lay in layouts:
            w = write(c["tree"], lay, rng)
            doc = w.text().encode("utf-8")
            if doc in seen:
                continue
            seen.add(doc)
            lines.append("dec %s xer %s" % (c["tn"], doc.hex()))
            meta.append((c, lay, doc, w))
            if lay != "basic" or c["frame"] == "family":
                for j in skip_jobs(w, doc, None):
                    if len(j["mtoks"]) > 6000:
                        continue
                    slines.append("xsk %s %s" % (j["N"], doc[j["start"]:].hex()))
                    smeta.append((c, lay, doc, j))
    out = run_mod(run, m, lines, tagname)
    xl, xm = [], []
    for (c, lay, doc, w), l, o in zip(meta, lines, out):
        if w.top_section and len(w.toks) < 1500:
            xl.append("xextrun 0 %s" % model_toks(w.toks[w.top_section[1]:], w.top_section[0]))
            xm.append((c, lay, doc, w, l, o))
    if xl:
        rcm, mo, me = run_lines(model, xl, timeout=600)
        if rcm != 0 or len(mo) != len(xl):
            run.violation("model:driver", {"what": "model driver failed (xextrun)", "rc": rcm, "stderr": me[-1500:]}, no_input=True)
        else:
            for (c, lay, doc, w, l, o), ml, mm in zip(xm, xl, mo):
                # the extensions section that ends the document: the model's walk (phases 1 and 3) against what asn_decode reports
                i0 = w.top_section[1]
                offs = [0]
                for t in w.toks:
                    offs.append(offs[-1] + len(t[1].encode("utf-8")))
                f, mf = o.split(), mm.split()
                if mf[0] == "DONE":
                    agree = f[0] == "OK" and int(f[1]) == offs[i0 + int(mf[1])]
                else:
                    agree = f[0] != "OK"
                run.count("xext_" + mf[0])
                if not agree:
                    good = o.startswith("OK %d %s ck=" % (len(doc), c["der"] if c["der"] is not None else "ENCFAIL"))
                    run.violation("correspondence:XerSkip.ext_run", {"what": "the walk over the extensions section (phases 1 and 3 of SEQUENCE/SET_decode_xer) and its model disagree "
                                                                             "on where the element ends", "module": m["text"], "case": c["label"], "layout": lay,
                                                                     "document": doc.decode("utf-8"), "command_line": l, "c": o, "model_command": ml, "model": mm,
                                                                     "model_octets": offs[i0 + int(mf[1])] if mf[0] == "DONE" else None}, no_input=good)
    for (c, lay, doc, w), l, o in zip(meta, lines, out):
        run.case(l)
        cat = c["label"].split("|")[-1].split(":")[0].split("@")[0]
        run.count("xskip_%s_%s" % (lay, cat if c["frame"] != "family" else "family"))
        run.count("xskip_frame_" + c["frame"].split("/v")[0])
        exp = "OK %d %s ck=" % (len(doc), c["der"] if c["der"] is not None else "ENCFAIL")
        if o.startswith(exp):
            continue
        rp = {"module": m["text"], "type": c["tn"], "case": c["label"], "layout": lay, "document": doc.decode("utf-8"), "command_line": l, "c": o, "expected": exp,
              "what": "an older version of an extensible type does not skip the unknown addition(s) of a newer sender's XER document: "
                      "expected RC_OK, the full length consumed and the known part of the value"}
        run.violation("oracle:xer_unknown_addition_skipped", rp)
    # the skip machine alone: C = model = the subtree
    if slines:
        so = run_mod(run, m, slines, tagname + "-xsk")
        mlines = ["xskrun 0 %s" % j["mtoks"] for (_, _, _, j) in smeta]
        rcm, mo, me = run_lines(model, mlines, timeout=600)
        if rcm != 0 or len(mo) != len(mlines):
            run.violation("model:driver", {"what": "model driver failed (xskrun)", "rc": rcm, "stderr": me[-1500:]}, no_input=True)
            mo = [None] * len(mlines)
        for (c, lay, doc, j), l, o, mm in zip(smeta, slines, so, mo):
            run.case(l)
            run.count("xsk_ret%d" % j["ret"])
            exp = "%d 0 %d %d" % (j["ret"], j["ntags"], j["cons"])
            if mm is not None:
                mf = mm.split()
                mm = "%s %s %s %d" % (mf[0], mf[1], mf[2], j["offs"][int(mf[3])])
            rp = {"module": m["text"], "case": c["label"], "layout": lay, "document": doc.decode("utf-8"), "enclosing": j["N"], "unknown_element": j["own"],
                  "rest_of_document": doc[j["start"]:].decode("utf-8"), "command_line": l, "c": o, "model": mm, "expected": exp,
                  "model_command": "xskrun 0 " + j["mtoks"]}
            if mm is not None and o != mm:
                run.violation("correspondence:XerSkip.skip_run", dict(rp, what="xer_skip_unknown driven over the rest of the document and its model disagree (return value, depth, tags looked at, octets consumed)"),
                              no_input=(o == exp))
            if o != exp:
                run.violation("oracle:xer_skip_subtree", dict(rp, what="started behind the opening tag of an unknown element, the skip does not end exactly at that element's closing tag "
                                                                        "(<return value> <depth> <tags looked at> <octets consumed>)"))
    if meta:
        run.sample({"xskip_case": meta[-1][0]["label"], "document": meta[-1][2].decode("utf-8")[:200]})


def writer_selfcheck(run, m, cases, run_mod):
    """the independent writer against the library's CANONICAL-XER of the SENDER's type (harness soundness: a wrong element name
    would make the reader skip a known member as unknown)"""
    seen, lines, meta = set(), [], []
    for c in cases:
        s = c.get("sender")
        if not s or (s[0], s[1]) in seen:
            continue
        seen.add((s[0], s[1]))
        lines.append("xcode %s der %s cxer" % (s[0], s[1]))
        meta.append((c, s))
    out = run_mod(run, m, lines, "C03-xskip-writer")
    bad = set()
    for (c, s), l, o in zip(meta, lines, out):
        mine = write(s[2], "tight").text().encode("utf-8").hex()
        if o != "OK " + mine:
            # SET OF elements: the library writes them in the order stored (= DER order here), the writer in the value's order
            if sorted(o) == sorted("OK " + mine):
                run.count("xskip_writer_setof_order")
                continue
            bad.add((s[0], s[1]))
            run.violation("harness:xer-writer", {"what": "the independent XER writer and the library's CANONICAL-XER encoder differ on the sender's value",
                                                 "module": m["text"], "command_line": l, "c": o, "python": "OK " + mine}, no_input=True)
    return bad


def run_part(run, model, mk7, ext_mods, rng, tier, run_mod, run_lines):
    if mk7.get("exe"):
        cases = directed_docs(rng, tier)
        # frames: the document with every section empty must be what the library writes for the known part
        lines, meta = [], []
        seen = set()
        for c in cases:
            if c["der"] is None or (c["tn"], c["der"]) in seen:
                continue
            seen.add((c["tn"], c["der"]))
            f = [x for x in frames(rng, tier) if x.name == c["frame"]][0]
            tree, _ = f.build([[] for _ in f.holes])
            order_free = c["frame"].startswith("St/")
            lines.append("xcode %s der %s cxer" % (c["tn"], c["der"]))
            meta.append((c, write(tree, "tight").text(), order_free))
        out = run_mod(run, mk7, lines, "C03-xskip-frames")
        for (c, mine, of), l, o in zip(meta, lines, out):
            got = bytes.fromhex(o.split()[1]).decode("utf-8") if o.startswith("OK ") else o
            if got != mine and not (of and sorted(got) == sorted(mine)):
                run.violation("harness:xer-frame", {"what": "the hand-written document frame is not the library's CANONICAL-XER of the expected DER", "frame": c["frame"],
                                                    "command_line": l, "c": got, "python": mine}, no_input=True)
        run_cases(run, model, mk7, cases, rng, tier, run_mod, run_lines, "C03-xskip")
    fam = family_docs([m for m in ext_mods if m.get("exe")], rng, tier) if ext_mods else []
    bym = {}
    for c in fam:
        bym.setdefault(c["mod"]["name"], []).append(c)
    for m in ext_mods or []:
        cs = bym.get(m["name"], [])
        if not cs:
            continue
        writer_selfcheck(run, m, cs, run_mod)
        run_cases(run, model, m, cs, rng, tier, run_mod, run_lines, "C03-xskip-family")
