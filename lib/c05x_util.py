"""c05x_util — second layer of checks/c05.py.

(A) XER text the library's own encoder never writes: a hand-written module MS5 with one
    PDU per string type (and a record with every kind of primitive member), values that
    contain the characters XER escapes and multi-byte UTF-8, and documents in which every
    character may be written in any of its valid forms (named reference, decimal / hex /
    long numeric reference, raw UTF-8), with comments, white space, attributes, an XML
    prolog and the three forms of an empty element.  The expected value (DER) is computed
    here, independently of the C.
(B) extensible types read by an OLDER version of the type (unknown additions, newer
    sender): the families of lib/extgen.py, the value's encodings in BER (variants), OER
    and XER decoded with a truncated type of the same family."""
import extgen
from modgen import model_str, val_str

# ------------------------------------------------------------------ DER of the MS5 values


def der_len(n):
    if n < 128:
        return bytes([n])
    raw = n.to_bytes((n.bit_length() + 7) // 8, "big")
    return bytes([0x80 | len(raw)]) + raw


def tlv(tag, content):
    return bytes([tag]) + der_len(len(content)) + bytes(content)


def der_int(v):
    n = max(1, (v.bit_length() + 8) // 8) if v >= 0 else max(1, ((-v - 1).bit_length() + 8) // 8)
    return v.to_bytes(n, "big", signed=True)


def der_oid(arcs):
    out = bytearray()
    for a in [arcs[0] * 40 + arcs[1]] + list(arcs[2:]):
        grp = [a & 0x7f]
        a >>= 7
        while a:
            grp.append(0x80 | (a & 0x7f))
            a >>= 7
        out += bytes(reversed(grp))
    return bytes(out)


def der_bits(bits):
    if not bits:
        return b"\0"
    pad = (8 - len(bits) % 8) % 8
    v = int(bits + "0" * pad, 2)
    return bytes([pad]) + v.to_bytes((len(bits) + pad) // 8, "big")


# (type name, ASN.1 type, UNIVERSAL tag number, kind)
#   kind utf8/ascii/time: body = UTF-8 text with references (OCTET_STRING_decode_xer_utf8)
#   bmp/ucs4: the same reader, the text is then converted to UCS-2 / UCS-4
#   hex: hexadecimal body (OCTET_STRING_decode_xer_hex)   bits: 0/1 body
STR_TYPES = [
    ("SU", "UTF8String", 12, "utf8"), ("SI", "IA5String", 22, "ascii"), ("SP", "PrintableString", 19, "ascii"),
    ("SV", "VisibleString", 26, "ascii"), ("SN", "NumericString", 18, "ascii"),
    ("SB", "BMPString", 30, "bmp"), ("SW", "UniversalString", 28, "ucs4"),
    ("SGT", "GeneralizedTime", 24, "time"), ("SUT", "UTCTime", 23, "time"),
    ("SG", "GeneralString", 27, "hex"), ("ST", "TeletexString", 20, "hex"), ("SGR", "GraphicString", 25, "hex"),
    ("SVT", "VideotexString", 21, "hex"), ("SOD", "ObjectDescriptor", 7, "ascii"), ("SO", "OCTET STRING", 4, "hex"),
    ("SBS", "BIT STRING", 3, "bits"),
]
KIND = {t[0]: t[3] for t in STR_TYPES}
UTAG = {t[0]: t[2] for t in STR_TYPES}

REC_TEXT = ("Rec ::= SEQUENCE { u UTF8String, n INTEGER, e ENUMERATED { red, green, blue }, b BOOLEAN, o OCTET STRING, "
            "bs BIT STRING, v VisibleString OPTIONAL, z NULL, r REAL, oid OBJECT IDENTIFIER, l SEQUENCE OF UTF8String, "
            "c CHOICE { a UTF8String, b INTEGER }, w BMPString }")
ENUM = ["red", "green", "blue"]
REALS = [("0", b""), ("<PLUS-INFINITY/>", b"\x40"), ("<MINUS-INFINITY/>", b"\x41"), ("1.5", b"\x80\xff\x03")]


def string_module(name="MS5"):
    text = "%s DEFINITIONS AUTOMATIC TAGS ::= BEGIN\n" % name
    for tn, asn, _, _ in STR_TYPES:
        text += "  %s ::= %s\n" % (tn, asn)
    text += "  " + REC_TEXT + "\nEND\n"
    return {"name": name, "default": "AUTOMATIC", "defs": [(t[0], None) for t in STR_TYPES] + [("Rec", None)], "trees": {}, "text": text}


def text_bytes(kind, s):
    if kind == "bmp":
        return s.encode("utf-16-be")
    if kind == "ucs4":
        return s.encode("utf-32-be")
    return s.encode("utf-8")


def der_of_string(tn, v):
    k = KIND[tn]
    if k == "hex":
        return tlv(UTAG[tn], v)
    if k == "bits":
        return tlv(UTAG[tn], der_bits(v))
    return tlv(UTAG[tn], text_bytes(k, v))


def der_of_rec(v):
    body = tlv(0x80, v["u"].encode("utf-8")) + tlv(0x81, der_int(v["n"])) + tlv(0x82, der_int(v["e"])) + tlv(0x83, b"\xff" if v["b"] else b"\0")
    body += tlv(0x84, v["o"]) + tlv(0x85, der_bits(v["bs"]))
    if v["v"] is not None:
        body += tlv(0x86, v["v"].encode("ascii"))
    body += tlv(0x87, b"") + tlv(0x88, REALS[v["r"]][1]) + tlv(0x89, der_oid(v["oid"]))
    body += tlv(0xaa, b"".join(tlv(12, x.encode("utf-8")) for x in v["l"]))
    body += tlv(0xab, tlv(0x80, v["c"][1].encode("utf-8")) if v["c"][0] == "a" else tlv(0x81, der_int(v["c"][1])))
    body += tlv(0x8c, v["w"].encode("utf-16-be"))
    return tlv(0x30, body)


# ------------------------------------------------------------------ values

# every way an '&' can meet its neighbours, the other two escaped characters, text that LOOKS like a
# reference (and is therefore written "&amp;..."), multi-byte UTF-8 of 2, 3 and 4 octets
TEXTS_ASCII = ["", "&", "<", ">", "AT&T", "a&b&c", "&&", "&amp;", "&lt", "a;b", "&;", "&#", "&#x", "&#38;", "x&", "&x",
               "1<2>0&3", "a b", "]]>", "-->", "<!--", "q\"uo'te", "<T/>", "&amp", "&#x26", "T&amp;T;", "&quot;", "<![CDATA[&]]>",
               "&&&&&&", "<<>>", "a&b;c&d;", ";&;&;"]
TEXTS_BMP = ["é", "€", "a€b&é<", "é&€;", "߿ࠀ￮"]
TEXTS_ASTRAL = ["\U0001d11e", "\U0001d11e&\U0010ffff<é"]
TIMES = {"SGT": ["20240101120000Z", "20241231235959.123Z"], "SUT": ["240101120000Z", "991231235959Z"]}
HEXES = [b"", b"\x0a", b"AT&T", b"\x00\xff\x26\x3c", bytes(range(16))]
BITS = ["", "1", "101", "01011", "10000000", "111100001"]


def values_of(tn, rng, nrand):
    k = KIND[tn]
    if k == "time":
        return list(TIMES[tn])
    if k == "hex":
        return HEXES + [rng.bytes(rng.range(1, 12)) for _ in range(nrand)]
    if k == "bits":
        return BITS + ["".join(rng.choice("01") for _ in range(rng.range(1, 30))) for _ in range(nrand)]
    vals = list(TEXTS_ASCII)
    if k in ("utf8", "bmp", "ucs4"):
        vals += TEXTS_BMP
    if k in ("utf8", "ucs4"):
        vals += TEXTS_ASTRAL
    alpha = "&&&<>;#xabT 19" + ("é€" if k in ("utf8", "bmp", "ucs4") else "") + ("\U0001d11e" if k in ("utf8", "ucs4") else "")
    for _ in range(nrand):
        vals.append("".join(rng.choice(alpha) for _ in range(rng.range(1, 12))))
    return vals


def rec_value(rng, directed=None):
    t = lambda: rng.choice(TEXTS_ASCII + TEXTS_BMP + TEXTS_ASTRAL)
    v = {"u": t(), "n": rng.choice([0, 5, -1, 127, 128, -129, 2**31, -2**63, 2**63 - 1, rng.range(-70000, 70000)]),
         "e": rng.below(3), "b": rng.chance(1, 2), "o": rng.choice(HEXES), "bs": rng.choice(BITS),
         "v": rng.choice([None, "AT&T", "a<b", ""]), "r": rng.below(len(REALS)),
         "oid": rng.choice([[1, 2, 3], [2, 999, 1234567], [0, 0], [1, 39, 128, 16384]]),
         "l": [t() for _ in range(rng.below(4))],
         "c": ("a", t()) if rng.chance(1, 2) else ("b", rng.choice([0, -7, 300, 2**40])),
         "w": rng.choice(TEXTS_ASCII + TEXTS_BMP)}
    if directed:
        v.update(directed)
    return v


# ------------------------------------------------------------------ XER text

MODES = ["canon", "dec", "hex", "long", "allnum", "mix"]


def numref(cp, rng, style):
    if style == "dec":
        return "&#%d;" % cp
    if style == "hex":
        return "&#x%s;" % (format(cp, "x") if rng.chance(1, 2) else format(cp, "X"))
    if style == "longdec":
        return "&#%s%d;" % ("0" * rng.range(6, 30), cp)
    return "&#x%s%x;" % ("0" * rng.range(6, 30), cp)


def render_char(ch, rng, mode):
    cp = ord(ch)
    special = ch in "&<>"
    named = {"&": "&amp;", "<": "&lt;", ">": "&gt;"}
    if mode == "canon":
        return named[ch] if special else ch
    if mode in ("dec", "hex"):
        return numref(cp, rng, mode) if (special or cp > 127) else ch
    if mode == "long":
        return numref(cp, rng, rng.choice(["longdec", "longhex"])) if (special or cp > 127) else ch
    if mode == "allnum":
        return numref(cp, rng, rng.choice(["dec", "hex", "longdec", "longhex"]))
    # mix
    forms = [numref(cp, rng, s) for s in ("dec", "hex", "longdec", "longhex")]
    if special:
        forms += [named[ch]] * 4
        if ch == ">":
            forms.append(">")
    else:
        forms += [ch] * 6
    return rng.choice(forms)


def render_text(s, rng, mode, comments=False):
    out = []
    for ch in s:
        out.append(render_char(ch, rng, mode))
        if comments and rng.chance(1, 4):
            out.append(rng.choice(["<!---->", "<!-- & -->", "<!-- <x> &amp; -- - -->", "<!--<![CDATA[ ]]>-->"]))
    return "".join(out)


def render_hex(b, rng, mode):
    if mode == "canon":
        return b.hex().upper()
    sep = {"dec": " ", "hex": "\n", "long": "  \t", "allnum": "", "mix": None}[mode]
    parts = []
    for x in b:
        h = format(x, "02x")
        parts.append(h if rng.chance(1, 2) else h.upper())
        parts.append(rng.choice(["", " ", "\n", "<!-- c -->"]) if sep is None else sep)
    s = "".join(parts)
    return (" " + s) if (mode == "long" and s) else s


def render_bits(bits, rng, mode):
    if mode in ("canon", "allnum"):
        return bits
    return "".join(c + (rng.choice(["", " ", "\n"]) if mode == "mix" else ("" if i % 4 != 3 else " ")) for i, c in enumerate(bits))


def body_of(tn, v, rng, mode, comments=False):
    k = KIND[tn]
    if k == "hex":
        return render_hex(v, rng, mode)
    if k == "bits":
        return render_bits(v, rng, mode)
    return render_text(v, rng, mode, comments)


ATTRS = [' a="1"', ' x="a>b" y="<"', " xmlns:q='urn:&amp;'", ' e=""']


def element(tag, body, rng, deco):
    """deco: plain | attr | empty forms when body is ''"""
    at = rng.choice(ATTRS) if deco == "attr" else ""
    if body == "" and deco != "plain":
        return rng.choice(["<%s%s/>" % (tag, at), "<%s%s />" % (tag, at), "<%s%s></%s>" % (tag, at, tag)])
    return "<%s%s>%s</%s>" % (tag, at, body, tag)


PROLOGS = ['<?xml version="1.0" encoding="UTF-8"?>\n', "<!-- prolog &amp; <b> -->", " \n\t", '<?xml version="1.0"?><!--c-->\n']


def string_docs(tn, v, rng, nmix):
    """[(label, text)]: documents that all denote the value v of the string type tn"""
    docs = []
    for mode in MODES + ["mix"] * nmix:
        docs.append(("x:" + mode, element(tn, body_of(tn, v, rng, mode), rng, "plain")))
    docs.append(("x:attr", element(tn, body_of(tn, v, rng, "mix"), rng, "attr")))
    docs.append(("x:prolog", rng.choice(PROLOGS) + element(tn, body_of(tn, v, rng, "canon"), rng, "plain")))
    if KIND[tn] not in ("hex", "bits"):
        docs.append(("x:comments", "<!-- a --><%s><!-- b -->%s<!-- c --></%s>" % (tn, render_text(v, rng, "mix", comments=True), tn)))
    if v in ("", b""):
        docs += [("x:empty", "<%s/>" % tn), ("x:empty", "<%s />" % tn), ("x:empty", "<%s></%s>" % (tn, tn))]
    return docs


def rec_doc(v, rng, mode, layout):
    """layout: tight | spaced (white space and comments between the elements) | attr"""
    deco = "attr" if layout == "attr" else "plain"
    el = lambda tag, body: element(tag, body, rng, deco if rng.chance(1, 2) else "plain")
    num = lambda n: (rng.choice(["%d", " %d ", "\n%d", "%d<!-- c -->"]) if layout != "tight" else "%d") % n
    parts = [el("u", render_text(v["u"], rng, mode)), el("n", num(v["n"])),
             el("e", rng.choice(["<%s/>", "<%s />", " <%s/> "] if layout != "tight" else ["<%s/>"]) % ENUM[v["e"]]),
             el("b", "<true/>" if v["b"] else "<false/>"), el("o", render_hex(v["o"], rng, mode)), el("bs", render_bits(v["bs"], rng, mode))]
    if v["v"] is not None:
        parts.append(el("v", render_text(v["v"], rng, mode)))
    parts += [rng.choice(["<z/>", "<z></z>", "<z />"]) if layout != "tight" else "<z/>", el("r", REALS[v["r"]][0]),
              el("oid", ".".join(map(str, v["oid"]))),
              el("l", "".join(element("UTF8String", render_text(x, rng, mode), rng, "plain" if layout == "tight" else "attr") for x in v["l"])),
              el("c", el(v["c"][0], render_text(v["c"][1], rng, mode) if v["c"][0] == "a" else num(v["c"][1]))),
              el("w", render_text(v["w"], rng, mode))]
    if layout == "tight":
        return "<Rec>" + "".join(parts) + "</Rec>"
    gap = lambda: rng.choice(["", " ", "\n  ", "<!-- &lt; -->", "\n<!--c-->\n"])
    return "<Rec" + (rng.choice(ATTRS) if layout == "attr" else "") + ">" + gap() + "".join(p + gap() for p in parts) + "</Rec>"


# text an XML parser would reject but the library reads (an '&' that starts no reference is copied verbatim
# once the end of the text is known); the value it stands for is computed by the extracted model (entfeed)
LENIENT = ["a&b", "AT&T Inc", "&", "&&", "a&#zz;b", "a&#1114112;b", "&quot;", "&apos;x", "&unknown;", "&am;", "&lt", "a&lt b",
           "&ltx;", "&gx;", "&#x110000;", "x&#12", "&#x1F", "&amp&amp;", "&a;&l;&g;", "&#38&#38;",
           # references to the code point 0 and digit-less ones: no character, the '&' is copied verbatim (the library aborted
           # here - assert(val > 0) - until the repair of C05-xer-entref-nul-abort / C04-xer-charref-zero-assert)
           "a&#0;b", "&#0;", "&#;", "&#x;", "&#x0;", "&#x000;", "&#0000000000;", "x&#;&#0;y", "&#0;&amp;&#x;", "&#0", "&#x0"]


def string_cases(rng, tier, seed=0):
    """-> list of case dicts of the MS5 module: {tn, der, value, xdocs: [(label, bytes)]}"""
    quick = tier == "quick"
    cases = []
    for ti, (tn, _, _, kind) in enumerate(STR_TYPES):
        vals = values_of(tn, rng, 3 if quick else 8)
        if quick and tn in ("SP", "SV", "SN"):
            # the readers of these types are the one of IA5String: a third of the values each, rotating with the seed
            vals = vals[(seed + ti) % 3::3]
        for v in vals:
            docs = string_docs(tn, v, rng, 1 if quick else 3)
            cases.append({"tn": tn, "der": der_of_string(tn, v).hex(), "value": v, "kind": kind,
                          "xdocs": [(l, d.encode("utf-8")) for l, d in docs]})
    directed = [{"u": "AT&T", "l": ["&", "<", "a&b&c"], "c": ("a", "&amp;"), "w": "€&"}, {"u": "", "l": [], "v": "", "o": b"", "bs": "", "w": ""}]
    for i in range(6 if quick else 24):
        v = rec_value(rng, directed[i] if i < len(directed) else None)
        docs = [("x:rec:%s:%s" % (m, lay), rec_doc(v, rng, m, lay)) for m, lay in
                [("canon", "tight"), ("mix", "spaced"), ("allnum", "attr"), (rng.choice(MODES), rng.choice(["tight", "spaced", "attr"]))]]
        cases.append({"tn": "Rec", "der": der_of_rec(v).hex(), "value": v, "kind": "rec",
                      "xdocs": [(l, d.encode("utf-8")) for l, d in docs]})
    return cases


def lenient_docs():
    """[(type, body bytes, document bytes)] for the UTF-8 readers"""
    out = []
    for tn in ("SU", "SI"):
        for b in LENIENT:
            out.append((tn, b.encode(), ("<%s>%s</%s>" % (tn, b, tn)).encode()))
    return out


# ------------------------------------------------------------------ (B) extensible types, older reader

def ext_tree(x):
    """modgen tree of an extensible SEQUENCE as BER sees it: the additions are further OPTIONAL members"""
    return ("s", extgen.SEQ_TAG, list(x["rtrees"]) + [("?", a) for a in x["atrees"]])


def ext_modules(rng, tier):
    mods = extgen.gen_modules(rng, tier)
    keep = ("XA0", "XA1", "XB", "XD") if tier == "quick" else None
    return [m for m in mods if keep is None or m["name"] in keep]


def ext_cases(mods, rng, tier):
    """(module, reader type, sender type, value) with reader = the sender's type or an older version of it"""
    quick = tier == "quick"
    cases = []

    def fam_types(m, fam):
        return sorted([tn for tn in m["x"] if m["x"][tn]["family"] == fam], key=lambda tn: m["x"][tn]["nadd"])

    for m in mods:
        if not m.get("exe"):
            continue
        for fam in sorted(set(x["family"] for x in m["x"].values())):
            tns = fam_types(m, fam)
            for tn in tns:
                x = m["x"][tn]
                if x["kind"] != "seq" or x["nadd"] == 0:
                    continue
                if fam == "L" and quick:
                    continue
                older = [t for t in tns if m["x"][t]["nadd"] < x["nadd"]]
                if not older:
                    continue
                readers = sorted(set([older[-1], older[0]] + ([rng.choice(older)] if quick or rng.chance(1, 3) else [])), key=tns.index)
                if m["name"] == "XB":
                    # open type size boundaries of the OER length determinant (127/128, 255/256, 65535/65536)
                    if tn != "ON3":
                        continue
                    for s in ([0, 1, 126, 127, 128, 254, 255, 256] + ([70000] if quick else [65534, 65535, 65536, 70000])):
                        payload = bytes((i * 31 + s) % 256 for i in range(s))
                        for v in (("S", [s % 256, ("!", payload), ("!", True), ("!", payload[:3])]),
                                  ("S", [1, ("!", payload[:5]), ("_",), ("!", payload)])):
                            cases.append({"m": m, "tn": tn, "x": x, "v": v, "vs": val_str(v), "readers": ["ON0", "ON1"] if s < 1000 else ["ON1"], "cat": "size:%d" % s})
                    continue
                n = x["nadd"]
                pats = ["first", "last", "all", "alt", "random"] if (not quick or n in (1, 2, 8, 9, 17, 25)) else ["all", "random"]
                for p in pats:
                    v = extgen.seq_value(x, extgen.presence(p, n, rng), rng)
                    cases.append({"m": m, "tn": tn, "x": x, "v": v, "vs": val_str(v), "readers": readers, "cat": "seq:%s:n%d" % (p, n)})
    return cases
