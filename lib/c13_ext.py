"""c13_ext — round 4 of checks/c13.py: EXTENSIBLE types in the option families whose option changes how a member is
stored (pointer vs inline: -findirect-choice; OPTIONAL / recursive members; -fwide-types DEFAULT members and INTEGER_t).

Region closed (seeded/C13-5 went unnoticed through it): the families of round 3 had no extension marker at all, so the
EXTENSION paths of the codecs (UPER open types of extension alternatives / additions, OER open types, the XER and BER
extension loops) and of the generic walkers were never run with a member whose representation an option changes.

  family         algebra        what
  FXE FXI FXA    ext model      extensible CHOICE XC (root: primitive, anonymous SEQUENCE, untagged CHOICE by reference;
  (coq/Rt/Ext.v)                extension alternatives: constructed by reference, SEQUENCE OF, primitive, CHOICE-in-CHOICE tagged
                                and untagged, SEQUENCE OF CHOICE, SEQUENCE with CHOICE and OPTIONAL members, OCTET STRING) and
                                extensible SEQUENCE XS (root: primitive, OPTIONAL primitive, CHOICE member, OPTIONAL constructed;
                                additions: primitive, constructed, CHOICE, SEQUENCE OF CHOICE, OPTIONAL ones), XD (the type of
                                seeded/C13-5), XE (additions only) in EXPLICIT, IMPLICIT and AUTOMATIC modules.  Bytes of every
                                build against the ext-layer codec model AND against the walk of the structure for the layout
                                read off that build's member tables (coq/Rt/LayoutExt.v through ocaml/drv_c13lay.ml).
  FYE FYI FYA    text only      extensible types NESTED in other types and RECURSIVE through extension alternatives / additions
                                (outside the ext algebra): Rx, Ax (CHOICE, recursive extension alternatives, anonymous extensible
                                CHOICE inside), Sx (SEQUENCE whose additions are recursive / CHOICE / constructed), Lx (SEQUENCE
                                OF extensible CHOICE), Wx (extensible in extensible).  Values: directed XER (every alternative of
                                every CHOICE incl. extension alternatives, every addition alone / all / none) + asn_random_fill.
  FWX            text only      -fwide-types x extension: INTEGER / REAL / ENUMERATED / DEFAULT as additions and extension alternatives.
Every value is also run through the non-codec walkers (harness/moddrv_c13.inc `walk`: print, constraint check, compare, free)
in every build."""
from c13_families import *
import extgen

# ------------------------------------------------------------------ the ext-algebra families


def _helpers(default):
    d = [("In", CH([("t", OCT()), ("n", INT((0, 7, False))), ("p", SEQ([("a", BOOL()), ("b", INT())]))])),
         ("In3", CH([("u", BOOL(C(1))), ("v", NUL(C(2))), ("w", SEQ([("k", INT((-5, 5, False)))], tag=C(3)))])),
         ("Pt", SEQ([("x", INT((0, 255, False))), ("y", BOOL())]))]
    if default == "AUTOMATIC":
        d = [(n, strip_member_tags(t)) for n, t in d]
    return d


def _members(ms, default):
    """(name, type, optional) triples; AUTOMATIC modules: every hand-made tag removed (automatic tagging applies)"""
    out = []
    for m in ms:
        n, t, o = m[0], m[1], (len(m) > 2 and m[2])
        if default == "AUTOMATIC":
            t = strip_member_tags(dict(t, tag=None))
        out.append((n, t, o))
    return out


def _add_choice(mod, tn, root, exts, default, env):
    root, exts = _members(root, default), _members(exts, default)
    rtrees = extgen.resolve_members(root, default, env)
    xtrees = extgen.resolve_members(exts, default, env, start=len(root))
    whole = ("c", rtrees + xtrees)
    if not tree_valid(whole):
        raise ValueError("family module %s: %s violates the distinct-tag rules" % (mod["name"], tn))
    mod["defs"].append((tn, None))
    mod["texts"].append("  %s ::= %s" % (tn, extgen.xchoice_text(root, exts)))
    mod["x"][tn] = {"kind": "choice", "ety": extgen.ety_choice(rtrees, xtrees), "root": root, "adds": exts, "rtrees": rtrees, "atrees": xtrees,
                    "family": tn, "nadd": len(exts)}


def _add_seq(mod, tn, root, adds, default, env):
    root, adds = _members(root, default), _members(adds, default)
    rtrees = extgen.resolve_members(root, default, env)
    atrees = extgen.resolve_members(adds, default, env, start=len(root))
    ropt = [o for _, _, o in root]
    whole = ("s", extgen.SEQ_TAG, [extgen.as_opt_tree(t, o) for t, o in zip(rtrees, ropt)] + [("?", t) for t in atrees])
    if not tree_valid(whole):
        raise ValueError("family module %s: %s violates the distinct-tag rules" % (mod["name"], tn))
    mod["defs"].append((tn, None))
    mod["texts"].append("  %s ::= %s" % (tn, extgen.xseq_text(root, adds)))
    mod["x"][tn] = {"kind": "seq", "ety": extgen.ety_seq(rtrees, ropt, atrees), "root": root, "adds": adds,
                    "rtrees": [extgen.as_opt_tree(t, o) for t, o in zip(rtrees, ropt)], "atrees": atrees, "family": tn, "nadd": len(adds)}


def ext_family_module(default):
    m = extgen.new_module("FX" + default[0], default)
    m["family"] = True
    helpers = _helpers(default)
    env = dict(helpers)
    for n, t in helpers:
        m["defs"].append((n, None))
        m["texts"].append("  %s ::= %s" % (n, type_text(t)))
    pt = lambda tag=None: SEQ([("x", INT((0, 255, False))), ("y", BOOL())], tag=tag)
    # XC: the extension alternatives are written in canonical tag order (X.680 requires it of extension additions):
    # APPLICATION class (the anonymous untagged CHOICE) before the context-tagged ones
    _add_choice(m, "XC",
                [("n", INT((0, 255, False), C(0))), ("p", pt(C(1))), ("ri", REF("In"))],
                [("an", CH([("k", INT(None, A(1))), ("l2", REF("Pt", tag=A(2)))])),       # untagged CHOICE as extension alternative
                 ("q", REF("Pt", tag=C(2))),                                             # constructed, by reference
                 ("l", SEQOF(INT((0, 255, False)), tag=C(3))),
                 ("m", INT((0, 255, False), C(4))),                                      # primitive: inline in every build
                 ("ci", REF("In", tag=C(5))),                                            # CHOICE in CHOICE (tagged, hence EXPLICIT)
                 ("lc", SEQOF(REF("In"), tag=C(6))),
                 ("sq", SEQ([("c", REF("In")), ("o", REF("Pt", tag=C(0)), True), ("k", REF("In3"), True)], tag=C(7))),
                 ("o", OCT(None, C(8))),
                 ("cj", REF("In3", tag=C(9)))], default, env)
    # XD: the type of seeded/C13-5
    _add_choice(m, "XD",
                [("n", INT((0, 255, False), C(0))), ("p", pt(C(1)))],
                [("q", pt(C(2))), ("l", SEQOF(INT((0, 255, False)), tag=C(3))), ("m", INT((0, 255, False), C(4)))], default, env)
    _add_seq(m, "XS",
             [("a", INT((0, 7, False), C(0))), ("b", BOOL(C(1)), True), ("c", REF("In")), ("d", REF("Pt", tag=C(2)), True)],
             [("e1", INT((0, 255, False), C(3))), ("e2", SEQ([("x", INT()), ("y", REF("In"))], tag=C(4))), ("e3", REF("In", tag=C(5))),
              ("e4", SEQOF(REF("In"), tag=C(6))), ("e5", BOOL(C(7)), True), ("e6", REF("In3", tag=C(8)), True), ("e7", REF("Pt", tag=C(9)))], default, env)
    # XE: nothing but the marker and additions in the root position of the bitmap logic (one mandatory root member)
    _add_seq(m, "XE", [("z", BOOL(C(0)))],
             [("f%d" % i, t, i % 2 == 1) for i, t in enumerate([REF("Pt", tag=C(1)), REF("In", tag=C(2)), INT(None, C(3)), SEQOF(REF("Pt"), tag=C(4)),
                                                                REF("In3", tag=C(5)), OCT((0, 4, False), C(6)), NUL(C(7)), pt(C(8)), REF("In", tag=C(9))])], default, env)
    return extgen.finish_module(m)


def ext_family_modules():
    return [ext_family_module(d) for d in ("EXPLICIT", "IMPLICIT", "AUTOMATIC")]


def _cycle(l, j):
    return l[j % len(l)]


def ext_directed_values(x, rng, nrandom):
    """python values of an extensible type: CHOICE - every alternative with its directed values; SEQUENCE - the presence
    patterns of the additions (none, all, each alone, alternating) x both states of the OPTIONAL root members, the
    members cycling through their directed values"""
    out = []
    if x["kind"] == "choice":
        alts = x["rtrees"] + x["atrees"]
        for i, a in enumerate(alts):
            vs = directed_values(a, 12)
            for v in vs[:8]:
                out.append(("C", i, v))
            for _ in range(nrandom):
                out.append(("C", i, value(a, rng, 1)))
        return out
    nr, na = len(x["rtrees"]), len(x["atrees"])
    rlists = []
    for t in x["rtrees"]:
        inner = t[1] if t[0] == "?" else t
        rlists.append(directed_values(inner, 10))
    alists = [directed_values(t, 10) for t in x["atrees"]]
    pats = [[False] * na, [True] * na] + [[j == k for j in range(na)] for k in range(na)] + [[j % 2 == 0 for j in range(na)], [j % 2 == 1 for j in range(na)]]
    pats += [[rng.chance(1, 2) for _ in range(na)] for _ in range(nrandom + 2)]
    for pi, p in enumerate(pats):
        for rstate in (0, 1):
            rv = []
            for j, t in enumerate(x["rtrees"]):
                v = _cycle(rlists[j], pi + rstate)
                if t[0] == "?":
                    rv.append(("!", v) if (rstate + j + pi) % 2 == 0 else ("_",))
                else:
                    rv.append(v)
            av = [("!", _cycle(alists[j], pi + rstate + j)) if p[j] else ("_",) for j in range(na)]
            out.append(("S", rv + av))
    # every directed value of every addition at least once (alone)
    for j in range(na):
        for v in alists[j]:
            rv = [("_",) if t[0] == "?" else rlists[k][0] for k, t in enumerate(x["rtrees"])]
            out.append(("S", rv + [("!", v) if k == j else ("_",) for k in range(na)]))
    return out


def ext_cases(model_exe, mods, rng, nrandom, run_lines):
    """cases of the ext-algebra families; the extracted extensibility model (ocaml/drv_ext.ml) supplies DER, UPER
    (faithful and standard reading of the components) and OER"""
    cases = []
    for m in mods:
        for tn, x in m["x"].items():
            seen = set()
            for v in ext_directed_values(x, rng, nrandom):
                vs = val_str(v)
                if vs in seen:
                    continue
                seen.add(vs)
                cases.append({"mod": m, "tn": tn, "x": x, "ts": x["ety"], "vs": vs, "v": v})
    lines = ["xder %s %s" % (c["ts"], c["vs"]) for c in cases]
    rcm, mo, me = run_lines(model_exe, lines, timeout=1200)
    if rcm != 0 or len(mo) != len(lines):
        raise RuntimeError("model driver failed: %s %s" % (rcm, me))
    for c, d in zip(cases, mo):
        c["der"] = d
    cases = [c for c in cases if c["der"] != "NONE" and not c["der"].startswith("EXN")]
    lines = []
    for c in cases:
        lines += ["xuper 0 %s %s" % (c["ts"], c["vs"]), "xuper 1 %s %s" % (c["ts"], c["vs"]), "xoer %s %s" % (c["ts"], c["vs"])]
    rcm, mo, me = run_lines(model_exe, lines, timeout=1200)
    if rcm != 0 or len(mo) != len(lines):
        raise RuntimeError("model driver failed: %s %s" % (rcm, me))
    for i, c in enumerate(cases):
        c["uper"], c["uperstd"], c["oer"] = mo[3 * i:3 * i + 3]
    seen, out = set(), []
    for c in cases:
        key = (c["mod"]["name"], c["tn"], c["der"])
        if key not in seen:
            seen.add(key)
            out.append(c)
    return out


# ------------------------------------------------------------------ layouts read off the dumped member tables

def layout_of(tab, di, tree, ptr=False, depth=0):
    """the layout (coq/Rt/Layout.v `lay`, syntax of ocaml/drv_c13lay.ml) of a model tree as the build whose descriptor
    table is `tab` stores it: ATF_POINTER (flags & 1) of the member entry that leads to each member / alternative /
    element.  EXPLICIT tags and OPTIONAL are transparent (they live in the member entry, not in a descriptor of their own).
    None: the tables do not have the shape of the tree."""
    k = tree[0]
    head = "P" if ptr else "I"
    if k in ("x", "?"):
        return layout_of(tab, di, tree[-1], ptr, depth)
    if k in ("b", "n", "i", "o"):
        return head + "{}"
    d = tab["d"][di]
    subs = tree[2] if k == "s" else tree[1] if k == "c" else [tree[3]]
    if len(d["elems"]) != len(subs) or depth > 40:
        return None
    parts = []
    for e, st in zip(d["elems"], subs):
        s = layout_of(tab, e["type"], st, bool(e["flags"] & 1), depth + 1)
        if s is None:
            return None
        parts.append(s)
    return head + "{" + "".join(parts) + "}"


def ext_layout_of(tab, di, x):
    """layout of an extensible type: root components then additions / extension alternatives"""
    d = tab["d"][di]
    subs = x["rtrees"] + x["atrees"]
    if len(d["elems"]) != len(subs):
        return None
    parts = []
    for e, st in zip(d["elems"], subs):
        s = layout_of(tab, e["type"], st, bool(e["flags"] & 1), 1)
        if s is None:
            return None
        parts.append(s)
    return "I{" + "".join(parts) + "}"


# ------------------------------------------------------------------ text-only families: a small type language with XER values

def T_INT(con=None):
    return ("INTEGER", con)


T_BOOL, T_NULL, T_OCT, T_IA5, T_REAL = ("BOOLEAN",), ("NULL",), ("OCTET STRING",), ("IA5String",), ("REAL",)


def T_ENUM(names, ext=None):
    return ("ENUM", names, ext)


def T_SEQ(root, ext=None):
    return ("SEQ", [(m[0], m[1], m[2] if len(m) > 2 else "") for m in root], None if ext is None else [(m[0], m[1], m[2] if len(m) > 2 else "") for m in ext])


def T_CHO(root, ext=None):
    return ("CHO", list(root), None if ext is None else list(ext))


def T_SEQOF(t):
    return ("SEQOF", t)


def T_REF(n):
    return ("REF", n)


def ttext(t, default, top=True):
    """ASN.1 text; in non-AUTOMATIC modules every component of a SEQUENCE / CHOICE gets the context tag [position]"""
    k = t[0]
    if k == "INTEGER":
        return "INTEGER" + (" (%s)" % t[1] if t[1] else "")
    if k in ("BOOLEAN", "NULL", "OCTET STRING", "IA5String", "REAL"):
        return k
    if k == "ENUM":
        return "ENUMERATED { %s%s }" % (", ".join(t[1]), "" if t[2] is None else ", ..." + "".join(", " + n for n in t[2]))
    if k == "REF":
        return t[1]
    if k == "SEQOF":
        return "SEQUENCE OF " + ttext(t[1], default, False)
    kw = "SEQUENCE" if k == "SEQ" else "CHOICE"
    parts, pos = [], 0
    for grp, marker in ((t[1], False), (t[2], True)):
        if grp is None:
            continue
        if marker:
            parts.append("...")
        for m in grp:
            tg = "" if default == "AUTOMATIC" else "[%d] " % pos
            flag = m[2] if k == "SEQ" else ""
            suffix = " OPTIONAL" if flag == "OPT" else (" DEFAULT %s" % flag[1] if isinstance(flag, tuple) else "")
            parts.append("%s %s%s%s" % (m[0], tg, ttext(m[1], default, False), suffix))
            pos += 1
    return "%s { %s }" % (kw, ", ".join(parts))


def _res(env, t):
    while t[0] == "REF":
        t = env[t[1]]
    return t


def _member_xml(env, name, t, body):
    return "<%s>%s</%s>" % (name, body, name)


def _elem_xml(env, t, body):
    r = _res(env, t)
    if r[0] == "CHO":
        return body                     # an element that is a CHOICE has no wrapper of its own in XER
    if t[0] == "REF":
        return "<%s>%s</%s>" % (t[1], body, t[1])
    if r[0] == "INTEGER":
        return "<INTEGER>%s</INTEGER>" % body
    if r[0] == "SEQ":
        return "<SEQUENCE>%s</SEQUENCE>" % body
    raise ValueError("element kind not supported by the XER writer: %s" % r[0])


def tvals(env, t, depth, rng=None):
    """directed XER bodies (the text between the tags of the value) of a type, smallest first; recursion is cut by depth:
    at depth 0 a CHOICE takes its first alternative, a SEQUENCE only its mandatory root members, a SEQUENCE OF is empty"""
    k = t[0]
    if k == "REF":
        return tvals(env, env[t[1]], depth, rng)
    if k == "INTEGER":
        c = t[1]
        if c:
            lo, hi = c.replace(",...", "").split("..")
            lo, hi = int(lo), int(hi)
            return [str(v) for v in sorted(set([lo, hi, (lo + hi) // 2]))]
        return ["0", "-1", "128", "-32769", "2147483648", "-9223372036854775808"]
    if k == "BOOLEAN":
        return ["<true/>", "<false/>"]
    if k == "NULL":
        return [""]
    if k == "OCTET STRING":
        return ["", "00FF", "0102030405060708090A"]
    if k == "IA5String":
        return ["", "hi", "extension"]
    if k == "REAL":
        return ["0", "1.5", "-2.25", "<PLUS-INFINITY/>", "1.0E100", "<MINUS-INFINITY/>"]
    if k == "ENUM":
        return ["<%s/>" % n for n in t[1] + (t[2] or [])]
    if k == "SEQOF":
        if depth <= 0:
            return [""]
        vs = tvals(env, t[1], depth - 1, rng)
        el = [_elem_xml(env, t[1], v) for v in vs]
        return ["", el[0], "".join(el[:3]), "".join(el[len(el) // 2:len(el) // 2 + 2])]
    if k == "CHO":
        alts = t[1] + (t[2] or [])
        if depth <= 0:
            n, at = alts[0]
            return [_member_xml(env, n, at, tvals(env, at, 0, rng)[0])]
        out = []
        for n, at in alts:
            vs = tvals(env, at, depth - 1, rng)
            pick = [vs[0]] + ([vs[len(vs) // 2]] if len(vs) > 1 else []) + ([vs[-1]] if len(vs) > 2 else [])
            out += [_member_xml(env, n, at, v) for v in pick]
        return out
    if k == "SEQ":
        root, ext = t[1], (t[2] or [])
        mand = lambda m: m[2] == ""
        if depth <= 0:
            return ["".join(_member_xml(env, m[0], m[1], tvals(env, m[1], 0, rng)[0]) for m in root if mand(m))]
        cand = {m[0]: tvals(env, m[1], depth - 1, rng) for m in root + ext}
        out = []

        def build(present, j):
            return "".join(_member_xml(env, m[0], m[1], cand[m[0]][j % len(cand[m[0]])]) for m in root + ext if present(m))
        out.append(build(lambda m: mand(m) and m in root, 0))                       # minimal: optional root members and additions absent
        out.append(build(lambda m: True, 0))                                        # everything present
        out.append(build(lambda m: True, 1))
        out.append(build(lambda m: True, 2))
        for e in ext:                                                               # each addition alone
            out.append(build(lambda m, e=e: (mand(m) and m in root) or m is e, 1))
        for r in root:                                                              # each optional root member alone, additions absent
            if not mand(r):
                out.append(build(lambda m, r=r: (mand(m) and m in root) or m is r, 1))
        seen, res = set(), []
        for v in out:
            if v not in seen:
                seen.add(v)
                res.append(v)
        return res
    raise ValueError(k)


def text_module(name, default, defs, depth, about_rfill=3):
    env = dict(defs)
    text = "%s DEFINITIONS %s TAGS ::= BEGIN\n%s\nEND\n" % (name, default, "\n".join("  %s ::= %s" % (n, ttext(t, default)) for n, t in defs))
    xv = []
    for n, t in defs:
        for body in tvals(env, t, depth):
            xv.append((n, "<%s>%s</%s>" % (n, body, n)))
    return {"name": name, "default": default, "defs": [(n, None) for n, _ in defs], "trees": {}, "text": text, "wide": True, "family": True,
            "xer_values": xv, "rfill": about_rfill}


def nested_defs():
    pt = ("Pt", T_SEQ([("x", T_INT("0..255")), ("y", T_BOOL)]))
    rx = ("Rx", T_CHO([("leaf", T_INT()), ("pt", T_REF("Pt"))],
                      [("node", T_SEQ([("l", T_REF("Rx")), ("r", T_REF("Rx"), "OPT")])), ("many", T_SEQOF(T_REF("Rx"))), ("self", T_REF("Rx")),
                       ("alt", T_REF("Ax")), ("num", T_INT("0..255"))]))
    ax = ("Ax", T_CHO([("b", T_BOOL), ("s", T_SEQ([("a", T_INT())], [("e", T_REF("Rx"), "OPT"), ("f", T_REF("Pt"))]))],
                      [("back", T_REF("Rx")),
                       ("inner", T_CHO([("p", T_NULL), ("q", T_REF("Pt"))], [("r", T_SEQ([("w", T_BOOL)])), ("t", T_REF("Ax"))])),
                       ("str", T_IA5)]))
    sx = ("Sx", T_SEQ([("a", T_INT("0..7")), ("c", T_REF("Ax")), ("o", T_REF("Rx"), "OPT")],
                      [("e1", T_REF("Rx")), ("e2", T_SEQ([("k", T_REF("Sx"), "OPT"), ("v", T_INT())])), ("e3", T_REF("Ax"), "OPT"), ("e4", T_INT("0..255")),
                       ("e5", T_REF("Pt"))]))
    lx = ("Lx", T_SEQOF(T_REF("Ax")))
    wx = ("Wx", T_SEQ([("h", T_REF("Sx")), ("l", T_REF("Lx"))], [("x", T_REF("Rx")), ("y", T_REF("Lx"), "OPT")]))
    return [pt, rx, ax, sx, lx, wx]


def nested_modules(tier):
    out = []
    for dflt in ("EXPLICIT", "IMPLICIT", "AUTOMATIC"):
        m = text_module("FY" + dflt[0], dflt, nested_defs(), 2 if tier == "quick" else 3)
        out.append(m)
    return out


def wide_ext_module():
    en = T_ENUM(["a", "b"], ["c"])
    defs = [
        ("WS", T_SEQ([("i", T_INT()), ("d", T_INT(), ("DEF", "5")), ("r", T_REAL, "OPT"), ("e", en)],
                     [("xi", T_INT()), ("xr", T_REAL), ("xe", T_ENUM(["p", "q"])), ("xd", T_INT(), ("DEF", "7")),
                      ("xs", T_SEQ([("j", T_INT()), ("s", T_REAL, "OPT")])), ("xl", T_SEQOF(T_INT())), ("xb", T_INT("0..4294967295"))])),
        ("WC", T_CHO([("i", T_INT()), ("r", T_REAL)],
                     [("xi", T_INT()), ("xr", T_REAL), ("xe", T_ENUM(["p", "q"], ["z"])), ("xs", T_SEQ([("j", T_INT(), ("DEF", "3")), ("s", T_REAL)])),
                      ("xc", T_CHO([("u", T_INT()), ("v", T_REAL)])), ("xu", T_INT("0..4294967295"))])),
        ("WL", T_SEQOF(T_REF("WC"))),
    ]
    return text_module("FWX", "AUTOMATIC", defs, 2, about_rfill=6)


ABOUT_EXT = {"FX": ["-findirect-choice"], "FY": ["-findirect-choice"], "FWX": ["-fwide-types", "-findirect-choice"]}


def relevant_ext(m, opts):
    a = ABOUT_EXT.get(m["name"]) or ABOUT_EXT.get(m["name"][:2])
    if a is None:
        return relevant(m, opts)
    return any(o in opts for o in a)
