"""c13_util — the same module built under several sets of asn1c representation
options (checks/c13.py).  Wraps lib/modbuild.build_modules; nothing shared is edited."""
import copy, itertools, re
from concurrent.futures import ThreadPoolExecutor
from vlib import *
from modbuild import *

# the seven options of the property text ("disabling an unused codec" is -no-gen-OER
# or -no-gen-PER; a build made with one of them is not asked for that syntax)
OPTS7 = ["-fwide-types", "-fcompound-names", "-findirect-choice", "-fno-include-deps", "-fincludes-quoted",
         "-fno-constraints", "-no-gen-OER"]
BASE = ("-fcompound-names",)

# quick tier: the baseline and five subsets; every option appears at least once, -fcompound-names is
# absent once, the two codec switches are used on different builds
QUICK_SETS = [
    ("-fcompound-names", "-fwide-types"),
    ("-fcompound-names", "-findirect-choice", "-no-gen-PER"),
    ("-fcompound-names", "-fincludes-quoted", "-fno-include-deps", "-no-gen-OER"),
    ("-fcompound-names", "-fno-constraints"),
    ("-fwide-types", "-findirect-choice", "-fincludes-quoted", "-fno-include-deps"),
]


def all_subsets(rng):
    """thorough tier: every subset of OPTS7 (the baseline excepted); the codec switch alternates
    between OER and PER so that both are exercised"""
    out = []
    n = 0
    for k in range(len(OPTS7) + 1):
        for sub in itertools.combinations(OPTS7, k):
            sub = list(sub)
            if tuple(sub) == BASE:
                continue
            if "-no-gen-OER" in sub:
                n += 1
                if n % 2 == 0:
                    sub[sub.index("-no-gen-OER")] = "-no-gen-PER"
            out.append(tuple(sub))
    return out


def clone_mods(mods):
    """fresh dicts (build_modules writes exe/dir/... into them) sharing text, defs and trees"""
    out = []
    for m in mods:
        c = {k: m[k] for k in ("name", "default", "defs", "trees", "text") if k in m}
        for k in ("wide", "family"):
            if m.get(k):
                c[k] = True
        out.append(c)
    return out


def build_variants(mods, optsets, jobs=3, prefix="opt", select=None, moddrv_extra=None):
    """build clones of mods under every option set; returns [(opts, clones)] in the order of optsets.
    The compiler copy and the skeleton archive are built once, before the threads start.
    select(module, opts) -> bool: build only these modules under that option set."""
    build_asn1c()
    build_skeleton_lib(True)
    res = [None] * len(optsets)

    def one(i):
        cl = clone_mods([m for m in mods if select is None or select(m, optsets[i])])
        build_modules(cl, tag="%s%d" % (prefix, i + 1), opts=optsets[i], moddrv_extra=moddrv_extra)
        return cl

    with ThreadPoolExecutor(max_workers=jobs) as ex:
        futs = [ex.submit(one, i) for i in range(len(optsets))]
        for i, f in enumerate(futs):
            res[i] = (optsets[i], f.result())
    return res


SYNS = ["der", "uper", "oer", "xer", "cxer"]


def skips(opts, syn):
    """a build made without a codec is not asked for it"""
    return (syn == "oer" and "-no-gen-OER" in opts) or (syn == "uper" and "-no-gen-PER" in opts)


# ------------------------------------------------------------------ classifiers of the known findings

def int_beyond_long_in_der(der_hex):
    """the DER value contains an INTEGER-looking TLV (universal 2 or any primitive tag) whose contents
    are 9 octets 00 80.. to 00 ff.. : a value in [2^63, 2^64).  Used only together with the module text
    predicate below, as the narrow classifier of C13-unsigned-native-*."""
    return re.search(r"0900[89a-f][0-9a-f]{15}", der_hex) is not None


def has_unsigned_native(text):
    """the module text has an INTEGER whose PER-visible range makes asn1c choose `unsigned long` with no
    upper bound below 2^64: (N..MAX), 0 <= N <= 2147483647"""
    return re.search(r"INTEGER\s*\(\s*\d+\s*\.\.\s*MAX\s*\)", text) is not None


def run_lines_watchdog(exe, lines, per_line=10.0, env=None):
    """feed command lines to a line-protocol driver with a watchdog: if no complete answer line arrives
    within per_line seconds the driver is killed (a command that never returns — e.g. BIT_STRING_encode_oer's
    padding loop, which never decrements its counter and allocates without bound — must not take the
    machine down).  Returns (rc | "TIMEOUT", output lines, stderr tail)."""
    import subprocess, select, tempfile, threading, os as _os
    data = ("\n".join(lines) + "\n").encode()
    errf = tempfile.TemporaryFile()
    p = subprocess.Popen([exe], stdin=subprocess.PIPE, stdout=subprocess.PIPE, stderr=errf, env=env)

    def feed():
        try:
            p.stdin.write(data)
            p.stdin.close()
        except (BrokenPipeError, OSError):
            pass
    t = threading.Thread(target=feed, daemon=True)
    t.start()
    buf = b""
    fd = p.stdout.fileno()
    timed_out = False
    nlines = 0
    while True:
        r, _, _ = select.select([fd], [], [], per_line)
        if not r:
            timed_out = True
            p.kill()
            break
        chunk = _os.read(fd, 1 << 16)
        if not chunk:
            break
        buf += chunk
        n = buf.count(b"\n")
        if n == nlines:
            # partial line only: keep the same deadline semantics (a new select gives another per_line;
            # bounded by the size of one answer)
            pass
        nlines = n
    p.wait()
    t.join(timeout=2)
    errf.seek(0)
    err = errf.read().decode(errors="replace")[-4000:]
    errf.close()
    out = buf.decode(errors="replace").split("\n")
    if out and out[-1] == "":
        out.pop()
    elif out and timed_out:
        out.pop()            # an unfinished answer line
    return ("TIMEOUT" if timed_out else p.returncode), out, err


def family_sets_thorough():
    """thorough tier, family modules: every subset of the four options that change the generated STRUCTURES
    (-fwide-types, -findirect-choice, -fno-constraints, a codec switch) with -fcompound-names, plus the naming/include
    options on top of some and -fcompound-names absent from some"""
    out = []
    core = ["-fwide-types", "-findirect-choice", "-fno-constraints", "-no-gen-OER"]
    n = 0
    for k in range(len(core) + 1):
        for sub in itertools.combinations(core, k):
            sub = list(sub)
            if "-no-gen-OER" in sub:
                n += 1
                if n % 2 == 0:
                    sub[sub.index("-no-gen-OER")] = "-no-gen-PER"
            if sub:
                out.append(tuple(["-fcompound-names"] + sub))
    out += [("-fincludes-quoted",), ("-fno-include-deps",), ("-fcompound-names", "-fincludes-quoted", "-fno-include-deps"),
            ("-fwide-types", "-findirect-choice", "-fno-constraints", "-fincludes-quoted", "-fno-include-deps"), ()]
    return out
