"""c11_status — the layer "a fault is fatal whatever else the run has to say" (wave 4, seeded C11-6).

Region: every single-fault injection of checks/c11.py is made into an otherwise SILENT module, so the only
status a run ever folds is 0* -1 0*.  libasn1fix folds statuses {0, 1 = warning, -1 = fatal} with the macro
RET2RVAL along a tree (asn1f_process -> module phase 1 / phase 2 -> passes -> asn1f_recurse_expr -> members)
and asn1c/asn1c.c turns the folded status into the exit status (1 is success unless -Werror).  Nothing in the
corpus made the fold see a 1.  This layer takes faults (and valid controls) of the single-module corpus and
re-runs each in ENVIRONMENTS that make asn1c record a warning status somewhere else:

  source of the warning (grep WARNING/RET2RVAL(1 in libasn1fix; the ones that really produce status 1 and exit 0):
    hdr      unknown encoding reference  `M DEFINITIONS PER INSTRUCTIONS ... ::= BEGIN`   (same module, before everything)
    oid2     a module of the same NAME with another OID earlier in the set            (warning in the LATER module)
    stdclash a value named like one of skeletons/standard-modules (`ber`), the module has an OID
             (warning recorded while the STANDARD module is processed = after the user's modules)
    controls TAG / XER INSTRUCTIONS (recognised: no warning), an OID alone
  x where the warning is relative to the fault: same module (before it), another module before / after it in the same
    file, another FILE before / after it on the command line, both modules
  x with and without -Werror.
(Sources found that do NOT yield "status 1, exit 0" and are therefore not used: `Possibly incompatible type`
returns 1 but its caller rejects the module; the named-bit warning of asn1fix_bitstring.c is unreachable - the value
notation it complains about does not parse; `Parameterized type expected`, `Constraints ignored`, `assuming no
constraints` print WARNING and return 0.)

Oracle (property text, unchanged): the module under test violates a clause  =>  non-zero exit, no .c/.h, a FATAL line;
it violates none => exit 0 and code, unless -Werror was given and a warning status was recorded (then: non-zero, no code).
Model: coq/Fix/Status.v — the environment is a status tree (one leaf per warning source, one fatal leaf where the extracted
xcheck rejects the module), folded by the extracted ret2rval / process / exit_code (command c11st)."""
import os, re, shutil, subprocess
from concurrent.futures import ThreadPoolExecutor

COMPANION = ["W1 ::= SEQUENCE { a INTEGER, b BOOLEAN OPTIONAL }", "W2 ::= CHOICE { a W1, b NULL }"]
UNK = "PER INSTRUCTIONS"


def header(name, oid, enc, tagging):
    return "%s %sDEFINITIONS %s%s ::= BEGIN" % (name, ("{ iso %d } " % oid) if oid else "", (enc + " ") if enc else "", tagging)


def module_text(name, oid, enc, tagging, lines):
    return "\n".join([header(name, oid, enc, tagging)] + list(lines) + ["END"]) + "\n"


# an environment: name -> function (tagging text, definition lines of the module under test) ->
#   ([(file name, text)] in command-line order,  status leaves per module in processing order)
# leaves: 'W' = a warning status is recorded there, 'F' = the place of the module under test (fatal iff it is faulty)
def environments():
    comp = lambda name, oid=None, enc=None: module_text(name, oid, enc, "", COMPANION)
    E = []
    one = lambda txt: [("m.asn1", txt)]
    E.append(("hdr-unknown", lambda tg, dl: (one(module_text("M", None, UNK, tg, dl)), [["W", "F"]])))
    E.append(("hdr-unknown-oid", lambda tg, dl: (one(module_text("M", 7, "FOO INSTRUCTIONS", tg, dl)), [["W", "F"]])))
    E.append(("hdr-xer", lambda tg, dl: (one(module_text("M", None, "XER INSTRUCTIONS", tg, dl)), [["F"]])))
    E.append(("hdr-tag", lambda tg, dl: (one(module_text("M", None, "TAG INSTRUCTIONS", tg, dl)), [["F"]])))
    E.append(("oid-alone", lambda tg, dl: (one(module_text("M", 7, None, tg, dl)), [["F"]])))
    # the same module name twice, different OIDs: the warning lands in the LATER module
    E.append(("oid2-warning-in-faulty", lambda tg, dl: (one(comp("M", 1) + module_text("M", 2, None, tg, dl)), [[], ["W", "F"]])))
    E.append(("oid2-warning-after", lambda tg, dl: (one(module_text("M", 1, None, tg, dl) + comp("M", 2)), [["F"], ["W"]])))
    # another module with the unknown header, same file
    E.append(("other-before", lambda tg, dl: (one(comp("W", None, UNK) + module_text("M", None, None, tg, dl)), [["W"], ["F"]])))
    E.append(("other-after", lambda tg, dl: (one(module_text("M", None, None, tg, dl) + comp("W", None, UNK)), [["F"], ["W"]])))
    E.append(("both", lambda tg, dl: (one(comp("W", None, UNK) + module_text("M", None, UNK, tg, dl)), [["W"], ["W", "F"]])))
    E.append(("both-after", lambda tg, dl: (one(module_text("M", None, UNK, tg, dl) + comp("W", None, UNK)), [["W", "F"], ["W"]])))
    # another FILE
    E.append(("file-before", lambda tg, dl: ([("w.asn1", comp("W", None, UNK)), ("m.asn1", module_text("M", None, None, tg, dl))], [["W"], ["F"]])))
    E.append(("file-after", lambda tg, dl: ([("m.asn1", module_text("M", None, None, tg, dl)), ("w.asn1", comp("W", None, UNK))], [["F"], ["W"]])))
    # a silent companion: control of the multi-module dimension
    E.append(("silent-other-before", lambda tg, dl: (one(comp("W") + module_text("M", None, None, tg, dl)), [[], ["F"]])))
    # clash with a value of the standard module: the warning is recorded in the standard module (processed last)
    E.append(("stdclash", lambda tg, dl: (one(module_text("M", 7, None, tg, ["ber INTEGER ::= 5"] + list(dl))), [["F"], ["W"]])))
    E.append(("stdclash-after", lambda tg, dl: (one(module_text("M", 7, None, tg, list(dl) + ["ber INTEGER ::= 5"])), [["F"], ["W"]])))
    return E



DIAG_OK = re.compile(r"^(Compiled|Copied|Generated|Symlinked) ")


def run_env(args):
    idx, files, werror, asn1c, skel, root, diag_table = args
    d = os.path.join(root, "s%05d" % idx)
    os.makedirs(d)
    for fn, text in files:
        open(os.path.join(d, fn), "w").write(text)
    cmd = [asn1c, "-S", skel, "-fcompound-names"] + (["-Werror"] if werror else []) + [fn for fn, _ in files]
    try:
        p = subprocess.run(cmd, cwd=d, stdout=subprocess.PIPE, stderr=subprocess.PIPE, text=True, errors="replace", timeout=120)
        rc, err = p.returncode, p.stderr
    except subprocess.TimeoutExpired:
        rc, err = -999, "TIMEOUT"
    nfiles = len([f for f in os.listdir(d) if f.endswith(".c") or f.endswith(".h")])
    shutil.rmtree(d, ignore_errors=True)
    classes = set()
    nfatal = nwarn = 0
    for line in err.split("\n"):
        if line.startswith("WARNING:"):
            nwarn += 1
        if not line.startswith("FATAL:"):
            continue
        nfatal += 1
        for pat, cl in diag_table:
            if pat in line:
                if cl:
                    classes.add(cl)
                break
    diag = [l for l in err.split("\n") if l.strip() and not DIAG_OK.match(l)]
    return {"rc": rc, "nfiles": nfiles, "classes": sorted(classes), "nfatal": nfatal, "nwarn": nwarn, "stderr_tail": "\n".join(diag[-6:])[-700:]}


def pick_faults(base, rng, tier):
    """base: [(label, module, model dict, asn1c result, family)] of the single-module corpus whose plain run was clean
    (asn1c = model = spec).  Round-robin over the major fault families (collision, COMPONENTS OF, duplicate identifier,
    enumeration name / value, dangling reference, big enumerations, hand-written witnesses ...), inside a major family
    over its sub-families, so that a small budget still meets every kind of fault."""
    want_bad = 32 if tier == "quick" else 160
    want_ok = 8 if tier == "quick" else 30

    def major(fam, lab):
        if fam.startswith("fixed") or lab[:2] in ("w-", "x-", "t-", "q-", "c-", "e-"):
            return "fixed"
        return fam.split(":")[0]
    picked = []
    for accept, want in ((False, want_bad), (True, want_ok)):
        tree = {}
        for b in base:
            lab, m, f, r, fam = b
            if (f["model"].split(":")[0] == "ACCEPT") != accept:
                continue
            tree.setdefault(major(fam, lab), {}).setdefault(fam, []).append(b)
        majors = sorted(tree)
        for mj in majors:
            for fam in tree[mj]:
                tree[mj][fam] = rng.shuffle(tree[mj][fam])
        got, rnd = [], 0
        while len(got) < want and rnd < 400:
            for mj in majors:
                fams = sorted(f for f in tree[mj] if tree[mj][f])
                if fams and len(got) < want:
                    got.append(tree[mj][fams[rnd % len(fams)]].pop())
            rnd += 1
            if not any(tree[mj][f] for mj in majors for f in tree[mj]):
                break
        picked += got
    # directed: a type assigned twice is among the faults of EVERY run (the fault that a module OID hid from the fixer:
    # C11-duptype-with-oid-accepted, repaired; the environments oid-alone, hdr-unknown-oid, oid2-*, stdclash* give the OID)
    if not any(b[3]["classes"] == ["duptype"] for b in picked):
        cand = [b for b in base if b[3]["classes"] == ["duptype"] and b[2]["model"].split(":")[0] == "REJECT"]
        picked += cand[:1]
    return picked


def status_line(werror, leaves, faulty):
    """c11st <werror> <nmodules> (<nleaves> <-1|0|1>*)*   — phase-1 leaves of every module in processing order"""
    out = ["c11st", "1" if werror else "0", str(len(leaves))]
    for ls in leaves:
        vals = [("1" if x == "W" else ("-1" if faulty else "0")) for x in ls]
        out += [str(len(vals))] + vals
    return " ".join(out)


def run_layer(run, rng, tier, model, asn1c, skel, scratch_dir, ncpu, run_lines, base, def_lines, tagging_txt, diag_table):
    def viol(kind, rep, no_input=False):
        run.count("st:violation:" + kind)
        run.violation(kind, rep, no_input=no_input)

    faults = pick_faults(base, rng, tier)
    envs = environments()
    work = []
    for lab, m, f, r0, fam in faults:
        faulty = f["model"].split(":")[0] == "REJECT"
        spec_accept = f["spec"] == "OK" and f["wf"] == "1"
        dl = def_lines(m)
        tg = tagging_txt(m)
        for ename, mk in envs:
            files, leaves = mk(tg, dl)
            for werror in (False, True):
                work.append({"label": "st:%s:%s%s" % (ename, lab, ":Werror" if werror else ""), "env": ename, "werror": werror, "files": files,
                             "leaves": leaves, "faulty": faulty, "spec_accept": spec_accept, "base": r0, "fam": fam,
                             "line": status_line(werror, leaves, faulty)})
    lines = [w["line"] for w in work]
    rc, mo, me = run_lines(model, lines)
    if rc != 0 or len(mo) != len(lines) or any(o.startswith("EXN") or o == "BADCMD" for o in mo):
        raise RuntimeError("model driver failed on the status layer: rc=%s %d/%d %s" % (rc, len(mo), len(lines), me[-300:]))
    root = os.path.join(scratch_dir, "c11st")
    os.makedirs(root, exist_ok=True)
    with ThreadPoolExecutor(max_workers=ncpu) as ex:
        results = list(ex.map(run_env, [(i, w["files"], w["werror"], asn1c, skel, root, diag_table) for i, w in enumerate(work)]))
    for w, o, r in zip(work, mo, results):
        run.case(w["line"] + " # " + w["label"])
        run.count("st:env:" + w["env"] + (":Werror" if w["werror"] else ""))
        run.count("st:fault:" + w["fam"])
        if r["nfatal"] > 0 and (r["rc"] == 0 or r["nfiles"] > 0):    # general clause (wave 5): FATAL => non-zero exit, no code
            run.count("oracle_deviation")
            viol("oracle:fatal-diagnostic-implies-failure", {"label": w["label"], "files": [{"name": fn, "text": t} for fn, t in w["files"]], "asn1c": r,
                                                             "input": "\n".join("-- file %s\n%s" % (fn, t) for fn, t in w["files"]),
                                                             "what": "%d FATAL line(s), exit %d, %d files" % (r["nfatal"], r["rc"], r["nfiles"])})
        f = dict(kv.split("=", 1) for kv in o.split())
        haswarn = any("W" in ls for ls in w["leaves"])
        cmdline = "asn1c -S <skeletons> -fcompound-names %s%s" % ("-Werror " if w["werror"] else "", " ".join(fn for fn, _ in w["files"]))
        rep = {"label": w["label"], "files": [{"name": fn, "text": t} for fn, t in w["files"]], "model_line": w["line"], "model": o,
               "asn1c": r, "plain_run": {k: w["base"][k] for k in ("rc", "classes", "nfiles")},
               "replay_cmd": "write the files into an empty directory; %s; echo $?; ls *.c *.h" % cmdline}
        text = "\n".join("-- file %s\n%s" % (fn, t) for fn, t in w["files"])
        # ---- oracle
        bad = None
        if r["rc"] < 0:
            bad = "asn1c died (rc %d)" % r["rc"]
        elif not w["spec_accept"]:
            if r["rc"] == 0:
                bad = "an ambiguous / inconsistent module is accepted (exit 0, %d files written, %d FATAL line(s) printed) when a warning is recorded elsewhere" % (r["nfiles"], r["nfatal"])
            elif r["nfiles"] != 0:
                bad = "non-zero exit but %d .c/.h files were written" % r["nfiles"]
            elif r["nfatal"] == 0:
                bad = "rejected without a FATAL diagnostic"
        else:
            must_fail = w["werror"] and haswarn
            if must_fail and r["rc"] == 0:
                bad = "-Werror given, a warning status recorded, exit 0"
            elif must_fail and r["nfiles"] != 0:
                bad = "-Werror: non-zero exit but files were written"
            elif not must_fail and r["rc"] != 0:
                bad = "a module with none of the listed faults is rejected (rc %d) because of its surroundings" % r["rc"]
            elif not must_fail and r["nfiles"] == 0:
                bad = "exit 0 but no code written"
        if bad:
            run.count("oracle_deviation")
            viol("oracle:fatal-status-decides-exit", dict(rep, what=bad, input=text))
        # the diagnosis must be the one of the plain run (the surroundings add only warnings)
        elif r["rc"] != 0 and not w["spec_accept"] and r["classes"] != w["base"]["classes"]:
            run.count("oracle_deviation")
            viol("oracle:fatal-status-decides-exit", dict(rep, what="fault classes %s differ from the plain run's %s" % (r["classes"], w["base"]["classes"]), input=text))
            bad = "classes"
        # ---- faithfulness: the folded status / exit status of coq/Fix/Status.v
        if str(r["rc"]) != f["exit"]:
            run.count("model_vs_code_diff")
            viol("correspondence:Fix.Status.exit_code", dict(rep, what="extracted status fold predicts exit %s (status %s), asn1c exits %d" % (f["exit"], f["status"], r["rc"])),
                 no_input=bad is None)
        if (r["nwarn"] > 0) != haswarn and r["rc"] >= 0:
            viol("harness:status-environment", dict(rep, what="environment %s: %d WARNING lines printed, expected %s" % (w["env"], r["nwarn"], "some" if haswarn else "none")), no_input=True)
    return len(work)
