"""setdef_layer — the SET / DEFAULT layer of checks C01, C02, C03 (model coq/Rt/SetDef.v, theorems
coq/Rt/SetDefProofs.v, front end ocaml/drv_setdef.ml, generator lib/setdefgen.py, notes
notes/design/SetDef.md).  Hooked by one call each:
    setdef_layer.run_c01(run, rng, tier)   setdef_layer.run_c02(run, rng, tier)   setdef_layer.run_c03(run, rng, tier)
Nothing is drawn from the caller's rng.

A value reaches the C through three doors, so that a decoder defect cannot mask an encoder defect and both
representations of a default value are exercised:
  der   the model's DER (no DEFAULT value inside: the member pointer is NULL after ber_decode);
  xer   CANONICAL-XER text printed here from the value: a DEFAULT member holding its default is STORED explicitly;
  ber   the value's encoding under the type with every DEFAULT read as OPTIONAL: valid BER carrying the default
        values explicitly (BOOLEANs stored as 0xff by the BER decoder: `raw` = 1 in the model).
C02  C encoders (der / uper / oer) behind each door = model of the C (faithfulness) = spec_* (oracle); the table
     tag2el emitted by the compiler = the model's; python twins of strip / fill / X.690 order against the model.
C01  rt battery on the C alone; C decoders on the model's bytes (code, consumed, DER of the result) and the
     REPRESENTATION they leave (CANONICAL-XER of the decoded value: PER / OER fill the default in, BER leaves the member
     absent) = the model's decoders' values.
C03  every valid encoding is accepted with the same value: SET members in reversed / rotated / random order at every level,
     indefinite lengths, default values present in BER / basic PER / basic OER.
Violation kinds are prefixed `setdef:`."""
import os, re, time
from vlib import *
from modbuild import *
from modcorpus import run_mod
import ext_layer
import setdefgen as G
from setdefgen import val_str

FID_BOOL = {"C01": "C01-boolean-default-true", "C02": "C06-default-boolean-true-octet", "C03": "C01-boolean-default-true"}
FID_SETPER = "C01-set-no-per-oer"
FID_XERNL = "C01-xer-trailing-newline"
TIMES = {}


def own_rng(run, salt):
    return Rng(run.seed * 1000003 + 7100 + salt)


def model_lines(model, lines, what):
    return ext_layer.model_lines(model, lines, "sd_" + what)


# ---------------------------------------------------------------- build, cases

def build(run, rng, tier, tag):
    t0 = time.time()
    mods = G.gen_modules(rng, tier)
    build_modules(mods, tag=tag)
    for m in mods:
        if not m.get("exe"):
            run.violation("setdef:build:module", {"what": "asn1c rejected a valid module of SET / DEFAULT types or its output does not compile",
                                                  "module": m["text"], "asn1c_rc": m.get("asn1c_rc"), "asn1c_out": (m.get("asn1c_out") or "")[-1500:],
                                                  "build_log": (m.get("build_log") or "")[-1500:]})
    run.count("setdef_modules", len(mods))
    TIMES["build"] = round(time.time() - t0, 1)
    return mods


def marks(tree):
    while tree[0] == "X":
        tree = tree[2]
    return [m for m in tree[2]] if tree[0] in ("Q", "W") else []


def pattern_value(tree, rng, pat, how):
    """top-level members by presence pattern (list of bools over the OPTIONAL / DEFAULT members), DEFAULT members `how`"""
    t = tree
    while t[0] == "X":
        t = t[2]
    out, k = [], 0
    for m in t[2]:
        if m[0] in ("P", "D"):
            p = pat[k]
            k += 1
            if not p:
                out.append(("_",))
            elif m[0] == "P":
                out.append(("!", G.value(m[1], rng)))
            else:
                out.append(G.dflt_member_value(m, rng, how))
        else:
            out.append(G.value(m, rng))
    return ("S", out)


def patterns(k, rng):
    if k == 0:
        return [[]]
    pats = [[False] * k, [True] * k]
    for i in sorted(set([0, 6, 7, 8, 14, 15, 16, 30, 31, 32, k - 1])):
        if 0 <= i < k:
            pats.append([j == i for j in range(k)])
    pats.append([j % 2 == 0 for j in range(k)])
    pats.append([rng.chance(1, 2) for _ in range(k)])
    seen, out = set(), []
    for p in pats:
        if tuple(p) not in seen:
            seen.add(tuple(p))
            out.append(p)
    return out


def choice_sweep(tree, rng):
    """one value per alternative of every untagged CHOICE member of a top-level SET"""
    out = []
    for i, m in enumerate(tree[2]):
        inner = m[-1] if m[0] in ("P", "D") else m
        if inner[0] == "B" and inner[1][0] == "c":
            for a in range(len(inner[1][1])):
                v = G.value(tree, rng)
                cv = ("C", a, G.modgen.value(inner[1][1][a], rng, 2))
                v[1][i] = ("!", cv) if m[0] == "P" else cv
                out.append(v)
    return out


def make_cases(mods, rng, tier):
    cases = []
    for m in mods:
        if not m.get("exe"):
            continue
        for tn, x in m["sd"].items():
            tree = x["tree"]
            vals = []
            k = sum(1 for mm in marks(tree) if mm[0] in ("P", "D"))
            for pat in patterns(k, rng):
                for how in (["explicit", "near"] if any(pat) and any(mm[0] == "D" for mm in marks(tree)) else ["other"]):
                    vals.append(("pat:%s" % how, pattern_value(tree, rng, pat, how)))
            if tree[0] == "W":
                vals += [("choice", v) for v in choice_sweep(tree, rng)]
            nr = (2 if tier == "quick" else 6) if m["name"] in ("SB", "DA", "DB") else (6 if tier == "quick" else 20)
            vals += [("random", G.value(tree, rng)) for _ in range(nr)]
            seen = set()
            for cat, v in vals:
                vs = val_str(v)
                if vs in seen:
                    continue
                seen.add(vs)
                try:
                    xer = G.xer(tn, x["t"], tree, v, m["env"])
                except G.NoXer:
                    xer = None
                cases.append({"m": m, "tn": tn, "x": x, "tree": tree, "v": v, "vs": vs, "cat": m["name"] + ":" + cat, "xer": xer})
    return cases


def opt_type(tree):
    """the type with every DEFAULT read as OPTIONAL (its encodings of a value are valid encodings under the real type)"""
    k = tree[0]
    if k == "D":
        return ("P", opt_type(tree[2]))
    if k == "P":
        return ("P", opt_type(tree[1]))
    if k == "X":
        return ("X", tree[1], opt_type(tree[2]))
    if k in ("Q", "W"):
        return (k, tree[1], [opt_type(m) for m in tree[2]])
    return tree


def has_dflt(tree):
    return G.tree_any(tree, lambda t: t[0] == "D")


def explicit_true(tree, v):
    """the value stores a TRUE in a BOOLEAN DEFAULT TRUE member"""
    k = tree[0]
    if k == "X":
        return explicit_true(tree[2], v)
    if k in ("Q", "W"):
        for m, x in zip(tree[2], v[1]):
            if m[0] == "D" and m[1] is True and x[0] == "!" and x[1] is True:
                return True
            if m[0] == "P" and x[0] == "!" and explicit_true(m[1], x[1]):
                return True
            if m[0] in ("Q", "W", "X") and explicit_true(m, x):
                return True
    return False


def explicit_dflt(tree, v):
    return val_str(G.strip(tree, v)) != val_str(v)


def set_encoded(tree, v):
    """a SET has to be encoded (PER / OER: no codec)"""
    k = tree[0]
    if k == "W":
        return True
    if k == "X":
        return set_encoded(tree[2], v)
    if k == "Q":
        for m, x in zip(tree[2], v[1]):
            if m[0] in ("P", "D"):
                if x[0] == "!" and set_encoded(m[-1], x[1]):
                    return True
            elif set_encoded(m, x):
                return True
    return False


def model_encode(model, cases):
    # a SET OF inside: the C sees the elements in the order of their DER encodings whatever the door; take the value back
    # from the model's BER reader (under the type with DEFAULT read as OPTIONAL, so that stored defaults stay stored)
    so = [c for c in cases if G.base_any(c["tree"], lambda b: b[0] == "t")]
    ots = [G.model_str(opt_type(c["tree"])) for c in so]
    out = model_lines(model, ["sdder 0 %s %s" % (ot, c["vs"]) for ot, c in zip(ots, so)], "canon1")
    out = model_lines(model, ["sdberdec %s %s" % (ot, h) for ot, h in zip(ots, out)], "canon2")
    for c, o in zip(so, out):
        f = o.split()
        if f[0] != "OK":
            raise RuntimeError("model does not decode its own DER: %s %s -> %s" % (c["x"]["cty"], c["vs"][:200], o[:200]))
        c["vs"] = f[2]
        c["v"] = G.parse_val(f[2])
        if c["xer"] is not None:
            c["xer"] = G.xer(c["tn"], c["x"]["t"], c["tree"], c["v"], c["m"]["env"])
    lines, slots = [], []

    def q(c, key, line):
        slots.append((c, key))
        lines.append(line)
    for c in cases:
        t, vs = c["x"]["cty"], c["vs"]
        c["raw"] = explicit_true(c["tree"], c["v"])
        c["expl"] = explicit_dflt(c["tree"], c["v"])
        q(c, "der", "sdder 0 %s %s" % (t, vs))
        q(c, "uper", "sduper 0 0 %s %s" % (t, vs))
        q(c, "oer", "sdoer 0 %s %s" % (t, vs))
        q(c, "sder", "spec_sdder %s %s" % (t, vs))
        q(c, "super", "spec_sduper 1 %s %s" % (t, vs))
        q(c, "soer", "spec_sdoer %s %s" % (t, vs))
        q(c, "strip", "sdstrip %s %s" % (t, vs))
        q(c, "fill", "sdfill %s %s" % (t, vs))
        if c["expl"]:
            ot = G.model_str(opt_type(c["tree"]))
            q(c, "xber", "sdder 0 %s %s" % (ot, vs))
            q(c, "xuper", "sduper 0 0 %s %s" % (ot, vs))
            q(c, "xoer", "sdoer 0 %s %s" % (ot, vs))
            if c["raw"]:
                q(c, "der1", "sdder 1 %s %s" % (t, vs))
                q(c, "uper1", "sduper 1 0 %s %s" % (t, vs))
                q(c, "oer1", "sdoer 1 %s %s" % (t, vs))
    out = model_lines(model, lines, "encode")
    for (c, key), o in zip(slots, out):
        c[key] = o
    good = []
    for c in cases:
        if c["der"] == "NONE":
            raise RuntimeError("model does not encode a generated value: %s %s" % (c["x"]["cty"], c["vs"][:300]))
        c["setof"] = False
        good.append(c)
    return good


def replay_of(case_, **kw):
    d = {"module": case_["m"]["text"], "type": case_["tn"], "model_type": case_["x"]["cty"], "value": case_["vs"][:3000], "category": case_["cat"]}
    d.update(kw)
    return d


def hexs(s):
    return s.encode().hex()


# ---------------------------------------------------------------- python twins (independent of the model)

def py_checks(run, cases):
    for c in cases:
        if c["setof"]:
            continue
        for key, f in (("strip", G.strip), ("fill", G.fill)):
            exp = val_str(f(c["tree"], c["v"]))
            if c[key] != exp:
                run.violation("setdef:spec:" + key, replay_of(c, what="the model's %s_dflt differs from its reading computed in Python" % key,
                                                                 model=c[key][:500], expected=exp[:500]), no_input=True)


def py_set_order(run, c):
    """X.690 10.3 on the spec's own bytes, computed here: the components of every SET encoding are in ascending tag order"""
    def walk(tree, b):
        k = tree[0]
        if k in ("P", "D"):
            return walk(tree[-1], b)
        if k == "B":
            return True
        tagb, kids = G.tlv_children(b)
        if k == "X":
            return walk(tree[2], kids[0])
        keys = []
        for kid, mem in zip(kids, match_members(tree, kids)):
            if mem is None or not walk(mem, kid):
                return False
            keys.append(G.tag_key(tag_of(kid)))
        if k == "W" and keys != sorted(keys):
            return False
        return True
    return walk(c["tree"], bytes.fromhex(c["sder"]))


def match_members(tree, kids):
    """the member each component TLV belongs to: by tag in a SET, by tag in definition order in a SEQUENCE"""
    out, pos = [], 0
    for kid in kids:
        tg = tag_of(kid)
        if tree[0] == "W":
            mem = [m for m in tree[2] if tg in G.first_tags(m)]
            out.append(mem[0] if len(mem) == 1 else None)
        else:
            while pos < len(tree[2]) and tg not in G.first_tags(tree[2][pos]):
                pos += 1
            out.append(tree[2][pos] if pos < len(tree[2]) else None)
            pos += 1
    return out


def tag_of(tlv):
    first = tlv[0]
    cls = first >> 6
    if first & 31 != 31:
        return (first & 31) * 4 + cls
    n, i = 0, 1
    while True:
        n = n * 128 + (tlv[i] & 127)
        if not tlv[i] & 128:
            break
        i += 1
    return n * 4 + cls


# ---------------------------------------------------------------- C02

TAG2EL_RE = re.compile(r"\{ \(ASN_TAG_CLASS_(\w+) \| \((\d+) << 2\)\), (\d+),")


def emitted_tag2el(m, tn):
    """the table asn_MAP_<T>_tag2el_1 of the generated <T>.c"""
    p = os.path.join(m["dir"], tn + ".c")
    if not os.path.exists(p):
        return None
    src = open(p).read()
    mm = re.search(r"asn_MAP_%s_tag2el_1\[\] = \{(.*?)\n\};" % re.escape(tn), src, re.S)
    if not mm:
        return None
    cls = {"UNIVERSAL": 0, "APPLICATION": 1, "CONTEXT": 2, "PRIVATE": 3}
    return ",".join("%d:%d" % (int(n) * 4 + cls[c], int(e)) for c, n, e in TAG2EL_RE.findall(mm.group(1)))


def judge_enc(run, prop, c, door, s, line, o, faithful, spec):
    """one encoder output: C vs the model of the C, then vs the standard reading"""
    run.case("setdef:" + c["m"]["name"] + ":" + line[:300] + str(len(line)))
    run.count("setdef_enc_%s_%s" % (door, s))
    exp_f = ("OK " + faithful) if faithful != "NONE" else "ENCFAIL"
    got = o if not o.startswith("ENCFAIL") else "ENCFAIL"
    rp = replay_of(c, syntax=s, door=door, command_line=line[:3000], c=o[:2000], model=exp_f[:2000], standard=spec[:2000])
    if got != exp_f:
        bad = spec != "NONE" and got != "OK " + spec
        run.violation("setdef:correspondence:%s" % s, dict(rp, what="C encoder output differs from the model of the C" + (" and from the standard" if bad else "")),
                      no_input=not bad)
        return
    if faithful == "NONE":
        if s in ("uper", "oer") and set_encoded(c["tree"], c["v"]):
            run.known_finding(FID_SETPER, line[:200])
        else:
            run.violation("setdef:oracle:%s" % s, dict(rp, what="a valid value is not encoded (model of the C and C agree)"))
        return
    if spec != faithful:
        if door == "ber" and c["raw"] or door == "oer" and c["raw"]:
            run.known_finding(FID_BOOL[prop], line[:200])
        else:
            run.violation("setdef:oracle:%s" % s, dict(rp, what="bytes differ from the standard encoding (X.690 10.3 / 11.5, X.691 19.5, X.696 16)"))


def run_c02(run, rng, tier):
    t0 = time.time()
    rng = own_rng(run, 2)
    try:
        model = model_build()
        mods = build(run, rng, tier, "sdc02")
        cases = model_encode(model, make_cases(mods, rng, tier))
    except (BuildError, RuntimeError) as e:
        run.violation("setdef:build", {"what": str(e)[-2500:]}, no_input=True)
        return
    py_checks(run, cases)
    # the compiler's table
    sets = [(m, tn, x) for m in mods if m.get("exe") for tn, x in m["sd"].items() if x["tree"][0] == "W"]
    out = model_lines(model, ["sdtag2el %s" % x["cty"] for _, _, x in sets], "tag2el")
    for (m, tn, x), o in zip(sets, out):
        run.case("setdef:tag2el:%s:%s" % (m["name"], tn))
        em = emitted_tag2el(m, tn)
        run.count("setdef_tag2el")
        if em is None:
            run.violation("setdef:tag2el", {"what": "table tag2el not found in the generated code", "module": m["text"], "type": tn}, no_input=True)
        elif em != o:
            run.violation("setdef:tag2el", {"what": "the tag-to-member table the compiler emitted is not the canonically sorted list of the members' tags",
                                            "module": m["text"], "type": tn, "emitted": em, "model": o}, no_input=True)
    bym = {}
    for c in cases:
        bym.setdefault(c["m"]["name"], []).append(c)
    for m in mods:
        cs = bym.get(m["name"], [])
        if not cs or not m.get("exe"):
            continue
        lines, meta = [], []
        for c in cs:
            run.count("setdef_" + c["cat"])
            sd, su, so = c["sder"], c["super"], c["soer"]
            if not c["setof"] and not py_set_order(run, c):
                run.violation("setdef:spec:order", replay_of(c, what="spec_der output: SET components not in ascending tag order (computed in Python)", spec=sd[:2000]),
                              no_input=True)
            for s, f, sp in (("der", c["der"], sd), ("uper", c["uper"], su), ("oer", c["oer"], so)):
                lines.append("xcode %s der %s %s" % (c["tn"], c["der"], s))
                meta.append((c, "der", s, f, sp))
            if c["xer"] is not None and c["expl"]:
                for s, f, sp in (("der", c["der"], sd), ("uper", c["uper"], su), ("oer", c["oer"], so)):
                    lines.append("xcode %s xer %s %s" % (c["tn"], hexs(c["xer"]), s))
                    meta.append((c, "xer", s, f, sp))
            if c["expl"]:
                for s, k1, k0, sp in (("der", "der1", "der", sd), ("uper", "uper1", "uper", su), ("oer", "oer1", "oer", so)):
                    lines.append("xcode %s ber %s %s" % (c["tn"], c["xber"], s))
                    meta.append((c, "ber", s, c[k1] if c["raw"] else c[k0], sp))
        t1 = time.time()
        out = run_mod(run, m, lines, "setdef:C02")
        TIMES["c_" + m["name"]] = round(time.time() - t1, 1)
        for line, (c, door, s, f, sp), o in zip(lines, meta, out):
            judge_enc(run, "C02", c, door, s, line, o, f, sp)
        run.sample({"setdef_type": cs[0]["x"]["cty"][:120], "value": cs[0]["vs"][:80], "der": cs[0]["der"][:60], "uper": cs[0]["uper"][:40]})
    run.count("setdef_wall_s", int(time.time() - t0))


# ---------------------------------------------------------------- C01

def inline_fill(tree, v):
    """what ber_decode leaves in memory as CANONICAL-XER shows it: an absent member with DEFAULT 0 / FALSE is stored in line
    (asn1c_C.c try_inline_default drops the pointer), so it reads as the default"""
    k = tree[0]
    if k == "X":
        return inline_fill(tree[2], v)
    if k in ("Q", "W"):
        out = []
        for m, x in zip(tree[2], v[1]):
            if m[0] == "P":
                out.append(x if x[0] == "_" else ("!", inline_fill(m[1], x[1])))
            elif m[0] == "D":
                # SEQUENCE_encode_xer prints the DEFAULT of an absent member itself (SET_encode_xer does not)
                out.append(("!", m[1]) if (x[0] == "_" and (k == "Q" or m[1] in (0, False))) else x)
            else:
                out.append(inline_fill(m, x))
        return ("S", out)
    return v


def classify_rt(run, prop, c, line, out):
    for part in out.split():
        if "=" not in part:
            run.violation("setdef:oracle:roundtrip", replay_of(c, what="unexpected driver output", command_line=line, c=out))
            return
        syn, st = part.split("=", 1)
        run.count("setdef_rt_%s_%s" % (syn, st.split(":")[0]))
        if st == "OK":
            if syn in ("cper", "coer") and c["uper" if syn == "cper" else "oer"] == "NONE":
                run.violation("setdef:correspondence:roundtrip(%s)" % syn, replay_of(c, what="the C encodes what the model of the C does not", command_line=line, c=out),
                              no_input=True)
            continue
        f = st.split(":")
        if syn == "xer" and len(f) == 3 and f[0] == "DEC" and f[1] == "OK" and "/" in f[2] and int(f[2].split("/")[0]) + 1 == int(f[2].split("/")[1]):
            run.known_finding(FID_XERNL, line[:200])
            continue
        if syn in ("cper", "coer") and st.startswith("ENCFAIL") and set_encoded(c["tree"], c["v"]) and c["uper" if syn == "cper" else "oer"] == "NONE":
            run.known_finding(FID_SETPER, line[:200])
            continue
        run.violation("setdef:oracle:roundtrip(%s)" % syn, replay_of(c, what="encode-then-decode does not return the value: " + st, command_line=line, c=out))


def run_c01(run, rng, tier):
    t0 = time.time()
    rng = own_rng(run, 1)
    try:
        model = model_build()
        mods = build(run, rng, tier, "sdc01")
        cases = model_encode(model, make_cases(mods, rng, tier))
        lines, slots = [], []
        for c in cases:
            t = c["x"]["cty"]
            c["md"] = {}
            lines.append("sdberdec %s %s" % (t, c["der"]))
            slots.append((c, "ber"))
            if c["uper"] != "NONE":
                lines.append("sduperdec 0 %s %s" % (t, c["uper"]))
                slots.append((c, "uper"))
            else:
                lines.append("sduperdec 0 %s 00" % t)
                slots.append((c, "uper"))
            if c["oer"] != "NONE":
                lines.append("sdoerdec %s %s" % (t, c["oer"]))
                slots.append((c, "oer"))
            else:
                lines.append("sdoerdec %s 00" % t)
                slots.append((c, "oer"))
        for (c, k), o in zip(slots, model_lines(model, lines, "decode")):
            c["md"][k] = o
    except (BuildError, RuntimeError) as e:
        run.violation("setdef:build", {"what": str(e)[-2500:]}, no_input=True)
        return
    py_checks(run, cases)
    bym = {}
    for c in cases:
        bym.setdefault(c["m"]["name"], []).append(c)
    for m in mods:
        cs = bym.get(m["name"], [])
        if not cs or not m.get("exe"):
            continue
        lines, meta = [], []

        def q(kind, c, line, extra=None):
            lines.append(line)
            meta.append((kind, c, extra))
        for c in cs:
            run.count("setdef_" + c["cat"])
            q("rt", c, "rt %s der %s" % (c["tn"], c["der"]))
            if c["xer"] is not None and c["expl"]:
                q("rt", c, "rt %s xer %s" % (c["tn"], hexs(c["xer"])))
            for s, key in (("ber", "der"), ("uper", "uper"), ("oer", "oer")):
                if c[key] != "NONE":
                    q("dec", c, "dec %s %s %s" % (c["tn"], s, c[key]), (s, key))
                    if c["xer"] is not None:
                        q("repr", c, "xcode %s %s %s cxer" % (c["tn"], s, c[key]), (s, key))
                else:
                    q("nodec", c, "dec %s %s 00" % (c["tn"], s), (s, key))
        out = run_mod(run, m, lines, "setdef:C01")
        for line, (kind, c, extra), o in zip(lines, meta, out):
            run.case("setdef:" + m["name"] + ":" + line[:300] + str(len(line)))
            if kind == "rt":
                classify_rt(run, "C01", c, line, o)
                continue
            s, key = extra
            run.count("setdef_%s_%s" % (kind, s))
            md = c["md"].get(s)
            want_v = c["strip"] if s == "ber" else c["fill"]
            n = len(c[key]) // 2
            if kind == "nodec":
                # no codec for a SET: where the model's decoder fails so must the C (never a crash, never a value)
                if (md or "").startswith("OK"):
                    pass
                elif o.startswith("OK"):
                    run.violation("setdef:correspondence:dec:%s" % s, replay_of(c, what="the C decodes where the model of the C has no decoder", command_line=line, c=o),
                                  no_input=True)
                else:
                    run.known_finding(FID_SETPER, line[:200])
                continue
            if kind == "dec":
                exp_m = "OK %d %s" % (n, want_v)
                if md != exp_m and not c["setof"]:
                    run.violation("setdef:model:dec:%s" % s, replay_of(c, what="the model's decoder does not return the value (absent / filled-in defaults as the theorem says)",
                                                                         model=md[:1500], expected=exp_m[:1500]), no_input=True)
                if not o.startswith("OK %d %s ck=" % (n, c["der"])):
                    mfail = not (md or "").startswith("OK")
                    run.violation("setdef:%s:dec:%s" % ("correspondence" if not mfail else "agree", s),
                                  replay_of(c, what="C decoder on the model's encoding: not (OK, everything consumed, same DER)", command_line=line[:3000], c=o[:1500], model=(md or "")[:1500]))
                continue
            # representation after decoding
            want = G.parse_val(want_v)
            if s == "ber":
                want = inline_fill(c["tree"], want)
            exp = "OK " + hexs(G.xer(c["tn"], c["x"]["t"], c["tree"], want, m["env"]))
            if o != exp and not c["setof"]:
                run.violation("setdef:oracle:repr:%s" % s, replay_of(c, what="value left by the C decoder (CANONICAL-XER of it): DEFAULT members are not as the model's decoder leaves them "
                                                                       "(PER / OER: filled in by default_value_set; BER: absent)", command_line=line[:3000],
                                                                       c=bytes.fromhex(o[3:]).decode("latin1")[:1500] if o.startswith("OK ") and o != "OK -" else o[:300],
                                                                       expected=bytes.fromhex(exp[3:]).decode()[:1500]))
        run.sample({"setdef_type": cs[0]["x"]["cty"][:120], "value": cs[0]["vs"][:80], "rt": "rt %s der %s" % (cs[0]["tn"], cs[0]["der"][:60])})
    run.count("setdef_wall_s", int(time.time() - t0))


# ---------------------------------------------------------------- C03

def ber_variant(tree, b, rng, mode, under_x=False):
    """another valid BER encoding of the same value: SET members reordered at every level, indefinite lengths"""
    k = tree[0]
    if k in ("P", "D"):
        return ber_variant(tree[-1], b, rng, mode, under_x)
    if k == "B":
        return b
    tagb, kids = G.tlv_children(b)
    if k == "X":
        return G.rewrap(tagb, [ber_variant(tree[2], kids[0], rng, mode, True)])
    new = [ber_variant(mem, kid, rng, mode) if mem is not None else kid for kid, mem in zip(kids, match_members(tree, kids))]
    if k == "W":
        if mode == "reverse":
            new.reverse()
        elif mode == "rotate" and new:
            new = new[1:] + new[:1]
        elif mode == "random":
            rng.shuffle(new)
    # mixed definite / indefinite lengths in one tag chain: known open defect of ber_check_tags, avoided
    indef = (not under_x) and (mode == "indef" or (mode == "random" and rng.chance(1, 2)))
    return G.rewrap(tagb, new, indef)


def run_c03(run, rng, tier):
    t0 = time.time()
    rng = own_rng(run, 3)
    try:
        model = model_build()
        mods = build(run, rng, tier, "sdc03")
        cases = model_encode(model, make_cases(mods, rng, tier))
    except (BuildError, RuntimeError) as e:
        run.violation("setdef:build", {"what": str(e)[-2500:]}, no_input=True)
        return
    # variants
    jobs = []
    for c in cases:
        base = bytes.fromhex(c["der"])
        seen = {c["der"]}
        cands = [("ber", "der", c["der"])]
        for mode in ("reverse", "rotate", "indef", "random", "random"):
            cands.append(("ber", mode, ber_variant(c["tree"], base, rng, mode).hex()))
        if c["expl"]:
            xb = bytes.fromhex(c["xber"])
            cands.append(("ber", "dflt", c["xber"]))
            cands.append(("ber", "dflt+random", ber_variant(opt_type(c["tree"]), xb, rng, "random").hex()))
            if c["xuper"] != "NONE":
                cands.append(("uper", "dflt", c["xuper"]))
            if c["xoer"] != "NONE":
                cands.append(("oer", "dflt", c["xoer"]))
        for s, mode, h in cands:
            if (s, h) in seen:
                continue
            seen.add((s, h))
            jobs.append({"c": c, "s": s, "mode": mode, "hex": h})
    dec = {"ber": "sdberdec %s %s", "uper": "sduperdec 0 %s %s", "oer": "sdoerdec %s %s"}
    out = model_lines(model, [dec[j["s"]] % (j["c"]["x"]["cty"], j["hex"]) for j in jobs], "variants")
    for j, o in zip(jobs, out):
        j["md"] = o
    # the value the model reads must be the value (up to absent = default): its DER is the case's DER
    lines, idx = [], []
    for k, j in enumerate(jobs):
        f = j["md"].split()
        if f[0] == "OK":
            lines.append("sdder 0 %s %s" % (j["c"]["x"]["cty"], f[2]))
            idx.append(k)
    for k, o in zip(idx, model_lines(model, lines, "variants-der")):
        jobs[k]["mder"] = o
    bym = {}
    for j in jobs:
        bym.setdefault(j["c"]["m"]["name"], []).append(j)
    for m in mods:
        js = bym.get(m["name"], [])
        if not js or not m.get("exe"):
            continue
        lines = ["dec %s %s %s" % (j["c"]["tn"], j["s"], j["hex"]) for j in js]
        out = run_mod(run, m, lines, "setdef:C03")
        for line, j, o in zip(lines, js, out):
            c = j["c"]
            run.case("setdef:" + m["name"] + ":" + line[:300] + str(len(line)))
            run.count("setdef_c03_%s_%s" % (j["s"], j["mode"]))
            n = len(j["hex"]) // 2
            rp = replay_of(c, syntax=j["s"], variant=j["mode"], command_line=line[:3000], c=o[:1500], model=j["md"][:1500], canonical_der=c["der"][:1500])
            if not j["md"].startswith("OK %d " % n) or j.get("mder") != c["der"]:
                run.violation("setdef:model:variant", dict(rp, what="the model's decoder does not accept a valid encoding with the same value", model_der=j.get("mder")), no_input=True)
                continue
            if o.startswith("OK %d %s ck=" % (n, c["der"])):
                continue
            if c["raw"] and j["mode"].startswith("dflt") and j["s"] in ("ber", "oer") and o.startswith("OK %d %s ck=" % (n, c["der1"])):
                run.known_finding(FID_BOOL["C03"], line[:200])
                continue
            run.violation("setdef:oracle:accept:%s" % j["s"], dict(rp, what="a valid encoding is not accepted with the value it encodes (OK, everything consumed, canonical DER of the value)"))
        if js:
            run.sample({"setdef_type": js[0]["c"]["x"]["cty"][:100], "variant": js[-1]["mode"], "hex": js[-1]["hex"][:60]})
    run.count("setdef_wall_s", int(time.time() - t0))
