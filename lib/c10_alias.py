"""c10_alias — the alias invariant of C10 (round 3), evaluated on the dumped descriptors ALONE (no model involved), and
the rendering of the same facts for the Coq checker (coq/Rt/WfAlias.v).

Invariant (translator-style tie; `A ::= [tag] T (constraint)` is one HOP, A the alias, T its target):
  the descriptor of A equals the descriptor of T in every slot except
    name / xml_tag                      (always its own),
    tags / all_tags                     (X.680 30-31 applied to T's: untagged hop -> equal; tag t ->
                                         all_tags = t :: T.all_tags, tags = t :: T.tags for EXPLICIT and t :: tail(T.tags)
                                         for IMPLICIT - an IMPLICIT tag over an untagged CHOICE / ANY is EXPLICIT, which
                                         the same formula gives because tail [] = []),
    the PER / OER records               (content equal unless the hop adds a constraint; always separately emitted),
    general_constraints                 (a function of its own when the alias or its target is constrained),
    specifics                           (the SAME record for every non-numeric kind; INTEGER / REAL references may own a
                                         record - content equal unless the hop adds a constraint - but what it says about
                                         the C representation, float_size / field_width, never changes).
  op, elements, elements_count are IDENTICAL (the C type of A is a typedef of T's).
Slots are compared by pointer identity (the `#X` lines of harness/dumpdescr.c) and by content (the `(mkD` terms).
"""
import re


def split_top(s):
    """top-level tokens of a Gallina application / list body: brackets and parentheses group"""
    out, depth, cur = [], 0, ""
    for ch in s:
        if ch in "([":
            depth += 1
        elif ch in ")]":
            depth -= 1
        if ch == " " and depth == 0:
            if cur:
                out.append(cur)
            cur = ""
        else:
            cur += ch
    if cur:
        out.append(cur)
    return out


def zlist(tok):
    """'[1;(-1);3]' -> [1, -1, 3]"""
    body = tok.strip()[1:-1].strip()
    return [int(x.strip("()")) for x in body.split(";")] if body else []


def parse_x(dump):
    """{id: {op, el, sp, gc, per, oer, ec, rep}} from the #X lines"""
    out = {}
    for m in re.finditer(r"^#X (\d+) op=(\d+) el=(\d+) sp=(\d+) gc=(\d+) per=(\d+) oer=(\d+) ec=(\d+) rep=(\d+)$", dump, flags=re.M):
        v = [int(x) for x in m.groups()]
        out[v[0]] = dict(zip(("op", "el", "sp", "gc", "per", "oer", "ec", "rep"), v[1:]))
    return out


def parse_descrs(dump):
    """-> (roots, {id: {id, kind, name, tags, all, elems(text), per(text), oer(text), spec(text)}})"""
    roots = int(re.search(r"#TABLE roots=(\d+)", dump).group(1))
    names, ds = {}, {}
    for l in dump.split("\n"):
        if l.startswith("#D "):
            mm = re.match(r"#D (\d+) kind=(\w+) name=(.*) xml=", l)
            names[int(mm.group(1))] = mm.group(3)
        elif l.startswith("(mkD "):
            t = split_top(l[1:-1])
            # mkD id kind tags all elems per oer spec bad
            i = int(t[1])
            ds[i] = {"id": i, "kind": t[2], "name": names.get(i, "?"), "tags": zlist(t[3]), "all": zlist(t[4]), "elems": t[5], "per": t[6], "oer": t[7], "spec": t[8]}
    return roots, ds


NUMERIC = ("KNativeInt", "KInt", "KReal")


def int_width(spec):
    """field_width of an (SInt v2e e2v ext strict width unsigned) term; 0 = native long, also for no specifics"""
    if not spec.startswith("(SInt "):
        return 0
    return int(split_top(spec[1:-1])[5].strip("()"))


def expected_tags(hop, tgt):
    _a, _t, tag, mode, _c = hop
    if tag is None:
        return tgt["tags"], tgt["all"]
    return [tag] + (tgt["tags"][1:] if mode == "I" else tgt["tags"]), [tag] + tgt["all"]


def alias_oracle(dump, hops):
    """-> (problems [(slot, text[, id of the known finding whose symptom this is | None])], resolved hops [(alias id, target id, tag, implicit, constrained)])
    descriptors are looked up by name among the roots (the PDU collection: with -pdu=all every top-level type)"""
    roots, ds = parse_descrs(dump)
    xs = parse_x(dump)
    byname = {}
    for i in range(roots):
        if i in ds:
            byname.setdefault(ds[i]["name"], i)
    probs, resolved = [], []
    for hop in hops:
        a, t, tag, mode, constr = hop
        if a not in byname or t not in byname:
            probs.append(("missing", "%s -> %s: no descriptor named %s among the %d roots" % (a, t, a if a not in byname else t, roots)))
            continue
        da, dt, xa, xt = ds[byname[a]], ds[byname[t]], xs.get(byname[a]), xs.get(byname[t])
        resolved.append((byname[a], byname[t], tag, mode == "I", constr))
        if xa is None or xt is None:
            probs.append(("translator", "%s -> %s: no #X line" % (a, t)))
            continue
        w = "%s -> %s" % (a, t)
        if da["kind"] != dt["kind"] or xa["op"] != xt["op"]:
            probs.append(("op", "%s: op table %s/%d vs %s/%d" % (w, da["kind"], xa["op"], dt["kind"], xt["op"])))
        if xa["el"] != xt["el"] or xa["ec"] != xt["ec"] or da["elems"] != dt["elems"]:
            probs.append(("elements", "%s: member table #%d x%d vs #%d x%d" % (w, xa["el"], xa["ec"], xt["el"], xt["ec"])))
        numeric = dt["kind"] in NUMERIC
        # the C type of A is a typedef of T's: what the specifics say about the representation cannot change at ANY hop
        if xa["rep"] != xt["rep"] or int_width(da["spec"]) != int_width(dt["spec"]):
            probs.append(("representation", "%s: specifics describe another C representation (%s: rep %d width %s) than the target's (rep %d width %s), but %s_t is a typedef of %s_t"
                          % (w, da["kind"], xa["rep"], int_width(da["spec"]), xt["rep"], int_width(dt["spec"]), a, t),
                          "C10-real-reference-narrowed-to-float" if dt["kind"] == "KReal" and constr and xa["rep"] == 4 and xt["rep"] == 8 else None))
        if not numeric and xa["sp"] != xt["sp"]:
            probs.append(("specifics", "%s: specifics record #%d is not the target's #%d" % (w, xa["sp"], xt["sp"])))
        if not (constr and numeric) and da["spec"] != dt["spec"]:
            probs.append(("specifics", "%s: specifics %s vs %s" % (w, da["spec"][:80], dt["spec"][:80])))
        et, ea = expected_tags(hop, dt)
        if da["tags"] != et or da["all"] != ea:
            # (the third field: the symptom of finding C10-tagged-any-loses-tag - a tag written on a type whose chain ends in ANY
            #  is dropped from both vectors)
            probs.append(("tags", "%s: tags %s all %s, expected %s / %s from the target's %s / %s" % (w, da["tags"], da["all"], et, ea, dt["tags"], dt["all"]),
                          "C10-tagged-any-loses-tag" if da["kind"] == "KAny" and tag is not None and da["tags"] == [] and da["all"] == [] and dt["tags"] == [] else None))
        if not constr and (da["per"] != dt["per"] or da["oer"] != dt["oer"]):
            probs.append(("codec-record", "%s: PER %s OER %s vs PER %s OER %s (no constraint added)" % (w, da["per"], da["oer"], dt["per"], dt["oer"])))
    # kinds whose runtime falls back to ANOTHER type's defaults when specifics is NULL
    for i, d in ds.items():
        if d["kind"] in ("KBits", "KAny") and xs.get(i) and xs[i]["sp"] == 0:
            probs.append(("specifics-null", "%s (%s): specifics is NULL; the OCTET STRING code would treat it as a plain OCTET STRING" % (d["name"], d["kind"])))
    return probs, resolved


def coq_x(dump, resolved):
    """the xinfo list and the hop list as Gallina list bodies"""
    xs = parse_x(dump)
    n = max(xs) + 1 if xs else 0
    xi = ["mkX %d %d %d %d %d" % (xs[i]["op"], xs[i]["el"], xs[i]["sp"], xs[i]["ec"], xs[i]["rep"]) if i in xs else "mkX 0 0 0 0 0" for i in range(n)]
    hp = ["mkH %d %d %s %s %s" % (a, t, "(-1)" if tag is None else str(tag), "true" if impl else "false", "true" if c else "false") for a, t, tag, impl, c in resolved]
    return xi, hp


def split_list(tok):
    """top-level elements of '[a;b;c]' (elements may contain brackets)"""
    body, out, depth, cur = tok.strip()[1:-1], [], 0, ""
    for ch in body:
        if ch in "([":
            depth += 1
        elif ch in ")]":
            depth -= 1
        if ch == ";" and depth == 0:
            out.append(cur)
            cur = ""
        else:
            cur += ch
    if cur.strip():
        out.append(cur)
    return out


def member_tag_oracle(dump):
    """every USE position of a type: a member written without a tag of its own (tag_mode 0) carries the OUTERMOST tag of
    the descriptor it points to (-1 when that has none: untagged CHOICE, ANY).  The emitter computes the two by different
    routes (asn1f_fetch_outmost_tag for the member, asn1f_fetch_tags for the type's vector).  -> [(slot, text)]"""
    _roots, ds = parse_descrs(dump)
    probs = []
    for i, d in ds.items():
        for k, e in enumerate(split_list(d["elems"])):
            t = split_top(e.strip())
            flags, tag, tmode, ty = int(t[1]), int(t[3].strip("()")), int(t[4].strip("()")), int(t[5].strip("()"))
            if tmode != 0 or ty not in ds:
                continue
            want = ds[ty]["tags"][0] if ds[ty]["tags"] else -1
            if tag != want:
                probs.append(("member-tag", "%s member #%d (flags %d): tag %d, but its type %s has outermost tag %d" % (d["name"], k, flags, tag, ds[ty]["name"], want),
                              "C10-tagged-any-loses-tag" if ds[ty]["kind"] == "KAny" and ds[ty]["tags"] == [] and tag >= 0 else None))
    return probs
