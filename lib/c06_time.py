"""C06, time layer: GeneralizedTime / UTCTime values in every spelling the BER/XER decoders accept.

An abstract value is (t, frac): the instant in POSIX seconds and the fraction of a second as a digit string
without trailing zeros ("" = none, at most 9 digits: asn_time2GT_frac bounds the precision there).
`gt_spellings` / `ut_spellings` write the value in the forms of X.680 46/47 (seconds or minutes+seconds omitted,
"Z", "+hhmm" / "-hhmm" / "+hh" offsets incl. the zero offsets, local time without a zone under a given TZ, decimal
comma, trailing zeros, all-zero fraction, second 60).  The ORACLE is independent of the Coq model and of the C:
`canon_gt` / `canon_ut` print the instant per X.690 11.7 / 11.8 using python's datetime, and `enc` encodes the
nine small types of module T-TIME in DER / CANONICAL-XER / canonical UPER / canonical OER from those texts.
`enc(..., mode="tree")` is the same encoder fed with what the tree does with a time leaf (the DER and the
CANONICAL-XER encoders of both types canonicalise - UTCTime since fix 05 of notes/fixes/I -; the PER / OER encoders
write the stored text): the exact predicate of the finding C06-time-per-oer-verbatim."""
import datetime

TIME_MODULE = """T-TIME DEFINITIONS AUTOMATIC TAGS ::= BEGIN
  G  ::= GeneralizedTime
  U  ::= UTCTime
  SG ::= SEQUENCE { at GeneralizedTime, u UTCTime }
  LG ::= SET OF GeneralizedTime
  LU ::= SET OF UTCTime
  QG ::= SEQUENCE OF GeneralizedTime
  CG ::= CHOICE { g GeneralizedTime, u UTCTime, l SET OF GeneralizedTime }
  EG ::= [5] EXPLICIT GeneralizedTime
  NS ::= SEQUENCE { s SET OF GeneralizedTime, g GeneralizedTime }
END
"""
GT, UT = ("gt",), ("ut",)
TYPES = {
    "G": GT, "U": UT,
    "SG": ("seq", [("at", GT), ("u", UT)]),
    "LG": ("setof", GT), "LU": ("setof", UT), "QG": ("seqof", GT),
    "CG": ("choice", [("g", GT), ("u", UT), ("l", ("setof", GT))]),
    "EG": ("expl", 5, GT),
    "NS": ("seq", [("s", ("setof", GT)), ("g", GT)]),
}
TIME_TYPES = list(TYPES)

_ERA = 146097 * 86400       # 400 Gregorian years: datetime has no year 0


def civil(t):
    k = 1 if t < 0 else -1                  # shift by one 400-year era towards the middle of datetime's range
    d = datetime.datetime(1970, 1, 1) + datetime.timedelta(seconds=t + k * _ERA)
    return d.year - k * 400, d.month, d.day, d.hour, d.minute, d.second


def canon_gt(t, frac):
    """X.690 11.7: UTC, seconds present, fraction without trailing zeros, full stop, Z"""
    y, mo, d, h, mi, s = civil(t)
    assert 0 <= y <= 9999
    return "%04d%02d%02d%02d%02d%02d" % (y, mo, d, h, mi, s) + ("." + frac if frac else "") + "Z"


def canon_ut(t):
    """X.690 11.8"""
    y, mo, d, h, mi, s = civil(t)
    assert 1960 <= y <= 2059
    return "%02d%02d%02d%02d%02d%02dZ" % (y % 100, mo, d, h, mi, s)


def tz_string(off):
    """POSIX TZ for a fixed offset of `off` seconds east of Greenwich (the POSIX sign is the other way round)"""
    if off == 0:
        return "UTC0"
    a = abs(off)
    return "XXX%s%02d:%02d" % ("-" if off > 0 else "+", a // 3600, a % 3600 // 60)


def zone_suffix(off, short=False, neg_zero=False):
    a = abs(off)
    sign = "-" if (off < 0 or (off == 0 and neg_zero)) else "+"
    if short:
        assert a % 3600 == 0
        return "%s%02d" % (sign, a // 3600)
    return "%s%02d%02d" % (sign, a // 3600, a % 3600 // 60)


def frac_renderings(frac, rng, full):
    """the fraction part in its equivalent spellings: [] of (text, tag)"""
    out = []
    if frac == "":
        out.append(("", "nofrac"))
        for k in ([1, 3, 9, 10, 12] if full else [1, rng.choice([2, 3, 9, 10, 11, 12, 15])]):
            out.append(("." + "0" * k, "zerofrac%d" % k))
            out.append(("," + "0" * k, "zerofrac-comma"))
        return out
    out.append(("." + frac, "frac"))
    out.append(("," + frac, "comma"))
    pads = sorted(set([1, 2, 9 - len(frac), 10 - len(frac), 11 - len(frac), 14 - len(frac)] if full
                      else [1, rng.choice([2, 3, 9 - len(frac), 10 - len(frac), 12 - len(frac)])]))
    for k in pads:
        if k <= 0:
            continue
        out.append(("." + frac + "0" * k, "trail%d" % (len(frac) + k)))
        if full or rng.chance(1, 2):
            out.append(("," + frac + "0" * k, "trail-comma"))
    return out


OFFSETS = [3600, -18000, 19800, 50400, -43200, 34200 + 900, -1800, 86400 - 60, -(86400 - 60)]


def gt_spellings(t, frac, rng, full=False, tzs=(0,)):
    """[] of {text, form, tz}: tz = the zone the reading process must be in (None = any)"""
    out = []

    def add(text, form, tz=None):
        out.append({"text": text, "form": form, "tz": tz})

    def body(off):
        y, mo, d, h, mi, s = civil(t + off)
        if not (0 <= y <= 9999):
            return None
        return "%04d%02d%02d%02d" % (y, mo, d, h), mi, s

    zones = [("Z", 0, "Z"), ("+0000", 0, "p0000"), ("-0000", 0, "m0000"), ("+00", 0, "p00"), ("-00", 0, "m00")]
    offs = list(OFFSETS) if full else [rng.choice(OFFSETS), rng.choice(OFFSETS)]
    offs.append((rng.below(2 * 14 * 60 + 1) - 14 * 60) * 60)
    for o in offs:
        zones.append((zone_suffix(o), o, "off"))
        if o % 3600 == 0:
            zones.append((zone_suffix(o, short=True), o, "offhh"))
    for tz in tzs:
        zones.append(("", tz, "local"))
    for suf, off, zform in zones:
        b = body(off)
        if b is None:
            continue
        ymdh, mi, s = b
        tz = off if zform == "local" else None
        for ftxt, ftag in frac_renderings(frac, rng, full):
            add("%s%02d%02d%s%s" % (ymdh, mi, s, ftxt, suf), "%s/sec/%s" % (zform, ftag), tz)
        if frac == "" and s == 0:
            add("%s%02d%s" % (ymdh, mi, suf), "%s/min" % zform, tz)
            if mi == 0:
                add("%s%s" % (ymdh, suf), "%s/hour" % zform, tz)
        # X.680 46.2: a fraction may also follow the hour or the minute (asn_GT2time_frac reads one after the seconds only)
        if frac == "":
            hf = {1800: "5", 900: "25", 2700: "75", 360: "1", 36: "01"}.get(mi * 60 + s)
            if hf:
                add("%s%s%s%s" % (ymdh, rng.choice(".,"), hf, suf), "%s/hourfrac" % zform, tz)
            mf = {30: "5", 15: "25", 45: "75", 6: "1", 3: "05"}.get(s)
            if mf:
                add("%s%02d%s%s%s" % (ymdh, mi, rng.choice(".,"), mf, suf), "%s/minfrac" % zform, tz)
        # second 60 of the minute before: timegm carries it
        b1 = body(off - 1)
        if s == 0 and b1 is not None and b1[2] == 59 and (full or rng.chance(1, 3)):
            add("%s%02d60%s%s" % (b1[0], b1[1], ("." + frac if frac else ""), suf), "%s/leap60" % zform, tz)
    return out


def ut_spellings(t, rng, full=False, tzs=(0,)):
    out = []

    def body(off):
        y, mo, d, h, mi, s = civil(t + off)
        if not (1960 <= y <= 2059):
            return None
        return "%02d%02d%02d%02d%02d" % (y % 100, mo, d, h, mi), s

    zones = [("Z", 0, "Z"), ("+0000", 0, "p0000"), ("-0000", 0, "m0000")]
    offs = list(OFFSETS) if full else [rng.choice(OFFSETS), rng.choice(OFFSETS)]
    offs.append((rng.below(2 * 14 * 60 + 1) - 14 * 60) * 60)
    for o in offs:
        zones.append((zone_suffix(o), o, "off"))
    for tz in tzs:
        zones.append(("", tz, "local"))
    for suf, off, zform in zones:
        b = body(off)
        if b is None:
            continue
        tz = off if zform == "local" else None
        out.append({"text": "%s%02d%s" % (b[0], b[1], suf), "form": "%s/sec" % zform, "tz": tz})
        if b[1] == 0 and len(b[0] + suf) >= 11:        # asn_UT2time wants 11 octets at least
            out.append({"text": b[0] + suf, "form": "%s/min" % zform, "tz": tz})
    return out


# ---------------------------------------------------------------- values

def leaf(kind, t, frac, sp):
    return {"kind": kind, "t": t, "frac": frac, "text": sp["text"], "form": sp["form"], "tz": sp["tz"],
            "canon": canon_gt(t, frac) if kind == "gt" else canon_ut(t)}


def leaves(ty, v):
    if ty[0] in ("gt", "ut"):
        return [v]
    if ty[0] == "seq":
        return [x for (n, mt), mv in zip(ty[1], v) for x in leaves(mt, mv)]
    if ty[0] in ("setof", "seqof"):
        return [x for e in v for x in leaves(ty[1], e)]
    if ty[0] == "choice":
        return leaves(ty[1][v[0]][1], v[1])
    if ty[0] == "expl":
        return leaves(ty[2], v)
    raise ValueError(ty)


# ---------------------------------------------------------------- the four encoders (python, from X.690 / X.693 / X.691 / X.696)

class EncFail(Exception):
    pass


def leaf_text(lf, syn, mode):
    """the text written for a time leaf.  oracle: the canonical form; input: as stored;
    tree: what the tree does (the DER and CANONICAL-XER encoders canonicalise; on t = -1 - C17-time-minus-one - all fail but
    UTCTime_encode_der, which writes a text asn_UT2time does not read as it is stored)"""
    if mode == "oracle":
        return lf["canon"]
    if mode == "tree" and syn in ("der", "cxer") and lf["form"].endswith(("/hourfrac", "/minfrac")) and (lf["kind"] == "gt"):
        raise EncFail("C06-gt-fraction-of-hour-minute")      # asn_GT2time_frac: EINVAL
    if mode == "tree" and lf["kind"] == "gt" and syn == "der":
        if lf["t"] == -1:
            raise EncFail("C17-time-minus-one")
        return lf["canon"]
    if mode == "tree" and lf["kind"] == "ut" and syn == "der":
        return lf["text"] if lf["t"] == -1 else lf["canon"]      # UTCTime_encode_der: asn_UT2time answers the error value for t = -1 -> stored text
    if mode == "tree" and syn == "cxer" and lf["t"] == -1:
        raise EncFail("C17-time-minus-one")      # the canonical XER encoders parse the text first
    if mode == "tree" and syn == "cxer":
        return lf["canon"]                       # both *_encode_xer write the canonical form (fix d60e882, fix 05 of notes/fixes/I)
    return lf["text"]


def _tl(tag, content):
    n = len(content)
    if n < 128:
        return bytes([tag, n]) + content
    k = (n.bit_length() + 7) // 8
    return bytes([tag, 0x80 | k]) + n.to_bytes(k, "big") + content


def enc_der(ty, v, mode, tag=None):
    k = ty[0]
    if k in ("gt", "ut"):
        return _tl(tag if tag is not None else (0x18 if k == "gt" else 0x17), leaf_text(v, "der", mode).encode())
    if k == "seq":
        body = b"".join(enc_der(mt, mv, mode, 0x80 | i | (0x20 if mt[0] in ("seq", "setof", "seqof") else 0)) for i, ((n, mt), mv) in enumerate(zip(ty[1], v)))
        return _tl((tag if tag is not None else 0x30) | 0x20, body)
    if k in ("setof", "seqof"):
        es = [enc_der(ty[1], e, mode) for e in v]
        if k == "setof" and mode != "input":
            es.sort()
        return _tl((tag if tag is not None else (0x31 if k == "setof" else 0x30)) | 0x20, b"".join(es))
    if k == "choice":
        i, av = v
        at = ty[1][i][1]
        return enc_der(at, av, mode, 0x80 | i | (0x20 if at[0] in ("seq", "setof", "seqof") else 0))
    if k == "expl":
        return _tl(0xa0 | ty[1], enc_der(ty[2], v, mode))
    raise ValueError(ty)


XML_NAME = {"gt": "GeneralizedTime", "ut": "UTCTime"}


def enc_xer(ty, v, mode, name):
    k = ty[0]
    o, c = ("<%s>" % name).encode(), ("</%s>" % name).encode()
    if k in ("gt", "ut"):
        return o + leaf_text(v, "cxer", mode).encode() + c
    if k == "seq":
        return o + b"".join(enc_xer(mt, mv, mode, n) for (n, mt), mv in zip(ty[1], v)) + c
    if k in ("setof", "seqof"):
        es = [enc_xer(ty[1], e, mode, XML_NAME.get(ty[1][0], "X")) for e in v]
        if k == "setof" and mode != "input":
            es.sort()
        return o + b"".join(es) + c
    if k == "choice":
        i, av = v
        return o + enc_xer(ty[1][i][1], av, mode, ty[1][i][0]) + c
    if k == "expl":
        return enc_xer(ty[2], v, mode, name)
    raise ValueError(ty)


def _bits(n, w):
    return format(n, "0%db" % w) if w else ""


def _pad8(b):
    return b + "0" * (-len(b) % 8)


def enc_uper_bits(ty, v, mode, cw=7):
    """cw: bits per character.  X.691 30.5: 7 for these VisibleString types.  asn1c uses 7 where the member / element
    descriptor is asn_DEF_GeneralizedTime / asn_DEF_UTCTime itself and 8 for a defined type `G ::= GeneralizedTime`
    (asn_DEF_G carries no PER constraints): not a C06 matter (the width does not depend on the representation),
    reported as an aside; the oracle follows the C here."""
    k = ty[0]
    if k in ("gt", "ut"):
        s = leaf_text(v, "cper", mode).encode()
        assert len(s) < 128 and all(0x20 <= c <= 0x7e for c in s)
        return _bits(len(s), 8) + "".join(_bits(c, cw) for c in s)
    if k == "seq":
        return "".join(enc_uper_bits(mt, mv, mode) for (n, mt), mv in zip(ty[1], v))
    if k in ("setof", "seqof"):
        es = [enc_uper_bits(ty[1], e, mode) for e in v]
        if k == "setof" and mode != "input":
            es.sort(key=lambda b: bytes(int(_pad8(b)[i:i + 8], 2) for i in range(0, len(_pad8(b)), 8)))
        assert len(es) < 128
        return _bits(len(es), 8) + "".join(es)
    if k == "choice":
        i, av = v
        return _bits(i, (len(ty[1]) - 1).bit_length()) + enc_uper_bits(ty[1][i][1], av, mode)
    if k == "expl":
        return enc_uper_bits(ty[2], v, mode, cw)
    raise ValueError(ty)


def enc_uper(ty, v, mode):
    b = _pad8(enc_uper_bits(ty, v, mode, 8 if ty[0] in ("gt", "ut", "expl") else 7)) or "00000000"
    return bytes(int(b[i:i + 8], 2) for i in range(0, len(b), 8))


def enc_oer(ty, v, mode, sort_setof=False):
    k = ty[0]
    if k in ("gt", "ut"):
        s = leaf_text(v, "coer", mode).encode()
        assert len(s) < 128
        return bytes([len(s)]) + s
    if k == "seq":
        return b"".join(enc_oer(mt, mv, mode, sort_setof) for (n, mt), mv in zip(ty[1], v))
    if k in ("setof", "seqof"):
        es = [enc_oer(ty[1], e, mode, sort_setof) for e in v]
        if k == "setof" and sort_setof:
            es.sort()
        assert len(es) < 256
        return bytes([1, len(es)]) + b"".join(es)
    if k == "choice":
        i, av = v
        return bytes([0x80 | i]) + enc_oer(ty[1][i][1], av, mode, sort_setof)
    if k == "expl":
        return enc_oer(ty[2], v, mode, sort_setof)
    raise ValueError(ty)


def enc(syn, tn, v, mode):
    """hex of the expected output, or '!' + reason when the encoder must fail"""
    ty = TYPES[tn]
    try:
        if syn == "der":
            return enc_der(ty, v, mode).hex()
        if syn == "cxer":
            return enc_xer(ty, v, mode, tn).hex()
        if syn == "cper":
            return enc_uper(ty, v, mode).hex()
        if syn == "coer":
            return enc_oer(ty, v, mode, sort_setof=(mode == "oracle")).hex()
    except EncFail as e:
        return "!" + str(e)
    raise ValueError(syn)


def time_findings(tn, v, syn):
    """the open findings that apply to this (value, syntax) on the unchanged tree, narrowest first"""
    ty = TYPES[tn]
    ls = leaves(ty, v)
    ids = []
    if syn in ("der", "cxer") and any(l["form"].endswith(("/hourfrac", "/minfrac")) for l in ls):
        ids.append("C06-gt-fraction-of-hour-minute")
    if syn in ("der", "cxer") and any(l["t"] == -1 for l in ls):
        # (DER of a UTCTime leaf with t = -1: not a failure, the stored text - which only differs from X.690 11.8 when it is not canonical)
        ids.append("C17-time-minus-one")
    if syn in ("cper", "coer") and any(l["text"] != l["canon"] for l in ls):
        ids.append("C06-time-per-oer-verbatim")
    if syn == "coer" and enc_oer(ty, v, "oracle", False) != enc_oer(ty, v, "oracle", True):
        ids.append("C06-oer-setof-order")
    return ids


# ---------------------------------------------------------------- abstract values

def T(y, mo, d, h=0, mi=0, s=0):
    k = 1 if y < 2000 else -1
    return (datetime.datetime(y + k * 400, mo, d, h, mi, s) - datetime.datetime(1970, 1, 1)) // datetime.timedelta(seconds=1) - k * _ERA


GT_DIRECTED = [
    (T(2026, 1, 1, 12, 0, 0), ""),            # the instant of seeded/C06-7: minutes and seconds may be omitted
    (T(2026, 1, 1, 12, 30, 0), ""),           # seconds may be omitted
    (T(2026, 1, 1, 12, 30, 45), ""),
    (T(2026, 1, 1, 12, 15, 0), ""), (T(2026, 1, 1, 12, 6, 30), ""),   # .25 h; .5 min
    (T(2026, 1, 1, 12, 0, 0), "5"),
    (T(2026, 1, 1, 0, 0, 0), "123456789"),    # nine digits
    (T(2026, 1, 1, 0, 0, 0), "000000001"),
    (T(2026, 1, 1, 0, 0, 0), "05"),
    (T(2026, 1, 1, 0, 0, 0), "214748364"),    # INT_MAX / 10: the reader stops accumulating here
    (T(2026, 1, 1, 0, 0, 0), "214748363"),
    (T(2026, 1, 1, 0, 0, 0), "1"),            # 1 + nine zeros = 10 digits still accumulated
    (T(1, 1, 1, 0, 0, 0), ""), (T(1, 1, 1, 13, 0, 0), "25"),
    (-2, ""), (-1, ""), (0, ""), (0, "001"), (1, ""),
    (T(2038, 1, 19, 3, 14, 7), ""), (T(2038, 1, 19, 3, 14, 8), ""), (2**32, ""),
    (T(9999, 12, 31, 23, 59, 59), ""), (T(9999, 12, 31, 9, 0, 0), "9"),
    (T(2000, 2, 29, 12, 0, 0), ""), (T(1900, 3, 1, 0, 0, 0), ""), (T(2017, 1, 1, 0, 0, 0), ""),
    (T(2025, 12, 31, 23, 59, 59), "999"), (T(2024, 2, 29, 23, 0, 0), ""),
]
UT_DIRECTED = [T(2026, 1, 1, 12, 0, 0), T(2026, 1, 1, 12, 30, 0), T(2026, 1, 1, 12, 30, 45), T(1960, 1, 1, 14, 0, 0), T(1999, 12, 31, 23, 59, 59),
               T(2000, 1, 1, 0, 0, 0), T(2059, 12, 31, 9, 59, 0), -1, 0, T(2038, 1, 19, 3, 14, 8), T(2000, 2, 29, 0, 0, 0)]


def random_frac(rng):
    if rng.chance(1, 2):
        return ""
    n = 1 + rng.below(9)
    s = "".join(str(rng.below(10)) for _ in range(n)).rstrip("0")
    return s


def random_gt(rng):
    k = rng.below(6)
    if k == 0:
        t = T(1, 1, 2) + rng.below(T(9999, 12, 30) - T(1, 1, 2))
    elif k == 1:
        t = rng.below(2**32) - 2**31 + rng.below(3) - 1
    elif k == 2:
        t = rng.choice([-2, 0, 2**31, 2**32, T(2000, 3, 1), T(2100, 3, 1), T(1600, 2, 29), T(1, 12, 31)]) + rng.below(7200) - 3600
    else:
        t = T(1990, 1, 1) + rng.below(T(2040, 1, 1) - T(1990, 1, 1))
    if rng.chance(1, 3):
        t -= t % 60
        if rng.chance(1, 2):
            t -= t % 3600
    return t, random_frac(rng)


def random_ut(rng):
    t = T(1960, 1, 2) + rng.below(T(2059, 12, 30) - T(1960, 1, 2))
    if rng.chance(1, 2):
        t -= t % 60
    return t


# ---------------------------------------------------------------- compare_struct

def value_order(a, b):
    """the order of the abstract values of two leaves: -1 / 0 / 1"""
    from fractions import Fraction
    ka = (a["t"], Fraction(int(a["frac"] or "0"), 10 ** len(a["frac"])))
    kb = (b["t"], Fraction(int(b["frac"] or "0"), 10 ** len(b["frac"])))
    return (ka > kb) - (ka < kb)


def c_fraction(text):
    """(fvalue, fdigits) as asn_GT2time_frac reads them from a text with seconds"""
    fv = fd = 0
    if len(text) > 14 and text[14] in ".,":
        for ch in text[15:]:
            if not ch.isdigit():
                break
            if fv < 214748364:
                fv, fd = fv * 10 + int(ch), fd + 1
    return fv, fd


def unreadable(lf):
    return lf["t"] == -1 or lf["form"].endswith(("/hourfrac", "/minfrac"))


def tree_compare(a, b):
    """what GeneralizedTime_compare / UTCTime_compare of the tree (with C06-fix-9) answer for two readable leaves, its
    arithmetic replayed: instants first; then, GeneralizedTime only, the fractions — by value when the digit counts
    agree, otherwise (double)value / 10^digits on both sides (the scale built by repeated *= 10.0, exact)"""
    if a["t"] != b["t"]:
        return (a["t"] > b["t"]) - (a["t"] < b["t"])
    if a["kind"] == "ut":
        return 0
    (av, ad), (bv, bd) = c_fraction(a["text"]), c_fraction(b["text"])
    if ad == bd:
        return (av > bv) - (av < bv)
    ascale = bscale = 1.0
    for _ in range(ad):
        ascale *= 10
    for _ in range(bd):
        bscale *= 10
    x, y = float(av) / ascale, float(bv) / bscale
    return (x > y) - (x < y)
