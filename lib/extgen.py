"""extgen — generator of modules of EXTENSIBLE types for the extensibility layer
(coq/Rt/Ext.v): extensible SEQUENCE { root..., ..., additions... } and extensible
CHOICE { root..., ..., extension alternatives... } whose components come from the
base algebra of lib/modgen.py (types, effective-tag resolution, values).

A module dict has the shape lib/modbuild.py expects ({name, text, defs}) plus, per
type name, in m["x"][tn]:
   kind   "seq" | "choice"
   ety    model type string of ocaml/drv_ext.ml (E<tg>{root}{adds} | H{root}{exts})
   root   [(name, modgen type, optional)]     adds  [(name, modgen type, written OPTIONAL)]
   rtrees / atrees   resolved model trees of the components (modgen tuples)
   family, nadd      types of one family share root and a common list of additions and
                     differ only in how many of them they know: T with fewer additions is
                     the TRUNCATED reading of T with more (an older version of the protocol)
   std_ety (optional)  the X.691/X.696 reading when it differs from what asn1c builds
                       (version brackets), with std_val(v) mapping the value
Values are modgen python values: ("S", root values + one ("_",)|("!", v) per addition) or
("C", i, v) with i over root ++ extensions."""
from modgen import *

SEQ_TAG = tagnum("UNIVERSAL", 16)


def member_text(name, t, opt):
    return "%s %s%s" % (name, type_text(t), " OPTIONAL" if opt else "")


def xseq_text(root, adds, groups=None):
    """groups: list of (start, end) index ranges of `adds` written inside version brackets"""
    parts = [member_text(n, t, o) for n, t, o in root] + ["..."]
    i = 0
    groups = sorted(groups or [])
    while i < len(adds):
        g = [x for x in groups if x[0] == i]
        if g:
            s, e = g[0]
            parts.append("[[ " + ", ".join(member_text(n, t, o) for n, t, o in adds[s:e]) + " ]]")
            i = e
        else:
            parts.append(member_text(*adds[i]))
            i += 1
    return "SEQUENCE { " + ", ".join(parts) + " }"


def xchoice_text(root, exts):
    parts = ["%s %s" % (n, type_text(t)) for n, t, _ in root] + ["..."] + ["%s %s" % (n, type_text(t)) for n, t, _ in exts]
    return "CHOICE { " + ", ".join(parts) + " }"


def with_tags(members, default, start=0, numbers=None):
    """the members as the module tags them: AUTOMATIC = untouched (resolve_members numbers them),
    otherwise a manual context tag [n] on every member (numbers[i] or start+i)"""
    if default == "AUTOMATIC":
        return [(n, dict(t, tag=None), o) for n, t, o in members]
    out = []
    for i, (n, t, o) in enumerate(members):
        num = numbers[i] if numbers else start + i
        out.append((n, dict(t, tag=("CONTEXT", num, None)), o))
    return out


def resolve_members(members, default, env, start=0):
    """model trees of components in textual position start.. (X.680 automatic tagging numbers root then additions)"""
    out = []
    for i, (n, t, o) in enumerate(members):
        mt = dict(t, tag=("CONTEXT", start + i, None)) if default == "AUTOMATIC" else t
        out.append(resolve(mt, default, env))
    return out


def ety_seq(rtrees, ropt, atrees):
    return "E%d{%s}{%s}" % (SEQ_TAG, "".join(("?" if o else "") + model_str(r) for r, o in zip(rtrees, ropt)),
                            "".join(model_str(a) for a in atrees))


def ety_choice(rtrees, xtrees):
    return "H{%s}{%s}" % ("".join(model_str(r) for r in rtrees), "".join(model_str(a) for a in xtrees))


def as_opt_tree(tree, opt):
    return ("?", tree) if opt else tree


class XGen:
    def __init__(self, rng):
        self.rng = rng
        self.g = Gen(rng, maxdepth=2)

    def comp(self, default, simple=False):
        """a valid component type of the base algebra (X.680 distinctness inside it checked by modgen.tree_valid)"""
        r = self.rng
        for _ in range(100):
            if simple or r.chance(1, 2):
                t = self.g.leaf(default)
            else:
                t = self.g.ty(1, default, [])
            c = t.get("con")
            if default == "EXPLICIT" and t["k"] == "int" and c and c[0] is not None and c[0] >= 0 and (c[1] is None or c[1] >= 2**31):
                # the member gets an EXPLICIT context tag below: known finding C02-explicit-tag-unsigned-member
                # (tag emitted twice), exercised by C02's own special module
                t["con"] = (0, 255, False)
            try:
                tree = resolve(dict(t, tag=None if default == "AUTOMATIC" else ("CONTEXT", 0, None)), default, {})
            except ValueError:
                continue
            if tree_valid(tree):
                return t
        return {"k": "bool"}

    def members(self, n, prefix, default, optchance=(1, 3), simple=False):
        return [("%s%d" % (prefix, i), self.comp(default, simple), self.rng.chance(*optchance)) for i in range(n)]


def build_seq_family(mod, fam, root, adds, counts, default, env):
    """types <fam>N<k> for k in counts: the root and the first k additions"""
    root_t = with_tags(root, default)
    adds_t = with_tags(adds, default, start=len(root))
    rtrees = resolve_members(root_t, default, env)
    atrees = resolve_members(adds_t, default, env, start=len(root))
    ropt = [o for _, _, o in root]
    for k in counts:
        tn = "%sN%d" % (fam, k)
        mod["defs"].append((tn, None))
        mod["texts"].append("  %s ::= %s" % (tn, xseq_text(root_t, adds_t[:k])))
        mod["x"][tn] = {"kind": "seq", "ety": ety_seq(rtrees, ropt, atrees[:k]), "root": root_t, "adds": adds_t[:k],
                        "rtrees": [as_opt_tree(t, o) for t, o in zip(rtrees, ropt)], "atrees": atrees[:k], "family": fam, "nadd": k}


def build_choice_family(mod, fam, root, exts, counts, default, env, root_numbers=None):
    root_t = with_tags(root, default, numbers=root_numbers)
    exts_t = with_tags(exts, default, start=len(root))
    rtrees = resolve_members(root_t, default, env)
    xtrees = resolve_members(exts_t, default, env, start=len(root))
    for k in counts:
        tn = "%sN%d" % (fam, k)
        mod["defs"].append((tn, None))
        mod["texts"].append("  %s ::= %s" % (tn, xchoice_text(root_t, exts_t[:k])))
        mod["x"][tn] = {"kind": "choice", "ety": ety_choice(rtrees, xtrees[:k]), "root": root_t, "adds": exts_t[:k],
                        "rtrees": rtrees, "atrees": xtrees[:k], "family": fam, "nadd": k}


def new_module(name, default):
    return {"name": name, "default": default, "defs": [], "texts": [], "x": {}}


def finish_module(mod):
    # PadO/PadB: make asn1c copy OCTET_STRING_oer.c and BIT_STRING_oer.c, which generated code of modules
    # without such a type otherwise fails to link against
    mod["texts"] += ["  PadO ::= OCTET STRING", "  PadB ::= BIT STRING"]
    mod["text"] = "%s DEFINITIONS %s TAGS ::= BEGIN\n%s\nEND\n" % (mod["name"], mod["default"], "\n".join(mod["texts"]))
    return mod


ADD_COUNTS = [0, 1, 2, 7, 8, 9, 15, 16, 17, 24, 25]


def gen_modules(rng, tier):
    """the modules of the layer; deterministic in rng"""
    xg = XGen(rng)
    mods = []
    oct_any = {"k": "oct", "con": None}
    # ---- (1) addition-count boundaries: families with the same root and 25 additions, known in part
    nfam = 2 if tier == "quick" else 6
    for f in range(nfam):
        default = ["AUTOMATIC", "IMPLICIT", "EXPLICIT"][f % 3]
        m = new_module("XA%d" % f, default)
        root = xg.members(rng.range(0 if f else 1, 3), "r", default)
        if f == 1:
            root = []          # SEQUENCE { ..., additions }
        adds = xg.members(25, "e", default, optchance=(1, 2), simple=(f % 2 == 0))
        counts = ADD_COUNTS if (tier != "quick" or f == 0) else [0, 8, 9, 16, 24]
        build_seq_family(m, "S", root, adds, counts, default, {})
        mods.append(finish_module(m))
    # ---- (2) open-type size boundaries: OCTET STRING additions
    m = new_module("XB", "AUTOMATIC")
    root = [("r0", {"k": "int", "con": (0, 255, False)}, False)]
    adds = [("e0", dict(oct_any), False), ("e1", {"k": "bool"}, True), ("e2", dict(oct_any), True)]
    build_seq_family(m, "O", root, adds, [0, 1, 2, 3], "AUTOMATIC", {})
    build_choice_family(m, "B", [("r0", {"k": "bool"}, False)], [("x0", dict(oct_any), False), ("x1", {"k": "null"}, False)],
                        [1, 2], "AUTOMATIC", {})
    mods.append(finish_module(m))
    # ---- (3) CHOICE: extension alternative indices 0, 63, 64 (normally small boundary), root in non-canonical order
    m = new_module("XC", "IMPLICIT")
    nroot = 3
    root = xg.members(nroot, "r", "IMPLICIT", simple=True)
    exts = [("x%d" % i, xg.comp("IMPLICIT", simple=True) if i in (0, 1, 62, 63, 64, 65) else {"k": "bool"}, False) for i in range(66)]
    build_choice_family(m, "C", root, exts, [0, 1, 2, 64, 65, 66], "IMPLICIT", {}, root_numbers=[2, 0, 1])
    mods.append(finish_module(m))
    m = new_module("XD", "AUTOMATIC")
    build_choice_family(m, "D", xg.members(rng.range(1, 5), "r", "AUTOMATIC"), xg.members(5, "x", "AUTOMATIC"), [0, 1, 3, 5], "AUTOMATIC", {})
    if tier != "quick":
        build_choice_family(m, "G", xg.members(rng.range(1, 9), "r", "AUTOMATIC"), xg.members(6, "x", "AUTOMATIC"), [0, 2, 6], "AUTOMATIC", {})
    # ---- (4) more than 64 additions (normally small length)
    build_seq_family(m, "L", [("r0", {"k": "bool"}, False)], [("e%d" % i, {"k": "bool"}, i % 3 == 0) for i in range(66)],
                     [64, 65] if tier == "quick" else [63, 64, 65, 66], "AUTOMATIC", {})
    mods.append(finish_module(m))
    # ---- (5) version brackets
    m = new_module("XV", "AUTOMATIC")
    root = [("r0", {"k": "bool"}, False)]
    adds = [("g0", {"k": "bool"}, False), ("g1", {"k": "int", "con": (0, 255, False)}, True), ("g2", {"k": "null"}, False)]
    root_t, adds_t = with_tags(root, "AUTOMATIC"), with_tags(adds, "AUTOMATIC", start=1)
    rtrees = resolve_members(root_t, "AUTOMATIC", {})
    atrees = resolve_members(adds_t, "AUTOMATIC", {}, start=1)
    m["defs"].append(("V1", None))
    m["texts"].append("  V1 ::= " + xseq_text(root_t, adds_t, groups=[(0, 2)]))
    # X.691 19.9 / X.696 16.5: the group [[ g0, g1 ]] is ONE addition, encoded as a SEQUENCE { g0, g1 OPTIONAL }
    grp = ("s", SEQ_TAG, [atrees[0], ("?", atrees[1])])
    m["x"]["V1"] = {"kind": "seq", "ety": ety_seq(rtrees, [False], atrees), "root": root_t, "adds": adds_t, "rtrees": rtrees, "atrees": atrees,
                    "family": "V", "nadd": 3, "groups": [(0, 2)],
                    "std_ety": "E%d{%s}{%s%s}" % (SEQ_TAG, model_str(rtrees[0]), model_str(grp), model_str(atrees[2]))}
    mods.append(finish_module(m))
    # ---- (6) length of the preamble / root presence bitmap: 0..17 OPTIONAL root members next to the extension marker
    # (OER: extension bit + k presence bits = 1, 2, 3 octets with the splits at k = 7|8 and 15|16; UPER: k-bit bitmap)
    m = new_module("XP", "AUTOMATIC")
    for k in ROOT_OPT_COUNTS:
        root = [("m%d" % i, {"k": "bool"} if i % 3 else {"k": "int", "con": (0, 255, False)}, True) for i in range(k)] + [("z", {"k": "bool"}, False)]
        adds = [("e0", {"k": "bool"}, True), ("e1", {"k": "int", "con": (0, 255, False)}, True)]
        build_seq_family(m, "P%d" % k, root, adds, [0, 2], "AUTOMATIC", {})
    mods.append(finish_module(m))
    return mods


ROOT_OPT_COUNTS = list(range(18))


def root_presence_patterns(k, rng):
    """presence patterns of k OPTIONAL root members: none, all, each octet boundary of the preamble alone (the 8th and
    the 16th presence bit are the first bits of the 2nd and 3rd preamble octet in OER), last, random"""
    pats = [[False] * k]
    if k:
        pats.append([True] * k)
        for only in (6, 7, 8, 14, 15, 16, k - 1):
            if 0 <= only < k:
                pats.append([i == only for i in range(k)])
        pats += [[rng.chance(1, 2) for _ in range(k)] for _ in range(2)]
    out = []
    for q in pats:
        if q not in out:
            out.append(q)
    return out


def std_value_v1(v):
    """value of V1 under the standard reading (group as one addition); None when the flattened value has no
    counterpart (g1 present without the mandatory g0)"""
    r0, g0, g1, g2 = v[1]
    if g0[0] == "_" and g1[0] == "_":
        grp = ("_",)
    elif g0[0] == "_":
        return None
    else:
        grp = ("!", ("S", [g0[1], g1]))
    return ("S", [r0, grp, g2])


# ---------------------------------------------------------------- values

PATTERNS = ["none", "first", "last", "all", "alt", "random", "random"]


def presence(pattern, n, rng):
    if pattern == "none":
        return [False] * n
    if pattern == "first":
        return [i == 0 for i in range(n)]
    if pattern == "last":
        return [i == n - 1 for i in range(n)]
    if pattern == "all":
        return [True] * n
    if pattern == "alt":
        return [i % 2 == 0 for i in range(n)]
    return [rng.chance(1, 2) for _ in range(n)]


def seq_value(x, pres, rng, rpres=None):
    """pres: presence of the additions; rpres: presence of the OPTIONAL root members in their order (None: drawn)"""
    rv = []
    ro = iter(rpres) if rpres is not None else None
    for t in x["rtrees"]:
        if t[0] == "?":
            here = next(ro) if ro is not None else rng.chance(1, 2)
            rv.append(("!", value(t[1], rng, 1)) if here else ("_",))
        else:
            rv.append(value(t, rng, 1))
    av = [("!", value(t, rng, 1)) if p else ("_",) for t, p in zip(x["atrees"], pres)]
    return ("S", rv + av)


def choice_value(x, i, rng):
    alts = x["rtrees"] + x["atrees"]
    return ("C", i, value(alts[i], rng, 1))


def truncate_value(x_full, x_trunc, v):
    """the part of a value of x_full that the type x_trunc (same family, fewer additions) knows; None if a CHOICE
    value selects an alternative x_trunc does not have"""
    if x_full["kind"] == "seq":
        n = len(x_trunc["rtrees"]) + x_trunc["nadd"]
        return ("S", v[1][:n])
    if v[1] < len(x_trunc["rtrees"]) + x_trunc["nadd"]:
        return v
    return None


# the sizes (octets) the complete encoding of an addition should take, at and around the case splits of
# uper_put_length (127/128, 16K fragments, 64K = four fragments, 64K + 16K) and oer_serialize_length (127/128, 255/256, 64K)
SIZE_TARGETS_QUICK = [1, 127, 128, 129, 255, 256, 16383, 16384, 16385, 32768, 65536]
SIZE_TARGETS = [1, 2, 126, 127, 128, 129, 255, 256, 257, 16383, 16384, 16385, 16386, 32767, 32768, 32769, 49152, 65535, 65536,
                65537, 65538, 65539, 65540, 81919, 81920, 81921, 98304]


def octet_sizes_for(target):
    """OCTET STRING sizes whose unconstrained UPER / OER encodings have exactly `target` octets (when one exists)"""
    out = set()
    for s in range(max(0, target - 8), target + 1):
        # UPER: length determinant + octets (fragmented from 16K)
        n, left, u = s, s, 0
        while True:
            if left < 128:
                u += 1 + left
                break
            if left < 16384:
                u += 2 + left
                break
            mfr = min(left // 16384, 4)
            u += 1 + mfr * 16384
            left -= mfr * 16384
            if left == 0:
                u += 1
                break
        o = s + (1 if s < 128 else 1 + (s.bit_length() + 7) // 8)
        if u == target or o == target:
            out.add(s)
    return sorted(out)
