"""c05v_util — fourth layer of checks/c05.py: extensible SET (and CHOICE) types read by an OLDER version of the type.

Region (seed C05-10 was missed): the older-reader chunking corpus (c05x_util.ext_cases) is made of the extensible
SEQUENCE families of lib/extgen.py only; SET_decode_ber / SET_decode_xer have a skipping branch of their own (the
unknown TLV may stand ANYWHERE among the members of a SET, its tag is looked up in the tag map) that no input reached,
and so has CHOICE_decode_ber (unknown alternative).  Here: a hand-written module MV5 with version families of
extensible SETs (tags not in definition order, a two-octet tag, additions between root members, an extensible SET
inside a SEQUENCE / a SET / a SEQUENCE OF, an extensible CHOICE); the sender's value is written by the Python TLV
writer below in the newest version, in BER renderings that vary the ORDER of the members (by tag = DER, definition
order, reversed, unknown first / last, random), and the FORM of every TLV (definite short, long-form 0x81 / 0x82,
indefinite for constructed ones, a primitive unknown OCTET STRING sent in segmented constructed form), and in XER; the
expected value of the reader (DER of the members it knows, sorted by tag) is computed here, independently of the C."""
from c05x_util import tlv, der_int, der_len

UNIV = {"int": 2, "utf8": 12, "bool": 1, "oct": 4, "null": 5, "rec": 0x30, "sof": 0x30, "set": 0x31, "seq": 0x30, "of": 0x30}
CONS = ("rec", "sof", "set", "seq", "of")

# family -> versions that exist as types (name = family + version), members (name, context tag, type, version, optional)
FAMS = {
    "T": {"vers": [0, 1, 2], "mem": [("a", 3, ("int",), 0, False), ("b", 0, ("utf8",), 0, True), ("c", 5, ("bool",), 0, False),
                                    ("d", 1, ("oct",), 1, True), ("e", 7, ("rec",), 2, True), ("f", 2, ("sof",), 2, True),
                                    ("g", 40, ("int",), 2, True), ("h", 6, ("null",), 2, True)]},
    "M": {"vers": [1, 2], "mem": [("a", 0, ("int",), 0, False), ("m", 4, ("int",), 1, True), ("n", 6, ("oct",), 2, True),
                                 ("o", 1, ("rec",), 2, True), ("z", 9, ("bool",), 0, False)]},
    "V": {"vers": [0, 2], "mem": [("i", 0, ("set", "T"), 0, False), ("j", 1, ("int",), 0, False), ("k", 2, ("set", "T"), 2, True),
                                 ("l", 3, ("oct",), 2, True)]},
}
SEQ_W = ("seq", [("p", None, ("int",)), ("q", None, ("set", "T")), ("r", None, ("bool",))])
OF_L = ("of", ("set", "T"))
CHOICE_C = [("a", 0, ("int",), 0), ("b", 1, ("rec",), 0), ("c", 2, ("oct",), 2), ("d", 3, ("rec",), 2), ("e", 40, ("int",), 2)]
# top-level families: name -> (type, versions)
TOPS = {"T": (("set", "T"), [0, 1, 2]), "M": (("set", "M"), [1, 2]), "V": (("set", "V"), [0, 2]), "W": (SEQ_W, [0, 2]), "L": (OF_L, [0, 2])}

TEXT = """MV5 DEFINITIONS IMPLICIT TAGS ::= BEGIN
  Rec ::= SEQUENCE { x INTEGER, y OCTET STRING }
  T0 ::= SET { a [3] INTEGER, b [0] UTF8String OPTIONAL, c [5] BOOLEAN, ... }
  T1 ::= SET { a [3] INTEGER, b [0] UTF8String OPTIONAL, c [5] BOOLEAN, ..., d [1] OCTET STRING OPTIONAL }
  T2 ::= SET { a [3] INTEGER, b [0] UTF8String OPTIONAL, c [5] BOOLEAN, ..., d [1] OCTET STRING OPTIONAL, e [7] Rec OPTIONAL,
               f [2] SEQUENCE OF INTEGER OPTIONAL, g [40] INTEGER OPTIONAL, h [6] NULL OPTIONAL }
  M1 ::= SET { a [0] INTEGER, ..., m [4] INTEGER OPTIONAL, ..., z [9] BOOLEAN }
  M2 ::= SET { a [0] INTEGER, ..., m [4] INTEGER OPTIONAL, n [6] OCTET STRING OPTIONAL, o [1] Rec OPTIONAL, ..., z [9] BOOLEAN }
  V0 ::= SET { i [0] T0, j [1] INTEGER, ... }
  V2 ::= SET { i [0] T2, j [1] INTEGER, ..., k [2] T2 OPTIONAL, l [3] OCTET STRING OPTIONAL }
  W0 ::= SEQUENCE { p INTEGER, q T0, r BOOLEAN }
  W2 ::= SEQUENCE { p INTEGER, q T2, r BOOLEAN }
  L0 ::= SEQUENCE OF T0
  L2 ::= SEQUENCE OF T2
  C0 ::= CHOICE { a [0] INTEGER, b [1] Rec, ... }
  C2 ::= CHOICE { a [0] INTEGER, b [1] Rec, ..., c [2] OCTET STRING, d [3] Rec, e [40] INTEGER }
END
"""
TYPE_NAMES = ["Rec", "T0", "T1", "T2", "M1", "M2", "V0", "V2", "W0", "W2", "L0", "L2", "C0", "C2"]


def module(name="MV5"):
    return {"name": name, "default": "IMPLICIT", "defs": [(t, None) for t in TYPE_NAMES], "trees": {}, "text": TEXT.replace("MV5", name, 1)}


# ------------------------------------------------------------------ BER writer

def tag_bytes(tag, typ):
    cons = 0x20 if typ[0] in CONS else 0
    if tag is None:
        return bytes([UNIV[typ[0]]])
    if tag < 31:
        return bytes([0x80 | cons | tag])
    return bytes([0x9f | cons, tag])


def wrap(tb, content, style, is_oct):
    cons = tb[0] & 0x20
    n = len(content)
    if style == "indef" and cons:
        return tb + b"\x80" + content + b"\0\0"
    if style == "seg" and is_oct and not cons:
        cut = n // 2
        return bytes([tb[0] | 0x20]) + tb[1:] + b"\x80" + tlv(4, content[:cut]) + tlv(4, content[cut:]) + b"\0\0"
    if style == "long1" and n < 256:
        return tb + b"\x81" + bytes([n]) + content
    if style == "long2" and n < 65536:
        return tb + b"\x82" + bytes([n >> 8, n & 255]) + content
    return tb + der_len(n) + content


STYLES = ["der", "indef", "long1", "long2", "unk-indef", "unk-long2", "mix"]
ORDERS = ["tag", "def", "rev", "unk-first", "unk-last", "rand"]


class Enc:
    """one rendering: reader version r (what is 'unknown'), style and order policy; drop = write the known members only"""

    def __init__(self, r, style="der", order="tag", rng=None, drop=False):
        self.r, self.sty, self.ord, self.rng, self.drop = r, style, order, rng, drop

    def style(self, known, typ):
        cons, oct_ = typ[0] in CONS, typ[0] == "oct"
        s = self.sty
        if s in ("der", "long1", "long2"):
            return "def" if s == "der" else s
        if s == "indef":
            return "indef" if cons else "def"
        if s == "unk-indef":
            return "def" if known else ("indef" if cons else ("seg" if oct_ else "long1"))
        if s == "unk-long2":
            return "def" if known else "long2"
        opts = ["def", "long1"] + (["indef"] if cons else [])
        if not known:
            opts += ["long2"] + (["seg"] if oct_ else []) + (["indef"] if cons else [])
        return self.rng.choice(opts)

    def order(self, parts):
        """parts: [(known, tag number, payload)] in definition order"""
        o = self.ord
        if o == "tag":
            return sorted(parts, key=lambda p: p[1])
        if o == "rev":
            return parts[::-1]
        if o == "unk-first":
            return [p for p in parts if not p[0]] + [p for p in parts if p[0]]
        if o == "unk-last":
            return [p for p in parts if p[0]] + [p for p in parts if not p[0]]
        if o == "rand":
            ps = list(parts)
            for i in range(len(ps) - 1, 0, -1):
                j = self.rng.below(i + 1)
                ps[i], ps[j] = ps[j], ps[i]
            return ps
        return parts


def enc(typ, v, tag, known, E):
    k = typ[0]
    if k == "int":
        content = der_int(v)
    elif k == "utf8":
        content = v.encode("utf-8")
    elif k == "bool":
        content = b"\xff" if v else b"\0"
    elif k == "oct":
        content = bytes(v)
    elif k == "null":
        content = b""
    elif k == "rec":
        content = enc(("int",), v["x"], None, known, E) + enc(("oct",), v["y"], None, known, E)
    elif k == "sof":
        content = b"".join(enc(("int",), x, None, known, E) for x in v)
    elif k == "of":
        content = b"".join(enc(typ[1], x, None, known, E) for x in v)
    elif k == "seq":
        content = b"".join(enc(mt, v[mn], mtag, known, E) for (mn, mtag, mt) in typ[1] if mn in v)
    else:
        parts = []
        for (mn, mtag, mt, ver, _) in FAMS[typ[1]]["mem"]:
            if mn not in v:
                continue
            kn = known and ver <= E.r
            if E.drop and not kn:
                continue
            parts.append((kn, mtag, enc(mt, v[mn], mtag, kn, E)))
        content = b"".join(p[2] for p in E.order(parts))
    return wrap(tag_bytes(tag, typ), content, E.style(known, typ), k == "oct")


def xer(typ, v, name, E):
    k = typ[0]
    if k == "int":
        body = "%d" % v
    elif k == "utf8":
        body = v
    elif k == "bool":
        body = "<true/>" if v else "<false/>"
    elif k == "oct":
        body = bytes(v).hex().upper()
    elif k == "null":
        return "<%s/>" % name
    elif k == "rec":
        body = xer(("int",), v["x"], "x", E) + xer(("oct",), v["y"], "y", E)
    elif k == "sof":
        body = "".join(xer(("int",), x, "INTEGER", E) for x in v)
    elif k == "of":
        body = "".join(xer(typ[1], x, "%s%d" % (typ[1][1], E.r), E) for x in v)
    elif k == "seq":
        body = "".join(xer(mt, v[mn], mn, E) for (mn, mtag, mt) in typ[1] if mn in v)
    else:
        parts = [(ver <= E.r, mtag, xer(mt, v[mn], mn, E)) for (mn, mtag, mt, ver, _) in FAMS[typ[1]]["mem"] if mn in v]
        body = "".join(p[2] for p in E.order(parts))
    return "<%s>%s</%s>" % (name, body, name)


# ------------------------------------------------------------------ values

INTS = [0, 5, -1, 127, 128, -129, 2 ** 40]
OCTS = [b"", b"\x07", b"\x01\x02\x03", bytes(range(40)), bytes((i * 7) % 256 for i in range(130)), bytes((i * 5) % 256 for i in range(260))]
TXTS = ["", "hi", "chunk", "x" * 130]


def rec_v(rng):
    return {"x": rng.choice(INTS), "y": rng.choice(OCTS[:4])}


def member_v(mt, rng, pres):
    k = mt[0]
    if k == "int":
        return rng.choice(INTS)
    if k == "utf8":
        return rng.choice(TXTS)
    if k == "bool":
        return rng.chance(1, 2)
    if k == "oct":
        return rng.choice(OCTS)
    if k == "null":
        return None
    if k == "rec":
        return rec_v(rng)
    if k == "sof":
        return [rng.choice(INTS) for _ in range(rng.below(4))]
    return set_v(mt[1], rng, pres)


def set_v(fam, rng, pres):
    """pres: all | none | one:<name> | rand — which of the OPTIONAL members are there"""
    v = {}
    for (mn, mtag, mt, ver, opt) in FAMS[fam]["mem"]:
        if opt:
            there = pres == "all" or (pres.startswith("one:") and pres[4:] == mn) or (pres == "rand" and rng.chance(1, 2))
            if not there:
                continue
        v[mn] = member_v(mt, rng, pres)
    return v


def top_v(top, rng, pres):
    typ = TOPS[top][0]
    if typ[0] == "set":
        return set_v(typ[1], rng, pres)
    if typ[0] == "seq":
        return {mn: member_v(mt, rng, pres) for (mn, mtag, mt) in typ[1]}
    return [set_v("T", rng, pres if i == 0 else "rand") for i in range(rng.range(1, 3))]


def cases(rng, tier):
    """-> [(case, [encoding])] for sweep_items: case = {tn, der, vs}, encoding = {syn, label, hex, v}"""
    quick = tier == "quick"
    out = []
    for top in sorted(TOPS):
        typ, vers = TOPS[top]
        sender = vers[-1]
        fam = typ[1] if typ[0] == "set" else "T"
        adds = [mn for (mn, _, _, ver, opt) in FAMS[fam]["mem"] if ver > 0]
        press = ["all", "none"] + ["one:" + a for a in adds] + ["rand"] * (1 if quick else 4)
        if top in ("W", "L") and quick:
            press = ["all", "one:e", "one:d", "rand"]
        for pres in press:
            v = top_v(top, rng, pres)
            for r in vers:
                tn = "%s%d" % (top, r)
                kind = "self" if r == sender else "old"
                exp = enc(typ, v, None, True, Enc(r, drop=True))
                cc = {"tn": tn, "der": exp.hex(), "ts": None, "vs": "%s as %s%d: %r" % (pres, top, sender, v)}
                encs, seen = [], set()
                combos = [("der", "tag"), ("der", "def"), ("der", "rev"), ("indef", "unk-first"), ("unk-indef", "unk-last"), ("unk-indef", "rev"),
                          ("long1", "def"), ("unk-long2", "unk-first"), ("mix", "rand")] + ([("mix", "rand")] * 3 if not quick else [])
                if kind == "self":
                    combos = [("der", "tag"), ("indef", "rev"), ("long1", "rand")]
                for (sty, order) in combos:
                    bs = enc(typ, v, None, True, Enc(r, sty, order, rng))
                    if bs in seen:
                        continue
                    seen.add(bs)
                    encs.append({"syn": "ber", "label": "ber:%s:set:%s:%s" % (kind, sty, order), "hex": bs.hex(), "v": None})
                for order in (["def", "rev", "unk-first"] if kind == "old" else ["def"]):
                    doc = xer(typ, v, tn, Enc(r, "der", order, rng)).encode()
                    if doc in seen:
                        continue
                    seen.add(doc)
                    encs.append({"syn": "xer", "label": "xer:%s:set:%s" % (kind, order), "hex": doc.hex(), "v": None})
                out.append((cc, encs))
    # extensible CHOICE: the alternative the reader does not know is skipped, the value is left without a selection
    # (nothing to encode: the driver prints ENCFAIL for the value); consumed = everything
    for (an, atag, at, ver) in CHOICE_C:
        for _ in range(1 if quick else 3):
            av = member_v(at, rng, "all")
            for r in (0, 2):
                known = ver <= r
                cc = {"tn": "C%d" % r, "der": enc(at, av, atag, True, Enc(2)).hex() if known else "ENCFAIL", "ts": None, "vs": "%s: %r" % (an, av)}
                encs, seen = [], set()
                for sty in ["der", "indef", "long1", "long2", "unk-indef", "mix", "mix"]:
                    bs = enc(at, av, atag, known, Enc(r, sty, "def", rng))
                    if bs not in seen:
                        seen.add(bs)
                        encs.append({"syn": "ber", "label": "ber:%s:choice:%s" % ("self" if r == 2 else ("old" if not known else "oldk"), sty), "hex": bs.hex(), "v": None})
                if known:
                    encs.append({"syn": "xer", "label": "xer:choice", "hex": ("<C%d>%s</C%d>" % (r, xer(at, av, an, Enc(r)), r)).encode().hex(), "v": None})
                out.append((cc, encs))
    return out
