"""modbuild — compile generated modules with the asn1c built from /repo's working
tree and link each with harness/moddrv.c and the sanitizer-built skeleton library."""
import os, subprocess
from vlib import *


def gen_code(asn1c, skel, mod, outdir, opts=("-fcompound-names",)):
    """run asn1c on one module; returns (rc, output, list of generated .c files)"""
    os.makedirs(outdir, exist_ok=True)
    open(os.path.join(outdir, mod["name"] + ".asn1"), "w").write(mod["text"])
    cmd = [asn1c, "-S", skel, "-R"] + list(opts) + [mod["name"] + ".asn1"]
    p = subprocess.run(cmd, cwd=outdir, stdout=subprocess.PIPE, stderr=subprocess.STDOUT, text=True, errors="replace", timeout=120)
    cs = sorted(f for f in os.listdir(outdir) if f.endswith(".c"))
    return p.returncode, p.stdout, cs


def write_pdu_table(outdir, typenames):
    with open(os.path.join(outdir, "pdu_table.c"), "w") as f:
        f.write("#include <asn_application.h>\n")
        for n in typenames:
            f.write("extern asn_TYPE_descriptor_t asn_DEF_%s;\n" % n)
        f.write("struct pdu_ent { const char *name; asn_TYPE_descriptor_t *td; };\n")
        f.write("struct pdu_ent pdu_table[] = {\n")
        for n in typenames:
            f.write('  {"%s", &asn_DEF_%s},\n' % (n, n))
        f.write("  {0, 0}\n};\n")


def build_modules(mods, tag="mods", opts=("-fcompound-names",), san=True, extra_cflags=(), extra_ldflags=(), moddrv_extra=None):
    """returns {module name: path of moddrv binary or None (with mod['build_log'])}"""
    asn1c, skel = build_asn1c()
    lib, libdir = build_skeleton_lib(san)
    root = os.path.join(scratch(), tag)
    os.makedirs(root, exist_ok=True)
    mk = []
    targets = []
    cflags = ["-std=gnu99", "-w", "-D" + GUARD, "-I" + os.path.join(REPO, "skeletons")] + (SAN if san else ["-O1", "-g"]) + list(extra_cflags)
    if moddrv_extra:
        cflags.append('-DMODDRV_EXTRA=\\"%s\\"' % moddrv_extra)
    for m in mods:
        d = os.path.join(root, m["name"])
        rc, out, cs = gen_code(asn1c, skel, m, d, opts)
        m["asn1c_rc"], m["asn1c_out"], m["dir"] = rc, out, d
        if rc != 0:
            m["exe"] = None
            continue
        write_pdu_table(d, [n for n, _ in m["defs"]])
        srcs = [c for c in cs if c != "pdu_table.c"] + ["pdu_table.c"]
        objs = []
        for c in srcs:
            o = "%s/%s.o" % (m["name"], c[:-2])
            objs.append(o)
            mk.append("%s: %s/%s\n\t@$(CC) $(CFLAGS) -I%s -c $< -o $@ 2>%s.err || (cat %s.err; false)" % (o, m["name"], c, m["name"], o, o))
        exe = "%s/moddrv" % m["name"]
        mk.append("%s/moddrv.o: %s\n\t@$(CC) $(CFLAGS) -I%s -c $< -o $@" % (m["name"], os.path.join(HARNESS, "moddrv.c"), m["name"]))
        mk.append("%s: %s %s/moddrv.o\n\t@$(CC) $(CFLAGS) -o $@ %s/moddrv.o %s %s -lm %s" % (exe, " ".join(objs), m["name"], m["name"], " ".join(objs), lib, " ".join(extra_ldflags)))
        targets.append(exe)
        m["exe"] = os.path.join(root, exe)
    open(os.path.join(root, "Makefile"), "w").write("CC=gcc\nCFLAGS=%s\nall: %s\n%s\n" % (" ".join(cflags), " ".join(targets), "\n".join(mk)))
    rc, out = sh("make -k -j%d all" % NCPU, cwd=root, timeout=1800)
    for m in mods:
        if m.get("exe") and not os.path.exists(m["exe"]):
            m["exe"] = None
            m["build_log"] = out[-3000:]
    return rc, out
