"""c07_util — helpers of the strengthened C07 check (encoder API contract):
  * parse_val: the model's value syntax back to modgen python values;
  * xv_of: a value + its type definition -> the NAMED value tree of coq/Rt/XerEnc.v (what the XER
    encoders read from the descriptors: member names, xml tags, as_XMLValueList);
  * the depth module C07D (recursive types) with values nested 1..40 levels deep and the value-directed
    unrolling of a recursive type into the non-recursive model algebra;
  * the boundary module C07B: values whose encodings sit exactly on the encoders' internal boundaries
    (DER/OER length-of-length 127/128/255/256/65535/65536, the 32-octet scratch of the PER bit writer at
    every put width and phase, the 16-octet rows / 25-octet pieces of the XER hex dump);
  * totals 2^k-1, 2^k, 2^k+1 for asn_encode_to_new_buffer;
  * incremental FNV-1a (prefix states) so that "every fault index" is linear in the output size."""
import zlib
from modgen import *

MASK64 = 0xFFFFFFFFFFFFFFFF
FNV_OFF = 1469598103934665603
FNV_P = 1099511628211


def fnv_states(chunks):
    """FNV-1a state after chunks[:i] for every i (len = n+1), hex-formatted like the driver"""
    h = FNV_OFF
    out = ["%016x" % h]
    for c in chunks:
        for x in c:
            h = ((h ^ x) * FNV_P) & MASK64
        out.append("%016x" % h)
    return out


# ---------------------------------------------------------------- values

def parse_val(s):
    """inverse of modgen.val_str"""
    pos = [0]

    def go():
        c = s[pos[0]]
        pos[0] += 1
        if c == "T":
            return True
        if c == "F":
            return False
        if c == "N":
            return None
        if c == "I":
            j = s.index(";", pos[0])
            v = int(s[pos[0]:j])
            pos[0] = j + 1
            return v
        if c == "O":
            j = s.index(";", pos[0])
            v = bytes.fromhex(s[pos[0]:j])
            pos[0] = j + 1
            return v
        if c in "SL":
            assert s[pos[0]] == "{"
            pos[0] += 1
            out = []
            while s[pos[0]] != "}":
                out.append(go())
            pos[0] += 1
            return (c, out)
        if c == "C":
            j = s.index(":", pos[0])
            i = int(s[pos[0]:j])
            pos[0] = j + 1
            return ("C", i, go())
        if c == "_":
            return ("_",)
        if c == "!":
            return ("!", go())
        raise ValueError("val syntax at %d in %s" % (pos[0], s[:80]))
    v = go()
    if pos[0] != len(s):
        raise ValueError("trailing input in value")
    return v


# ---------------------------------------------------------------- named value trees (XER model)

XML_TAG = {"bool": "BOOLEAN", "null": "NULL", "int": "INTEGER", "oct": "OCTET_STRING", "seq": "SEQUENCE",
           "choice": "CHOICE", "seqof": "SEQUENCE_OF", "setof": "SET_OF"}


def deref(t, env):
    while t["k"] == "ref":
        t = env[t["ref"]]
    return t


def xml_tag(t):
    return t["ref"] if t["k"] == "ref" else XML_TAG[t["k"]]


def xv_of(t, v, env):
    """the string syntax of ocaml/drv_c07.ml (parse_xv)"""
    k = t["k"]
    if k == "ref":
        return xv_of(env[t["ref"]], v, env)
    if k == "bool":
        return "B1" if v else "B0"
    if k == "null":
        return "N"
    if k == "int":
        return "I%d;" % v
    if k == "oct":
        return "O%s;" % bytes(v).hex()
    if k == "seq":
        out = []
        for (name, mt, opt), mv in zip(t["ms"], v[1]):
            if isinstance(mv, tuple) and mv[0] == "_":
                continue
            if isinstance(mv, tuple) and mv[0] == "!":
                mv = mv[1]
            out.append("%s:%s" % (name, xv_of(mt, mv, env)))
        return "S{%s}" % "".join(out)
    if k == "choice":
        name, mt, _ = t["ms"][v[1]]
        return "C%s:%s" % (name, xv_of(mt, v[2], env))
    if k in ("seqof", "setof"):
        el = t["el"]
        ek = deref(el, env)["k"]
        tag = xml_tag(el)
        mode = ("v" if ek in ("bool", "null") else "c" if ek == "choice" else "i") + tag + ":"
        return "%s%s{%s}" % ("Q" if k == "seqof" else "T", mode, "".join(xv_of(el, x, env) for x in v[1]))
    raise ValueError(k)


# ---------------------------------------------------------------- DER of a python value (transport for recursive types)

def der_len(n):
    if n < 128:
        return bytes([n])
    b = n.to_bytes((n.bit_length() + 7) // 8, "big")
    return bytes([0x80 | len(b)]) + b


# ---------------------------------------------------------------- recursive types: value-directed unrolling

ABSENT = object()


def expand(t, vals, env, rec):
    """the type with every reference to a recursive type replaced by that type's definition, along the
    values only; where no value goes (absent OPTIONAL member, unselected alternative, element of an
    empty list) a NULL placeholder stands (only its tag is ever looked at)."""
    k = t["k"]
    if k == "ref":
        if t["ref"] not in rec:
            return t
        if not vals:
            return {"k": "null", "tag": t.get("tag")}
        e = expand(env[t["ref"]], vals, env, rec)
        if t.get("tag"):
            raise ValueError("tagged reference to a recursive type is not supported by the unrolling")
        return e
    if k in ("bool", "null", "int", "oct"):
        return t
    if k == "seq":
        ms = []
        for i, (name, mt, opt) in enumerate(t["ms"]):
            sub = []
            for v in vals:
                mv = v[1][i]
                if isinstance(mv, tuple) and mv[0] == "_":
                    continue
                if isinstance(mv, tuple) and mv[0] == "!":
                    mv = mv[1]
                sub.append(mv)
            ms.append((name, expand(mt, sub, env, rec), opt))
        return dict(t, ms=ms)
    if k == "choice":
        ms = []
        for i, (name, mt, opt) in enumerate(t["ms"]):
            ms.append((name, expand(mt, [v[2] for v in vals if v[1] == i], env, rec), opt))
        return dict(t, ms=ms)
    if k in ("seqof", "setof"):
        sub = []
        for v in vals:
            sub += v[1]
        return dict(t, el=expand(t["el"], sub, env, rec))
    raise ValueError(k)


DEPTH_TEXT = """C07D DEFINITIONS AUTOMATIC TAGS ::= BEGIN
  RC ::= SEQUENCE { v INTEGER (0..255), c CHOICE { end NULL, more RC } }
  RS ::= SEQUENCE { n INTEGER, next RS OPTIONAL }
  RL ::= SEQUENCE OF RL
  RT ::= SET OF RT
  RH ::= CHOICE { leaf OCTET STRING, node RN }
  RN ::= SEQUENCE { l RH, r RH OPTIONAL }
  RQ ::= SEQUENCE { k BOOLEAN, kids SEQUENCE OF RQ }
  RU ::= SEQUENCE { b BOOLEAN, u SET OF RU }
END
"""


def depth_defs():
    ref = lambda n: {"k": "ref", "ref": n}
    return [
        ("RC", {"k": "seq", "ms": [("v", {"k": "int", "con": (0, 255, False)}, False),
                                   ("c", {"k": "choice", "ms": [("end", {"k": "null"}, False), ("more", ref("RC"), False)]}, False)]}),
        ("RS", {"k": "seq", "ms": [("n", {"k": "int", "con": None}, False), ("next", ref("RS"), True)]}),
        ("RL", {"k": "seqof", "con": None, "el": ref("RL")}),
        ("RT", {"k": "setof", "con": None, "el": ref("RT")}),
        ("RH", {"k": "choice", "ms": [("leaf", {"k": "oct", "con": None}, False), ("node", ref("RN"), False)]}),
        ("RN", {"k": "seq", "ms": [("l", ref("RH"), False), ("r", ref("RH"), True)]}),
        ("RQ", {"k": "seq", "ms": [("k", {"k": "bool"}, False), ("kids", {"k": "seqof", "con": None, "el": ref("RQ")}, False)]}),
        ("RU", {"k": "seq", "ms": [("b", {"k": "bool"}, False), ("u", {"k": "setof", "con": None, "el": ref("RU")}, False)]}),
    ]


def depth_module():
    defs = depth_defs()
    text = module_text("C07D", "AUTOMATIC", defs)
    return {"name": "C07D", "default": "AUTOMATIC", "defs": defs, "trees": {}, "text": text}


def depth_value(tn, d, rng):
    """a value of the recursive type nested d levels deep (d >= 1)"""
    if tn == "RC":
        v = ("S", [d % 256, ("C", 0, None)])
        for i in range(d - 1, 0, -1):
            v = ("S", [i % 256, ("C", 1, v)])
        return v
    if tn == "RS":
        v = ("S", [d * 1000003, ("_",)])
        for i in range(d - 1, 0, -1):
            v = ("S", [i - 20, ("!", v)])
        return v
    if tn in ("RL", "RT"):
        v = ("L", [])
        for i in range(d - 1, 0, -1):
            # siblings of different shapes at some levels: sorting (SET OF, DER and CANONICAL-XER) has work to do
            sib = [("L", [("L", [])]), ("L", [])][:(i % 3)]
            v = ("L", sib + [v])
        return v
    if tn == "RH":
        v = ("C", 0, bytes((7 * j + d) % 256 for j in range(17 + d % 20)))
        for i in range(d - 1, 0, -1):
            r = ("!", ("C", 0, bytes((j + i) % 256 for j in range((i * 5) % 37)))) if i % 2 else ("_",)
            v = ("C", 1, ("S", [v, r]))
        return v
    if tn == "RN":
        return ("S", [depth_value("RH", d, rng), ("_",)])
    if tn in ("RQ", "RU"):
        v = ("S", [bool(d % 2), ("L", [])])
        for i in range(d - 1, 0, -1):
            sib = [("S", [False, ("L", [])])] if i % 4 == 1 else []
            v = ("S", [bool(i % 2), ("L", sib + [v])])
        return v
    raise ValueError(tn)


def unrolled_tree(tn, v, defs):
    """model tree (modgen tuple) of the recursive type along the value"""
    env = dict(defs)
    rec = set(env.keys())
    t = expand(env[tn], [v], env, rec)
    return resolve(t, "AUTOMATIC", env)


# ---------------------------------------------------------------- boundary module

PUT_WIDTHS = [1, 2, 3, 5, 7, 8, 9, 15, 16, 17, 23, 24, 25, 31]


def boundary_defs():
    ic = lambda lo, hi: {"k": "int", "con": (lo, hi, False)}
    defs = [
        ("OS", {"k": "oct", "con": None}),
        ("QO", {"k": "seqof", "con": None, "el": {"k": "oct", "con": None}}),
        ("TO", {"k": "setof", "con": None, "el": {"k": "oct", "con": None}}),
        ("XO", {"k": "oct", "con": None, "tag": ("CONTEXT", 5, "EXPLICIT")}),
        ("SQ", {"k": "seq", "ms": [("s", {"k": "oct", "con": None}, False), ("f", {"k": "bool"}, True), ("i", {"k": "int", "con": None}, True)]}),
        ("PB", {"k": "seq", "ms": [("pre", ic(0, 7), False), ("s", {"k": "oct", "con": (0, 100, False)}, False), ("post", ic(0, 1), False)]}),
        ("BB", {"k": "seqof", "con": (0, 600, False), "el": {"k": "bool"}}),
    ]
    for w in PUT_WIDTHS:
        defs.append(("W%d" % w, {"k": "seqof", "con": None, "el": ic(0, 2 ** w - 1)}))
    return defs


def boundary_module():
    defs = boundary_defs()
    env = dict(defs)
    trees = {n: resolve(t, "AUTOMATIC", env) for n, t in defs}
    return {"name": "C07B", "default": "AUTOMATIC", "defs": defs, "trees": trees, "text": module_text("C07B", "AUTOMATIC", defs)}


def pat(n, salt=0):
    return bytes((i * 31 + n + salt) % 256 for i in range(n))


LEN_EDGES_SMALL = [0, 1, 15, 16, 17, 24, 25, 26, 31, 32, 33, 48, 49, 50, 51, 63, 64, 65, 125, 126, 127, 128, 129, 130, 253, 254, 255, 256, 257]
LEN_EDGES_BIG = [65531, 65532, 65533, 65534, 65535, 65536, 65537]


def boundary_values(tier, rng):
    """[(type, value, tags)]; tags: 'big' (sampled fault indices / buffer sizes), 'uperonly'..."""
    out = []
    # OCTET STRING: the length octets change at 127/128, 255/256, 65535/65536 (DER and OER), the CANONICAL-XER
    # dump is flushed every 25 octets, the BASIC-XER dump has rows of 16
    for n in LEN_EDGES_SMALL + ([1000] if tier == "quick" else [511, 512, 1000, 4095, 4096, 16383, 16384, 16385]):
        out.append(("OS", pat(n), set()))
    for n in (LEN_EDGES_BIG[2:6] if tier == "quick" else LEN_EDGES_BIG):
        out.append(("OS", pat(n), {"big"}))
    # nested: the OUTER contents length exactly at an edge while the inner ones are at edges too
    for target in (127, 128, 255, 256) + ((65535, 65536) if tier != "quick" else (65535, 65536)):
        for inner in (0, 125, 127, 128):
            # elements of `inner` octets (TL 2 or 3) until the rest; the last element takes the remainder
            el = []
            room = target
            while True:
                tl = 2 if inner < 128 else 3
                if room - (tl + inner) < 2 or inner == 0 and len(el) >= 3:
                    break
                el.append(pat(inner, len(el)))
                room -= tl + inner
            # remainder r = TL + contents
            for tl in (2, 3, 4):
                c = room - tl
                if c >= 0 and der_tl_len(c) == tl:
                    el.append(pat(c, 99))
                    room = 0
                    break
            if room != 0:
                continue
            tags = {"big"} if target > 4096 else set()
            out.append(("QO", ("L", el), tags))
            if target <= 256:
                out.append(("TO", ("L", el), tags))
    # SET OF: every element is first encoded into a buffer of its own that grows 8 -> 32 -> 128 -> 512 (DER and
    # canonical PER: _el_addbytes) or by (size << 2) + chunk (CANONICAL-XER: SET_OF_encode_xer_callback): element
    # encodings of 31..35, 127..131, 511..515 octets, and the hex chunks of 25 octets meeting the buffer's end
    for n in [0, 1, 2, 24, 25, 26, 28, 29, 30, 31, 32, 33, 49, 50, 51, 124, 125, 126, 127, 128, 129] + ([509] if tier == "quick" else [506, 507, 508, 509, 510, 511, 512]):
        out.append(("TO", ("L", [pat(n), pat((n * 7) % 40, 3)]), set()))
    # an EXPLICIT tag: two TLs whose lengths cross the edges one after the other
    for n in (124, 125, 126, 127, 128, 251, 252, 253, 254, 255, 256):
        out.append(("XO", pat(n), set()))
    for n in (65530, 65531, 65532, 65535, 65536):
        out.append(("XO", pat(n), {"big"}))
    # PER: an OCTET STRING that starts 3 bits (+ 7-bit length) into the stream and crosses the 32-octet scratch
    for n in list(range(26, 36)) + list(range(58, 68)) + [94, 95, 96, 97, 100]:
        out.append(("PB", ("S", [n % 8, pat(n), n % 2]), {"per"}))
    # PER: single-bit puts around 256 and 512 bits (the count takes 10 bits)
    for n in list(range(240, 262)) + list(range(496, 520)):
        out.append(("BB", ("L", [bool((i * 7 + n) % 3 == 0) for i in range(n)]), {"per"}))
    # PER: w-bit puts that cross the end of the scratch at every phase (8-bit count, then n * w bits)
    for w in PUT_WIDTHS:
        ns = set()
        for edge in (256, 512):
            base = (edge - 8) // w
            ns.update(range(max(base - 2, 0), base + 4))
        for n in sorted(ns):
            if n < 128:
                out.append(("W%d" % w, ("L", [((i * 2654435761 + n) % (2 ** w)) for i in range(n)]), {"per"}))
    return out


def der_tl_len(c):
    return 1 + len(der_len(c))


# ---------------------------------------------------------------- asn_encode_to_new_buffer at totals 2^k-1, 2^k, 2^k+1

def int_len(v):
    """octets of the minimal two's-complement form"""
    n = 1
    while not (-(1 << (8 * n - 1)) <= v < (1 << (8 * n - 1))):
        n += 1
    return n


def sq_size(syn, n, f, i):
    """predicted size of SQ ::= SEQUENCE { s OCTET STRING, f BOOLEAN OPTIONAL, i INTEGER OPTIONAL } (AUTOMATIC TAGS)
    with an n-octet string, f in (None, True, False), i in (None, int).  Only used to AIM at a total; the check
    verifies the size the C reports and counts the hits."""
    if syn == "der":
        c = der_tl_len(n) + n + (3 if f is not None else 0) + (2 + int_len(i) if i is not None else 0)
        return der_tl_len(c) + c
    if syn == "oer":
        return 1 + len(der_len(n)) + n + (1 if f is not None else 0) + (1 + int_len(i) if i is not None else 0)
    if syn == "uper":
        bits = 2
        if n < 128:
            bits += 8 + 8 * n
        elif n < 16384:
            bits += 16 + 8 * n
        else:
            rest = n
            while rest >= 16384:
                m = min(rest // 16384, 4)
                bits += 8 + 8 * m * 16384
                rest -= m * 16384
            bits += (8 if rest < 128 else 16) + 8 * rest
        if f is not None:
            bits += 1
        if i is not None:
            bits += 8 + 8 * int_len(i)
        return (bits + 7) // 8
    if syn == "cxer":
        return 4 + 3 + 2 * n + 4 + (3 + (7 if f else 8) + 4 if f is not None else 0) + (3 + len(str(i)) + 4 if i is not None else 0) + 5
    if syn == "xer":
        t = 5 + 7
        if 0 < n <= 16:
            t += 3 * n - 1
        elif n > 16:
            rows = (n + 15) // 16
            last = n - 16 * (rows - 1)
            t += rows * 9 + (rows - 1) * 48 + (3 * last - 1) + 5
        t += 4
        if f is not None:
            t += 5 + 3 + (7 if f else 8) + 4
        if i is not None:
            t += 5 + 3 + len(str(i)) + 4
        return t + 1 + 6
    raise ValueError(syn)


def newbuf_aim(target, syn):
    """a value of SQ predicted to encode to exactly `target` octets in `syn` (None if the frame is larger)"""
    for f in (None, True, False):
        for i in (None, 5, 10, 100, 1000, 10000, 100000, 10 ** 6, 10 ** 7, 10 ** 8, 10 ** 9, 10 ** 10):
            if sq_size(syn, 0, f, i) > target:
                continue
            lo, hi = 0, target + 1          # the size is monotone in n: smallest n with size >= target
            while lo < hi:
                mid = (lo + hi) // 2
                if sq_size(syn, mid, f, i) >= target:
                    hi = mid
                else:
                    lo = mid + 1
            if sq_size(syn, lo, f, i) == target:
                return ("S", [pat(lo), ("_",) if f is None else ("!", f), ("_",) if i is None else ("!", i)])
    return None


# ---------------------------------------------------------------- an independent DER encoder (transport + third opinion)

def tag_octets(tg, constructed):
    cls, num = tg % 4, tg // 4
    first = (cls << 6) | (0x20 if constructed else 0)
    if num < 31:
        return bytes([first | num])
    out = [num & 0x7f]
    num >>= 7
    while num:
        out.append(0x80 | (num & 0x7f))
        num >>= 7
    return bytes([first | 31] + out[::-1])


def tlv(tg, constructed, content):
    return tag_octets(tg, constructed) + der_len(len(content)) + content


def py_der(tree, v):
    k = tree[0]
    if k == "b":
        return tlv(tree[1], False, b"\xff" if v else b"\x00")
    if k == "n":
        return tlv(tree[1], False, b"")
    if k == "i":
        return tlv(tree[1], False, v.to_bytes(int_len(v), "big", signed=True))
    if k == "o":
        return tlv(tree[1], False, bytes(v))
    if k == "s":
        out = b""
        for m, mv in zip(tree[2], v[1]):
            if m[0] == "?":
                if mv[0] == "_":
                    continue
                out += py_der(m[1], mv[1])
            else:
                out += py_der(m, mv)
        return tlv(tree[1], True, out)
    if k == "q":
        return tlv(tree[1], True, b"".join(py_der(tree[3], x) for x in v[1]))
    if k == "t":
        return tlv(tree[1], True, b"".join(sorted(py_der(tree[3], x) for x in v[1])))
    if k == "c":
        return py_der(tree[1][v[1]], v[2])
    if k == "x":
        return tlv(tree[1], True, py_der(tree[2], v))
    raise ValueError(k)


def der_sorted_value(tree, v):
    """the value as the C sees it after decoding its DER: SET OF elements in the order of their encodings"""
    k = tree[0]
    if k == "s":
        out = []
        for m, mv in zip(tree[2], v[1]):
            if m[0] == "?":
                out.append(mv if mv[0] == "_" else ("!", der_sorted_value(m[1], mv[1])))
            else:
                out.append(der_sorted_value(m, mv))
        return ("S", out)
    if k == "q":
        return ("L", [der_sorted_value(tree[3], x) for x in v[1]])
    if k == "t":
        xs = [der_sorted_value(tree[3], x) for x in v[1]]
        return ("L", sorted(xs, key=lambda x: py_der(tree[3], x)))
    if k == "c":
        return ("C", v[1], der_sorted_value(tree[1][v[1]], v[2]))
    if k == "x":
        return der_sorted_value(tree[2], v)
    return v


# ---------------------------------------------------------------- batches of driver runs, several processes at a time

import os, subprocess


def par_run(jobs, workdir, env=None, width=8, timeout=1500, big_stack=False):
    """jobs: [(binary, lines)].  Every job reads its lines from a file and writes to a file (no threads, no
    pipes to service); at most `width` processes at a time.  Returns [(rc, output lines, stderr tail)]."""
    os.makedirs(workdir, exist_ok=True)
    res = [None] * len(jobs)
    pending = list(range(len(jobs)))
    running = {}
    serial = [0]

    def start(i):
        binary, lines = jobs[i]
        serial[0] += 1
        base = os.path.join(workdir, "j%d_%d" % (os.getpid(), serial[0]))
        open(base + ".in", "w").write("\n".join(lines) + "\n")
        cmd = "exec '%s' < '%s.in' > '%s.out' 2> '%s.err'" % (binary, base, base, base)
        if big_stack:
            cmd = "ulimit -s unlimited 2>/dev/null; " + cmd
        running[i] = (subprocess.Popen(["/bin/bash", "-c", cmd], env=env), base)

    while pending or running:
        while pending and len(running) < width:
            start(pending.pop(0))
        done = [i for i, (p, _) in running.items() if p.poll() is not None]
        if not done:
            try:
                next(iter(running.values()))[0].wait(timeout=0.05)
            except subprocess.TimeoutExpired:
                pass
            continue
        for i in done:
            p, base = running.pop(i)
            out = open(base + ".out", errors="replace").read().split("\n")
            if out and out[-1] == "":
                out.pop()
            err = open(base + ".err", errors="replace").read()[-4000:]
            res[i] = (p.returncode, out, err)
            for ext in (".in", ".out", ".err"):
                try:
                    os.unlink(base + ext)
                except OSError:
                    pass
    return res


def tlv_shape(b):
    """(number of TLVs, deepest nesting) of a definite-length BER encoding"""
    count = 0
    deepest = 0
    stack = [(0, len(b), 1)]
    while stack:
        pos, end, depth = stack.pop()
        while pos < end:
            first = b[pos]
            pos += 1
            if first & 0x1f == 0x1f:
                while b[pos] & 0x80:
                    pos += 1
                pos += 1
            l = b[pos]
            pos += 1
            if l & 0x80:
                k = l & 0x7f
                l = int.from_bytes(b[pos:pos + k], "big")
                pos += k
            count += 1
            deepest = max(deepest, depth)
            if first & 0x20:
                stack.append((pos, pos + l, depth + 1))
            pos += l
    return count, deepest
