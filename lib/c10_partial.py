"""c10_partial — C10 round 4, region F: modules in which exactly ONE emission unit fails IN THE EMITTER.

Region (closed after seeded change C10-6 was missed): the clause "accepted => builds; rejected => diagnostic and non-zero
exit" was evaluated on modules where ALL or NONE of the types compile - every refusal of the corpus came from the parser
or the fixer, which stop the whole run.  The emitter (libasn1compiler) has refusals of its own (`FATAL` + `return -1`, the
`#error Cannot compile` directive of asn1c_compile_expr); whether ONE such failure among several units reaches the exit
status is decided by the status folding of asn1compiler.c (top-level loop, specialization loop, EMBED), which no module
exercised.

Swept here:
  * REFUSALS: the emitter's own refusals that an input can reach (grep of libasn1compiler for FATAL / #error / return -1;
    the table at the end of notes/design/C10.md lists every site and the input found for it, or why none exists);
  * position: the failing unit first / middle / last among several top-level types; the failing SPECIALIZATION first /
    middle / last (and first+last) among the specializations of one parameterized type, the template itself first / middle /
    last among plain types; the failing unit in the first / second of two modules;
  * value boundaries of the wide-INTEGER cell refusal (127, 128, 32767 emitted; 32768, 70000, -1 refused);
  * flag sets: with / without -fwide-types (one refusal exists only under it) x the other quick option sets;
  * a failing EMBEDded component (the status the code drops: known findings) first / last.
Each module carries `units` (the emission-unit tree for coq/Fix/CompileFold.v) with refusal ids at the failing places;
`fold_tokens(mod, opts)` renders the tree under an option set.

Oracle on the C output alone (c10_util.fatal_oracle, EVERY job of the corpus): a `FATAL:` line on stderr or an `#error`
directive in an emitted (non-skeleton) file => exit status non-zero."""
import re

CLS = "CLS ::= CLASS { &id INTEGER UNIQUE, &Type } WITH SYNTAX { ID &id TYPE &Type }"
# row types are written as references: a built-in type there is finding C18-builtin-row-type (`{ "&Type", ,` in the table)
ROWTYPES = ["Flag ::= BOOLEAN", "Count ::= INTEGER", "Label ::= IA5String", "Nil ::= NULL"]
SETS = ("S1 CLS ::= { { ID 1 TYPE Count } | { ID 2 TYPE Flag } }\n"
        "S2 CLS ::= { { ID 3 TYPE Nil } }")
WIDE = "-fwide-types"


def ioc_seq(name, objset, cls="CLS"):
    return "%s ::= SEQUENCE { id %s.&id ({%s}), value %s.&Type ({%s}{@id}) }" % (name, cls, objset, cls, objset)


# id -> (support assignments [(text, n_units)], bad type text for a name, flags the refusal needs, the emitter's own diagnostic)
def _wide(v):
    return {"support": ROWTYPES + [CLS, "SW%s CLS ::= { { ID 10 TYPE Flag } | { ID %s TYPE Label } }" % (str(v).replace("-", "m"), v)],
            "bad": lambda n, v=v: ioc_seq(n, "SW%s" % str(v).replace("-", "m")), "needs": {WIDE}, "fatal": r"Unsupported value .* range for type"}


REFUSALS = {
    "ioc-int-32768-wide": _wide(32768),
    "ioc-int-70000-wide": _wide(70000),
    "ioc-int-neg-wide": _wide(-1),
    "ioc-id-boolean": {"support": ROWTYPES + ["CB ::= CLASS { &id BOOLEAN UNIQUE, &Type } WITH SYNTAX { ID &id TYPE &Type }",
                                   "SB CB ::= { { ID TRUE TYPE Count } | { ID FALSE TYPE Flag } }"],
                       "bad": lambda n: ioc_seq(n, "SB", "CB"), "needs": set(), "fatal": r"Unsupported type BOOLEAN for value"},
    "objset-mismatch": {"support": ROWTYPES + [CLS] + SETS.split("\n"),
                        "bad": lambda n: "%s ::= SEQUENCE { id CLS.&id ({S1}), value CLS.&Type ({S2}{@id}) }" % n, "needs": set(),
                        "fatal": r"Object set reference on line \d+ differs"},
    "selector-unknown-member": {"support": ROWTYPES + [CLS] + SETS.split("\n"),
                                "bad": lambda n: "%s ::= SEQUENCE { id CLS.&id ({S1}), value CLS.&Type ({S1}{@nope}) }" % n, "needs": set(),
                                "fatal": r"Can not find \"nope\""},
    "selector-not-class-field": {"support": ROWTYPES + [CLS] + SETS.split("\n"),
                                 "bad": lambda n: "%s ::= SEQUENCE { id INTEGER, value CLS.&Type ({S1}{@id}) }" % n, "needs": set(),
                                 "fatal": r"Does not look like id is a CLASS field reference"},
    "selector-dotted": {"support": ROWTYPES + [CLS] + SETS.split("\n"),
                        "bad": lambda n: "%s ::= SEQUENCE { h SEQUENCE { id CLS.&id ({S1}) }, value CLS.&Type ({S1}{@h.id}) }" % n, "needs": set(),
                        "fatal": r"Can not find \"h.id\""},
    "selector-two-ats": {"support": ROWTYPES + [CLS] + SETS.split("\n"),
                         "bad": lambda n: "%s ::= SEQUENCE { id CLS.&id ({S1}), value CLS.&Type ({S1}{@id,@id}) }" % n, "needs": set(),
                         "fatal": r"Do not know how to handle complex IoS constraints"},
    "external": {"support": [], "bad": lambda n: "%s ::= EXTERNAL" % n, "needs": set(), "fatal": r"Cannot compile"},
    "embedded-pdv": {"support": [], "bad": lambda n: "%s ::= EMBEDDED PDV" % n, "needs": set(), "fatal": r"Cannot compile"},
    "instance-of": {"support": [], "bad": lambda n: "%s ::= INSTANCE OF TYPE-IDENTIFIER" % n, "needs": set(), "fatal": r"Cannot compile"},
}

# boundary values of the wide-INTEGER cell that the emitter DOES handle (the neighbours of the refused ones)
WIDE_OK = [0, 127, 128, 32767]

GOOD = [
    lambda n: ("%s ::= SEQUENCE { a INTEGER, b BOOLEAN OPTIONAL }" % n, 2),
    lambda n: ("%s ::= CHOICE { x INTEGER (0..7), y IA5String }" % n, 2),
    lambda n: ("%s ::= SET OF INTEGER" % n, 1),
    lambda n: ("%s ::= ENUMERATED { red, green }" % n, 0),
    lambda n: ("%s ::= SEQUENCE { c OCTET STRING, d SEQUENCE { e NULL } }" % n, 2),
]


def T(ok=True, nmemb=0, rid=None, members=None):
    """a type unit: rid = refusal id of its OWN emitter (None: it succeeds)"""
    return ("T", rid, members if members is not None else [("T", None, []) for _ in range(nmemb)])


def S(specs):
    return ("S", specs)


def module(name, items, origin="partial", second=None, **kw):
    """items: [(text, unit)] in module order"""
    def body(its):
        return "\n".join("  " + t for t, _ in its)
    text = "%s DEFINITIONS AUTOMATIC TAGS ::= BEGIN\n%s\nEND\n" % (name, body(items))
    units = [u for _, u in items]
    if second:
        text += "\n%sB DEFINITIONS AUTOMATIC TAGS ::= BEGIN\n%s\nEND\n" % (name, body(second))
        units += [u for _, u in second]
    d = {"name": name, "text": text, "origin": origin, "expect": "valid", "units": units, "partial": True}
    d.update(kw)
    return d


def support_items(rid):
    return [(t, T()) for t in REFUSALS[rid]["support"]]


def dedup(items):
    seen, out = set(), []
    for t, u in items:
        key = t.split("::=")[0].strip()
        if key in seen and u == T():
            continue
        seen.add(key)
        out.append((t, u))
    return out


def good(i, name):
    t, k = GOOD[i % len(GOOD)](name)
    return (t, T(nmemb=k))


def plain_modules():
    """every refusal as a top-level type: first / middle / last among good types"""
    out = []
    for ri, rid in enumerate(sorted(REFUSALS)):
        r = REFUSALS[rid]
        nm = "".join(w.capitalize() for w in rid.split("-"))
        for pos in ("first", "middle", "last"):
            bad = (r["bad"]("Bad"), T(rid=rid))
            g = [good(ri + k, "Ok%d" % k) for k in range(3)]
            sup = support_items(rid)
            items = {"first": sup + [bad] + g, "middle": sup + g[:2] + [bad] + g[2:], "last": sup + g + [bad]}[pos]
            out.append(module("Fp%s%s" % (nm, pos.capitalize()), items, refusal=rid, position=pos))
    # the handled neighbours of the refused cell values: nothing fails under any flag set
    items = [(t, T()) for t in ROWTYPES] + [(CLS, T())]
    for v in WIDE_OK:
        items.append(("SV%d CLS ::= { { ID 10 TYPE Flag } | { ID %d TYPE Label } }" % (v, v), T()))
        items.append((ioc_seq("Cell%d" % v, "SV%d" % v), T(nmemb=2)))
    out.append(module("FpWideCellsHandled", items, refusal=None, position="none"))
    # a site that prints FATAL and returns 0 ("TEMPORARY FIXME" in emit_ioc_value): OBJECT IDENTIFIER identifiers (finding C18-oid-identifier)
    items = [(t, T()) for t in ROWTYPES] + [("CO ::= CLASS { &id OBJECT IDENTIFIER UNIQUE, &Type } WITH SYNTAX { ID &id TYPE &Type }", T()),
             ("SO CO ::= { { ID {1 2 3} TYPE Count } | { ID {1 2 4} TYPE Flag } }", T()), good(0, "Ok0"), (ioc_seq("Keyed", "SO", "CO"), T(nmemb=2)), good(1, "Ok1")]
    out.append(module("FpOidIdentifier", items, refusal=None, position="fatal-returns-0"))
    # an emitter failure INSIDE an EMBEDded component, after a REDIR(): the open type of a nested anonymous SEQUENCE that names a
    # component of the outer one (valid: X.682 `@` starts at the outermost structure) - finding C10-component-emitter-failure-assert
    items = [(t, T()) for t in ROWTYPES] + [(CLS, T())] + [(s_, T()) for s_ in SETS.split("\n")] + [
        good(0, "Ok0"), ("Nest ::= SEQUENCE { id CLS.&id ({S1}), f SEQUENCE { v CLS.&Type ({S1}{@id}) } }", T(members=[T(), T(rid="selector-unknown-member", nmemb=1)])), good(1, "Ok1")]
    out.append(module("FpNestedSelector", items, refusal="selector-unknown-member", position="component-after-redir"))
    # two modules in one file: the failing unit in the first / in the second module
    for pos in ("first", "second"):
        rid = "selector-unknown-member"
        a = support_items(rid) + [good(0, "Ok0"), (REFUSALS[rid]["bad"]("Bad"), T(rid=rid)), good(1, "Ok1")]
        b = [good(2, "Okb0"), good(3, "Okb1")]
        if pos == "first":
            out.append(module("FpTwoModsFirst", a, second=b, refusal=rid, position="module-1-of-2"))
        else:
            b2 = [(t.replace("Okb", "Okc"), u) for t, u in b]
            out.append(module("FpTwoModsSecond", b2, second=a, refusal=rid, position="module-2-of-2"))
    # a failing EMBEDded component (the result the code drops): first / last member
    for k, (nm, bad_member) in enumerate([("External", "EXTERNAL"), ("InstanceOf", "INSTANCE OF TYPE-IDENTIFIER")]):
        rid = "external" if k == 0 else "instance-of"
        for pos in ("first", "last"):
            ms = ["x %s" % bad_member, "a INTEGER", "b BOOLEAN"] if pos == "first" else ["a INTEGER", "b BOOLEAN", "x %s" % bad_member]
            mu = [T(rid=rid) if m.startswith("x ") else T() for m in ms]
            items = [good(0, "Ok0"), ("Host ::= SEQUENCE { %s }" % ", ".join(ms), T(members=mu)), good(1, "Ok1")]
            out.append(module("FpMember%s%s" % (nm, pos.capitalize()), items, refusal=rid, position="component-" + pos))
    return out


# ---- a failing SPECIALIZATION among the specializations of one parameterized type
def spec_forms():
    """-> [(form id, support items, template text, [good instantiation texts], [two failing instantiation texts], refusal id)]
    The good instantiations name DIFFERENT object sets: two specializations sharing an object set are finding
    C10-param-objset-table-per-specialization (module FsSharedObjset is its witness)."""
    rows = [(t, T()) for t in ROWTYPES]
    forms = []
    forms.append(("Alias", [], "Al {T} ::= T", ["Al {INTEGER}", "Al {BOOLEAN}", "Al {IA5String}"], ["Al {EXTERNAL}", None], "external"))
    forms.append(("AliasPdv", [], "Al {T} ::= T", ["Al {NULL}", "Al {OCTET STRING}", "Al {REAL}"], ["Al {EMBEDDED PDV}", None], "embedded-pdv"))
    forms.append(("Mismatch", rows + [(CLS, T())] + [(s, T()) for s in SETS.split("\n")] + [("S3 CLS ::= { { ID 4 TYPE Label } }", T())],
                  "Fr {CLS:SA, CLS:SB, X} ::= SEQUENCE { id CLS.&id ({SA}), value CLS.&Type ({SB}{@id}), x X }",
                  ["Fr {{S1},{S1},INTEGER}", "Fr {{S2},{S2},NULL}", "Fr {{S3},{S3},BOOLEAN}"], ["Fr {{S1},{S2},IA5String}", "Fr {{S2},{S3},UTF8String}"], "objset-mismatch"))
    forms.append(("WideCell", rows + [(CLS, T()), ("SW CLS ::= { { ID 10 TYPE Flag } | { ID 70000 TYPE Label } }", T()), ("SX CLS ::= { { ID 32768 TYPE Count } }", T()),
                                      ("SN1 CLS ::= { { ID 1 TYPE Flag } | { ID 2 TYPE Count } }", T()), ("SN2 CLS ::= { { ID 3 TYPE Nil } }", T()),
                                      ("SN3 CLS ::= { { ID 32767 TYPE Label } | { ID 128 TYPE Nil } }", T())],
                  "Frame {CLS:Set, Extra} ::= SEQUENCE { id CLS.&id ({Set}), value CLS.&Type ({Set}{@id}), extra Extra }",
                  ["Frame {{SN1},INTEGER}", "Frame {{SN2},NULL}", "Frame {{SN3},OCTET STRING}"], ["Frame {{SW},BOOLEAN}", "Frame {{SX},REAL}"], "ioc-int-70000-wide"))
    return forms


def spec_modules():
    out = []
    for fi, (fid, sup, tmpl, goods, bads, rid) in enumerate(spec_forms()):
        nmemb = 0 if fid.startswith("Alias") else 3
        for pi, where in enumerate([(0,), (1,), (2,), (0, 2)]):
            # instantiation order = specialization order (asn1f_parameterization_fork appends on first use)
            order, gi, bi = [], 0, 0
            for k in range(3):
                if k in where:
                    if bads[bi] is None:         # one failing actual list only: used twice, it is ONE specialization; a good one takes the slot
                        order.append(("bad", bads[0]))
                    else:
                        order.append(("bad", bads[bi]))
                    bi += 1
                else:
                    order.append(("good", goods[gi]))
                    gi += 1
            insts, specs, seen = [], [], {}
            for kind, text in order:
                if text not in seen:
                    seen[text] = len(specs)
                    specs.append(T(rid=rid if kind == "bad" else None, nmemb=nmemb))
                insts.append(("I%d ::= %s" % (len(insts), text), T()))
            tunit = (tmpl, S(specs))
            g = [good(fi + k, "Ok%d" % k) for k in range(2)]
            # the template itself first / middle / last among the plain types (rotating with the position of the failing specialization)
            tpos = ("first", "middle", "last")[(fi + pi) % 3]
            head = list(sup)
            if tpos == "first":
                items = head + [tunit] + insts + g
            elif tpos == "middle":
                items = head + g[:1] + insts[:1] + [tunit] + insts[1:] + g[1:]
            else:
                items = head + g + insts + [tunit]
            out.append(module("Fs%s%s" % (fid, "".join(str(w) for w in where)), dedup(items), refusal=rid, position="spec-%s/template-%s" % ("+".join(map(str, where)), tpos),
                              needs_compound=True))
    # witness of finding C10-param-objset-table-per-specialization: every unit compiles, two specializations share an object set
    rows = [(t, T()) for t in ROWTYPES]
    items = rows + [(CLS, T()), ("SN1 CLS ::= { { ID 1 TYPE Flag } | { ID 2 TYPE Count } }", T()),
                    ("Frame {CLS:Set, Extra} ::= SEQUENCE { id CLS.&id ({Set}), value CLS.&Type ({Set}{@id}), extra Extra }", S([T(nmemb=3), T(nmemb=3)])),
                    ("I0 ::= Frame {{SN1},INTEGER}", T()), ("I1 ::= Frame {{SN1},NULL}", T())]
    out.append(module("FsSharedObjset", items, refusal=None, position="spec-none/shared-object-set", needs_compound=True))
    return out


def partial_modules(rng, tier):
    ms = plain_modules() + spec_modules()
    # random: 2..3 refusals drawn, failing units at random positions among 4..6 good ones (the FIRST failing one decides)
    n = 4 if tier == "quick" else 24
    rids = sorted(r for r in REFUSALS)
    for i in range(n):
        k = rng.range(1, 2)
        chosen = [rng.choice(rids) for _ in range(k)]
        items, sup = [], []
        for rid in chosen:
            sup += support_items(rid)
        body = [good(rng.below(5), "Ok%d" % j) for j in range(rng.range(3, 5))]
        for bi, rid in enumerate(chosen):
            body.insert(rng.below(len(body) + 1), (REFUSALS[rid]["bad"]("Bad%d" % bi), T(rid=rid)))
        ms.append(module("FpRnd%d" % i, dedup(sup + body), refusal="+".join(chosen), position="random"))
    A, B = ("-fcompound-names",), ("-fcompound-names", WIDE)
    C = ("-fcompound-names", "-no-gen-PER", "-no-gen-OER", "-fincludes-quoted")
    D = ("-fcompound-names", WIDE, "-findirect-choice", "-fno-constraints")
    for i, m in enumerate(ms):
        sets = [A if i % 2 == 0 else C, B if (i // 2) % 2 == 0 else D]
        if not m.get("needs_compound") and i % 3 == 0:
            sets.append(())
        if not m.get("needs_compound") and i % 3 == 1:
            sets.append((WIDE, "-findirect-choice", "-fno-constraints"))
        m["optsets"] = sets
    return ms


# ---- rendering for the model (ocaml/drv_c10.ml: c10_fold)
def fails(rid, opts):
    return rid is not None and REFUSALS[rid]["needs"] <= set(opts)


def unit_tokens(u, opts):
    if u[0] == "S":
        out = ["S", str(len(u[1]))]
        for s in u[1]:
            out += unit_tokens(s, opts)
        return out
    _, rid, members = u
    out = ["T", "0" if fails(rid, opts) else "1", str(len(members))]
    for m in members:
        out += unit_tokens(m, opts)
    return out


def fold_tokens(mod, opts):
    toks = [str(len(mod["units"]))]
    for u in mod["units"]:
        toks += unit_tokens(u, opts)
    return " ".join(toks)


def any_fails(mod, opts, components=True):
    """Spec side, computed without the model: does any unit / specialization (/ EMBEDded component) fail under opts?"""
    def walk(u, is_component):
        if u[0] == "S":
            return any(walk(s_, is_component) for s_ in u[1])
        own = fails(u[1], opts) and (components or not is_component)
        return own or any(walk(m_, True) for m_ in u[2])
    return any(walk(u, False) for u in mod["units"])


def cannot_compile_lines(stderr):
    return len(re.findall(r"^FATAL: Cannot compile ", stderr, flags=re.M))
