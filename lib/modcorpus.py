"""modcorpus — generated modules x values with the model's encodings attached;
shared by the module-level checks (C01..C08, C13..)."""
import os
from vlib import *
from modgen import *
from modbuild import *

SPECIAL_MODULES = [
    # hand-written modules aimed at proof case-split boundaries; same dict shape as Gen.module()
]


def special_defs():
    """definitions that exercise boundaries the random generator hits rarely"""
    defs = []
    ic = lambda lo, hi, ext=False: {"k": "int", "con": (lo, hi, ext)}
    for i, (lo, hi, ext) in enumerate([(0, 255, False), (0, 256, False), (-128, 127, False), (-129, 127, False), (0, 65535, False),
                                       (0, 65536, False), (0, 4294967295, False), (-2147483648, 2147483647, False),
                                       (0, None, False), (None, None, False), (5, 5, False), (0, 1, True), (None, 0, False),
                                       (0, 9223372036854775807, False), (-9223372036854775808, 9223372036854775807, False)]):
        defs.append(("I%d" % i, ic(lo, hi, ext)))
    defs.append(("SO1", {"k": "seqof", "con": None, "el": {"k": "bool"}}))
    defs.append(("SO2", {"k": "setof", "con": None, "el": {"k": "int", "con": None}}))
    defs.append(("SO3", {"k": "setof", "con": (0, 3, False), "el": {"k": "oct", "con": None}}))
    defs.append(("OS1", {"k": "oct", "con": None}))
    defs.append(("OS2", {"k": "oct", "con": (0, 65535, False)}))
    defs.append(("OS3", {"k": "oct", "con": (0, 65536, False)}))
    defs.append(("OS4", {"k": "oct", "con": (1, 65536, False)}))     # 65536 values, upper bound 64K: general length form (X.691 11.9.4.2)
    defs.append(("OS5", {"k": "oct", "con": (65530, 65536, False)}))
    defs.append(("SO4", {"k": "seqof", "con": (1, 65536, False), "el": {"k": "bool"}}))
    defs.append(("CH1", {"k": "choice", "ms": [("a", {"k": "int", "con": None, "tag": ("CONTEXT", 62, None)}, False),
                                               ("b", {"k": "bool", "tag": ("CONTEXT", 63, None)}, False),
                                               ("c", {"k": "null", "tag": ("APPLICATION", 16384, None)}, False),
                                               ("d", {"k": "oct", "con": None, "tag": ("PRIVATE", 0, None)}, False),
                                               ("e", {"k": "int", "con": (0, 7, False)}, False)]}))
    defs.append(("SQ1", {"k": "seq", "ms": [("m%d" % j, {"k": "bool", "tag": ("CONTEXT", j, None)}, True) for j in range(11)]
                                           + [("mand", {"k": "bool", "tag": ("CONTEXT", 20, None)}, False),
                                              ("tail", {"k": "bool", "tag": ("CONTEXT", 21, None)}, True)]}))
    # lists longer than 200 elements of every element kind (a guard in SET_OF_decode_uper counts elements that
    # "consumed nothing"; only BOOLEAN and the string decoders report what they consumed)
    defs.append(("LI", {"k": "seqof", "con": None, "el": {"k": "int", "con": (0, 255, False)}}))
    defs.append(("LU", {"k": "seqof", "con": None, "el": {"k": "int", "con": None}}))
    defs.append(("LS", {"k": "seqof", "con": None, "el": {"k": "seq", "ms": [("a", {"k": "bool"}, False), ("b", {"k": "int", "con": (0, 7, False)}, True)]}}))
    defs.append(("LC", {"k": "seqof", "con": None, "el": {"k": "choice", "ms": [("a", {"k": "bool"}, False), ("b", {"k": "int", "con": (0, 7, False)}, False)]}}))
    defs.append(("LO", {"k": "seqof", "con": (0, 400, False), "el": {"k": "oct", "con": (1, 1, False)}}))
    defs.append(("LLe", {"k": "seqof", "con": (0, 3, False), "el": {"k": "int", "con": (0, 1, False)}}))
    defs.append(("LL", {"k": "seqof", "con": None, "el": {"k": "ref", "ref": "LLe"}}))
    defs.append(("LT", {"k": "setof", "con": None, "el": {"k": "int", "con": (0, 255, False)}}))
    return defs


LONG_LIST_LENGTHS = (199, 200, 201, 202, 300)


def long_list_value(tn, n):
    if tn in ("LI", "LT"):
        return ("L", [(i * 37 + n) % 256 for i in range(n)])
    if tn == "LU":
        return ("L", [(i * 7919 - 4000) * (1 if i % 3 else 65537) for i in range(n)])
    if tn == "LS":
        return ("L", [("S", [bool(i % 2), (("!", i % 8) if i % 3 else ("_",))]) for i in range(n)])
    if tn == "LC":
        return ("L", [("C", i % 2, (bool(i % 3 == 0) if i % 2 == 0 else i % 8)) for i in range(n)])
    if tn == "LO":
        return ("L", [bytes([(i * 11) % 256]) for i in range(n)])
    if tn == "LL":
        return ("L", [("L", [(i + j) % 2 for j in range(i % 4)]) for i in range(n)])
    raise KeyError(tn)


def special_module(name="MS"):
    defs = special_defs()
    env = dict(defs)
    trees = {n: resolve(t, "EXPLICIT", env) for n, t in defs}
    return {"name": name, "default": "EXPLICIT", "defs": defs, "trees": trees, "text": module_text(name, "EXPLICIT", defs)}


def special_values(tn, tree, rng, tier):
    k = tree[0]
    out = []
    if k == "i":
        lo, hi, ext = tree[2], tree[3], tree[4]
        cand = [c for c in INT_EDGES if (lo is None or c >= lo) and (hi is None or c <= hi)]
        for b in (lo, hi):
            if b is not None:
                cand += [x for x in (b, b + 1, b - 1) if (lo is None or x >= lo) and (hi is None or x <= hi)]
        if ext:
            cand += [c for c in INT_EDGES[:12]]
        out = sorted(set(c for c in cand if -2**63 <= c < 2**63))
    elif tn == "SO1":
        ns = [0, 1, 127, 128, 129] + ([16383, 16384, 16385, 32768, 65536, 65537, 70000] if tier == "thorough" else [16383, 16384, 16385])
        out = [("L", [bool((i * 7) % 3 == 0) for i in range(n)]) for n in ns]
    elif tn in ("OS1", "OS2", "OS3", "OS4", "OS5"):
        ns = [0, 1, 127, 128, 255, 256] + ([16383, 16384, 16385, 32768, 49152, 65535, 65536, 65537, 70000] if tier == "thorough" else [16383, 16384])
        lo, hi = tree[2], tree[3]
        if tn == "OS5":
            ns = [65530, 65536] if tier == "thorough" else [65530]
        ns = [n for n in ns if n >= lo and (hi is None or n <= hi)]
        out = [bytes((i * 31 + n) % 256 for i in range(n)) for n in ns]
    elif tn == "SO4":
        out = [("L", [bool((i * 5) % 3 == 0) for i in range(n)]) for n in (1, 3, 129)]
    elif tn in ("LI", "LU", "LS", "LC", "LO", "LL", "LT"):
        out = [long_list_value(tn, n) for n in (LONG_LIST_LENGTHS if tn != "LT" or tier == "thorough" else (200, 201))]
    elif tn == "SQ1":
        n = len(tree[2])
        pats = [[False] * n, [True] * n] + [[j == i for j in range(n)] for i in range(n)] + [[j >= i for j in range(n)] for i in range(1, n)]
        out = [("S", [(("!", bool((i + k) % 2)) if p else ("_",)) if tree[2][k][0] == "?" else bool((i + k) % 2)
                      for k, p in enumerate(pat)]) for i, pat in enumerate(pats)]
    else:
        out = [value(tree, rng) for _ in range(12)]
    return out


def build_corpus(run, rng, nmods, ntypes, nvals, tier, opts=("-fcompound-names",), tag="mods", **bkw):
    """returns (modules, cases); a case = dict(mod, tn, ts, vs, der, uper, uperstd, oer) with hex strings (or 'NONE')"""
    g = Gen(rng)
    mods = [special_module("MS0")] + [g.module("M%d" % i, ntypes) for i in range(nmods)]
    rc, out = build_modules(mods, tag=tag, opts=opts, **bkw)
    cases = []
    for m in mods:
        for tn, _t in m["defs"]:
            tree = m["trees"][tn]
            ts = model_str(tree)
            vals = special_values(tn, tree, rng, tier) if m["name"] == "MS0" else [value(tree, rng) for _ in range(nvals)]
            seen = set()
            for v in vals:
                vs = val_str(v)
                if vs in seen:
                    continue
                seen.add(vs)
                cases.append({"mod": m, "tn": tn, "ts": ts, "vs": vs})
    model = model_build()
    # the C side receives every value as the model's DER (sorted SET OF ...), so the
    # value the other encoders see is the one that DER denotes: decode it back first
    lines = ["der %s %s" % (c["ts"], c["vs"]) for c in cases]
    rcm, mo, me = run_lines(model, lines, timeout=1200)
    if rcm != 0 or len(mo) != len(lines):
        raise RuntimeError("model driver failed: %s %s" % (rcm, me))
    for c, d in zip(cases, mo):
        c["der"] = d
    cases = [c for c in cases if c["der"] != "NONE"]
    # (only SET OF changes under DER; the reference decoder is quadratic in the number of TLVs, so it is
    # not run on the other, possibly very long, values)
    need = [c for c in cases if "t" in c["ts"]]
    rcm, mo, me = run_lines(model, ["berdec %s %s" % (c["ts"], c["der"]) for c in need], timeout=1200)
    for c, d in zip(need, mo):
        f = d.split()
        if f[0] != "OK" or int(f[1]) * 2 != len(c["der"]):
            raise RuntimeError("model does not decode its own DER: %s %s -> %s" % (c["ts"], c["vs"], d))
        c["vs0"], c["vs"] = c["vs"], f[2]
    lines = []
    for c in cases:
        lines += ["uper 0 %s %s" % (c["ts"], c["vs"]), "uper 1 %s %s" % (c["ts"], c["vs"]), "oer %s %s" % (c["ts"], c["vs"])]
    rcm, mo, me = run_lines(model, lines, timeout=1200)
    if rcm != 0 or len(mo) != len(lines):
        raise RuntimeError("model driver failed: %s %s" % (rcm, me))
    for i, c in enumerate(cases):
        c["uper"], c["uperstd"], c["oer"] = mo[3 * i:3 * i + 3]
    return mods, cases


def run_mod(run, m, lines, name, timeout=900):
    """run command lines through a module's moddrv; a crash is a violation"""
    rc, out, err = run_lines(m["exe"], lines, timeout=timeout, env=SAN_ENV)
    if rc != 0 or len(out) != len(lines):
        bad = lines[len(out)] if len(out) < len(lines) else None
        run.violation("crash:" + name, {"what": "moddrv died (rc=%s): sanitizer report, abort or signal" % rc,
                                        "module": m["text"], "command_line": bad, "stderr_tail": err[-2500:]})
        out = out + ["CRASH"] * (len(lines) - len(out))
    return out


def by_module(cases):
    d = {}
    for c in cases:
        d.setdefault(c["mod"]["name"], []).append(c)
    return d
