"""widegen — generator of ASN.1 modules over the WIDE type algebra (everything the
properties quantify over: REAL, ENUMERATED, BIT STRING, restricted and UTF8
strings, OID, time types, SET, DEFAULT, extension markers, recursion, all three
tagging modes).  Text only: there is no Coq model of these modules; checks use
them for oracles evaluated on the implementation alone (round trip closes,
chunked = one-shot, canonical invariance, safety ...) with values produced by
the library's own asn_random_fill (moddrv `rfill`).  Tag distinctness is by
construction: AUTOMATIC modules, or a unique context tag on every component."""
from vlib import Rng

STRS = ["IA5String", "PrintableString", "VisibleString", "NumericString", "UTF8String", "BMPString", "UniversalString"]
INT_CONS = ["", "", "(0..255)", "(0..256)", "(-128..127)", "(1..1)", "(0..65535)", "(0..65536)", "(-5..5)", "(0..7,...)",
            "(0..4294967295)", "(-2147483648..2147483647)", "(0..MAX)", "(MIN..10)", "(1..100)", "(-1..254,...)",
            "(1..10 | 20..30)", "(0..9223372036854775807)", "(5..MAX)"]
SIZE_CONS = ["", "", "(SIZE(0..4))", "(SIZE(3))", "(SIZE(1..2,...))", "(SIZE(0..255))", "(SIZE(2..300))", "(SIZE(1..MAX))",
             "(SIZE(0..65535))", "(SIZE(4,...))", "(SIZE(0))"]
ALPHA = {"IA5String": ['(FROM("a".."z"))', '(FROM("0".."9" | "A".."F"))', ""], "PrintableString": ['(FROM("A".."Z" | " "))', ""],
         "VisibleString": ['(FROM("a".."f"))', ""], "NumericString": ['(FROM("0".."9"))', ""], "UTF8String": [""],
         "BMPString": [""], "UniversalString": [""]}


class WGen:
    def __init__(self, rng, maxdepth=3, features=None):
        self.rng = rng
        self.maxdepth = maxdepth
        # features that may be switched off by a check: ext, default, set, recursion, real, time, oid, strings, bits, enum
        self.f = set(features if features is not None else
                     ["ext", "default", "set", "recursion", "real", "time", "oid", "strings", "bits", "enum"])
        self.n = 0

    def ident(self, p="c"):
        self.n += 1
        return "%s%d" % (p, self.n)

    def leaf(self):
        r = self.rng
        kinds = ["BOOLEAN", "NULL", "INTEGER", "INTEGER", "OCTET STRING"]
        for f, k in (("enum", "ENUMERATED"), ("real", "REAL"), ("bits", "BIT STRING"), ("strings", "STR"), ("oid", "OID"), ("time", "TIME")):
            if f in self.f:
                kinds.append(k)
        k = r.choice(kinds)
        if k == "INTEGER":
            return ("INTEGER " + r.choice(INT_CONS)).strip(), "int"
        if k == "OCTET STRING":
            return ("OCTET STRING " + r.choice(SIZE_CONS)).strip(), "oct"
        if k == "BIT STRING":
            return ("BIT STRING " + r.choice(SIZE_CONS[:9])).strip(), "bits"
        if k == "ENUMERATED":
            n = r.range(1, 5)
            items = ["e%d(%d)" % (i, v) for i, v in enumerate(sorted(set(r.choice([0, 1, 2, 3, 5, 10, 100, 127, 128, -1, -5, 255, 256]) for _ in range(n))))]
            if "ext" in self.f and r.chance(1, 3):
                items.append("...")
                if r.chance(1, 2):
                    items.append("x1(1000)")
            return "ENUMERATED { %s }" % ", ".join(items), "enum"
        if k == "STR":
            s = r.choice(STRS)
            return ("%s %s %s" % (s, r.choice(SIZE_CONS[:8]), "")).strip() if r.chance(1, 2) else ("%s %s" % (s, r.choice(ALPHA[s]))).strip(), "str"
        if k == "OID":
            return r.choice(["OBJECT IDENTIFIER", "RELATIVE-OID"]), "oid"
        if k == "TIME":
            return r.choice(["UTCTime", "GeneralizedTime"]), "time"
        if k == "REAL":
            return "REAL", "real"
        return k, k.lower()

    def default_for(self, kind, text):
        r = self.rng
        if kind == "int" and text == "INTEGER":
            return " DEFAULT %d" % r.choice([0, 1, -1, 5, 255])
        if kind == "boolean":
            return " DEFAULT %s" % r.choice(["TRUE", "FALSE"])
        return None

    def ty(self, depth, default, refs, selfname=None):
        """returns ASN.1 text of a type"""
        r = self.rng
        if depth >= self.maxdepth or r.chance(2, 5):
            if refs and r.chance(1, 4):
                return r.choice(refs), "ref"
            return self.leaf()
        ks = ["SEQUENCE", "SEQUENCE", "CHOICE", "SEQUENCE OF", "SET OF"] + (["SET"] if "set" in self.f else [])
        k = r.choice(ks)
        if k in ("SEQUENCE OF", "SET OF"):
            el, _ = self.ty(depth + 1, default, refs, selfname)
            c = r.choice(SIZE_CONS[:8])
            kw = k.split()[0]
            return "%s %s OF %s" % (kw, c, el) if c else "%s OF %s" % (kw, el), "of"
        n = r.range(1, 5)
        comps = []
        extpos = r.range(1, n) if ("ext" in self.f and r.chance(1, 3)) else None
        for i in range(n):
            if extpos is not None and i == extpos:
                comps.append("...")
            name = self.ident()
            if selfname and "recursion" in self.f and k != "CHOICE" and r.chance(1, 8):
                t, kind = selfname, "ref"
                suffix = " OPTIONAL"
            else:
                t, kind = self.ty(depth + 1, default, refs, selfname)
                suffix = ""
                if k != "CHOICE":
                    if r.chance(1, 3):
                        suffix = " OPTIONAL"
                    elif "default" in self.f and r.chance(1, 4):
                        suffix = self.default_for(kind, t) or ""
            tag = "" if default == "AUTOMATIC" else "[%d] " % i
            comps.append("%s %s%s%s" % (name, tag, t, suffix))
        if extpos is not None and extpos >= n:
            comps.append("...")
        return "%s { %s }" % (k, ", ".join(comps)), k.lower()

    def module(self, name, ntypes):
        r = self.rng
        default = r.choice(["EXPLICIT", "IMPLICIT", "AUTOMATIC", "AUTOMATIC"])
        lines = ["%s DEFINITIONS %s TAGS ::= BEGIN" % (name, default)]
        names = []
        for i in range(ntypes):
            tn = "W%d" % (i + 1)
            t, _ = self.ty(0, default, list(names), tn)
            lines.append("  %s ::= %s" % (tn, t))
            names.append(tn)
        lines.append("END")
        return {"name": name, "default": default, "defs": [(n, None) for n in names], "trees": {}, "text": "\n".join(lines) + "\n", "wide": True}
