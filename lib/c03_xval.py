"""c03_xval — VALUE-LEVEL variants of XER text (round c03z of checks/c03.py).

The XER side of C03 used to evaluate layout variants of the library's own output only: the characters between the tags
were never re-spelled.  Here the same abstract value is written with every legal spelling of each character / digit /
item, the expected value (DER) is computed in Python, independently of the C, and the oracle is the property clause
itself: `dec T xer <doc>` must print `OK <len(doc)> <DER>`.

 * MS5 of lib/c05x_util.py (imported, not copied): one PDU per string type + the record `Rec`; values with the escaped
   characters and multi-byte UTF-8; every character in a random one of its valid forms (`string_cases`).
 * MX6 (this file), directed first: for EVERY string type, at top level, as SEQUENCE member (`W<tn>`), as SEQUENCE OF
   element (`L<tn>`) and as CHOICE alternative (`CH`):
     - text readers (UTF8String, IA5String, PrintableString, VisibleString, NumericString, ObjectDescriptor, BMPString,
       UniversalString, the two time types): every boundary character of the type's alphabet (UTF-8 length classes
       0x7f/0x80, 0x7ff/0x800, 0xd7ff/0xe000/0xfffd, 0x10000, 0x10ffff; every hex digit a-f in a code point; `& < >`)
       in EVERY spelling: raw UTF-8, `&amp; &lt; &gt;`, decimal, decimal with 1 / 7 / 40 leading zeros, hex lower case,
       hex UPPER case, hex mixed case (both phases), hex with leading zeros (lower / upper), and the X.680 11.15.5
       element forms of the control characters (`<soh/>` .. `<is1/>`).  `&#X..;` is not generated: XML 1.0 [66] and
       X.693 know the lower-case `x` only.
     - hstring readers (OCTET STRING, GeneralString, TeletexString, GraphicString, VideotexString): every hex digit in
       both nibbles in both cases, mixed case, white space (SP, HT, LF, CR) between / before / after the octets,
       comments between the octets; (soft: white space between the two digits of one octet).
     - BIT STRING: white space and comments anywhere between the bits.
   INTEGER (plain and with named numbers), BOOLEAN, ENUMERATED, NULL at top level and as members: white space and
   comments around the item, `<x/>` vs `<x />`, `<z/>` vs `<z></z>`; soft forms (accepted by the C, not by X.693
   BASIC-XER: `+5`, `007`): IF accepted the value must be right.
   Random after: random strings over the alphabet of the type, every character in a random spelling.
 * Model: the extracted reader `ResumeX.entref_step` must read every text body as the expected string
   (`model:EntrefComplete.entref_text`), and the spec's own writer of numeric references (`EntrefComplete.ref_chars`,
   the family the theorem C03_entref_complete quantifies over) must produce the very characters Python wrote
   (`correspondence:EntrefComplete.ref_chars`)."""
import c05x_util as X
from c05x_util import tlv, der_int, der_bits, STR_TYPES, KIND, UTAG, text_bytes, der_of_string

XTAG = {t[0]: t[1].replace(" ", "_") for t in STR_TYPES}           # element name inside SEQUENCE OF
TEXT_KINDS = ("utf8", "ascii", "bmp", "ucs4", "time")
ENUM = ["red", "green", "blue"]
NAMED = {1: "one", 2: "two", -3: "minus"}

CTL = {0: "nul", 1: "soh", 2: "stx", 3: "etx", 4: "eot", 5: "enq", 6: "ack", 7: "bel", 8: "bs", 11: "vt", 12: "ff", 14: "so", 15: "si",
       16: "dle", 17: "dc1", 18: "dc2", 19: "dc3", 20: "dc4", 21: "nak", 22: "syn", 23: "etb", 24: "can", 25: "em", 26: "sub", 27: "esc",
       28: "is4", 29: "is3", 30: "is2", 31: "is1"}

F_NAMED = "C03-xer-integer-named-number-element"
import re



def module(name="MX6"):
    text = "%s DEFINITIONS AUTOMATIC TAGS ::= BEGIN\n" % name
    defs = []
    for tn, asn, _, _ in STR_TYPES:
        text += "  %s ::= %s\n  W%s ::= SEQUENCE { a INTEGER, s %s, z BOOLEAN }\n  L%s ::= SEQUENCE OF %s\n" % (tn, asn, tn, asn, tn, asn)
        defs += [tn, "W" + tn, "L" + tn]
    text += "  CH ::= CHOICE { %s }\n" % ", ".join("c%s %s" % (t[0].lower(), t[1]) for t in STR_TYPES)
    text += "  NI ::= INTEGER\n  NN ::= INTEGER { one(1), two(2), minus(-3) }\n  NB ::= BOOLEAN\n  NE ::= ENUMERATED { red, green, blue }\n"
    text += "  NR ::= SEQUENCE { i INTEGER, n NN, b BOOLEAN, e NE, z NULL, l SEQUENCE OF INTEGER }\n"
    defs += ["CH", "NI", "NN", "NB", "NE", "NR"]
    text += "END\n"
    return {"name": name, "default": "AUTOMATIC", "defs": [(d, None) for d in defs], "trees": {}, "text": text}


# ------------------------------------------------------------------ alphabets

def xml_char(cp):
    return cp in (9, 10, 13) or 0x20 <= cp <= 0xd7ff or 0xe000 <= cp <= 0xfffd or 0x10000 <= cp <= 0x10ffff


BOUNDARY = [9, 0xa, 0xd, 0x20, 0x23, 0x26, 0x3b, 0x3c, 0x3e, 0x41, 0x4a, 0x4f, 0x5a, 0x6a, 0x7a, 0x7e, 0x7f,
            0x80, 0xaa, 0xbb, 0xcc, 0xdd, 0xe9, 0xee, 0xff, 0x100, 0x7ff,
            0x800, 0xabc, 0x20ac, 0xabcd, 0xd7ff, 0xe000, 0xfedc, 0xfffd,
            0x10000, 0x1d11e, 0xabcde, 0xfedcb, 0xfffff, 0x100000, 0x10abcd, 0x10ffff]
CONTROLS = [1, 8, 0xb, 0xc, 0xe, 0x10, 0x11, 0x12, 0x13, 0x14, 0x15, 0x1b, 0x1c, 0x1f]
PRINTABLE = "AJOZajz09 '()+,-./:=?"
TIME_VALUE = {"SGT": "20241231235959.123Z", "SUT": "991231235959Z"}


def alphabet(tn, asn, kind):
    """the boundary characters of the type (code points); control characters last"""
    if kind == "time":
        return sorted(set(ord(c) for c in TIME_VALUE[tn]))
    if asn == "NumericString":
        return [ord(c) for c in " 0189"]
    if asn == "PrintableString":
        return [ord(c) for c in PRINTABLE]
    if asn in ("VisibleString", "ObjectDescriptor"):
        return [c for c in BOUNDARY if 0x20 <= c <= 0x7e]
    if kind == "ascii":
        return [c for c in BOUNDARY if c <= 0x7f] + CONTROLS
    if kind == "bmp":
        return [c for c in BOUNDARY if c <= 0xffff] + CONTROLS
    return list(BOUNDARY) + CONTROLS


# ------------------------------------------------------------------ spellings of one character

def hex_digits(cp, zeros, case):
    """case: 'l' | 'U' | 'm0' | 'm1' (letters alternately upper/lower, first letter upper for m0) -> [(digit, upper?)]"""
    ds = [(0, False)] * zeros + [(int(c, 16), False) for c in format(cp, "x")]
    out, k = [], 0
    for d, _ in ds:
        if d < 10:
            out.append((d, False))
            continue
        up = {"l": False, "U": True, "m0": k % 2 == 0, "m1": k % 2 == 1}[case]
        out.append((d, up))
        k += 1
    return out


def ref_text(hexa, ds):
    """the characters of a numeric reference from its digits (the Python twin of EntrefComplete.ref_chars)"""
    return "&#" + ("x" if hexa else "") + "".join("0123456789abcdef"[d].upper() if up else "0123456789abcdef"[d] for d, up in ds) + ";"


def spellings(cp):
    """[(label, text, (hexa, digits)|None)] every legal way of writing the character in the body of a text type"""
    out = []
    ch = chr(cp)
    if xml_char(cp):
        if ch not in "&<":
            out.append(("raw", ch, None))
        named = {"&": "&amp;", "<": "&lt;", ">": "&gt;"}
        if ch in named:
            out.append(("named", named[ch], None))
        for lab, z in (("dec", 0), ("dec0", 1), ("dec07", 7), ("dec040", 40)):
            ds = [(0, False)] * z + [(int(c), False) for c in str(cp)]
            out.append((lab, ref_text(False, ds), (False, ds)))
        seen = set()
        for lab, z, case in (("hexl", 0, "l"), ("hexU", 0, "U"), ("hexm0", 0, "m0"), ("hexm1", 0, "m1"), ("hex0l", 1, "l"), ("hex07U", 7, "U"),
                             ("hex040m", 40, "m0")):
            ds = hex_digits(cp, z, case)
            t = ref_text(True, ds)
            if t in seen:
                continue
            seen.add(t)
            out.append((lab, t, (True, ds)))
    if cp in CTL:
        out.append(("ctl", "<%s/>" % CTL[cp], None))
        out.append(("ctl-sp(soft)", "<%s />" % CTL[cp], None))
    return out


def spell(cp, label):
    for lab, t, r in spellings(cp):
        if lab == label:
            return t, r
    return None, None


LABELS = ["raw", "named", "dec", "dec0", "dec07", "dec040", "hexl", "hexU", "hexm0", "hexm1", "hex0l", "hex07U", "hex040m", "ctl"]


def spell_all(cps, label, rng=None):
    """every character of the string in the spelling `label` (where it has none: its first other spelling);
    label 'rand': a random spelling per character"""
    parts, refs = [], []
    for cp in cps:
        sp = spellings(cp)
        if label == "rand":
            sp = [x for x in sp if "soft" not in x[0]]
            lab, t, r = sp[rng.below(len(sp))]
        else:
            t, r = spell(cp, label)
            if t is None:
                if label.startswith("hex"):
                    t, r = spell(cp, "hexl")
                if t is None:
                    lab, t, r = [x for x in sp if x[0] == "ctl"][0] if not xml_char(cp) else sp[0]
        parts.append(t)
        if r is not None:
            refs.append((cp, r))
    return "".join(parts), refs


# ------------------------------------------------------------------ hstring / bstring bodies

HEXVALS = [b""] + [bytes([d * 17]) for d in range(16)] + [b"\xab\xcd\xef", bytes(range(0, 256, 17)), b"\xa0\x0a\xf0\x0f\xfa\xaf", b"\x00", b"\x00\xff"]


def hex_bodies(b, rng):
    """[(label, text, soft?)]"""
    lo, up = b.hex(), b.hex().upper()
    mixed = "".join(c.upper() if i % 2 == 0 else c for i, c in enumerate(lo))
    mixed2 = "".join(c.upper() if i % 2 == 1 else c for i, c in enumerate(lo))
    oct_l = [lo[i:i + 2] for i in range(0, len(lo), 2)]
    oct_u = [up[i:i + 2] for i in range(0, len(up), 2)]
    out = [("hs:lower", lo, False), ("hs:upper", up, False), ("hs:mixed", mixed, False), ("hs:mixed", mixed2, False)]
    for lab, sep in (("sp", " "), ("ht", "\t"), ("lf", "\n"), ("crlf", "\r\n")):
        out.append(("hs:ws-%s" % lab, sep.join(oct_u if lab in ("sp", "lf") else oct_l), False))
    out.append(("hs:ws-around", " \n" + up + "\t \r\n", False))
    out.append(("hs:ws-around", "  " + " ".join(oct_l) + "  ", False))
    if b:
        out.append(("hs:comment", "<!-- c -->".join(oct_u), False))
        out.append(("hs:comment", "<!--a-->" + lo + "<!--b-->", False))
        out.append(("hs:comment", "".join(o + rng.choice(["", " ", "<!-- 0A -->", "\n"]) for o in oct_l), False))
        out.append(("hs:nibble-split(soft)", " ".join(up), True))
    seen, res = set(), []
    for x in out:
        if x[1] not in seen:
            seen.add(x[1])
            res.append(x)
    return res


BITVALS = ["", "1", "0", "101", "01011", "10000000", "111100001", "0000000000000001", "1010101010101010101"]


def bit_bodies(bits, rng):
    out = [("bs:plain", bits, False)]
    for lab, f in (("bs:ws-sp", lambda i: " "), ("bs:ws-lf4", lambda i: "\n" if i % 4 == 3 else ""), ("bs:ws-tab8", lambda i: "\t" if i % 8 == 7 else ""),
                   ("bs:ws-crlf", lambda i: "\r\n" if i % 3 == 0 else "")):
        out.append((lab, "".join(c + f(i) for i, c in enumerate(bits)), False))
    out.append(("bs:ws-around", " \n" + bits + "\t ", False))
    if bits:
        out.append(("bs:comment", "".join(c + ("<!-- 1 -->" if i % 3 == 1 else "") for i, c in enumerate(bits)), False))
        out.append(("bs:comment", "<!--a-->" + bits + "<!--b-->", False))
        out.append(("bs:mix", "".join(c + rng.choice(["", "", " ", "\n", "<!--0-->"]) for c in bits), False))
    seen, res = set(), []
    for x in out:
        if x[1] not in seen:
            seen.add(x[1])
            res.append(x)
    return res


# ------------------------------------------------------------------ documents

def content(tn, v):
    """content octets of the string type's value"""
    k = KIND[tn]
    if k == "hex":
        return bytes(v)
    if k == "bits":
        return der_bits(v)
    return text_bytes(k, v)


def placements(tn, body, v, rng, which=("top", "W", "L", "CH")):
    """[(type name, document text, DER)] the value `v` of the string type `tn`, written `body`, in every position"""
    c = content(tn, v)
    out = []
    idx = [t[0] for t in STR_TYPES].index(tn)
    a = rng.choice([0, 5, -129, 70000])
    z = rng.chance(1, 2)
    for w in which:
        if w == "top":
            out.append((tn, "<%s>%s</%s>" % (tn, body, tn), tlv(UTAG[tn], c)))
        elif w == "W":
            out.append(("W" + tn, "<W%s><a>%d</a><s>%s</s><z>%s</z></W%s>" % (tn, a, body, "<true/>" if z else "<false/>", tn),
                        tlv(0x30, tlv(0x80, der_int(a)) + tlv(0x81, c) + tlv(0x82, b"\xff" if z else b"\0"))))
        elif w == "L":
            x = XTAG[tn]
            out.append(("L" + tn, "<L%s><%s>%s</%s><%s>%s</%s></L%s>" % (tn, x, body, x, x, body, x, tn), tlv(0x30, tlv(UTAG[tn], c) * 2)))
        else:
            out.append(("CH", "<CH><c%s>%s</c%s></CH>" % (tn.lower(), body, tn.lower()), tlv(0x80 + idx, c)))
    return out


def string_docs(rng, tier):
    """-> list of {tn, doc, der, label, soft, body (text readers at top level: the body text), expect (its UTF-8), refs}"""
    quick = tier == "quick"
    docs = []

    def add(tn, body, v, label, which, soft=False, refs=()):
        for (t, d, der) in placements(tn, body, v, rng, which):
            e = {"tn": t, "doc": d.encode("utf-8"), "der": der.hex(), "label": label, "soft": soft, "refs": list(refs), "pos": "top" if t == tn else t[0]}
            if t == tn and KIND[tn] in TEXT_KINDS and "<" not in body:
                e["body"], e["expect"] = body.encode("utf-8"), v.encode("utf-8")
            docs.append(e)

    allpos = ("top", "W", "L", "CH")
    for tn, asn, _, kind in STR_TYPES:
        if kind in TEXT_KINDS:
            alpha = alphabet(tn, asn, kind)
            if kind == "time":
                v = TIME_VALUE[tn]
                for lab in LABELS[:-1]:
                    body, refs = spell_all([ord(c) for c in v], lab)
                    add(tn, body, v, "xv:time:" + lab, allpos, refs=refs)
                continue
            # every boundary character x every spelling, alone and between two other characters: top level
            for cp in alpha:
                for lab, t, r in spellings(cp):
                    refs = [(cp, r)] if r else []
                    ctx = "0%s9" if asn == "NumericString" else "a%sb"
                    add(tn, ctx % t, (ctx % chr(cp)), "xv:char:" + lab, ("top",), soft="soft" in lab, refs=refs)
                    add(tn, t, chr(cp), "xv:char-alone:" + lab, ("top",), soft="soft" in lab, refs=refs)
            # all boundary characters in one string, one spelling for all: every position
            for lab in LABELS:
                body, refs = spell_all(alpha, lab)
                add(tn, body, "".join(chr(c) for c in alpha), "xv:all:" + lab, allpos, refs=refs)
            # random after
            for i in range(24 if quick else 200):
                cps = [rng.choice(alpha) for _ in range(rng.range(1, 10))]
                body, refs = spell_all(cps, "rand", rng)
                add(tn, body, "".join(chr(c) for c in cps), "xv:rand", (rng.choice(allpos),), refs=refs)
        elif kind == "hex":
            vals = HEXVALS + [rng.bytes(rng.range(1, 20)) for _ in range(3 if quick else 12)]
            for b in vals:
                for lab, body, soft in hex_bodies(b, rng):
                    add(tn, body, b, lab, allpos, soft=soft)
        else:
            vals = BITVALS + ["".join(rng.choice("01") for _ in range(rng.range(1, 40))) for _ in range(3 if quick else 12)]
            for bits in vals:
                for lab, body, soft in bit_bodies(bits, rng):
                    add(tn, body, bits, lab, allpos, soft=soft)
    return docs


INTS = [0, 5, -1, 127, 128, -128, -129, 255, 256, 32767, 32768, -32769, 2 ** 31 - 1, 2 ** 31, -2 ** 31, -2 ** 31 - 1, 2 ** 63 - 1, -2 ** 63, 1234567890123]


def around(item, rng, quick):
    """the item of a primitive value with white space / comments around it"""
    forms = [item, " " + item, item + " ", "\n\t" + item + "\r\n", "<!--c-->" + item, item + "<!-- c -->", " <!-- a --> " + item + " <!-- b --> ",
             "\r" + item, "\t" + item + "\t"]
    return forms


def number_docs(rng, tier):
    quick = tier == "quick"
    docs = []

    def add(tn, doc, der, label, soft=False):
        docs.append({"tn": tn, "doc": doc.encode("utf-8"), "der": der.hex(), "label": label, "soft": soft, "refs": [], "pos": "num"})

    def rec(i_txt, i, n_txt, n, b_txt, b, e_txt, e, z_txt, l):
        doc = "<NR><i>%s</i><n>%s</n><b>%s</b><e>%s</e>%s<l>%s</l></NR>" % (i_txt, n_txt, b_txt, e_txt, z_txt, "".join("<INTEGER>%s</INTEGER>" % t for t, _ in l))
        der = tlv(0x30, tlv(0x80, der_int(i)) + tlv(0x81, der_int(n)) + tlv(0x82, b"\xff" if b else b"\0") + tlv(0x83, der_int(e)) + tlv(0x84, b"")
                  + tlv(0xa5, b"".join(tlv(2, der_int(x)) for _, x in l)))
        return doc, der

    for v in INTS:
        for f in around("%d" % v, rng, quick):
            add("NI", "<NI>%s</NI>" % f, tlv(2, der_int(v)), "xv:int:ws")
        soft = ["%s00%d" % ("-" if v < 0 else "", abs(v))] + (["+%d" % v, "+0%d" % v, " +%d " % v] if v >= 0 else [])
        for f in soft:
            add("NI", "<NI>%s</NI>" % f, tlv(2, der_int(v)), "xv:int:plus-zeros(soft)", soft=True)
    for v, name in NAMED.items():
        for item in ("<%s/>" % name, "<%s />" % name):
            for f in around(item, rng, quick):
                add("NN", "<NN>%s</NN>" % f, tlv(2, der_int(v)), "xv:int:named-element")
        for f in around("%d" % v, rng, quick):
            add("NN", "<NN>%s</NN>" % f, tlv(2, der_int(v)), "xv:int:named-as-number")
    for b in (True, False):
        nm = "true" if b else "false"
        for item in ("<%s/>" % nm, "<%s />" % nm):
            for f in around(item, rng, quick):
                add("NB", "<NB>%s</NB>" % f, tlv(1, b"\xff" if b else b"\0"), "xv:bool")
    for e, nm in enumerate(ENUM):
        for item in ("<%s/>" % nm, "<%s />" % nm):
            for f in around(item, rng, quick):
                add("NE", "<NE>%s</NE>" % f, tlv(10, der_int(e)), "xv:enum")
    for k in range(12 if quick else 60):
        i, n, b, e = rng.choice(INTS), rng.choice(list(NAMED)), rng.chance(1, 2), rng.below(3)
        bn = "true" if b else "false"
        pick = lambda item: rng.choice(around(item, rng, False))
        l = [(pick("%d" % x), x) for x in [rng.choice(INTS) for _ in range(rng.below(4))]]
        doc, der = rec(pick("%d" % i), i, pick(rng.choice(["<%s/>" % NAMED[n], "<%s />" % NAMED[n], "%d" % n])), n,
                       pick(rng.choice(["<%s/>", "<%s />"]) % bn), b, pick(rng.choice(["<%s/>", "<%s />"]) % ENUM[e]), e,
                       rng.choice(["<z/>", "<z></z>", "<z />"]), l)
        add("NR", doc, der, "xv:rec" + (":named-element" if ("<%s" % NAMED[n]) in doc else ""))
    return docs


# ------------------------------------------------------------------ the part of the check

def run_part(run, model, ms5, mx6, rng, tier, run_mod, run_lines):
    """ms5 / mx6: the built modules"""
    quick = tier == "quick"
    # (1) MS5 of c05x_util with the C03 oracle
    if ms5.get("exe"):
        cases = X.string_cases(Rng2(rng), tier, run.seed)
        lines, meta = [], []
        for c in cases:
            for label, d in c["xdocs"]:
                lines.append("dec %s xer %s" % (c["tn"], d.hex()))
                meta.append((c, label, d))
        out = run_mod(run, ms5, lines, "C03-xval-ms5")
        for (c, label, d), l, o in zip(meta, lines, out):
            run.case(l)
            run.count("xval_ms5_" + label.split(":")[1])
            exp = "OK %d %s ck=" % (len(d), c["der"])
            if not o.startswith(exp):
                run.violation("oracle:xer_value_complete", {"what": "the C XER decoder does not return OK / full length / the value on a valid spelling of the value (module MS5 of lib/c05x_util.py)",
                                                            "module": ms5["text"], "type": c["tn"], "value": repr(c["value"]), "variant_kind": label,
                                                            "document": d.decode("utf-8", "replace"), "command_line": l, "c": o, "expected": exp})
    if not mx6.get("exe"):
        return
    # (2) MX6: directed, then random
    docs = string_docs(rng, tier) + number_docs(rng, tier)
    seen, uniq = set(), []
    for e in docs:
        k = (e["tn"], e["doc"])
        if k not in seen:
            seen.add(k)
            uniq.append(e)
    docs = uniq
    lines = ["dec %s xer %s" % (e["tn"], e["doc"].hex()) for e in docs]
    out = run_mod(run, mx6, lines, "C03-xval")
    # model: the extracted reader on the text bodies; the spec's reference writer on the numeric references
    mlines, mrefs = [], []
    refseen = set()
    for e in docs:
        if "body" in e:
            mlines.append("entdec %s" % (e["body"].hex() or "-"))
        for cp, (hexa, ds) in e["refs"]:
            key = (hexa, tuple(ds))
            if key not in refseen and len(refseen) < (4000 if quick else 40000):
                refseen.add(key)
                mrefs.append((cp, hexa, ds))
    mlines += ["entref %d %s" % (1 if hexa else 0, ",".join("%d:%d" % (d, 1 if up else 0) for d, up in ds)) for cp, hexa, ds in mrefs]
    rcm, mout, merr = run_lines(model, mlines, timeout=600)
    if rcm != 0 or len(mout) != len(mlines):
        run.violation("model:driver", {"what": "model driver failed (xval)", "rc": rcm, "stderr": merr[-1500:]}, no_input=True)
        mout = None
    mi = 0
    for e, l, o in zip(docs, lines, out):
        run.case(l)
        run.count("xval_%s_%s" % (e["pos"], e["label"].split(":", 1)[1]))
        exp = "OK %d %s ck=" % (len(e["doc"]), e["der"])
        rp = {"module": mx6["text"], "type": e["tn"], "variant_kind": e["label"], "document": e["doc"].decode("utf-8", "replace"), "command_line": l, "c": o, "expected": exp}
        if "body" in e and mout is not None:
            mo = mout[mi]
            mi += 1
            mexp = "OK %d %s" % (len(e["body"]), e["expect"].hex() or "-")
            if mo != mexp:
                run.violation("model:EntrefComplete.entref_text", dict(rp, what="the extracted reader (ResumeX.entref_step) does not read the text as the string it spells (contradicts entref_text_complete)",
                                                                      model=mo, model_expected=mexp), no_input=True)
        if o.startswith(exp):
            continue
        if e["soft"]:
            # a form X.693 BASIC-XER does not list: the decoder may refuse it, but may not return another value
            if o.startswith("OK "):
                run.violation("oracle:xer_value_soft", dict(rp, what="the C XER decoder accepts a lenient spelling and returns another value than the one spelled"))
            else:
                run.count("xval_soft_form_refused")
            continue
        if e["label"].endswith(":named-element") and o.startswith("FAIL "):
            # EmptyElementInteger (X.680 19.9): asn1c emits no name map for an INTEGER with named numbers
            run.known_finding(F_NAMED, l)
            continue
        run.violation("oracle:xer_value_complete", dict(rp, what="the C XER decoder does not return OK / full length / the value on a valid spelling of the value"))
    if mout is not None:
        for (cp, hexa, ds), mo in zip(mrefs, mout[mi:]):
            run.count("xval_ref_spellings_model")
            t = ref_text(hexa, ds)
            want = "%s %d %s" % (t.encode().hex(), cp, chr(cp).encode("utf-8").hex())
            if mo != want:
                run.violation("correspondence:EntrefComplete.ref_chars", {"what": "the spec's writer of numeric character references / its value / the reader's answer differ from Python's for the same digits",
                                                                         "digits": ds, "hex": hexa, "python": want, "model": mo}, no_input=True)
    if docs:
        run.sample({"xval": docs[len(docs) // 2]["doc"].decode("utf-8", "replace")[:160], "der": docs[len(docs) // 2]["der"][:80]})


def Rng2(rng):
    """a stream of its own for the imported corpus (so that the directed corpus does not shift it)"""
    import vlib
    return vlib.Rng(rng.below(2 ** 30) + 7)
