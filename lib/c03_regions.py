"""c03_regions — the parts of checks/c03.py added when the adversarial changes seeded/C03-4 (tag-to-member map
lookup of SEQUENCE_decode_ber) and seeded/C03-5 (length determinant of the OER extension bitmap) went unnoticed:
 tagmap_part   maps of the directed modules MT1/MT2 (lib/c03_tagmap.py) against an independent computation and
               against the Coq model coq/Rt/TagMap.v; every lookup the decoders make on the directed values, for every
               entry bsearch() may return; SET components in any order (oracle on the C + the map-level model);
 oer_sweep     every length determinant position of an OER encoding in every legal non-canonical form, one at a time
               (lib/c03_oerpos.py), for the base algebra and for the extensible types of the ext layer: C decoder
               (oracle), model of the C decoder with oer_fetch_length at every position (coq/Rt/OerVariants.v:
               oer_cdec / ext_oer_cdec; faithfulness), the Coq variant encoder oer_var / ext_oer_var on the same
               choices (the family the theorem oer_complete quantifies over is the family tested)."""
import os, time
from vlib import *
from modcorpus import run_mod
from modgen import model_str, val_str, first_tags
import c03_tagmap as TM
import c03_oerpos as P
import c03_util as U


# ---------------------------------------------------------------- tag-to-member maps

def directed_cases(m1, tier):
    """cases of module MT1 for the general pipeline of the check: [{mod, tn, ts, vs, light}]"""
    out = []
    for tn, _ in m1["defs"]:
        tree = m1["trees"][tn]
        vals = TM.struct_values(tree, tier) if tree[0] == "s" else TM.choice_values(tree)
        seen = set()
        for lab, v in vals:
            vs = val_str(v)
            if vs in seen:
                continue
            seen.add(vs)
            out.append({"mod": m1, "tn": tn, "ts": model_str(tree), "vs": vs, "light": True, "pyval": v, "label": lab})
    return out


def tagmap_part(run, model, m1, m2, rng, tier):
    t0 = time.time()
    mlines, mexp = [], []          # model command lines and (what, expected, replay)

    def mq(line, what, expected, replay):
        mlines.append(line)
        mexp.append((what, expected, replay))

    for m in (m1, m2):
        if not m.get("exe"):
            continue
        names = [tn for tn, _ in m["defs"]]
        out = run_mod(run, m, ["t2m %s" % tn for tn in names], "C03-t2m")
        dumps = {}
        for tn, o in zip(names, out):
            tree = m["trees"][tn]
            run.case("t2m %s:%s" % (m["name"], tn))
            d = TM.parse_t2m(o)
            rp = {"module": m["text"], "type": tn, "command_line": "t2m " + tn, "c": o}
            if d is None:
                run.violation("harness:t2m", dict(rp, what="cannot read the tag-to-member map of a directed type"), no_input=True)
                continue
            kind, els, mp = d
            exp = TM.expected_map(tree)
            run.count("tagmap_maps_%s" % kind)
            run.count("tagmap_entries", len(mp))
            if mp != exp:
                run.violation("correspondence:tag2el", dict(rp, what="the tag-to-member map asn1c generated differs from the one computed from the type "
                                                                 "(one entry per first tag of every member, sorted by class, number, member; offsets to the "
                                                                 "first/last entry with the same tag)", expected=TM.map_str(exp)), no_input=True)
            dumps[tn] = (kind, els, mp)
            mq("t2mwf %s" % TM.map_str(mp), "wf", "1", dict(rp, what="the generated map does not satisfy wf_mapb (hypothesis of the theorems of Rt/TagMapProofs.v)"))
        # ---- the lookups
        clines, cmeta = [], []
        for tn in names:
            if tn not in dumps:
                continue
            kind, els, mp = dumps[tn]
            tree = m["trees"][tn]
            ms = TM.map_str(mp)
            if kind == "SEQUENCE":
                qs = set()
                for lab, v in TM.struct_values(tree, tier):
                    qs |= set(TM.walk_queries(tree, v))
                for (edx, tag, k) in sorted(qs):
                    path = TM.seq_path(els, edx, tag)
                    run.count("tagmap_seq_%s%s" % (path[0], ":" + path[1] if path[0] == "bsearch" else ""))
                    rp = {"module": m["text"], "type": tn, "edx": edx, "tag": tag, "expected_member": k, "map": ms, "members": TM.els_str(els)}
                    mq("t2mfind %s %s %d %d" % (TM.els_str(els), ms, edx, tag), "find", str(k),
                       dict(rp, what="the model of SEQUENCE_decode_ber's member search does not find the member that carries the tag"))
                    if path[0] == "bsearch":
                        emax = edx + els[edx][1]
                        mq("t2mpick %s %d %d %d" % (ms, tag, edx, emax), "pick", (k, len(clines)),
                           dict(rp, what="the lookup after bsearch() depends on the entry probed, or differs from the specification"))
                        clines.append("bs %s %d %d" % (tn, tag, edx))
                        cmeta.append((tn, mp, tag, edx, k))
            else:
                for (tag, el, _, _) in mp:
                    rp = {"module": m["text"], "type": tn, "tag": tag, "expected_member": el, "map": ms}
                    run.count("tagmap_%s_lookup" % kind.lower())
                    mq("t2mset %s %d" % (ms, tag), "set", str(el), dict(rp, what="the model of the SET/CHOICE lookup does not return the member that carries the tag"))
                    clines.append("bs %s %d -1" % (tn, tag))
                    cmeta.append((tn, mp, tag, -1, el))
        cout = run_mod(run, m, clines, "C03-bs")
        m["_bs"] = (clines, cmeta, cout)
    # ---- model side
    rcm, mout, merr = run_lines(model, mlines, timeout=600)
    if rcm != 0 or len(mout) != len(mlines):
        run.violation("model:driver", {"what": "model driver failed (tag maps)", "rc": rcm, "stderr": merr[-1500:]}, no_input=True)
        return
    bs_of = {}
    for m in (m1, m2):
        if m.get("_bs"):
            clines, cmeta, cout = m.pop("_bs")
            for l, meta, o in zip(clines, cmeta, cout):
                tn, mp, tag, edx, k = meta
                run.case("%s:%s" % (m["name"], l))
                # the entry the real bsearch() returns carries the tag (and lies at or after edx)
                ok = o.isdigit() and int(o) < len(mp) and mp[int(o)][0] == tag and (edx < 0 or mp[int(o)][1] >= edx)
                if not ok:
                    run.violation("harness:bsearch", {"what": "bsearch() of the C library with a copy of the comparison function does not return an entry with the tag",
                                                      "module": m["text"], "command_line": l, "c": o, "map": TM.map_str(mp)}, no_input=True)
                    continue
                p = int(o)
                first = min(i for i, e in enumerate(mp) if e[0] == tag)
                g = sum(1 for e in mp if e[0] == tag)
                if edx >= 0:
                    run.count("tagmap_probe_group%d_entry%d" % (g, p - first))
                    target = [i for i, e in enumerate(mp) if e[0] == tag and e[1] == k]
                    if target and target[0] != p:
                        run.count("tagmap_probe_not_on_target")
                else:
                    run.count("tagmap_probe_mapsize_%s" % ("1" if len(mp) == 1 else "2-8" if len(mp) <= 8 else "9-16" if len(mp) <= 16 else "17-40" if len(mp) <= 40 else ">40"))
                bs_of[(m["name"], l)] = p
    ci = {m["name"]: 0 for m in (m1, m2)}
    for l, (what, expected, rp), o in zip(mlines, mexp, mout):
        run.case(l[:300])
        run.count("tagmap_model_" + what)
        if what == "pick":
            k, _ = expected
            f = dict(x.split("=", 1) for x in o.split())
            picks = [] if f.get("picks", "-") == "-" else f["picks"].split(",")
            good = picks and all(x == str(k) for x in picks) and f.get("spec") == str(k) and f.get("bs") not in (None, "N")
            run.count("tagmap_probes_per_lookup_%d" % len(picks))
            if not good:
                run.violation("model:TagMap.seq_pick", dict(rp, model=o), no_input=True)
            # the loop of bsearch() in the model returns the entry the C library returns
            cl = "bs %s %d %d" % (rp["type"], rp["tag"], rp["edx"])
            mname = "MT1"
            cb = bs_of.get((mname, cl))
            if cb is not None and f.get("bs") != str(cb):
                run.violation("correspondence:TagMap.bsearch", dict(rp, what="the model's bsearch loop and the C library's bsearch() return different entries",
                                                                    model=o, c=str(cb), command_line=cl), no_input=True)
        elif o != expected:
            kind = {"wf": "correspondence:TagMap.wf_mapb", "find": "model:TagMap.seq_find", "set": "model:TagMap.tag_find"}[what]
            run.violation(kind, dict(rp, model=o, expected=expected), no_input=True)
    # ---- SET: components in any order (X.690 8.11)
    if m2.get("exe"):
        lines, meta = [], []
        for tn, _ in m2["defs"]:
            tree = m2["trees"][tn]
            for lab, v in TM.struct_values(tree, tier):
                parts = TM.member_tlvs(tree, v)
                n = len(parts)
                orders = [("decl", list(range(n)))]
                if n > 1:
                    orders.append(("der", sorted(range(n), key=lambda j: TM.tkey(U.parse_tlv(parts[j][1], 0)[0].tag))))
                    orders.append(("rev", list(range(n - 1, -1, -1))))
                    for _ in range(2 if tier == "quick" else 6):
                        o = list(range(n))
                        for i in range(n - 1, 0, -1):
                            j = rng.below(i + 1)
                            o[i], o[j] = o[j], o[i]
                        orders.append(("rand", o))
                group = len(meta)
                for oi, (olab, order) in enumerate(orders):
                    body = b"".join(parts[j][1] for j in order)
                    forms = [("def", TM.tlv(tree[1], True, body))]
                    if oi in (1, 3) or n <= 1:
                        forms.append(("indef", TM.der_tag(tree[1], True) + b"\x80" + body + b"\x00\x00"))
                        forms.append(("long", TM.der_tag(tree[1], True) + bytes([0x83]) + len(body).to_bytes(3, "big") + body))
                    for flab, b in forms:
                        lines.append("dec %s ber %s" % (tn, b.hex()))
                        meta.append((tn, lab, olab, flab, b, [p for _, p in parts], group))
        out = run_mod(run, m2, lines, "C03-set")
        first_der = {}
        seen = set()
        for (tn, lab, olab, flab, b, parts, group), l, o in zip(meta, lines, out):
            if l in seen:
                continue
            seen.add(l)
            run.case(l)
            run.count("set_order_%s_%s" % (olab, flab))
            f = o.split()
            rp = {"module": m2["text"], "type": tn, "value_kind": lab, "order": olab, "length_form": flab, "command_line": l, "c": o,
                  "what": "the C BER decoder does not return OK / full length / the value on a SET whose components come in another order"}
            ok = len(f) >= 3 and f[0] == "OK" and f[1] == str(len(b)) and f[2] != "-"
            if ok:
                try:
                    kids = sorted(TM.top_children(bytes.fromhex(f[2])))
                except (ValueError, IndexError):
                    kids = None
                ok = kids == sorted(parts)
                d0 = first_der.setdefault(group, f[2])
                ok = ok and d0 == f[2]
            if not ok:
                run.violation("oracle:ber_set_complete", dict(rp, expected_components=[p.hex() for p in parts]))
        if meta:
            run.sample({"set_type": meta[-1][0], "order": meta[-1][2], "ber": meta[-1][4].hex()[:80]})
    log("C03: tag maps %.1fs" % (time.time() - t0))


# ---------------------------------------------------------------- OER: every determinant position

def lf_str(f):
    if f is None or f[0] == "s":
        return "s"
    return "l%d" % f[1]


def ch_tree(tree, v, forms, ctr):
    """the choice tree (syntax of ocaml/drv_c03.ml) that makes coq/Rt/OerVariants.v:oer_var write the determinants in the
    forms chosen by number (same numbering as c03_oerpos.render: encoding order)"""
    k = tree[0]
    if k in ("b", "n"):
        return "s{}"
    if k == "i":
        w, _ = U.oer_int_ct(tree[2], tree[3], tree[4])
        if w:
            return "s{}"
        num = ctr[0]
        ctr[0] += 1
        return lf_str(forms.get(num)) + "{}"
    if k == "o":
        lo, hi, ext = tree[2], tree[3], tree[4]
        if hi is not None and lo == hi and not ext:
            return "s{}"
        num = ctr[0]
        ctr[0] += 1
        return lf_str(forms.get(num)) + "{}"
    if k == "s":
        subs = []
        for m, x in zip(tree[2], v[1]):
            if m[0] == "?":
                subs.append(ch_tree(m[1], x[1], forms, ctr) if x[0] == "!" else "s{}")
            else:
                subs.append(ch_tree(m, x, forms, ctr))
        return "s{" + "".join(subs) + "}"
    if k in ("q", "t"):
        ql, qv = ctr[0], ctr[0] + 1
        ctr[0] += 2
        z = forms.get(qv)
        subs = [ch_tree(tree[3], x, forms, ctr) for x in v[1]]
        return lf_str(forms.get(ql)) + ("p%d;" % z[1] if z else "") + "{" + "".join(subs) + "}"
    if k == "c":
        return ch_tree(tree[1][v[1]], v[2], forms, ctr)
    if k == "x":
        return ch_tree(tree[2], v, forms, ctr)
    if k == "?":
        return ch_tree(tree[1], v[1], forms, ctr)
    raise ValueError(k)


def ch_tree_ext(x, v, forms):
    ctr = [0]
    if x["kind"] == "seq":
        nr = len(x["rtrees"])
        rvals, avals = v[1][:nr], v[1][nr:]
        subs = []
        for m, xv in zip(x["rtrees"], rvals):
            if m[0] == "?":
                subs.append(ch_tree(m[1], xv[1], forms, ctr) if xv[0] == "!" else "s{}")
            else:
                subs.append(ch_tree(m, xv, forms, ctr))
        top = "s"
        if any(a[0] == "!" for a in avals):
            top = lf_str(forms.get(ctr[0]))
            ctr[0] += 1
            for t, a in zip(x["atrees"], avals):
                if a[0] == "!":
                    num = ctr[0]
                    ctr[0] += 1
                    subs.append(lf_str(forms.get(num)) + "{" + ch_tree(t, a[1], forms, ctr) + "}")
                else:
                    subs.append("s{}")
        else:
            subs += ["s{}"] * len(avals)
        return top + "{" + "".join(subs) + "}"
    alts = x["rtrees"] + x["atrees"]
    i, av = v[1], v[2]
    if i < len(x["rtrees"]):
        return "s{" + ch_tree(alts[i], av, forms, ctr) + "}"
    num = ctr[0]
    ctr[0] += 1
    return lf_str(forms.get(num)) + "{" + ch_tree(alts[i], av, forms, ctr) + "}"


def oer_sweep(run, model, jobs, rng, tier, name):
    """jobs: [{mexe module, tn, ts (model type string), vs, segs, der, canon (hex of the model's encoding), ext: x|None, pyval,
    maxpos}] -> C / model / spec comparison on every variant"""
    by_mod = {}
    for j in jobs:
        by_mod.setdefault(j["mod"]["name"], []).append(j)
    for mname in sorted(by_mod):
        js = by_mod[mname]
        m = js[0]["mod"]
        lines, meta, mlines = [], [], []
        for j in js:
            b0 = P.render(j["segs"])
            if b0.hex() != (j["canon"] if j["canon"] != "-" else ""):
                if j.get("setof_reordered"):
                    run.count("oer_skipped_setof_reordered")
                    continue
                run.violation("harness:oer-encoder", {"what": "the check's own OER encoder and the model disagree on the canonical encoding",
                                                      "model_type": j["ts"], "value": j["vs"][:2000], "python": b0.hex()[:4000], "model": j["canon"][:4000]}, no_input=True)
                continue
            vs = P.sweep(j["segs"], rng, max_positions=j.get("maxpos"), nmix=(2 if tier == "quick" else 6), wide_all=(tier != "quick"))
            if not vs:
                run.count("oer_no_length_fields")
                continue
            run.count("oer_values_swept")
            for lab, forms, b in vs:
                if j["ext"] is None:
                    ch = ch_tree(j["tree"], j["pyval"], forms, [0])
                    mlines += ["oercdec %s %s" % (j["ts"], b.hex()), "oervar %s %s %s" % (j["ts"], j["vs"], ch)]
                else:
                    ch = ch_tree_ext(j["ext"], j["pyval"], forms)
                    mlines += ["xoercdec %s %s" % (j["ts"], b.hex()), "xoervar %s %s %s" % (j["ts"], j["vs"], ch)]
                lines.append("dec %s oer %s" % (j["tn"], b.hex()))
                meta.append((j, lab, b, ch))
        if not lines:
            continue
        t1 = time.time()
        out = run_mod(run, m, lines, name)
        t2 = time.time()
        rcm, mout, merr = run_lines(model, mlines, timeout=1200)
        log("C03: oer sweep %s: %d lines, C %.1fs, model %.1fs" % (mname, len(lines), t2 - t1, time.time() - t2))
        if rcm != 0 or len(mout) != len(mlines):
            run.violation("model:driver", {"what": "model driver failed (OER sweep)", "rc": rcm, "stderr": merr[-1500:]}, no_input=True)
            continue
        for i, ((j, lab, b, ch), l, o) in enumerate(zip(meta, lines, out)):
            mo, mv = mout[2 * i], mout[2 * i + 1]
            run.case(l)
            kind = lab.split("@")[0].split(":")[0]
            run.count("oer_%s%s" % ("ext_" if j["ext"] is not None else "", kind))
            if "@" in lab:
                run.count("oer_form_%s" % lab.split(":")[-1])
            exp = "OK %d %s ck=" % (len(b), j["der"])
            rp = {"module": m["text"], "type": j["tn"], "model_type": j["ts"], "value": j["vs"][:3000], "variant_kind": lab, "command_line": l[:6000],
                  "c": o[:3000], "expected": exp[:3000], "model": mo[:3000], "choices": ch[:2000], "canonical_oer": j["canon"][:3000]}
            if mv != b.hex():
                run.violation("correspondence:OerVariants.oer_var", dict(rp, what="the spec's variant encoder and the independent re-encoder differ for the same choices",
                                                                         oer_var=mv[:3000]), no_input=True)
            m_ok = (mo == "OK %d %s" % (len(b), j["vs"])) or (j.get("setof") and mo.startswith("OK %d " % len(b)))
            c_ok = o.startswith(exp)
            if not m_ok:
                # the model of the C decoder rejects a member of the family: contradicts oer_complete; a failing input for the
                # C exists only if the C rejects it too
                run.violation("model:OerVariants.oer_cdec", dict(rp, what="the model of the C's OER decoder does not return the value on a variant (contradicts oer_complete)"),
                              no_input=c_ok)
            if not c_ok:
                run.violation("oracle:oer_complete", dict(rp, what="the C OER decoder does not return OK / full length / the value on a valid encoding "
                                                                   "(a length determinant in a legal non-canonical form at position %s)" % lab))
        run.sample({"type": meta[-1][0]["ts"][:100], "oer": meta[-1][0]["canon"][:60], "variant": meta[-1][2].hex()[:80], "choices": meta[-1][3][:60]})


# ---------------------------------------------------------------- OER: the other call sites of oer_fetch_length (C only)

MO5_TEXT = """MO5 DEFINITIONS AUTOMATIC TAGS ::= BEGIN
  En ::= ENUMERATED { a(0), b(5), c(127), d(128), e(-1), f(70000) }
  XI ::= SEQUENCE { a INTEGER (0..255), ..., b INTEGER OPTIONAL, c OCTET STRING OPTIONAL }
  XC ::= CHOICE { p INTEGER (0..255), ..., q OCTET STRING, r XI }
  W ::= SEQUENCE {
     bs BIT STRING,
     oid OBJECT IDENTIFIER,
     re REAL,
     ia IA5String,
     u8 UTF8String,
     bmp BMPString,
     en En,
     roid RELATIVE-OID,
     i INTEGER,
     inner XI,
     lst SEQUENCE OF XI,
     ch XC,
     chs SEQUENCE OF XC
  }
END
"""

# layout of the canonical OER encoding of W (X.696): what lib/c03_oerpos.py needs to find the determinants
BLOB = ("blob",)
L_XI = ("xseq", [("fix", 1)], [BLOB, BLOB])
L_XC = ("xchoice", {0x80: ("fix", 1)}, {0x81: BLOB, 0x82: L_XI})
L_W = ("seq", [BLOB, BLOB, BLOB, BLOB, BLOB, BLOB, ("enum",), BLOB, BLOB, L_XI, ("qty", L_XI), L_XC, ("qty", L_XC)])


def wide_module():
    return {"name": "MO5", "default": "AUTOMATIC", "defs": [("En", None), ("XI", None), ("XC", None), ("W", None)], "trees": {}, "text": MO5_TEXT}


def wide_values(tier):
    xi = lambda a, b=None, c=None: "<a>%d</a>" % a + ("<b>%d</b>" % b if b is not None else "") + ("<c>%s</c>" % c if c is not None else "")
    v1 = ("<W><bs>1010001</bs><oid>1.2.840.113549</oid><re>1.5</re><ia>hello</ia><u8>gruen</u8><bmp>ab</bmp><en><f/></en><roid>8571.3.2</roid>"
          "<i>-70000</i><inner>%s</inner><lst><XI>%s</XI><XI>%s</XI></lst><ch><r>%s</r></ch><chs><p>4</p><q>CAFE</q><r>%s</r></chs></W>"
          % (xi(5, 7, "AB"), xi(1), xi(2, None, "0102"), xi(9, 300), xi(3, None, "")))
    v2 = ("<W><bs></bs><oid>2.5</oid><re>0</re><ia></ia><u8></u8><bmp></bmp><en><a/></en><roid>0</roid><i>0</i><inner>%s</inner><lst></lst>"
          "<ch><p>200</p></ch><chs></chs></W>" % xi(0))
    long_ia = "".join(chr(65 + (i * 7) % 26) for i in range(200))
    v3 = ("<W><bs>%s</bs><oid>1.3.6.1.4.1.99999.1.2.3.4.5.6.7.8.9.10.11.12.13.14.15.16.17.18.19.20.21.22.23.24.25.26.27.28.29.30.31.32.33.34.35.36.37.38.39.40.41.42.43.44.45.46.47.48.49.50.51.52.53.54.55.56.57.58.59.60.61.62.63.64</oid>"
          "<re>-123456.789</re><ia>%s</ia><u8>%s</u8><bmp>%s</bmp><en><e/></en><roid>1.2.3</roid><i>9223372036854775807</i><inner>%s</inner><lst>%s</lst>"
          "<ch><q>%s</q></ch><chs>%s</chs></W>"
          % ("10" * 700, long_ia, long_ia[:130], long_ia[:70], xi(255, -5, "AA" * 150),
             "".join("<XI>%s</XI>" % xi(i % 256, (i if i % 3 == 0 else None), ("%02X" % (i % 256) if i % 5 == 0 else None)) for i in range(300 if tier != "quick" else 130)),
             "BB" * 300, "".join("<p>%d</p>" % (i % 256) if i % 2 else "<q>%02X</q>" % (i % 256) for i in range(20))))
    return [("v1", v1), ("v2", v2), ("v3", v3)]


def canon_len(b, pos):
    """a length determinant in its canonical form at b[pos:] -> (value, next position)"""
    first = b[pos]
    if first < 128:
        return first, pos + 1
    k = first - 128
    if k == 0 or pos + 1 + k > len(b):
        raise ValueError("bad length determinant")
    return int.from_bytes(b[pos + 1:pos + 1 + k], "big"), pos + 1 + k


def layout_parse(lay, b, pos):
    """canonical OER octets -> (segments of lib/c03_oerpos.py, next position)"""
    k = lay[0]
    if k == "blob":
        n, p = canon_len(b, pos)
        if p + n > len(b):
            raise ValueError("blob exceeds buffer")
        return [("open", "blob", [("raw", bytes(b[p:p + n]))])], p + n
    if k == "fix":
        return [("raw", bytes(b[pos:pos + lay[1]]))], pos + lay[1]
    if k == "enum":
        n = 1 if b[pos] < 128 else 1 + (b[pos] & 127)
        return [("raw", bytes(b[pos:pos + n]))], pos + n
    if k == "seq":
        out = []
        for it in lay[1]:
            s, pos = layout_parse(it, b, pos)
            out += s
        return out, pos
    if k == "qty":
        ln, p = canon_len(b, pos)
        n = int.from_bytes(b[p:p + ln], "big")
        out, pos = [("qty", n)], p + ln
        for _ in range(n):
            s, pos = layout_parse(lay[1], b, pos)
            out += s
        return out, pos
    if k == "xseq":
        ext = bool(b[pos] & 0x80)
        out, pos = [("raw", bytes(b[pos:pos + 1]))], pos + 1
        for it in lay[1]:
            s, pos = layout_parse(it, b, pos)
            out += s
        if ext:
            n, p = canon_len(b, pos)
            bm = bytes(b[p:p + n])
            out.append(("open", "bitmap", [("raw", bm)]))
            pos = p + n
            nbits = 8 * (len(bm) - 1) - (bm[0] & 7)
            for i in range(nbits):
                if bm[1 + i // 8] & (0x80 >> (i % 8)):
                    if i >= len(lay[2]):
                        raise ValueError("unknown addition in the C's own encoding")
                    n, p = canon_len(b, pos)
                    inner, q = layout_parse(lay[2][i], b, p)
                    if q != p + n:
                        raise ValueError("open type length mismatch")
                    out.append(("open", "add", inner))
                    pos = q
        return out, pos
    if k == "xchoice":
        t = b[pos]
        out, pos = [("raw", bytes(b[pos:pos + 1]))], pos + 1
        if t in lay[1]:
            s, pos = layout_parse(lay[1][t], b, pos)
            return out + s, pos
        n, p = canon_len(b, pos)
        inner, q = layout_parse(lay[2][t], b, p)
        if q != p + n:
            raise ValueError("open type length mismatch")
        return out + [("open", "alt", inner)], q
    raise ValueError(k)


def wide_oer_part(run, m, rng, tier):
    """the call sites of oer_fetch_length outside the modelled algebra (BIT STRING, OBJECT IDENTIFIER / RELATIVE-OID through
    oer_decode_primitive, REAL, the restricted string types, extensible types nested in SEQUENCE OF / CHOICE / open types):
    values given as XER, the C's own CANONICAL-OER parsed along the type (layout_parse), every determinant re-written;
    oracle on the C alone (no Coq model of these types)"""
    if not m.get("exe"):
        run.violation("build:module", {"what": "the hand-made module MO5 was rejected or its code does not compile", "module": m["text"],
                                       "asn1c_out": m.get("asn1c_out", "")[-1200:], "build_log": m.get("build_log", "")[-1200:]})
        return
    vals = wide_values(tier)
    l1 = []
    for lab, x in vals:
        l1 += ["xcode W xer %s coer" % x.encode().hex(), "xcode W xer %s der" % x.encode().hex()]
    o1 = run_mod(run, m, l1, "C03-oer-wide-enc")
    lines, meta = [], []
    for i, (lab, x) in enumerate(vals):
        oo, od = o1[2 * i], o1[2 * i + 1]
        rp = {"module": m["text"], "type": "W", "value_xer": x[:3000], "c": oo[:300] + " / " + od[:300]}
        if not oo.startswith("OK ") or not od.startswith("OK "):
            run.violation("oracle:oer_wide_encode", dict(rp, what="the C does not transcode a valid XER value to OER / DER"))
            continue
        canon = bytes.fromhex(oo.split()[1])
        der = od.split()[1]
        try:
            segs, end = layout_parse(L_W, canon, 0)
            if end != len(canon) or P.render(segs) != canon:
                raise ValueError("layout does not cover the encoding")
        except (ValueError, IndexError, KeyError) as e:
            run.violation("harness:oer-layout", dict(rp, what="cannot parse the C's canonical OER along the type: %s" % e, oer=canon.hex()[:4000]), no_input=True)
            continue
        ndet = len(P.determinants(segs))
        maxpos = None if ndet <= 80 else (40 if tier == "quick" else 160)       # (every position of the small values)
        for vlab, forms, b in P.sweep(segs, rng, max_positions=maxpos, nmix=(3 if tier == "quick" else 10), wide_all=(tier != "quick")):
            lines.append("dec W oer %s" % b.hex())
            meta.append((lab, vlab, b, der, x))
    out = run_mod(run, m, lines, "C03-oer-wide")
    for (lab, vlab, b, der, x), l, o in zip(meta, lines, out):
        run.case(l)
        run.count("oer_wide_%s" % vlab.split("@")[0].split(":")[0])
        if not o.startswith("OK %d %s ck=" % (len(b), der)):
            run.violation("oracle:oer_complete", {"module": m["text"], "type": "W", "value_xer": x[:3000], "variant_kind": vlab, "command_line": l[:6000], "c": o[:600],
                                                  "expected": ("OK %d %s" % (len(b), der))[:3000],
                                                  "what": "the C OER decoder does not return OK / full length / the value on a valid encoding "
                                                          "(a length determinant in a legal non-canonical form at position %s)" % vlab})
    if meta:
        run.sample({"type": "MO5.W", "variant": meta[-1][1], "oer": meta[-1][2].hex()[:80]})
