"""c04_ext — the extensible-type corpus of checks/c04.py and the case generators of its leaf tie.

REGION (what seeded/C04-2 showed was never sampled): inputs in which an extensible SEQUENCE / SET /
CHOICE meets something it does NOT know (an encoding written by a newer version of the type), in every
transfer syntax, under the same damage as everything else — and cut at EVERY offset, not at sampled ones.
These are the only inputs on which the decoders call their skip functions (ber_skip_length,
uper_open_type_skip, oer_open_type_skip, xer_skip_unknown).

Types: families that share root and additions and differ in how many additions they know (lib/extgen.py
builds the plain SEQUENCE / CHOICE members; the model's DER of a value of the NEWEST member is the source of
every input), and around every member the shapes in which an extensible type can sit:
   SN<k>      SEQUENCE { root, ..., first k additions }            CN<k>   CHOICE { root, ..., first k }
   SSet<k>    the same components as a SET
   SInSeq<k>  SEQUENCE { h BOOLEAN, x SN<k>, t INTEGER (0..255) }   (a definite/indefinite frame AROUND it, data behind it)
   SInOf<k>   SEQUENCE OF SN<k>                                    CInOf<k>
   SInCh<k>   CHOICE { a SN<k>, b NULL }
   SInExt<k>  SEQUENCE { h BOOLEAN, ..., x SN<k> }                  (open type inside open type in PER/OER)
   CInSeq<k>  SEQUENCE { h BOOLEAN, x CN<k>, t INTEGER (0..255) }
The wrappers' DER is computed here from the plain member's DER (AUTOMATIC TAGS: [i] IMPLICIT on a SEQUENCE,
[i] EXPLICIT on a CHOICE); UPER / OER / XER come from the C encoders of the WRITER's type and are read by
every READER type of the family (fewer additions: unknown ones are skipped; the same; more: older sender)."""
import re
from extgen import *
from c04_util import *

SET_TAG = tagnum("UNIVERSAL", 17)


def ctx(i):
    return tagnum("CONTEXT", i)


# ---------------------------------------------------------------- component pool

def _I(c=None):
    return {"k": "int", "con": c}


def _O(c=None):
    return {"k": "oct", "con": c}


def constructed_pool():
    """component types whose BER encoding is CONSTRUCTED (only those can take the indefinite form that
    ber_skip_length has to walk)"""
    return [
        {"k": "seq", "ms": [("a", _I((0, 255, False)), False), ("b", _O(), True)]},
        {"k": "seqof", "con": None, "el": _I((0, 65535, False))},
        {"k": "choice", "ms": [("x", {"k": "bool"}, False), ("y", {"k": "seq", "ms": [("n", {"k": "null"}, False)]}, False)]},
        {"k": "seq", "ms": [("p", {"k": "seqof", "con": None, "el": {"k": "bool"}}, False), ("q", {"k": "null"}, True)]},
        {"k": "setof", "con": None, "el": _O((0, 4, False))},
        {"k": "seq", "ms": [("u", {"k": "seq", "ms": [("v", {"k": "seqof", "con": None, "el": {"k": "null"}}, False)]}, False)]},
    ]


def primitive_pool():
    return [_I(), _I((0, 255, False)), _I((-128, 127, False)), _I((0, 7, True)), _O(), _O((1, 2, True)), _O((0, 4, False)),
            {"k": "bool"}, {"k": "null"}, _I((7, 7, False))]


def pick_components(rng, n, ncons, prefix, optchance=(1, 2)):
    cs, ps = constructed_pool(), primitive_pool()
    chosen = [cs[i] for i in sorted(set(rng.below(len(cs)) for _ in range(ncons * 3)))[:ncons]]
    while len(chosen) < n:
        chosen.append(dict(ps[rng.below(len(ps))]))
    # a random order, but a constructed type among the first two additions (so that every reader that lacks
    # any addition lacks a constructed one)
    order = list(range(n))
    for i in range(n - 1, 0, -1):
        j = rng.below(i + 1)
        order[i], order[j] = order[j], order[i]
    comps = [chosen[i] for i in order]
    if comps[0]["k"] not in ("seq", "seqof", "setof", "choice") and comps[1]["k"] not in ("seq", "seqof", "setof", "choice"):
        k = next(i for i, c in enumerate(comps) if c["k"] in ("seq", "seqof", "setof", "choice"))
        comps[0], comps[k] = comps[k], comps[0]
    return [("%s%d" % (prefix, i), c, rng.chance(*optchance)) for i, c in enumerate(comps)]


SEQ_COUNTS = [0, 1, 3, 4, 6]
CH_COUNTS = [0, 1, 2, 4]
SEQ_WRAPS = ["", "Set", "InSeq", "InOf", "InCh", "InExt"]
CH_WRAPS = ["", "InSeq", "InOf"]


def wrapper_name(fam, wrap, k):
    return "%sN%d" % (fam, k) if wrap == "" else "%s%s%d" % (fam, wrap, k)


def wrapper_text(fam, wrap, k, plain_text):
    base = "%sN%d" % (fam, k)
    if wrap == "Set":
        return plain_text.replace("SEQUENCE {", "SET {", 1)
    if wrap == "InSeq":
        return "SEQUENCE { h BOOLEAN, x %s, t INTEGER (0..255) }" % base
    if wrap == "InOf":
        return "SEQUENCE OF %s" % base
    if wrap == "InCh":
        return "CHOICE { a %s, b NULL }" % base
    if wrap == "InExt":
        return "SEQUENCE { h BOOLEAN, ..., x %s }" % base
    raise ValueError(wrap)


def plain_tree(x):
    if x["kind"] == "seq":
        return ("s", SEQ_TAG, list(x["rtrees"]) + [("?", a) for a in x["atrees"]])
    return ("c", list(x["rtrees"]) + list(x["atrees"]))


def wrapper_tree(x, wrap):
    """model tree of the wrapped type (what the finding predicates of the check walk along)"""
    p = plain_tree(x)
    if wrap == "":
        return p
    if wrap == "Set":
        return ("s", SET_TAG, p[2])
    inner1 = ("x", ctx(1), p) if p[0] == "c" else retag(p, ctx(1))
    if wrap == "InSeq":
        return ("s", SEQ_TAG, [("b", ctx(0)), inner1, ("i", ctx(2), 0, 255, False)])
    if wrap == "InOf":
        return ("q", SEQ_TAG, (0, None, False), p)
    if wrap == "InCh":
        return ("c", [retag(p, ctx(0)), ("n", ctx(1))])
    if wrap == "InExt":
        return ("s", SEQ_TAG, [("b", ctx(0)), ("?", inner1)])
    raise ValueError(wrap)


def tlv(tagbyte, content):
    return bytes([tagbyte]) + ber_len(len(content)) + content


def wrapper_der(kind, wrap, ders, tval=7):
    """DER of the wrapper's value from the DER of the plain member's value(s)"""
    d = ders[0]
    if wrap == "":
        return d
    if wrap == "Set":
        return b"\x31" + d[1:]
    x1 = tlv(0xa1, d) if kind == "choice" else b"\xa1" + d[1:]
    if wrap == "InSeq":
        return tlv(0x30, b"\x80\x01\xff" + x1 + bytes([0x82, 1, tval]))
    if wrap == "InOf":
        return tlv(0x30, b"".join(ders))
    if wrap == "InCh":
        return b"\xa0" + d[1:]
    if wrap == "InExt":
        return tlv(0x30, b"\x80\x01\xff" + x1)
    raise ValueError(wrap)


def gen_modules(rng, tier):
    """the modules of the layer; m["x"] as in extgen for the plain members, m["w"][type name] =
    {fam, wrap, k, kind}, m["trees"] for every type"""
    mods = []
    nmod = 2 if tier == "quick" else 4
    for mi in range(nmod):
        m = new_module("XF%d" % mi, "AUTOMATIC")
        root = [("r0", {"k": "bool"}, False), ("r1", _I((0, 255, False)), True)] if mi % 2 == 0 else \
               [("r0", primitive_pool()[rng.below(8)], rng.chance(1, 2))]
        adds = pick_components(rng, 6, 3, "e")
        build_seq_family(m, "S", root, adds, SEQ_COUNTS, "AUTOMATIC", {})
        croot = [("r0", {"k": "bool"}, False), ("r1", _I(), False)][:rng.range(1, 2)]
        cext = pick_components(rng, 4, 2, "x", optchance=(0, 1))
        build_choice_family(m, "C", croot, cext, CH_COUNTS, "AUTOMATIC", {})
        m["w"], m["trees"] = {}, {}
        plain_texts = {}
        for line in m["texts"]:
            mm = re.match(r"\s*(\w+) ::= (.*)$", line)
            plain_texts[mm.group(1)] = mm.group(2)
        for fam, counts, wraps in (("S", SEQ_COUNTS, SEQ_WRAPS), ("C", CH_COUNTS, CH_WRAPS)):
            for k in counts:
                base = "%sN%d" % (fam, k)
                x = m["x"][base]
                for w in wraps:
                    tn = wrapper_name(fam, w, k)
                    m["w"][tn] = {"fam": fam, "wrap": w, "k": k, "kind": x["kind"], "base": base}
                    m["trees"][tn] = wrapper_tree(x, w)
                    if w != "":
                        m["defs"].append((tn, None))
                        m["texts"].append("  %s ::= %s" % (tn, wrapper_text(fam, w, k, plain_texts[base])))
        mods.append(finish_module(m))
    return mods


# ---------------------------------------------------------------- values

def small_value(tree, rng, depth=0):
    """a valid value with a SHORT encoding (every offset of it is going to be a truncation point)"""
    k = tree[0]
    if k == "b":
        return rng.chance(1, 2)
    if k == "n":
        return None
    if k == "i":
        lo, hi, ext = tree[2], tree[3], tree[4]
        cands = [v for v in (0, 1, -1, 127, 128, 255, 256, -128, -129, 65535, 7, 5) if (lo is None or v >= lo) and (hi is None or v <= hi)]
        return rng.choice(cands) if cands else lo
    if k == "o":
        lo, hi = tree[2] or 0, tree[3]
        n = rng.choice([lo, lo, min(lo + 1, hi if hi is not None else lo + 1), min(3, hi if hi is not None else 3), min(5, hi if hi is not None else 5)])
        n = max(n, lo)
        return bytes(rng.choice([0, 0, 0xff, 0x80, rng.below(256)]) for _ in range(n))
    if k == "s":
        out = []
        for mt in tree[2]:
            if mt[0] == "?":
                out.append(("!", small_value(mt[1], rng, depth + 1)) if rng.chance(2, 3) else ("_",))
            else:
                out.append(small_value(mt, rng, depth + 1))
        return ("S", out)
    if k in ("q", "t"):
        n = max(tree[2][0] or 0, rng.choice([0, 1, 2, 3]))
        return ("L", [small_value(tree[3], rng, depth + 1) for _ in range(n)])
    if k == "c":
        i = rng.below(len(tree[1]))
        return ("C", i, small_value(tree[1][i], rng, depth + 1))
    if k == "x":
        return small_value(tree[2], rng, depth)
    raise ValueError(k)


def seq_small_value(x, pres, rng):
    rv = []
    for t in x["rtrees"]:
        if t[0] == "?":
            rv.append(("!", small_value(t[1], rng, 1)) if rng.chance(1, 2) else ("_",))
        else:
            rv.append(small_value(t, rng, 1))
    av = [("!", small_value(t, rng, 1)) if p else ("_",) for t, p in zip(x["atrees"], pres)]
    return ("S", rv + av)


def make_values(m, rng, tier):
    """[(family, writer's plain type name, value, label)]"""
    out = []
    pats = ["all", "first", "last", "alt", "random"] + (["random", "all"] if tier != "quick" else [])
    xs = m["x"]["SN%d" % SEQ_COUNTS[-1]]
    for p in pats:
        out.append(("S", "SN%d" % SEQ_COUNTS[-1], seq_small_value(xs, presence(p, xs["nadd"], rng), rng), "seq:" + p))
    mid = m["x"]["SN%d" % SEQ_COUNTS[2]]
    out.append(("S", "SN%d" % SEQ_COUNTS[2], seq_small_value(mid, presence("all", mid["nadd"], rng), rng), "seq:mid-all"))
    out.append(("S", "SN0", seq_small_value(m["x"]["SN0"], [], rng), "seq:none"))
    xc = m["x"]["CN%d" % CH_COUNTS[-1]]
    nr = len(xc["rtrees"])
    for i in range(nr + xc["nadd"]):
        alts = xc["rtrees"] + xc["atrees"]
        out.append(("C", "CN%d" % CH_COUNTS[-1], ("C", i, small_value(alts[i], rng, 1)), "choice:%s" % ("root" if i < nr else "ext%d" % (i - nr))))
    return out


# ---------------------------------------------------------------- BER variants and structured cuts

def all_prefixes(b, every_upto, rng, sample=24):
    n = len(b)
    if n <= every_upto:
        ks = range(n)
    else:
        ks = sorted(set(list(range(every_upto // 2)) + list(range(n - every_upto // 2, n)) + [rng.below(n) for _ in range(sample)]))
    return [("trunc", b[:k]) for k in ks]


def ser(node):
    """BNode tree (c04_util.parse_ber_any; .hdr = tag octets added by annotate) -> octets"""
    if node.form == "i":
        return node.hdr + b"\x80" + b"".join(ser(k) for k in node.kids) + b"\x00\x00"
    body = b"".join(ser(k) for k in node.kids) if node.cons else node.content
    return node.hdr + ber_len(len(body)) + body


def annotate(b, pos=0):
    """parse one TLV of any form and keep the tag octets on every node"""
    node = parse_ber_any(b, pos)

    def fix(n, p):
        q = p + 1
        if b[p] & 31 == 31:
            while b[q] & 128:
                q += 1
            q += 1
        n.hdr = bytes(b[p:q])
        # children start behind the length octets
        l = b[q]
        c = q + 1 + (0 if l < 128 or l == 128 else l - 128)
        for k in n.kids:
            fix(k, c)
            c = k.end
    fix(node, pos)
    return node


def eoc_positions(b):
    """offsets of the end-of-contents octets of a well-formed BER encoding"""
    out = []

    def go(n):
        for k in n.kids:
            go(k)
        if n.form == "i":
            out.append(n.end - 2)
    try:
        go(parse_ber_any(b, 0))
    except (ValueError, IndexError):
        pass
    return out


def eoc_mutants(b, rng, budget):
    out = []
    pos = eoc_positions(b)
    for p in cap(pos, budget, rng):
        out.append(("eoc-half", b[:p + 1] + b[p + 2:]))            # one of the two zeros gone
        out.append(("eoc-gone", b[:p] + b[p + 2:]))
        out.append(("eoc-len1", b[:p + 1] + b"\x01" + b[p + 2:]))    # 00 01: a TLV with tag 0, not an end
        out.append(("eoc-len80", b[:p + 1] + b"\x80" + b[p + 2:]))
        out.append(("eoc-twice", b[:p] + b"\x00\x00" + b[p:]))
        out.append(("eoc-tag", b[:p] + b"\x1f" + b[p + 1:]))
    return out


def frame_cuts(b, rng, budget):
    """truncation INSIDE a frame: the contents of one constructed TLV are cut at an offset, definite-length
    ancestors get the length that fits, indefinite ancestors keep their end-of-contents; what follows the cut
    frame (siblings, the enclosing frames' ends) stays.  The decoder's LEFT ends at the cut, the buffer does not."""
    try:
        root = annotate(b)
    except (ValueError, IndexError):
        return []
    targets = []

    def collect(n):
        if n.cons:
            body = b"".join(ser(k) for k in n.kids)
            targets.append((n, body))
            for k in n.kids:
                collect(k)
    collect(root)
    picks = [(n, body, k) for (n, body) in targets for k in range(len(body))]
    out = []
    for (n, body, k) in cap(picks, budget, rng):
        saved = (n.form, n.cons, n.kids, n.content)
        # the cut node becomes a definite-length TLV whose contents are the first k octets (raw)
        n.form, n.kids, n.content = "d", [], body[:k]
        n.cons_raw = True
        try:
            out.append(("framecut", ser_raw(root)))
        finally:
            n.form, n.cons, n.kids, n.content = saved
            n.cons_raw = False
    return out


def ser_raw(node):
    if getattr(node, "cons_raw", False):
        return node.hdr + ber_len(len(node.content)) + node.content
    if node.form == "i":
        return node.hdr + b"\x80" + b"".join(ser_raw(k) for k in node.kids) + b"\x00\x00"
    body = b"".join(ser_raw(k) for k in node.kids) if node.cons else node.content
    return node.hdr + ber_len(len(body)) + body


def prim_to_constructed(b, rng, budget):
    """a primitive TLV rewritten in the constructed, indefinite form of a string (segments with tag 04):
    valid for OCTET STRING members, and for the skipper whatever the type"""
    out = []
    tl = [t for t in ber_walk(b) if not t[4]]
    for (t0, l0, c0, c1, cons, d) in cap(tl, budget, rng):
        body = b[c0:c1]
        h = len(body) // 2
        segs = tlv(4, body[:h]) + tlv(4, body[h:])
        out.append(("prim2cons", b[:t0] + bytes([b[t0] | 0x20]) + b[t0 + 1:l0] + b"\x80" + segs + b"\x00\x00" + b[c1:]))
    return out


def ber_variants(d, rng):
    """VALID encodings of the same value: DER, every constructed TLV indefinite, mixtures, long lengths"""
    out = [("der", d)]
    for mode in ("indef", "mixed", "mixed", "long"):
        try:
            out.append((mode, ber_reframe(d, rng, mode)))
        except (IndexError, ValueError):
            pass
    seen, res = set(), []
    for k, v in out:
        if v not in seen:
            seen.add(v)
            res.append((k, v))
    return res


# ---------------------------------------------------------------- leaf cases (harness/leafdrv_c04.inc, ocaml/drv_c04.ml)

def rand_tlv(rng, depth, maxdepth):
    """a well-formed TLV of random shape -> octets"""
    cls = rng.below(4) << 6
    num = rng.choice([0, 1, 2, 4, 16, 30, 31, 127, 128, 16383, 16384, rng.below(1 << 20)])
    if cls == 0 and num == 0:
        num = 4            # tag 0 + length 0 IS the end-of-contents
    cons = depth < maxdepth and rng.chance(1, 2)
    first = cls | (0x20 if cons else 0)
    if num < 31:
        tag = bytes([first | num])
    else:
        ds = []
        v = num
        while True:
            ds.insert(0, v & 127)
            v >>= 7
            if not v:
                break
        tag = bytes([first | 31] + [x | 128 for x in ds[:-1]] + [ds[-1]])
    if cons:
        body = b"".join(rand_tlv(rng, depth + 1, maxdepth) for _ in range(rng.below(4)))
        if rng.chance(1, 2):
            return tag + b"\x80" + body + b"\x00\x00"
    else:
        body = bytes(rng.choice([0, 0, 0, 0x80, 0xff, rng.below(256)]) for _ in range(rng.choice([0, 0, 1, 2, 3, 5, 130])))
    form = None if rng.chance(2, 3) else max(1, (len(body).bit_length() + 7) // 8) + rng.below(3)
    return tag + ber_len(len(body), form) + body


def skiplen_arg(t):
    """a TLV -> the arguments of ber_skip_length: constructed flag and what follows the tag octets"""
    q = 1
    if t[0] & 31 == 31:
        while t[q] & 128:
            q += 1
        q += 1
    return (1 if t[0] & 0x20 else 0), t[q:]


def leaf_cases(rng, tier):
    """-> [(command line, kind, expectation or None)]; expectation: the answer known from the way the input
    was BUILT (independent of model and C)"""
    q = tier == "quick"
    out = []
    seen = set()

    def add(line, kind, exp=None):
        if line not in seen:
            seen.add(line)
            out.append((line, kind, exp))

    # ---- ber_skip_length
    directed = ["30800000", "3080308000000000", "30803080308000000000" + "0000", "308004000000", "3080040100" + "0000",
                "3080" + "0001ff" + "0000", "3080" + "008100" "0000", "3080a08004010000000000", "3080" + "1f0000" + "0000", "3080" + "1f800000" "0000",
                "3080" + "0400" * 20 + "0000", "3003020100", "30820003020100", "3000", "0400", "a080" + "a080" * 10 + "0000" * 11]
    # not well-formed (a lone 00 where a TLV or the second end-of-contents octet should be): no expectation
    for h in ("80" + "1f00" + "0000", "80" + "1f8000" + "0000", "8000", "80", "800000" + "0000", "80" + "00", "80" + "3080" + "00", "80" + "3080" + "0000" + "00"):
        add("skiplen 1 %s" % h, "directed")
    tlvs = [bytes.fromhex(h) for h in directed] + [rand_tlv(rng, 0, rng.range(1, 4)) for _ in range(60 if q else 400)]
    for t in tlvs:
        if len(t) > 400:
            continue
        c, rest = skiplen_arg(t)
        add("skiplen %d %s" % (c, hexs(rest)), "valid", "OK %d" % len(rest))
        for k in range(len(rest)):
            add("skiplen %d %s" % (c, hexs(rest[:k])), "prefix", "MORE")
        for extra in (b"\x00", b"\x00\x00", b"\xff", b"\x30\x80"):
            add("skiplen %d %s" % (c, hexs(rest + extra)), "extended", "OK %d" % len(rest))
        add("skiplen %d %s" % (1 - c, hexs(rest)), "otherflag")
        n = len(rest)
        for _ in range(12 if q else 40):
            if n:
                i = rng.below(n)
                add("skiplen %d %s" % (c, hexs(rest[:i] + bytes([rng.choice([0, 0, 1, 0x80, 0x7f, 0xff, 0x1f, 0x81, rng.below(256)])]) + rest[i + 1:])), "byteset")
                add("skiplen %d %s" % (c, hexs(rest[:i] + rest[i + 1:])), "bytedel")
        for kind, x in eoc_mutants(t, rng, 4):
            try:
                c2, r2 = skiplen_arg(x)
                add("skiplen %d %s" % (c2, hexs(r2)), kind)
                for k in range(max(0, len(r2) - 6), len(r2)):
                    add("skiplen %d %s" % (c2, hexs(r2[:k])), kind + "+prefix")
            except IndexError:
                pass
    for f in LEN_FORMS:
        for c in (0, 1):
            for tail in (b"", b"\x00", b"\x00\x00", b"\x00" * 9, b"\xff" * 9, b"\x04\x00\x00\x00"):
                add("skiplen %d %s" % (c, hexs(f + tail)), "lenform")
    for f in TAG_FORMS:
        for tail in (b"", b"\x00", b"\x00\x00\x00", b"\x80\x00\x00\x00\x00"):
            add("skiplen 1 %s" % hexs(b"\x80" + f + tail), "tagform")
    for _ in range(150 if q else 1500):
        add("skiplen %d %s" % (rng.below(2), hexs(rng.bytes(rng.choice([0, 1, 2, 3, 4, 6, 9, 17])))), "random")
        s = bytes(rng.choice([0, 0, 0, 0x80, 0x30, 0xa0, 1, 4]) for _ in range(rng.range(1, 12)))
        add("skiplen 1 %s" % hexs(b"\x80" + s), "random-zeros")
    # ---- uper_open_type_skip
    def uper_open(content):
        n, o, pos = len(content), bytearray(), 0
        while True:
            left = n - pos
            if left < 128:
                o += bytes([left]) + content[pos:]
                break
            if left < 16384:
                o += bytes([0x80 | (left >> 8), left & 255]) + content[pos:]
                break
            mfr = min(left // 16384, 4)
            o += bytes([0xc0 | mfr]) + content[pos:pos + mfr * 16384]
            pos += mfr * 16384
        return bytes(o)

    def shifted(b, off, lead):
        """the octets b moved `off` bits to the right behind `off` leading bits"""
        if off == 0:
            return b
        v = (lead << (8 * len(b))) | int.from_bytes(b, "big")
        return (v << (8 - off)).to_bytes(len(b) + 1, "big")

    sizes = [0, 1, 2, 3, 4, 5, 6, 7, 126, 127, 128, 129, 130, 255, 256] + ([16383, 16384, 16385, 32769] if q else [16383, 16384, 16385, 16386, 32768, 32769, 49153, 65536, 65537, 65539, 81920])
    for s in sizes:
        for fill in ((0, 0xff, None) if s <= 7 else ((None,) if s <= 300 else (0,))):
            content = rng.bytes(s) if fill is None else bytes([fill]) * s
            enc = uper_open(content)
            skippable = True     # any size since notes/fixes/D/03 (was: 3n octets or the single octet 00)
            for off in (range(8) if s <= 7 else (0, rng.range(1, 7))):
                sh = shifted(enc, off, rng.below(1 << off) if off else 0)
                add("uskip %s %d" % (hexs(sh), off), "valid", ("OK %d" % (8 * len(enc))) if skippable else "FAIL")
                if len(sh) <= 300:
                    for k in range(len(sh)):
                        add("uskip %s %d" % (hexs(sh[:k]), off), "prefix", "FAIL")
                    add("uskip %s %d" % (hexs(sh + b"\x00\xff"), off), "extended", ("OK %d" % (8 * len(enc))) if skippable else "FAIL")
                else:
                    for k in (0, 1, 2, 3, len(sh) - 1, len(sh) - 2, len(sh) - 3, 16385, 16386, 16387, rng.below(len(sh))):
                        if 0 <= k < len(sh):
                            add("uskip %s %d" % (hexs(sh[:k]), off), "prefix", "FAIL")
    for first in range(256):
        for tail in (b"", b"\x00", b"\x00\x00\x00", b"\xff\xff\xff\xff"):
            add("uskip %s %d" % (hexs(bytes([first]) + tail), rng.below(8) if tail else 0), "lenbyte")
    for _ in range(100 if q else 1000):
        add("uskip %s %d" % (hexs(rng.bytes(rng.choice([0, 1, 2, 3, 4, 5, 8, 13, 40]))), rng.below(8)), "random")
    # ---- oer_open_type_skip
    for first in range(256):
        for tail in (b"", b"\x00", b"\x05", b"\x00\x00\x00\x00\x00\x00\x00\x00\x05", b"\x01" + b"\x00" * 8, b"\x7f" + b"\xff" * 7, b"\x80" + b"\x00" * 7, b"\xff" * 8,
                     b"\x00" * 130, rng.bytes(rng.below(12))):
            add("oskip %s" % hexs(bytes([first]) + tail), "lenbyte")
    for k in range(0, 12):
        for body in (b"\x00" * k, b"\x00" * (k - 1) + b"\x01" if k else b"", b"\x7f" + b"\xff" * (k - 1) if k else b"", b"\x80" + b"\x00" * (k - 1) if k else b"", b"\xff" * k):
            enc = bytes([0x80 | k]) + body
            for j in range(len(enc) + 1):
                add("oskip %s" % hexs(enc[:j]), "prefix" if j < len(enc) else "valid", "MORE" if j < len(enc) else None)
            add("oskip %s" % hexs(enc + b"\xaa\xbb"), "extended")
    # ---- xer_skip_unknown
    for t in range(8):
        for d in (1, 2, 3, 1000, 2**62):
            add("xskip %d %d" % (t, d), "single")
    for _ in range(150 if q else 1500):
        d = rng.choice([1, 1, 2, 3, 7])
        evs = [rng.choice([5, 5, 6, 6, 7, 1, 2, 3, 5, 6, rng.below(8)]) for _ in range(rng.range(1, 14))]
        add("xskiprun %d %s" % (d, ",".join(map(str, evs))), "run")
    return out
