"""c14w_enc - a small type algebra with Python encoders (BER, UPER, OER) that can LIE: the directed hostile inputs of
lib/c14w_layer.py are encodings in which one decision of the encoder is overridden (an announced count, a CHOICE index, a raw
field value, a repeated SET member ...).  Independent of asn1c: the honest encodings are compared with the C's own
(`xcode`) before any hostile variant is used.

Types (dicts):  {"k":"null"} {"k":"bool"} {"k":"int"[,"lo","hi"]} {"k":"utf8"} {"k":"oct"[,"fix":n]} {"k":"enum","n":count}
                {"k":"seq","m":[(name,T,optional)],"x":None|[(name,T)],"set":bool} {"k":"cho","a":[(name,T)],"x":None|[(name,T)]}
                {"k":"list","set":bool,"e":T,"size":None|(lo,hi,extensible)} {"k":"ref","n":typename}
Values: None, bool, int, bytes, {name: value} (absent OPTIONAL / addition: no key), (index, value) with index over root+additions,
        [values].
Lies: dict path -> dict.  A path is a tuple of member names / list indices / "alt".
   list:   {"announce": n}      the count determinant says n, the elements are the given ones
   cho:    {"index": i}         (UPER) raw root index / (OER, BER) raw context tag number; nothing follows
           {"xindex": i}        (UPER, extensible) extension bit set, alternative number i, a one-octet open type
   any:    (BER) {"tagbomb"} tag number beyond the tag type, {"lenbomb"} length of 9 octets, {"wrongtag"} [29], {"badeoc"} indefinite
           length closed by 00 01, {"longer"} the length runs 3 octets past the contents
   int:    {"raw": v}           (UPER, OER) the field holds v
   seq:    {"dup": name}        (BER) member `name` is written twice;   {"unknown": 1} an unknown tag [30] is appended
           {"extbits": n}       (UPER/OER) the extension bitmap announces n additions (all flagged present), only the real ones follow
"""


class EncErr(Exception):
    pass


def T_null(): return {"k": "null"}
def T_bool(): return {"k": "bool"}
def T_int(lo=None, hi=None): return {"k": "int", "lo": lo, "hi": hi}
def T_utf8(): return {"k": "utf8"}
def T_oct(fix=None): return {"k": "oct", "fix": fix}
def T_enum(n): return {"k": "enum", "n": n}
def T_seq(m, x=None, set_=False): return {"k": "seq", "m": m, "x": x, "set": set_}
def T_cho(a, x=None): return {"k": "cho", "a": a, "x": x}
def T_list(e, set_=False, size=None): return {"k": "list", "set": set_, "e": e, "size": size}
def T_ref(n): return {"k": "ref", "n": n}


# ------------------------------------------------------------------ ASN.1 text

def asn(t):
    k = t["k"]
    if k == "null":
        return "NULL"
    if k == "bool":
        return "BOOLEAN"
    if k == "int":
        return "INTEGER" if t.get("lo") is None else "INTEGER (%d..%d)" % (t["lo"], t["hi"])
    if k == "utf8":
        return "UTF8String"
    if k == "oct":
        return "OCTET STRING" if t.get("fix") is None else "OCTET STRING (SIZE(%d))" % t["fix"]
    if k == "enum":
        return "ENUMERATED { %s }" % ", ".join("v%d(%d)" % (i, i) for i in range(t["n"]))
    if k == "seq":
        ms = ["%s %s%s" % (n, asn(mt), " OPTIONAL" if o else "") for n, mt, o in t["m"]]
        if t["x"] is not None:
            ms.append("...")
            ms += ["%s %s" % (n, asn(mt)) for n, mt in t["x"]]
        return "%s { %s }" % ("SET" if t.get("set") else "SEQUENCE", ", ".join(ms))
    if k == "cho":
        ms = ["%s %s" % (n, asn(mt)) for n, mt in t["a"]]
        if t["x"] is not None:
            ms.append("...")
            ms += ["%s %s" % (n, asn(mt)) for n, mt in t["x"]]
        return "CHOICE { %s }" % ", ".join(ms)
    if k == "list":
        sz = ""
        if t["size"]:
            lo, hi, ext = t["size"]
            sz = " (SIZE(%s%s))" % (("%d" % lo) if lo == hi else "%d..%d" % (lo, hi), ", ..." if ext else "")
        return "%s%s OF %s" % ("SET" if t["set"] else "SEQUENCE", sz, asn(t["e"]))
    if k == "ref":
        return t["n"]
    raise EncErr(k)


# ------------------------------------------------------------------ BER (AUTOMATIC TAGS: members / alternatives get [i])

UNIV = {"null": 5, "bool": 1, "int": 2, "utf8": 12, "oct": 4, "enum": 10}


def ber_len(n):
    if n < 128:
        return bytes([n])
    b = n.to_bytes((n.bit_length() + 7) // 8, "big")
    return bytes([0x80 | len(b)]) + b


def ber_tagb(cls, num, cons):
    b0 = (cls << 6) | (0x20 if cons else 0)
    if num < 31:
        return bytes([b0 | num])
    ds = [num & 0x7f]
    num >>= 7
    while num:
        ds.insert(0, 0x80 | (num & 0x7f))
        num >>= 7
    return bytes([b0 | 31] + ds)


def int_bytes(v):
    n = max(1, (v.bit_length() + 8) // 8)
    return v.to_bytes(n, "big", signed=True)


def deref(t, env):
    while t["k"] == "ref":
        t = env[t["n"]]
    return t


def ber(t, v, env, lie=None, path=(), tag=None):
    """tag: None (the type's own) or (class, number) of an IMPLICIT context tag; a CHOICE under a tag is EXPLICIT"""
    lie = lie or {}
    t = deref(t, env)
    k = t["k"]
    L = lie.get(path, {})
    if k == "cho":
        alts = t["a"] + (t["x"] or [])
        if "index" in L:
            inner = ber_tagb(2, L["index"], False) + b"\x00"
        else:
            i, x = v
            inner = ber(alts[i][1], x, env, lie, path + ("alt",), (2, i))
        if tag:
            return ber_tagb(tag[0], tag[1], True) + ber_len(len(inner)) + inner
        return inner
    cons = k in ("seq", "list")
    if k == "null":
        c = b""
    elif k == "bool":
        c = b"\xff" if v else b"\x00"
    elif k in ("int", "enum"):
        c = int_bytes(v)
    elif k in ("utf8", "oct"):
        c = bytes(v)
    elif k == "seq":
        c = b""
        allm = [(n, mt) for n, mt, _ in t["m"]] + list(t["x"] or [])
        for i, (n, mt) in enumerate(allm):
            if n in v:
                piece = ber(mt, v[n], env, lie, path + (n,), (2, i))
                c += piece
                if L.get("dup") == n:
                    c += piece
        if L.get("unknown"):
            c += ber_tagb(2, 30, False) + b"\x01\x00"
    elif k == "list":
        c = b"".join(ber(t["e"], x, env, lie, path + (i,)) for i, x in enumerate(v))
    else:
        raise EncErr(k)
    if tag:
        hd = ber_tagb(tag[0], tag[1], cons)
    else:
        hd = ber_tagb(0, 17 if (k == "list" and t["set"]) or (k == "seq" and t.get("set")) else 16, True) if cons else ber_tagb(0, UNIV[k], False)
    if L.get("tagbomb"):
        return bytes([hd[0] | 0x1f]) + b"\xff" * 9 + b"\x7f" + ber_len(len(c)) + c      # a tag number beyond ber_tlv_tag_t
    if L.get("lenbomb"):
        return hd + b"\x89" + b"\x01" * 9 + c                                           # a length beyond ber_tlv_len_t
    if L.get("wrongtag"):
        return ber_tagb(2, 29, cons) + ber_len(len(c)) + c                              # [29]: nobody expects it
    if L.get("badeoc") and cons:
        return hd + b"\x80" + c + b"\x00\x01\x00"                                      # indefinite length closed by 00 01
    if L.get("longer"):
        return hd + ber_len(len(c) + 3) + c                                             # the length runs past the contents
    return hd + ber_len(len(c)) + c


# ------------------------------------------------------------------ UPER (what asn1c implements)

class BW:
    def __init__(self):
        self.b = []

    def put(self, v, n):
        for i in range(n - 1, -1, -1):
            self.b.append((v >> i) & 1)

    def octets(self, bs):
        for x in bs:
            self.put(x, 8)

    def out(self):
        b = self.b + [0] * ((-len(self.b)) % 8)
        return bytes(int("".join(map(str, b[i:i + 8])), 2) for i in range(0, len(b), 8))


def range_bits(r):
    return max(0, (r - 1).bit_length())


def u_len(w, n):
    if n < 128:
        w.put(n, 8)
    elif n < 16384:
        w.put(0x8000 | n, 16)
    else:
        raise EncErr("fragmented length")


def u_items(w, n_announced, items, put_item):
    """general length determinant with fragmentation; `items` are written as long as there are any"""
    it = list(items)
    n = n_announced
    pos = 0
    while n >= 16384:
        m = min(n // 16384, 4)
        w.put(0xC0 | m, 8)
        for x in it[pos:pos + m * 16384]:
            put_item(x)
        pos += m * 16384
        n -= m * 16384
    u_len(w, n)
    for x in it[pos:]:
        put_item(x)


def u_nsnnwn(w, n):
    if n <= 63:
        w.put(0, 1)
        w.put(n, 6)
    else:
        w.put(1, 1)
        b = n.to_bytes(max(1, (n.bit_length() + 7) // 8), "big")
        u_len(w, len(b))
        w.octets(b)


def u_open(w, t, v, env, lie, path):
    w2 = BW()
    uper_w(w2, t, v, env, lie, path)
    b = w2.out() or b"\x00"
    if len(b) >= 16384:
        u_items(w, len(b), list(b), lambda x: w.put(x, 8))
    else:
        u_len(w, len(b))
        w.octets(b)


def uper_w(w, t, v, env, lie, path):
    t = deref(t, env)
    k = t["k"]
    L = lie.get(path, {})
    if k == "null":
        return
    if k == "bool":
        w.put(1 if v else 0, 1)
    elif k == "int":
        if t.get("lo") is not None:
            nb = range_bits(t["hi"] - t["lo"] + 1)
            w.put(L["raw"] if "raw" in L else v - t["lo"], nb)
        else:
            b = int_bytes(v)
            u_len(w, len(b))
            w.octets(b)
    elif k == "enum":
        w.put(L["raw"] if "raw" in L else v, range_bits(t["n"]))
    elif k in ("utf8", "oct"):
        if t.get("fix") is not None:
            w.octets(v)
        elif len(v) >= 16384:
            u_items(w, len(v), list(v), lambda x: w.put(x, 8))
        else:
            u_len(w, len(v))
            w.octets(v)
    elif k == "seq":
        adds = [(n, mt) for n, mt in (t["x"] or []) if n in v]
        nx = L.get("extbits")
        if t["x"] is not None:
            w.put(1 if (adds or nx) else 0, 1)
        for n, mt, o in t["m"]:
            if o:
                w.put(1 if n in v else 0, 1)
        for n, mt, o in t["m"]:
            if n in v:
                uper_w(w, mt, v[n], env, lie, path + (n,))
        if adds or nx:
            cnt = nx if nx else len(t["x"])
            u_nsnnwn(w, cnt - 1)
            for i in range(cnt):
                w.put(1 if nx or (i < len(t["x"]) and t["x"][i][0] in v) else 0, 1)
            for n, mt in adds:
                u_open(w, mt, v[n], env, lie, path + (n,))
    elif k == "cho":
        nr = len(t["a"])
        if "index" in L:
            if t["x"] is not None:
                w.put(0, 1)
            w.put(L["index"], range_bits(nr))
            return
        if "xindex" in L:
            w.put(1, 1)
            u_nsnnwn(w, L["xindex"])
            u_len(w, 1)
            w.octets(b"\x00")
            return
        i, x = v
        if t["x"] is not None:
            w.put(1 if i >= nr else 0, 1)
        if i < nr:
            w.put(i, range_bits(nr))
            uper_w(w, t["a"][i][1], x, env, lie, path + ("alt",))
        else:
            u_nsnnwn(w, i - nr)
            u_open(w, t["x"][i - nr][1], x, env, lie, path + ("alt",))
    elif k == "list":
        n = L.get("announce", len(v))
        sz = t["size"]
        put_item = lambda ix: uper_w(w, t["e"], ix[1], env, lie, path + (ix[0],))
        items = list(enumerate(v))
        if sz and sz[2]:
            inroot = sz[0] <= n <= sz[1]
            w.put(0 if inroot else 1, 1)
            if not inroot:
                sz = None
        if sz and sz[1] < 65536:
            if sz[0] != sz[1]:
                w.put(n - sz[0], range_bits(sz[1] - sz[0] + 1))
            for x in items:
                put_item(x)
        else:
            u_items(w, n, items, put_item)
    else:
        raise EncErr(k)


def uper(t, v, env, lie=None):
    w = BW()
    uper_w(w, t, v, env, lie or {}, ())
    return w.out() or b"\x00"


# ------------------------------------------------------------------ OER

def o_len(n):
    return ber_len(n)


def o_int(t, v):
    lo, hi = t.get("lo"), t.get("hi")
    if lo is not None and lo >= 0:
        for nb in (1, 2, 4, 8):
            if hi < 256 ** nb:
                return v.to_bytes(nb, "big")
    elif lo is not None:
        for nb in (1, 2, 4, 8):
            if -(256 ** nb) // 2 <= lo and hi < 256 ** nb // 2:
                return v.to_bytes(nb, "big", signed=True)
    b = int_bytes(v)
    return o_len(len(b)) + b


def o_tag(num):
    if num < 63:
        return bytes([0x80 | num])
    ds = [num & 0x7f]
    num >>= 7
    while num:
        ds.insert(0, 0x80 | (num & 0x7f))
        num >>= 7
    return bytes([0xbf] + ds)


def bits_bytes(bits):
    bits = list(bits) + [0] * ((-len(bits)) % 8)
    return bytes(int("".join(map(str, bits[i:i + 8])), 2) for i in range(0, len(bits), 8))


def oer(t, v, env, lie=None, path=()):
    lie = lie or {}
    t = deref(t, env)
    k = t["k"]
    L = lie.get(path, {})
    if k == "null":
        return b""
    if k == "bool":
        return b"\xff" if v else b"\x00"
    if k == "int":
        return o_int(t, L.get("raw", v))
    if k == "enum":
        x = L.get("raw", v)
        return bytes([x]) if x < 128 else bytes([0x80 | len(int_bytes(x))]) + int_bytes(x)
    if k in ("utf8", "oct"):
        return bytes(v) if t.get("fix") is not None else o_len(len(v)) + bytes(v)
    if k == "seq":
        adds = [(n, mt) for n, mt in (t["x"] or []) if n in v]
        nx = L.get("extbits")
        bits = []
        if t["x"] is not None:
            bits.append(1 if (adds or nx) else 0)
        bits += [1 if n in v else 0 for n, mt, o in t["m"] if o]
        out = bits_bytes(bits) if bits else b""
        for n, mt, o in t["m"]:
            if n in v:
                out += oer(mt, v[n], env, lie, path + (n,))
        if adds or nx:
            cnt = nx if nx else len(t["x"])
            bm = [1 if nx or t["x"][i][0] in v else 0 for i in range(cnt)]
            body = bytes([(-len(bm)) % 8]) + bits_bytes(bm)
            out += o_len(len(body)) + body
            for n, mt in adds:
                c = oer(mt, v[n], env, lie, path + (n,))
                out += o_len(len(c)) + c
        return out
    if k == "cho":
        nr = len(t["a"])
        if "index" in L:
            return o_tag(L["index"])
        i, x = v
        if i < nr:
            return o_tag(i) + oer(t["a"][i][1], x, env, lie, path + ("alt",))
        c = oer(t["x"][i - nr][1], x, env, lie, path + ("alt",))
        return o_tag(i) + o_len(len(c)) + c
    if k == "list":
        n = L.get("announce", len(v))
        nb = n.to_bytes(max(1, (n.bit_length() + 7) // 8), "big")
        return bytes([len(nb)]) + nb + b"".join(oer(t["e"], x, env, lie, path + (i,)) for i, x in enumerate(v))
    raise EncErr(k)
