"""C18, big rows (round 5): open-type values whose OWN encoding straddles the X.691 11.9 fragmentation boundaries.
The open type is a general length determinant in front of the complete encoding of the row value; above 16383 octets the
contents is cut into fragments of 64K/48K/32K/16K octets, each behind a `11xxxxxx` header, ended by a last fragment of
0..16383 octets (an EMPTY one when the contents is an exact multiple of 16K).  The modules of the earlier rounds carry small
row values only, so no open type of C18 ever reached a second fragment.

Everything here is Python's own reading of X.691 (bits as '0'/'1' strings), independent of the Coq model and of the C."""
import zlib

BOUNDARY_L = [16383, 16384, 16385, 32767, 32768, 32769, 49151, 49152, 49153, 65535, 65536, 65537, 81920]
KINDS = ("oct", "bits", "list")
ROW_ID = {"oct": 1, "bits": 2, "list": 3}

MODULE = """%(name)s DEFINITIONS AUTOMATIC TAGS ::= BEGIN
  BIG ::= CLASS { &id INTEGER UNIQUE, &Type } WITH SYNTAX { ID &id TYPE &Type }
  Blob ::= OCTET STRING
  Bits ::= BIT STRING
  Lst ::= SEQUENCE OF OCTET STRING (SIZE(1))
  BigSet BIG ::= { { ID 1 TYPE Blob } | { ID 2 TYPE Bits } | { ID 3 TYPE Lst } }
  Frame ::= SEQUENCE { id BIG.&id({BigSet}), value BIG.&Type({BigSet}{@id}), tail INTEGER (0..255) }
  FrameB ::= SEQUENCE { id BIG.&id({BigSet}), flag BOOLEAN, value BIG.&Type({BigSet}{@id}), tail INTEGER (0..255) }
END
"""


def big_module(name):
    return {"name": name, "text": MODULE % {"name": name}, "defs": [("Frame", None), ("FrameB", None)], "family": "bigrow"}


# the model's view of Frame (drv_c18.ml frame tokens): rows Blob / (Bits: not in the modelled algebra, placeholder never selected) / Lst
MODEL_FRAME = "comp i8[*,*,0] - 1 1 3 I1; o16[*,*,0] I2; n20 I3; q64[*,*,0]o16[1,1,0]"


_content_cache = {}


def content(seed, n):
    """byte i of the generator of harness/moddrv_c18v.inc"""
    if (seed, n) in _content_cache:
        return _content_cache[(seed, n)]
    out = bytearray(n)
    x = seed
    for i in range(n):
        x = (x * 1103515245 + 12345) & 0x7fffffff
        out[i] = (x >> 16) & 0xff
    if len(_content_cache) > 400:
        _content_cache.clear()
    _content_cache[(seed, n)] = bytes(out)
    return bytes(out)


def bits_of(b):
    return bin(int.from_bytes(b, "big"))[2:].zfill(8 * len(b)) if b else ""


def to_bytes(bits):
    bits += "0" * (-len(bits) % 8)
    return int(bits, 2).to_bytes(len(bits) // 8, "big") if bits else b""


def frag_sizes(n):
    """X.691 11.9.3.5-8: the counts written, in order, for n items: [(count, is a 16K-multiple fragment header)]"""
    out = []
    while True:
        if n < 16384:
            out.append((n, False))
            return out
        m = min(n // 16384, 4)
        out.append((m * 16384, True))
        n -= m * 16384


def counted(n, unit, data):
    """general length determinant(s) + n items of `unit` bits each (data = their bits)"""
    out, pos = [], 0
    for c, frag in frag_sizes(n):
        if frag:
            out.append(format(192 + c // 16384, "08b"))
        elif c <= 127:
            out.append(format(c, "08b"))
        else:
            out.append(format(c + 32768, "016b"))
        out.append(data[pos:pos + c * unit])
        pos += c * unit
    return "".join(out)


def counted_len(n, unit):
    """bits of counted(n, unit, .) without building it"""
    return sum((8 if frag or c <= 127 else 16) + c * unit for c, frag in frag_sizes(n))


def inner_len(kind, n):
    """octets of the complete encoding of the row value with n octets / bits / elements"""
    return max(1, (counted_len(n, 1 if kind == "bits" else 8) + 7) // 8)


def sizes_for(kind, L):
    """the n whose inner encoding is exactly L octets: smallest (and, for bit strings, the largest too: 7 / 0 padding bits)"""
    lo, hi = 0, 8 * L + 8
    while lo < hi:
        mid = (lo + hi) // 2
        if inner_len(kind, mid) >= L:
            hi = mid
        else:
            lo = mid + 1
    if inner_len(kind, lo) != L:
        return []
    res = [lo]
    if kind == "bits":
        hi2 = lo
        while inner_len(kind, hi2 + 1) == L:
            hi2 += 1
        if hi2 != lo:
            res.append(hi2)
    return res


def inner_bits(kind, n, seed):
    if kind == "bits":
        c = content(seed, (n + 7) // 8)
        b = counted(n, 1, (bits_of(c)[:n - 1] + "1") if n else "")        # last bit 1: C01-uper-bitstring-trailing-zero is not this layer's business
    else:
        b = counted(n, 8, bits_of(content(seed, n)))
    b += "0" * (-len(b) % 8)
    return b or "00000000"


def int_octets(v):
    n = 1
    while not -(1 << (8 * n - 1)) <= v < (1 << (8 * n - 1)):
        n += 1
    return v.to_bytes(n, "big", signed=True)


def inner_bytes(kind, n, seed):
    """the complete encoding of the row value (whole octets, at least one): the contents of the open type"""
    return to_bytes(inner_bits(kind, n, seed))


def frame_uper(kind, idv, n, seed, tail, flag):
    """(the frame's UPER, the octets of the open type's contents)"""
    ib = inner_bits(kind, n, seed)
    ic = int_octets(idv)
    bits = bits_of(bytes([len(ic)]) + ic)
    if flag >= 0:
        bits += "1" if flag else "0"
    bits += counted(len(ib) // 8, 8, ib)
    bits += format(tail, "08b")
    return to_bytes(bits), len(ib) // 8


def tlv(tag, c):
    n = len(c)
    if n < 128:
        return bytes([tag, n]) + c
    b = n.to_bytes((n.bit_length() + 7) // 8, "big")
    return bytes([tag, 0x80 | len(b)]) + b + c


def frame_der(kind, idv, n, seed, tail, flag):
    if kind == "oct":
        row = tlv(4, content(seed, n))
    elif kind == "bits":
        nb = (n + 7) // 8
        c = bytearray(content(seed, nb))
        if nb:
            c[-1] &= (0xff << (nb * 8 - n)) & 0xff
            c[-1] |= 1 << (nb * 8 - n)
        row = tlv(3, bytes([nb * 8 - n]) + bytes(c))
    else:
        row = tlv(0x30, b"".join(b"\x04\x01" + bytes([x]) for x in content(seed, n)))
    body = tlv(0x80, int_octets(idv))
    k = 1
    if flag >= 0:
        body += tlv(0x81, b"\xff" if flag else b"\x00")
        k = 2
    body += tlv(0xa0 | k, row) + tlv(0x80 | (k + 1), bytes([tail]))
    return tlv(0x30, body)


def crc(b):
    return "%08x" % (zlib.crc32(b) & 0xffffffff)


def model_value(kind, n, seed):
    """the row value in the syntax of drv_rt.ml"""
    if kind == "oct":
        return "O%s;" % content(seed, n).hex()
    if kind == "list":
        return "L{%s}" % "".join("O%02x;" % x for x in content(seed, n))
    return None


def fragment_cuts(idv, flag, L):
    """octet offsets in the frame's UPER where a fragment of the open type ends (for truncations); only when the open type is octet-aligned"""
    if flag >= 0:
        return []
    pos = 1 + len(int_octets(idv))
    cuts = []
    for c, frag in frag_sizes(L):
        pos += (1 if frag or c <= 127 else 2)
        cuts.append(pos)           # after the header
        pos += c
        cuts.append(pos)           # after the fragment
    return cuts
