"""c11_param — the distinctness clauses on PARAMETERIZED types (wave 4, seeded C11-7).

Region: the corpus of checks/c11.py had no parameterized type (notes/design/C11.md, "Limits").  asn1c runs the
identifier / enumeration / tag-distinctness passes on the CLONES it makes per specialization of  P {X} ::= ...;
which clone a reference  P {actuals}  gets is decided by asn1p_expr_compare() on the actual parameter lists
(asn1f_parameterization_fork).  A comparison that identifies two different lists makes one reference share the
other's clone: its own instantiation is never checked.  This layer sweeps

  template kind (CHOICE / SET / SEQUENCE with an OPTIONAL run) x template shape (parameter first / last / inside a
    nested CHOICE / two parameters / all untagged for AUTOMATIC) x where the template stands (before / after its uses)
  x 2-3 specializations whose inline actual parameters are RELATED: equal, one a prefix / suffix of the other,
    permutation, differing only in tags (number, class, mode) / only in identifiers / only in types / only in
    OPTIONAL flags / only in subtype constraints, enumerations that extend each other, named (referenced) actual
    parameters, primitive ones, the difference one level deeper
  x kind of the actual parameter (CHOICE: its alternatives are looked through; SEQUENCE / SET: only its own inside counts)
  x which part collides: nothing / the common part / the extra tail, with a template member or inside the parameter
  x order of the specializations (12, 21, 121)
  x use site (top-level assignment, member of a SEQUENCE)
  x EXPLICIT / IMPLICIT / AUTOMATIC TAGS.

Oracle: every reference is replaced IN PYTHON by the template body with its own actual parameters substituted
(X.683 8: that is what the reference denotes); the resulting plain module goes through the same extracted
specification (coq/Fix/Distinct.v) as every other case: ambiguous => asn1c must reject the parameterized text.
Model: the extracted xcheck on the same substituted module (what asn1c does when every reference is checked on its own
clone: coq/Fix/ParamDistinct.v, rejects_iff_some_reference_faulty) and the specialization table assign_tbl of the
reference's actual parameter lists (command c11ps): number of clones and the index each reference gets are compared
with the names  P<t>_<line>P<k>  in the generated headers."""
import os, re
from concurrent.futures import ThreadPoolExecutor

B, I, N, O = ('B',), ('I',), ('N',), ('O',)


def comp(n, ty, tag=None, fl='m'):
    return (n, tag, fl, ty)


def K(kind, *comps):
    return (kind, list(comps), None, [])


# ---------------------------------------------------------------- text
def ty_txt(C, t):
    k = t[0]
    if k == 'V':
        return "X%d" % t[1]
    if k == 'P':
        return "P%d { %s }" % (t[1], ", ".join(ty_txt(C, a) for a in t[2]))
    if k == 'W':
        return ty_txt(C, t[1]) + " " + t[2]
    if k in "STC":
        parts = [comp_txt(C, c) for c in t[1]]
        if t[2] is not None:
            parts.append("...")
            parts += [comp_txt(C, c) for c in t[2]]
            if t[3]:
                parts.append("...")
        parts += [comp_txt(C, c) for c in t[3]]
        return {"S": "SEQUENCE", "T": "SET", "C": "CHOICE"}[k] + " { " + ", ".join(parts) + " }"
    if k == 'Q':
        return "SEQUENCE OF " + ty_txt(C, t[1])
    return C.ty_txt(t)


def comp_txt(C, c):
    s = "c%d %s%s" % (c[0], C.tag_txt(c[1]), ty_txt(C, c[3]))
    if c[2] == 'o':
        s += " OPTIONAL"
    return s


def module_text(C, pm):
    """pm = {tagging, items: [('tmpl', t, nparams, body) | ('def', name, tag, ty)]}"""
    lines = ["M DEFINITIONS %s ::= BEGIN" % C.TAGGING[pm["tagging"]]]
    for it in pm["items"]:
        if it[0] == 'tmpl':
            lines.append("P%d { %s } ::= %s" % (it[1], ", ".join("X%d" % i for i in range(it[2])), ty_txt(C, it[3])))
        else:
            lines.append("T%d ::= %s%s" % (it[1], C.tag_txt(it[2]), ty_txt(C, it[3])))
    lines.append("END")
    return "\n".join(lines) + "\n"


# ---------------------------------------------------------------- substitution (the oracle's reading of a reference)
def strip_w(t):
    k = t[0]
    if k == 'W':
        return strip_w(t[1])
    if k in "STC":
        f = lambda l: [(c[0], c[1], c[2], strip_w(c[3])) for c in l]
        return (k, f(t[1]), None if t[2] is None else f(t[2]), f(t[3]))
    if k == 'Q':
        return ('Q', strip_w(t[1]))
    return t


def subst(t, actuals, tmpls):
    k = t[0]
    if k == 'V':
        return strip_w(expand(actuals[t[1]], tmpls))
    if k in "STC":
        f = lambda l: [(c[0], c[1], c[2], subst(c[3], actuals, tmpls)) for c in l]
        return (k, f(t[1]), None if t[2] is None else f(t[2]), f(t[3]))
    if k == 'Q':
        return ('Q', subst(t[1], actuals, tmpls))
    return t


def expand(t, tmpls):
    """replace every reference P<t> { actuals } by the body of P<t> with the actual parameters substituted"""
    k = t[0]
    if k == 'P':
        nparams, body = tmpls[t[1]]
        return subst(body, [expand(a, tmpls) for a in t[2]], tmpls)
    if k in "STC":
        f = lambda l: [(c[0], c[1], c[2], expand(c[3], tmpls)) for c in l]
        return (k, f(t[1]), None if t[2] is None else f(t[2]), f(t[3]))
    if k == 'Q':
        return ('Q', expand(t[1], tmpls))
    if k == 'W':
        return expand(t[1], tmpls)
    return t


def substituted(pm):
    tmpls = {it[1]: (it[2], it[3]) for it in pm["items"] if it[0] == 'tmpl'}
    return (pm["tagging"], [(it[1], it[2], expand(it[3], tmpls)) for it in pm["items"] if it[0] == 'def'])


def references(pm):
    """(template, def name, member position or None, [actuals]) in the order the fixer meets them: definitions in source
    order, members in order"""
    out = []

    def walk(t, dn, pos):
        k = t[0]
        if k == 'P':
            out.append((t[1], dn, pos, t[2]))
        elif k in "STC":
            for i, c in enumerate(list(t[1]) + list(t[2] or []) + list(t[3])):
                walk(c[3], dn, i if pos is None else pos)
        elif k == 'Q':
            walk(t[1], dn, pos)
    for it in pm["items"]:
        if it[0] == 'def':
            walk(it[3], it[1], None)
    return out


# ---------------------------------------------------------------- the model's view of an actual parameter list
META = {"TYPE": 1, "TYPEREF": 2, "VALUE": 3}
ETYPE = {"REFERENCE": 1, "UNIVERVAL": 2, 'B': 10, 'N': 11, 'I': 12, 'E': 14, 'O': 16, 'S': 18, 'T': 19, 'C': 20, 'Q': 21}
TCLASS = {'u': 1, 'a': 2, 'c': 3, 'p': 4}
TMODE = {'d': 0, 'i': 1, 'e': 2}
FLAGS = {'m': 0, 'o': 1, 'd': 2}


def hexs(s):
    return s.encode().hex() if s else "-"


def pexpr(t, ident=None, tag=None, fl='m'):
    """tokens of coq/Fix/ParamSpec.v's pexpr (ocaml/drv_c11w.ml): the fields asn1p_expr_compare() reads
    (meta type, expression type, identifier, reference, value, tag, marker, members) and the two it does not
    (subtype constraint, nested actual parameter list)"""
    constr = None
    if t[0] == 'W':
        constr, t = t[2], t[1]
    k = t[0]
    tg = ["0", "0", "0"] if tag is None else [str(TCLASS[tag[0]]), str(TMODE[tag[2]]), str(tag[1])]

    def E(meta, et, ref, val, members, pspecs=()):
        out = ["E", str(META[meta]), str(ETYPE[et]), hexs(ident) if ident is not None else "-"]
        out += (["R", "0", "1", hexs(ref)] if ref else ["-"]) + (val or ["-"]) + tg + [str(FLAGS[fl]), hexs(constr) if constr else "-"]
        out += [str(len(pspecs))] + [x for ps in pspecs for x in ps]
        out += [str(len(members))] + [x for mm in members for x in mm]
        return out
    if k in "BINO":
        return E("TYPE", k, None, None, [])
    if k == 'E':
        return E("TYPE", 'E', None, None, [["E", str(META["VALUE"]), str(ETYPE["UNIVERVAL"]), hexs("e%d" % n), "-"] + (["I", str(v)] if v is not None else ["-"])
                                           + ["0", "0", "0", "0", "-", "0", "0"] for n, v in t[1]])
    if k in "STC":
        assert t[2] is None and not t[3]
        return E("TYPE", k, None, None, [pexpr(c[3], "c%d" % c[0], c[1], c[2]) for c in t[1]])
    if k == 'Q':
        return E("TYPE", 'Q', None, None, [pexpr(t[1])])
    if k == 'R':
        return E("TYPEREF", "REFERENCE", "T%d" % t[1], None, [])
    if k == 'P':
        return E("TYPEREF", "REFERENCE", "P%d" % t[1], None, [], [pexpr(a) for a in t[2]])
    raise ValueError(t)


def alist_tokens(actuals):
    return ["L", str(len(actuals))] + [x for a in actuals for x in pexpr(a)]


# ---------------------------------------------------------------- generation
def relations(k):
    """(label, actual 1, actual 2) for actual parameters of kind k (CHOICE / SET / SEQUENCE)"""
    c = comp
    Ic = lambda s: ('W', I, s)
    R = []
    R.append(("equal", K(k, c(1, I), c(2, N)), K(k, c(1, I), c(2, N))))
    R.append(("equal-bad", K(k, c(1, I), c(2, B)), K(k, c(1, I), c(2, B))))
    R.append(("prefix:ok", K(k, c(1, I)), K(k, c(1, I), c(2, N))))
    R.append(("prefix:tail-vs-template", K(k, c(1, I)), K(k, c(1, I), c(2, B))))                 # the witness of seeded C11-7
    R.append(("prefix:tail-vs-template-tag", K(k, c(1, I)), K(k, c(1, I), c(2, O, ('c', 1, 'd')))))
    R.append(("prefix:tail-vs-common", K(k, c(1, I, fl='o' if k == 'S' else 'm')), K(k, c(1, I, fl='o' if k == 'S' else 'm'), c(2, I))))
    R.append(("prefix:tail-identifier", K(k, c(1, I)), K(k, c(1, I), c(1, N))))
    R.append(("prefix:common-bad", K(k, c(1, B)), K(k, c(1, B), c(2, N))))
    R.append(("prefix:longer", K(k, c(1, I), c(2, N)), K(k, c(1, I), c(2, N), c(3, B))))
    R.append(("prefix:two-more", K(k, c(1, I)), K(k, c(1, I), c(2, N), c(3, B))))
    R.append(("suffix:ok", K(k, c(1, I)), K(k, c(9, N), c(1, I))))
    R.append(("suffix:head-vs-template", K(k, c(1, I)), K(k, c(9, B), c(1, I))))
    R.append(("suffix:head-vs-common", K(k, c(1, I)), K(k, c(9, I, fl='o' if k == 'S' else 'm'), c(1, I))))
    R.append(("suffix:head-identifier", K(k, c(1, I)), K(k, c(1, N), c(1, I))))
    R.append(("infix", K(k, c(1, I), c(3, N)), K(k, c(1, I), c(2, B), c(3, N))))
    R.append(("perm:ok", K(k, c(1, I), c(2, N)), K(k, c(2, N), c(1, I))))
    R.append(("perm:run", K(k, c(1, I, fl='o'), c(2, O), c(3, I)), K(k, c(1, I, fl='o'), c(3, I), c(2, O))) if k == 'S' else
             ("perm:bad", K(k, c(1, I), c(2, B)), K(k, c(2, B), c(1, I))))
    R.append(("tags:number-inside", K(k, c(1, I, ('c', 5, 'd')), c(2, N, ('c', 6, 'd'))), K(k, c(1, I, ('c', 5, 'd'), 'o' if k == 'S' else 'm'), c(2, N, ('c', 5, 'd')))))
    R.append(("tags:number-vs-template", K(k, c(1, I, ('c', 0, 'd'))), K(k, c(1, I, ('c', 1, 'd')))))
    R.append(("tags:class", K(k, c(1, I, ('a', 1, 'd'))), K(k, c(1, I, ('c', 1, 'd')))))
    R.append(("tags:mode", K(k, c(1, I, ('c', 0, 'i'))), K(k, c(1, I, ('c', 0, 'e')))))
    R.append(("tags:present", K(k, c(1, B, ('c', 0, 'd'))), K(k, c(1, B))))
    R.append(("names", K(k, c(1, I), c(2, N)), K(k, c(1, I), c(1, N))))
    R.append(("types", K(k, c(1, I)), K(k, c(1, B))))
    R.append(("types:inside", K(k, c(1, I, fl='o' if k == 'S' else 'm'), c(2, N)), K(k, c(1, I, fl='o' if k == 'S' else 'm'), c(2, I))))
    if k != 'C':
        R.append(("flags", K(k, c(1, I), c(2, I, ('c', 0, 'd'))), K(k, c(1, I, fl='o'), c(2, I, ('c', 0, 'd')))))
        R.append(("flags:run", K('S', c(1, I), c(2, I)), K('S', c(1, I, fl='o'), c(2, I))))
    R.append(("constraint", K(k, c(1, Ic("(0..7)"))), K(k, c(1, Ic("(0..8)")))))
    R.append(("constraint-bad", K(k, c(1, Ic("(0..7)")), c(1, N)), K(k, c(1, Ic("(0..8)")), c(1, N))))
    R.append(("deep:prefix-identifier", K(k, c(1, K('S', c(1, I)))), K(k, c(1, K('S', c(1, I), c(1, B))))))
    R.append(("deep:prefix-tags", K(k, c(1, K('C', c(1, I)))), K(k, c(1, K('C', c(1, I), c(2, B))))))
    R.append(("deep:ok", K(k, c(1, K('C', c(1, I)))), K(k, c(1, K('C', c(1, I), c(2, N))))))
    R.append(("kind", K(k, c(1, I), c(2, I, ('c', 3, 'd'))), K({'C': 'T', 'T': 'S', 'S': 'C'}[k], c(1, I), c(2, I, ('c', 3, 'd')))))
    R.append(("of", ('Q', K(k, c(1, I))), ('Q', K(k, c(1, I), c(1, B)))))
    return R


def other_relations():
    E = lambda *its: ('E', list(its))
    R = []
    R.append(("enum:prefix-ok", E((1, None), (2, None)), E((1, None), (2, None), (3, None))))
    R.append(("enum:prefix-name", E((1, None), (2, None)), E((1, None), (2, None), (1, None))))
    R.append(("enum:prefix-value", E((1, 1), (2, 2)), E((1, 1), (2, 2), (3, 1))))
    R.append(("enum:value-only", E((1, 1), (2, 2)), E((1, 1), (2, 1))))
    R.append(("enum:name-only", E((1, 1), (2, 2)), E((1, 1), (1, 2))))
    R.append(("enum:valued-or-not", E((1, None), (2, None)), E((1, 0), (2, 0))))
    R.append(("prims", I, B))
    R.append(("prims-ok", I, O))
    R.append(("prim-vs-choice", B, K('C', comp(1, B))))
    R.append(("named", ('R', 801), ('R', 802)))
    R.append(("named-ok", ('R', 801), ('R', 803)))
    R.append(("named-vs-inline", ('R', 802), K('C', comp(1, I), comp(2, B))))
    R.append(("enum:value-mod32", E((1, 1), (2, 2)), E((1, 1), (2, 2 + 2**32))))
    R.append(("enum:value-mod32-bad", E((1, 5), (2, 6), (3, 7)), E((1, 5), (2, 6 + 2**32), (3, 6 + 2**32))))
    # the actual parameter is itself an instantiation: of a parameterized CHOICE (P2: looked through) or SEQUENCE (P3)
    R.append(("nested:choice", ('P', 2, [I]), ('P', 2, [I])))
    R.append(("nested:choice-bad", ('P', 2, [B]), ('P', 2, [B])))
    R.append(("nested:seq", ('P', 3, [I]), ('P', 3, [I])))
    R.append(("nested:seq-inner-bad", ('P', 3, [K('T', comp(1, I), comp(2, I))]), ('P', 3, [K('T', comp(1, I), comp(2, I))])))
    return R


NESTED_TMPLS = [('tmpl', 2, 1, K('C', comp(1, ('V', 0)), comp(7, O))), ('tmpl', 3, 1, K('S', comp(1, ('V', 0)), comp(7, O)))]


def late_forked_constructed_actual(pm):
    """AUTOMATIC TAGS, and an actual parameter of a NESTED instantiation Q {...} is a constructed type written in place while
    Q's template stands BEFORE the definition that uses it: Q's specialization is forked after the fixer has passed Q, so its
    members are never automatically tagged (predicate of finding C11-param-late-spec-untagged)"""
    if pm["tagging"] != 'A':
        return False
    pos = {it[1]: i for i, it in enumerate(pm["items"]) if it[0] == 'tmpl'}
    for i, it in enumerate(pm["items"]):
        if it[0] != 'def':
            continue
        for rf in references({"tagging": pm["tagging"], "items": [it]}):
            for a in rf[3]:
                if a[0] == 'P' and pos.get(a[1], len(pm["items"])) < i and any(strip_w(x)[0] in "STC" for x in a[2]):
                    return True
    return False


def late_forked_nested(pm):
    """AUTOMATIC TAGS and a NESTED instantiation Q {...} whose template stands before the definition that uses it (whatever
    the actual parameter is): the members of Q's late specialization keep their universal tags, so a clash that exists only
    between the AUTOMATIC tags of Q's members and a tag written by hand around the use goes unseen - the ACCEPTING face of
    finding C11-param-late-spec-untagged"""
    if pm["tagging"] != 'A':
        return False
    pos = {it[1]: i for i, it in enumerate(pm["items"]) if it[0] == 'tmpl'}
    for i, it in enumerate(pm["items"]):
        if it[0] != 'def':
            continue
        for rf in references({"tagging": pm["tagging"], "items": [it]}):
            for a in rf[3]:
                if a[0] == 'P' and pos.get(a[1], len(pm["items"])) < i:
                    return True
    return False


NAMED = [(801, None, K('C', comp(1, I))), (802, None, K('C', comp(1, I), comp(2, B))), (803, None, K('C', comp(1, I), comp(2, N)))]


def template(kind, shape):
    """body of  P {X0[, X1]}: the parameter next to a BOOLEAN and a [1]-tagged NULL; in a SEQUENCE the members around
    the parameter are OPTIONAL so that the run check compares them"""
    V0, V1 = ('V', 0), ('V', 1)
    o = 'o' if kind == 'S' else 'm'
    if shape == "first":
        return 1, K(kind, comp(1, V0, fl=o), comp(2, B, fl=o), comp(3, N, ('c', 1, 'd')))
    if shape == "last":
        return 1, K(kind, comp(2, B, fl=o), comp(3, N, ('c', 1, 'd'), o), comp(1, V0))
    if shape == "nested":
        return 1, K(kind, comp(4, K('C', comp(1, V0), comp(5, N, ('c', 1, 'd'))), fl=o), comp(2, B))
    if shape == "untagged":
        return 1, K(kind, comp(1, V0, fl=o), comp(2, B))
    if shape == "two":
        return 2, K(kind, comp(1, V0, fl=o), comp(2, V1, fl=o), comp(3, N, ('c', 1, 'd')))
    if shape == "seqof":
        return 1, K(kind, comp(1, ('Q', V0), ('c', 0, 'd')), comp(2, B))
    raise ValueError(shape)


ORDERS = {"12": [0, 1], "21": [1, 0], "121": [0, 1, 0], "212": [1, 0, 1], "1": [0], "2": [1]}


def build(tagging, tk, shape, a1, a2, order, site="top", tmpl_last=False, aux=()):
    nparams, body = template(tk, shape)
    acts = [a1, a2]
    uses = []
    for j, w in enumerate(ORDERS[order]):
        a = acts[w]
        alist = [a] if nparams == 1 else list(a)
        uses.append(('P', 1, alist))
    items = [('def',) + d for d in aux]
    if any(isinstance(a, tuple) and a and a[0] == 'P' for a in acts):
        items += NESTED_TMPLS
    tm = ('tmpl', 1, nparams, body)
    if site == "top":
        defs = [('def', 10 + j, None, u) for j, u in enumerate(uses)]
    else:
        defs = [('def', 10, None, K('S', *[comp(j + 1, u, ('c', 10 + j, 'd')) for j, u in enumerate(uses)]))]
    items += (defs + [tm]) if tmpl_last else ([tm] + defs)
    return {"tagging": tagging, "items": items}


def gen_cases(rng, tier):
    cases = []
    others = other_relations()
    # directed: every relation x template kind x order, parameter first, EXPLICIT / IMPLICIT alternating
    n = 0
    for tk in "CTS":
        for lab, a1, a2 in relations('C') + others:
            for order in ("12", "21", "121"):
                n += 1
                aux = NAMED if lab.startswith("named") else ()
                cases.append(("pm:%s:first:C:%s:%s" % (tk, lab, order), build("EI"[n % 2], tk, "first", a1, a2, order, aux=aux)))
    # actual parameters of kind SET / SEQUENCE (only their own inside counts)
    for ak in "TS":
        for lab, a1, a2 in relations(ak):
            for order in ("12", "21"):
                n += 1
                cases.append(("pm:%s:first:%s:%s:%s" % ("CTS"[n % 3], ak, lab, order), build("EI"[n % 2], "CTS"[n % 3], "first", a1, a2, order)))
    # the other shapes, AUTOMATIC TAGS, member sites, template after its uses
    extra = []
    # nested instantiations as actual parameters at every member site (they were kept to the direct-member shape while
    # C11-param-nested-instantiation-recursion was open)
    for tk in "CTS":
        for shape in ("last", "nested", "untagged", "seqof"):
            for lab, a1, a2 in relations('C') + others:
                for order in ("12", "21"):
                    for tg in "EIA":
                        aux = NAMED if lab.startswith("named") else ()
                        extra.append(("pm:%s:%s:C:%s:%s:%s" % (tk, shape, lab, order, tg), build(tg, tk, shape, a1, a2, order, aux=aux)))
        for lab, a1, a2 in relations('C') + others:
            for order in ("12", "21", "212"):
                aux = NAMED if lab.startswith("named") else ()
                extra.append(("pm:%s:first:C:%s:%s:A" % (tk, lab, order), build('A', tk, "first", a1, a2, order, aux=aux)))
                extra.append(("pm:%s:first:C:%s:%s:member" % (tk, lab, order), build("EIA"[len(extra) % 3], tk, "first", a1, a2, order, site="member", aux=aux)))
                extra.append(("pm:%s:first:C:%s:%s:tmpl-last" % (tk, lab, order), build("EI"[len(extra) % 2], tk, "first", a1, a2, order, tmpl_last=True, aux=aux)))
        # two parameters: the related lists differ in one position only / are permutations of each other
        two = [("2p:swap", (I, B), (B, I)), ("2p:swap-ok", (I, O), (O, I)), ("2p:second", (I, O), (I, I)), ("2p:first", (O, I), (I, I)),
               ("2p:prefix-second", (I, K('C', comp(1, O))), (I, K('C', comp(1, O), comp(2, I)))),
               ("2p:prefix-first", (K('C', comp(1, O)), I), (K('C', comp(1, O), comp(2, I)), I)),
               ("2p:moved", (K('C', comp(1, O)), K('C', comp(1, O), comp(2, B))), (K('C', comp(1, O), comp(2, B)), K('C', comp(1, O))))]
        for lab, a1, a2 in two:
            for order in ("12", "21"):
                for tg in "EIA":
                    extra.append(("pm:%s:two:%s:%s:%s" % (tk, lab, order, tg), build(tg, tk, "two", a1, a2, order)))
    extra = rng.shuffle(extra)
    room = 300 if tier == "quick" else 3000
    # round-robin over (shape/site, relation) so that a small budget still meets every relation
    by = {}
    for lab, pm in extra:
        p = lab.split(":")
        by.setdefault((p[2], p[4] if p[2] != "two" else p[3]), []).append((lab, pm))
    keys = rng.shuffle(sorted(by))
    i = 0
    while room > 0 and any(by.values()):
        kx = keys[i % len(keys)]
        i += 1
        if by[kx]:
            cases.append(by[kx].pop())
            room -= 1
    return cases


# ---------------------------------------------------------------- reading the clones off the output
RE_CLONE = re.compile(r"\bP(\d+)_(\d+)P(\d+)\b")


def grab_clones(d, files):
    """{template: sorted clone indices}, {definition or (definition, member): (template, index)} from the headers"""
    clones, uses = {}, {}
    for fn in files:
        if not fn.endswith(".h"):
            continue
        txt = open(os.path.join(d, fn), errors="replace").read()
        for t, ln, k in RE_CLONE.findall(txt):
            clones.setdefault(int(t), set()).add(int(k))
        m = re.match(r"T(\d+)\.h$", fn)
        if m:
            dn = int(m.group(1))
            mm = re.search(r"typedef\s+(?:struct\s+)?P(\d+)_\d+P(\d+)(?:_t)?\s+T%d_t\s*;" % dn, txt)
            if mm:
                uses[str(dn)] = (int(mm.group(1)), int(mm.group(2)))
            for mm in re.finditer(r"^\s*(?:struct\s+)?P(\d+)_\d+P(\d+)(?:_t)?\s+\*?c(\d+)\s*(?:/\*.*\*/)?\s*;", txt, re.M):
                uses["%d.c%s" % (dn, mm.group(3))] = (int(mm.group(1)), int(mm.group(2)))
    return {"clones": {str(t): sorted(v) for t, v in clones.items()}, "uses": uses}


def run_layer(run, rng, tier, model, asn1c, skel, scratch_dir, ncpu, run_lines, C):
    def viol(kind, rep, no_input=False):
        run.count("pm:violation:" + kind)
        run.violation(kind, rep, no_input=no_input)

    cases = gen_cases(rng, tier)
    seen, work = set(), []
    for lab, pm in cases:
        text = module_text(C, pm)
        if text in seen:
            continue
        seen.add(text)
        m = substituted(pm)
        refs = references(pm)
        work.append((lab, pm, text, m, C.mod_line(m), refs))
    lines = [w[4] for w in work]
    plines = []
    for w in work:
        refs = w[5]
        plines.append(" ".join(["c11ps", str(len(refs))] + [x for r in refs for x in alist_tokens(r[3])]))
    rc, mo, me = run_lines(model, lines + plines)
    if rc != 0 or len(mo) != 2 * len(lines) or any(o.startswith("EXN") or o == "BADCMD" or o.startswith("BADAST") for o in mo):
        bad = [o for o in mo if o.startswith("EXN") or o == "BADCMD" or o.startswith("BADAST")][:3]
        raise RuntimeError("model driver failed on the parameterized layer: rc=%s %d/%d %s %s" % (rc, len(mo), 2 * len(lines), bad, me[-300:]))
    po = mo[len(lines):2 * len(lines)]
    mo = mo[:len(lines)]
    root = os.path.join(scratch_dir, "c11pm")
    os.makedirs(root, exist_ok=True)
    with ThreadPoolExecutor(max_workers=ncpu) as ex:
        results = list(ex.map(C.run_asn1c, [(i, work[i][2], asn1c, skel, root, grab_clones) for i in range(len(work))]))
    for wi, ((lab, pm, text, m, ln, refs), o, pout, r) in enumerate(zip(work, mo, po, results)):
        p = lab.split(":")
        run.count("pm:template:" + p[1] + ":" + p[2])
        run.count("pm:relation:" + (p[4] if p[2] != "two" else p[3]).split("-")[0])
        run.count("pm:order:" + [x for x in p if x in ORDERS][0])
        g = r.pop("grabbed", None) or {"clones": {}, "uses": {}}
        r["clones"] = g
        f0 = dict(kv.split("=", 1) for kv in o.split())
        if r["verdict"] == "REJECT" and r["classes"] == ["tagclash"] and f0["spec"] == "OK" and f0["wf"] == "1" and late_forked_constructed_actual(pm):
            # the specialization of the inner template is forked after the fixer's pass over that template: no automatic tags
            # (the single-file face of C12-param-late-spec-unfixed, reachable since nested instantiations keep their parameters)
            fid = "C11-param-late-spec-untagged"
            if any(fd["id"] == fid for fd in run.findings):
                run.case(ln)
                run.count("asn1c:REJECT")
                run.known_finding(fid, lab)
                run.count("known:" + fid)
                continue
        if r["verdict"] == "ACCEPT" and not r["classes"] and f0["spec"] == "tags" and f0["wf"] == "1" and late_forked_nested(pm):
            # the accepting face of the same defect: the inner specialization's members are not automatically tagged, so the
            # clash between their automatic tags and a hand-written tag next to the use is not seen (first drawn at VERIF_SEED=3)
            fid = "C11-param-late-spec-untagged"
            if any(fd["id"] == fid for fd in run.findings):
                run.case(ln)
                run.count("asn1c:ACCEPT")
                run.known_finding(fid, lab)
                run.count("known:" + fid)
                continue
        clean, f, fam = C.judge(run, lab, m, ln, o, r, text,
                                replay_cmd="write module_asn1 to m.asn1 in an empty directory; asn1c -S <skeletons> -fcompound-names m.asn1; echo $?; "
                                           "grep -ho 'P[0-9]*_[0-9]*P[0-9]*' *.h | sort -u   (model_line = the module after substituting every reference, in Python)")
        run.count("pm:spec:" + ("accept" if (f["spec"] == "OK" and f["wf"] == "1") else "reject"))
        # ---- the specialization table: number of clones and the clone every reference gets
        toks = pout.split()
        if toks[0] != "OK":
            viol("correspondence:Fix.ParamDistinct.assign_tbl", dict(label=lab, module_asn1=text, model=pout, what="the model's lookup aborts"), no_input=True)
            continue
        nclones = int(toks[2].split("=")[1])
        ks = [int(x) for x in toks[3:]]
        run.count("pm:references", len(refs))
        run.count("pm:clones", nclones)
        if toks[1] == "good=0":
            run.count("pm:outside-good-fragment(constraints)")
        # independent count: different actual parameter lists = different texts (subtype constraints left out: they are
        # ignored by the comparison, finding C10-param-actuals-compared-shallowly, and cannot change a tag)
        keytexts = []
        for rf in refs:
            kt = ", ".join(ty_txt(C, strip_w(a)) for a in rf[3])
            if kt not in keytexts:
                keytexts.append(kt)
        want_idx = [keytexts.index(", ".join(ty_txt(C, strip_w(a)) for a in rf[3])) for rf in refs]
        rep = {"label": lab, "module_asn1": text, "model": pout, "asn1c": {k: r[k] for k in ("rc", "verdict", "classes", "nfiles", "clones")},
               "references": [", ".join(ty_txt(C, a) for a in rf[3]) for rf in refs],
               "replay_cmd": "write module_asn1 to m.asn1 in an empty directory; asn1c -S <skeletons> -fcompound-names m.asn1; grep -ho 'P[0-9]*_[0-9]*P[0-9]*' *.h | sort -u"}
        if (nclones, ks) != (len(keytexts), want_idx):
            viol("correspondence:Fix.ParamDistinct.assign_tbl", dict(rep, what="the model's table (%d clones, indices %s) is not the partition of the references by their actual parameters (%d, %s)"
                                                                        % (nclones, ks, len(keytexts), want_idx)), no_input=True)
        if r["verdict"] != "ACCEPT":
            continue
        got = g["clones"].get("1", [])
        obad = None
        if got != list(range(len(keytexts))):
            obad = "%d different actual parameter lists, clones in the output: %s" % (len(keytexts), ["P1_*P%d" % k for k in got])
        else:
            for rf, wk in zip(refs, want_idx):
                key = str(rf[1]) if rf[2] is None else "%d.c%d" % (rf[1], rf[2] + 1)
                u = g["uses"].get(key)
                if u is not None and u != (1, wk):
                    obad = "reference %s { %s } is compiled as clone P%d_*P%d, its actual parameters are those of clone %d" % (
                        "P1", ", ".join(ty_txt(C, a) for a in rf[3]), u[0], u[1], wk)
                    break
                if u is not None:
                    run.count("pm:use-resolved-observed")
        if obad:
            run.count("oracle_deviation")
            viol("oracle:specialization-per-actual-parameters", dict(rep, what=obad, input=text))
        if got != sorted(set(ks)):
            run.count("model_vs_code_diff")
            viol("correspondence:Fix.ParamDistinct.assign_tbl", dict(rep, what="model: clones %s, output: %s" % (sorted(set(ks)), got)), no_input=obad is None)
    return len(work)
