"""c03_util — encoding-variant generators for C03, independent of the Coq model and of the C:
 * BER: parses the canonical DER along the model tree into a TLV tree, then re-writes it with other
   length forms (long form with padding octets, indefinite on constructed TLVs), SET OF elements in
   another order, OCTET STRINGs in constructed (segmented) form;
 * OER: an encoder of X.696 for the modelled algebra with a choice of length-determinant forms;
 * XER: layout variants of a given XER text (whitespace / comments between elements, empty-element tags).
Also the classifier of the tag chains handled by one ber_check_tags call (known finding
C03-ber-chain-mixed-lengths)."""
import re
from modgen import first_tags


# ---------------------------------------------------------------- TLV tree

class Node:
    __slots__ = ("tagb", "tag", "cons", "content", "kids", "kind", "chain", "slots", "lf", "perm", "seg", "tree", "own_desc")

    def __init__(self):
        self.kids, self.kind, self.chain, self.slots = [], None, None, None
        self.own_desc = False
        self.lf, self.perm, self.seg, self.tree = "s", None, None, None


def parse_tlv(b, pos=0):
    """one definite-length TLV at b[pos:] -> (Node, end)"""
    n = Node()
    p = pos
    first = b[p]
    p += 1
    num = first & 31
    if num == 31:
        num = 0
        while True:
            o = b[p]
            p += 1
            num = num * 128 + (o & 127)
            if o < 128:
                break
    n.tagb = bytes(b[pos:p])
    n.tag = num * 4 + (first >> 6)
    n.cons = bool(first & 32)
    l = b[p]
    p += 1
    if l >= 128:
        k = l - 128
        if k == 0:
            raise ValueError("indefinite length in DER")
        l = int.from_bytes(b[p:p + k], "big")
        p += k
    if p + l > len(b):
        raise ValueError("TLV exceeds buffer")
    n.content = bytes(b[p:p + l])
    if n.cons:
        q = p
        while q < p + l:
            kid, q = parse_tlv(b, q)
            n.kids.append(kid)
        if q != p + l:
            raise ValueError("children do not fill the TLV")
    return n, p + l


class Plan:
    """the TLV tree of one DER encoding annotated along the model tree"""

    def __init__(self, tree, der):
        self.root, end = parse_tlv(der, 0)
        if end != len(der):
            raise ValueError("trailing bytes after the DER encoding")
        self.nodes = []
        self.chains = []
        self.root_tree = tree
        self.walk(tree, self.root, self.new_chain())

    def new_chain(self):
        self.chains.append([])
        return len(self.chains) - 1

    def walk(self, tree, node, chain):
        """chain = index of the list of TLVs whose tags one ber_check_tags call handles: the EXPLICIT
        wrappers of a type together with the type's own tag; a CHOICE ends the chain (CHOICE_decode_ber
        checks its own wrappers, then the alternative's decoder starts over); members, alternatives
        and elements start a new one."""
        k = tree[0]
        if k == "?":
            return self.walk(tree[1], node, chain)
        if k == "c":
            for a in tree[1]:
                if node.tag in first_tags(a):
                    return self.walk(a, node, self.new_chain())
            raise ValueError("no alternative for tag %d" % node.tag)
        if node.tag != tree[1]:
            raise ValueError("tag %d where %d expected" % (node.tag, tree[1]))
        node.kind, node.chain, node.tree = k, chain, tree
        self.chains[chain].append(node)
        self.nodes.append(node)
        if k == "x":
            self.walk(tree[2], node.kids[0], chain)
        elif k == "s":
            i = 0
            node.slots = []
            for m in tree[2]:
                if m[0] == "?" and not (i < len(node.kids) and node.kids[i].tag in first_tags(m)):
                    node.slots.append(None)
                    continue
                node.slots.append(node.kids[i])
                self.walk(m, node.kids[i], self.new_chain())
                i += 1
            if i != len(node.kids):
                raise ValueError("unexpected member")
        elif k in ("q", "t"):
            for kid in node.kids:
                self.walk(tree[3], kid, self.new_chain())

    def annotate_defs(self, mod, tn):
        """marks the OCTET STRING TLVs whose C type descriptor is not the plain asn_DEF_OCTET_STRING but one
        generated for a type DEFINITION that carries tags (T ::= [n] OCTET STRING, also through references):
        the descriptor's all_tags then has more than one entry (finding C03-ber-constructed-string-tagged-type)"""
        env = dict(mod["defs"])
        self._ann(env[tn], self.root_tree, self.root, env, True)

    def _ann(self, D, tree, node, env, at_def):
        if tree[0] == "?":
            tree = tree[1]
        while tree[0] == "x":
            tree, node = tree[2], node.kids[0]
        tl = at_def and bool(D.get("tag"))
        while D["k"] == "ref":
            D = env[D["ref"]]
            tl = tl or bool(D.get("tag"))
        k = D["k"]
        if k == "oct":
            node.own_desc = tl
        elif k == "seq":
            for (name, mt, opt), mtree, slot in zip(D["ms"], tree[2], node.slots):
                if slot is not None:
                    self._ann(mt, mtree, slot, env, False)
        elif k == "choice":
            for (name, mt, opt), atree in zip(D["ms"], tree[1]):
                if node.tag in first_tags(atree):
                    self._ann(mt, atree, node, env, False)
                    break
        elif k in ("seqof", "setof"):
            for kid in node.kids:
                self._ann(D["el"], tree[3], kid, env, False)

    # ---- the Python value (for the OER encoder)
    def value(self, tree=None, node=None):
        if tree is None:
            tree, node = self.root_tree, self.root
        return to_value(tree, node)

    def reset(self):
        for n in self.nodes:
            n.lf, n.perm, n.seg = "s", None, None

    def mixed_chains(self):
        """chains (>= 2 TLVs) that mix definite and indefinite lengths"""
        out = []
        for c in self.chains:
            if len(c) >= 2:
                forms = set("i" if n.lf == "i" else "d" for n in c)
                if len(forms) == 2:
                    out.append(c)
        return out

    def encode(self):
        """-> (bytes, choice-tree string for the Coq ber_var or None when the variant is outside its family)"""
        b, ch = enc_node(self.root)
        return b, ch


def to_value(tree, node):
    k = tree[0]
    if k == "?":
        return to_value(tree[1], node)
    if k == "c":
        for i, a in enumerate(tree[1]):
            if node.tag in first_tags(a):
                return ("C", i, to_value(a, node))
        raise ValueError("alt")
    if k == "x":
        return to_value(tree[2], node.kids[0])
    if k == "b":
        return node.content != b"\x00"
    if k == "n":
        return None
    if k == "i":
        return int.from_bytes(node.content, "big", signed=True)
    if k == "o":
        return node.content
    if k == "s":
        out = []
        for m, s in zip(tree[2], node.slots):
            if m[0] == "?":
                out.append(("_",) if s is None else ("!", to_value(m[1], s)))
            else:
                out.append(to_value(m, s))
        return ("S", out)
    if k in ("q", "t"):
        return ("L", [to_value(tree[3], kid) for kid in node.kids])
    raise ValueError(k)


def min_len_octets(n):
    return max(1, (n.bit_length() + 7) // 8)


def der_len(n):
    if n <= 127:
        return bytes([n])
    k = min_len_octets(n)
    return bytes([128 + k]) + n.to_bytes(k, "big")


def len_octets(lf, n):
    """lf: 's' minimal form; 'l<k>' long form with exactly k octets (falls back to minimal when k is too small)"""
    if lf.startswith("l"):
        k = int(lf[1:])
        if 1 <= k <= 126 and n < 256 ** k:
            return bytes([128 + k]) + n.to_bytes(k, "big")
    return der_len(n)


def insert_at(k, x, l):
    return l[:k] + [x] + l[k:]


def permute(p, l):
    """the permutation a list of insertion positions denotes (same convention as coq/Rt/BerVariants.v)"""
    if not l:
        return []
    return insert_at(p[0] if p else 0, l[0], permute(p[1:], l[1:]))


def seg_octets(content, seg):
    """constructed OCTET STRING contents: seg = list of items, an item is (bytes-count, lf) for a primitive
    segment or ("c", lf, [items]) for a nested constructed segment; consumes content left to right"""
    out = b""
    pos = 0
    for it in seg:
        if it[0] == "c":
            inner, used = seg_octets(content[pos:], it[2])
            pos += used
            if it[1] == "i":
                out += b"\x24\x80" + inner + b"\x00\x00"
            else:
                out += b"\x24" + len_octets(it[1], len(inner)) + inner
        else:
            n, lf = it
            piece = content[pos:pos + n]
            pos += len(piece)
            out += b"\x04" + len_octets(lf, len(piece)) + piece
    return out, pos


def enc_node(n):
    k = n.kind
    ch = n.lf
    cons = n.cons
    if k in ("b", "n", "i", "o"):
        body = n.content
        sub = "{}"
        if k == "o" and n.seg is not None:
            body, used = seg_octets(n.content, n.seg)
            assert used == len(n.content)
            cons = True
            sub = None
    elif k == "x":
        body, c = enc_node(n.kids[0])
        sub = None if c is None else "{" + c + "}"
    elif k == "s":
        body, cs = b"", []
        for s in n.slots:
            if s is None:
                cs.append("s{}")
            else:
                b, c = enc_node(s)
                body += b
                cs.append(c)
        sub = None if any(c is None for c in cs) else "{" + "".join(cs) + "}"
    elif k in ("q", "t"):
        parts = [enc_node(kid) for kid in n.kids]
        cs = [c for _, c in parts]
        bs = [b for b, _ in parts]
        if k == "t" and n.perm is not None:
            bs = permute(n.perm, bs)
            ch += "p" + ",".join(str(x) for x in n.perm) + ";"
        body = b"".join(bs)
        sub = None if any(c is None for c in cs) else "{" + "".join(cs) + "}"
    else:
        raise ValueError(k)
    tagb = bytes([n.tagb[0] | (32 if cons else 0)]) + n.tagb[1:]
    if n.lf == "i":
        assert cons
        out = tagb + b"\x80" + body + b"\x00\x00"
    else:
        out = tagb + len_octets(n.lf, len(body)) + body
    return out, (None if sub is None else ch + sub)


# ---------------------------------------------------------------- choosing variants

def alt_form(n, rng):
    """the non-canonical form used by the exhaustive sweep: indefinite on constructed TLVs, padded long form on primitive ones"""
    if n.cons:
        return "i"
    return "l%d" % (min_len_octets(len(n.content)) + rng.below(4))


def body_len_guess(n):
    return len(n.content)


def random_seg(content_len, rng, depth=0):
    """a segmentation of content_len bytes (possibly with empty segments and one level of nesting)"""
    items = []
    left = content_len
    nseg = rng.range(0 if content_len == 0 else 1, 3)
    for i in range(nseg):
        take = left if i == nseg - 1 else rng.range(0, left)
        lf = rng.choice(["s", "s", "l1", "l2", "l3"])
        if depth == 0 and rng.chance(1, 4):
            sub = random_seg(take, rng, depth + 1)
            items.append(("c", rng.choice(["s", "i", "l2"]), sub))
        else:
            items.append((take, lf))
        left -= take
    if left:
        items.append((left, "s"))
    return items


def random_choices(plan, rng, seg_ok=True, perm_ok=True, indef_ok=True):
    for n in plan.nodes:
        n.perm, n.seg = None, None
        r = rng.below(6)
        if n.kind == "o" and seg_ok and rng.chance(1, 4):
            n.seg = random_seg(len(n.content), rng)
        cons = n.cons or n.seg is not None
        if r <= 1:
            n.lf = "s"
        elif r <= 3 or not cons or not indef_ok:
            # length of the body is not known yet for constructed nodes: ask for enough octets for any length here
            n.lf = "l%d" % rng.range(1, 4) if not cons else "l%d" % rng.range(3, 6)
        else:
            n.lf = "i"
        if n.kind == "t" and perm_ok and len(n.kids) > 1 and rng.chance(2, 3):
            n.perm = [rng.below(len(n.kids) - i) for i in range(len(n.kids))]


def fix_long_forms(plan):
    """a long form too short for the actual length would silently fall back to the minimal form on both sides;
    nothing to fix — kept for clarity"""
    return plan


# ---------------------------------------------------------------- OER

def oer_len(n, pad=0, force_long=False):
    if n <= 127 and pad == 0 and not force_long:
        return bytes([n])
    k = min_len_octets(n) + pad
    return bytes([128 + k]) + n.to_bytes(k, "big")


def oer_int_ct(lo, hi, ext):
    if ext or lo is None:
        return 0, False
    if hi is None:
        return 0, lo >= 0
    if lo >= 0:
        for w in (1, 2, 4, 8):
            if hi <= 256 ** w - 1:
                return w, True
        return 0, True
    for w in (1, 2, 4, 8):
        if -(256 ** w // 2) <= lo and hi <= 256 ** w // 2 - 1:
            return w, False
    return 0, False


def oer_tag(tg):
    cls, num = tg % 4, tg // 4
    if num < 63:
        return bytes([cls * 64 + num])
    ds = []
    while True:
        ds.insert(0, num % 128)
        num //= 128
        if num == 0:
            break
    return bytes([cls * 64 + 63] + [d | 128 for d in ds[:-1]] + [ds[-1]])


class OerVar:
    """OER encoder; `pick()` is asked at every length determinant / quantity and returns
    (pad octets of the determinant, force long form, leading zero octets of a quantity value)"""

    def __init__(self, pick):
        self.pick = pick
        self.nlen = 0
        self.nqty = 0

    def length(self, n):
        self.nlen += 1
        pad, force, _ = self.pick("len")
        return oer_len(n, pad, force)

    def enc(self, tree, v):
        k = tree[0]
        if k == "b":
            return b"\xff" if v else b"\x00"
        if k == "n":
            return b""
        if k == "i":
            w, positive = oer_int_ct(tree[2], tree[3], tree[4])
            if w:
                return v.to_bytes(w, "big", signed=not positive)
            if positive:
                body = v.to_bytes(max(1, (v.bit_length() + 7) // 8), "big")
            else:
                body = v.to_bytes((v if v >= 0 else ~v).bit_length() // 8 + 1, "big", signed=True)
            return self.length(len(body)) + body
        if k == "o":
            lo, hi, ext = tree[2], tree[3], tree[4]
            if hi is not None and lo == hi and not ext:
                return v
            return self.length(len(v)) + v
        if k == "s":
            bits, body = [], b""
            for m, x in zip(tree[2], v[1]):
                if m[0] == "?":
                    bits.append(x[0] == "!")
                    if x[0] == "!":
                        body += self.enc(m[1], x[1])
                else:
                    body += self.enc(m, x)
            pre = bytearray((len(bits) + 7) // 8)
            for i, bit in enumerate(bits):
                if bit:
                    pre[i // 8] |= 0x80 >> (i % 8)
            return bytes(pre) + body
        if k in ("q", "t"):
            self.nqty += 1
            pad, force, qz = self.pick("qty")
            n = len(v[1])
            qv = n.to_bytes(min_len_octets(n) + qz, "big")
            if pad or force:
                self.long_qty = True
            out = oer_len(len(qv), pad, force) + qv
            for x in v[1]:
                out += self.enc(tree[3], x)
            return out
        if k == "c":
            a = tree[1][v[1]]
            return oer_tag(outmost(a, v[2])) + self.enc(a, v[2])
        if k == "x":
            return self.enc(tree[2], v)
        if k == "?":
            return self.enc(tree[1], v[1])
        raise ValueError(k)


def outmost(tree, v):
    k = tree[0]
    if k == "c":
        return outmost(tree[1][v[1]], v[2])
    if k == "?":
        return outmost(tree[1], v[1])
    return tree[1]


# ---------------------------------------------------------------- XER layout

BOOL_TOKENS = ("<true/>", "<false/>")       # value notation of BOOLEAN (X.680 XMLBooleanValue), not an element with empty content


def xer_ws_before_boolean(text):
    """white-space text between the start tag of a BOOLEAN element and its <true/> / <false/> item
    (finding C03-xer-boolean-leading-whitespace)"""
    toks = xer_tokens(text)
    for i, t in enumerate(toks):
        if t in BOOL_TOKENS:
            j = i - 1
            while j >= 0 and (toks[j].startswith("<!--") or is_ws(toks[j])):
                if is_ws(toks[j]):
                    return True
                j -= 1
    return False


TOKEN = re.compile(r"<!--.*?-->|<[^>]*>|[^<]+", re.S)


def xer_tokens(text):
    return TOKEN.findall(text)


def is_ws(t):
    return not t.startswith("<") and t.strip() == ""


def xer_variant(text, rng, mode):
    """mode: 'ws' whitespace between elements; 'comment' comments (and whitespace) between elements;
    'empty' toggle <a></a> and <a/>; 'mix' everything.  Only positions between two tags are touched
    (never the inside of an element that has text or is an empty open/close pair)."""
    toks = [t for t in xer_tokens(text)]
    # drop existing inter-element whitespace (BASIC-XER indentation) so that it can be re-chosen
    core = []
    for i, t in enumerate(toks):
        if is_ws(t) and (i == 0 or toks[i - 1].startswith("<")) and (i + 1 == len(toks) or toks[i + 1].startswith("<")):
            prev = toks[i - 1] if i else None
            nxt = toks[i + 1] if i + 1 < len(toks) else None
            if prev and nxt and not prev.startswith("</") and not prev.endswith("/>") and nxt == "</" + prev[1:]:
                core.append(t)      # whitespace that is the whole content of an element: keep (it is content)
            continue
        core.append(t)
    out = []
    i = 0
    while i < len(core):
        t = core[i]
        nxt = core[i + 1] if i + 1 < len(core) else None
        if mode in ("empty", "mix") and t.startswith("<") and not t.startswith("</") and not t.startswith("<!") \
           and not t.endswith("/>") and nxt == "</" + t[1:] and rng.chance(2, 3):
            out.append(t[:-1] + "/>")
            i += 2
            continue
        if mode in ("empty", "mix") and t.endswith("/>") and not t.startswith("<!") and t not in BOOL_TOKENS and rng.chance(1, 2):
            name = t[1:-2].strip()
            out.append("<" + name + "></" + name + ">")
            i += 1
            continue
        out.append(t)
        i += 1
    res = []
    for i, t in enumerate(out):
        res.append(t)
        nxt = out[i + 1] if i + 1 < len(out) else None
        if nxt is None or not t.startswith("<") or not nxt.startswith("<"):
            continue
        if not t.startswith("</") and not t.endswith("/>") and nxt == "</" + t[1:]:
            continue                # inside an empty element: that would be content
        if mode in ("ws", "mix") and rng.chance(2, 3):
            res.append(rng.choice([" ", "\n", "\t", "\r\n", "  \n  ", "\n\n"]))
        if mode in ("comment", "mix") and rng.chance(1, 2):
            res.append(rng.choice(["<!-- c -->", "<!---->", "<!-- <x> </y> -->", "<!-- a\nb -->"]))
            if rng.chance(1, 2):
                res.append(rng.choice([" ", "\n"]))
    return "".join(res)


# ---------------------------------------------------------------- hand-made module: strings under tags

def string_module(name="MO3"):
    """modgen-style module of OCTET STRING types whose definitions and members carry IMPLICIT and EXPLICIT tags:
    the shapes on which the constructed (segmented) form meets a chain of tags (OCTET_STRING_decode_ber)"""
    from modgen import resolve, module_text
    O = {"k": "oct", "con": None}
    defs = [
        ("C", dict(O, tag=("APPLICATION", 1, "IMPLICIT"))),
        ("E", dict(O, tag=("CONTEXT", 7, "EXPLICIT"))),
        ("E8", {"k": "ref", "ref": "E", "tag": ("CONTEXT", 8, "EXPLICIT")}),
        ("CI", {"k": "ref", "ref": "C", "tag": ("PRIVATE", 9, "IMPLICIT")}),
        ("S", {"k": "seq", "ms": [("a", dict(O, tag=("CONTEXT", 1, "IMPLICIT")), False),
                                  ("b", dict(O, tag=("CONTEXT", 2, "EXPLICIT")), False),
                                  ("c", {"k": "ref", "ref": "C"}, True),
                                  ("e", {"k": "ref", "ref": "E", "tag": ("CONTEXT", 5, "EXPLICIT")}, True),
                                  ("i", {"k": "ref", "ref": "E", "tag": ("CONTEXT", 6, "IMPLICIT")}, True),
                                  ("p", O, True)]}),
        ("L", {"k": "seqof", "con": None, "el": {"k": "ref", "ref": "E"}}),
        ("K", {"k": "choice", "ms": [("x", {"k": "ref", "ref": "C"}, False), ("y", {"k": "ref", "ref": "E8"}, False), ("z", O, False)]}),
    ]
    env = dict(defs)
    trees = {n: resolve(t, "IMPLICIT", env) for n, t in defs}
    return {"name": name, "default": "IMPLICIT", "defs": defs, "trees": trees, "text": module_text(name, "IMPLICIT", defs)}
