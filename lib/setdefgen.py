"""setdefgen — generator of ASN.1 modules, model types and values for the SET / DEFAULT layer
(model coq/Rt/SetDef.v, front end ocaml/drv_setdef.ml, tie lib/setdef_layer.py).

Types of this layer are dicts like modgen's, with two more kinds:
  {"k": "cseq"|"cset", "tag": None|(cls, num, mode), "ms": [(name, type, mark)]}
  mark = None | "opt" | ("dflt", python value)      (int or bool)
member types are base dicts of modgen (bool, null, int, oct, seq, choice, seqof, setof) or cseq / cset.
Model trees:  ("B", base tree) | ("Q", tg, [m]) | ("W", tg, [m]) | ("X", tg, t) | ("P", t) | ("D", dflt, t)
Values as in modgen: ("S", [..]) with ("_",) / ("!", v) for OPTIONAL and DEFAULT members."""
from vlib import Rng
import modgen
from modgen import tagnum, tag_text, val_str

UNIV_SEQ, UNIV_SET = tagnum("UNIVERSAL", 16), tagnum("UNIVERSAL", 17)


def is_c(t):
    return t["k"] in ("cseq", "cset")


# ---------------------------------------------------------------- ASN.1 text

def dflt_text(d):
    if d is True:
        return "TRUE"
    if d is False:
        return "FALSE"
    return str(d)


def type_text(t):
    if not is_c(t):
        return modgen.type_text(t)
    ms = []
    for name, mt, mark in t["ms"]:
        s = "%s %s" % (name, type_text(mt))
        if mark == "opt":
            s += " OPTIONAL"
        elif mark:
            s += " DEFAULT " + dflt_text(mark[1])
        ms.append(s)
    return tag_text(t.get("tag")) + "%s { %s }" % ("SEQUENCE" if t["k"] == "cseq" else "SET", ", ".join(ms))


def module_text(name, default, defs):
    lines = ["%s DEFINITIONS %s TAGS ::= BEGIN" % (name, default)]
    for n, t in defs:
        lines.append("  %s ::= %s" % (n, type_text(t)))
    lines.append("END")
    return "\n".join(lines) + "\n"


# ---------------------------------------------------------------- resolution (X.680 tagging)

def resolve(t, default, env):
    if t["k"] == "ref" and is_c(env[t["ref"]]):
        inner = resolve(env[t["ref"]], default, env)
    elif not is_c(t):
        # base type: modgen's independent resolver (its env holds base definitions only)
        benv = {n: d for n, d in env.items() if not is_c(d)}
        return ("B", modgen.resolve(t, default, benv))
    else:
        ms = t["ms"]
        auto = default == "AUTOMATIC" and not any(m[1].get("tag") for m in ms)
        out = []
        for i, (name, mt, mark) in enumerate(ms):
            if auto:
                mt = dict(mt, tag=("CONTEXT", i, None))
            r = resolve(mt, default, env)
            if mark == "opt":
                r = ("P", r)
            elif mark:
                r = ("D", mark[1], r)
            out.append(r)
        inner = ("Q", UNIV_SEQ, out) if t["k"] == "cseq" else ("W", UNIV_SET, out)
    tag = t.get("tag")
    if tag:
        cls, num, mode = tag
        tg = tagnum(cls, num)
        if mode is None:
            mode = "EXPLICIT" if default == "EXPLICIT" else "IMPLICIT"
        if mode == "EXPLICIT":
            inner = ("X", tg, inner)
        else:
            while inner[0] == "X":      # cannot happen for the trees built here
                raise ValueError("implicit over explicit")
            inner = (inner[0], tg) + inner[2:]
    return inner


def first_tags(tree):
    k = tree[0]
    if k == "B":
        return modgen.first_tags(tree[1])
    if k in ("Q", "W", "X"):
        return [tree[1]]
    return first_tags(tree[-1])


def tag_key(tg):
    return (tg % 4, tg // 4)


def tree_valid(tree):
    k = tree[0]
    if k == "B":
        return modgen.tree_valid(tree[1])
    if k in ("P", "D", "X"):
        return tree_valid(tree[-1])
    ms = tree[2]
    if k == "W":
        seen = []
        for m in ms:
            ft = first_tags(m)
            if any(x in seen for x in ft):
                return False
            seen += ft
    else:
        run = []
        for m in ms:
            ft = first_tags(m)
            if any(x in run for x in ft):
                return False
            run = run + ft if m[0] in ("P", "D") else []
    return all(tree_valid(m) for m in ms)


def model_str(tree):
    k = tree[0]
    if k == "B":
        return modgen.model_str(tree[1])
    if k in ("Q", "W"):
        return "%s%d{%s}" % (k, tree[1], "".join(model_str(m) for m in tree[2]))
    if k == "X":
        return "X%d%s" % (tree[1], model_str(tree[2]))
    if k == "P":
        return "P" + model_str(tree[1])
    if k == "D":
        return "D" + val_str(tree[1]) + model_str(tree[2])
    raise ValueError(k)


def tree_any(tree, pred):
    if pred(tree):
        return True
    k = tree[0]
    if k in ("Q", "W"):
        return any(tree_any(m, pred) for m in tree[2])
    if k in ("X", "P", "D"):
        return tree_any(tree[-1], pred)
    return False


def base_any(tree, pred):
    """pred over the base trees inside"""
    def walk(b):
        if pred(b):
            return True
        k = b[0]
        if k == "s":
            return any(walk(m) for m in b[2])
        if k == "c":
            return any(walk(m) for m in b[1])
        if k in ("q", "t"):
            return walk(b[3])
        if k in ("x", "?"):
            return walk(b[-1])
        return False
    return tree_any(tree, lambda t: t[0] == "B" and walk(t[1]))


def has_set(tree):
    return tree_any(tree, lambda t: t[0] == "W")


# ---------------------------------------------------------------- values

def value(tree, rng, pres=None):
    """a random valid value; DEFAULT members: absent / explicit default / neighbour / other"""
    k = tree[0]
    if k == "B":
        return modgen.value(tree[1], rng, 1)
    if k == "X":
        return value(tree[2], rng)
    if k in ("Q", "W"):
        out = []
        for m in tree[2]:
            if m[0] == "P":
                out.append(("!", value(m[1], rng)) if rng.chance(1, 2) else ("_",))
            elif m[0] == "D":
                out.append(dflt_member_value(m, rng, rng.choice(["absent", "explicit", "near", "other"])))
            else:
                out.append(value(m, rng))
        return ("S", out)
    raise ValueError(k)


def leaf_of(tree):
    while tree[0] in ("X", "P", "D"):
        tree = tree[-1]
    b = tree[1]
    while b[0] == "x":
        b = b[2]
    return b


def in_con(b, z):
    return (b[2] is None or b[2] <= z) and (b[3] is None or z <= b[3])


def dflt_member_value(m, rng, how):
    d, b = m[1], leaf_of(m)
    if how == "absent":
        return ("_",)
    if how == "explicit":
        return ("!", d)
    if b[0] == "b":
        return ("!", (not d) if how == "near" or rng.chance(1, 2) else d)
    cands = [d - 1, d + 1] if how == "near" else [modgen.value(b, rng), d + 256, -d, 0, 1, -1]
    cands = [z for z in cands if in_con(b, z) and z != d] or [z for z in (d - 1, d + 1) if in_con(b, z)]
    return ("!", rng.choice(cands)) if cands else ("_",)


def strip(tree, v):
    """python twin of strip_dflt (every stored default becomes absent)"""
    k = tree[0]
    if k == "X":
        return strip(tree[2], v)
    if k in ("Q", "W"):
        out = []
        for m, x in zip(tree[2], v[1]):
            if m[0] == "P":
                out.append(x if x[0] == "_" else ("!", strip(m[1], x[1])))
            elif m[0] == "D":
                out.append(("_",) if (x[0] == "_" or (x[1] == m[1] and type(x[1]) == type(m[1]))) else x)
            else:
                out.append(strip(m, x))
        return ("S", out)
    return v


def fill(tree, v):
    k = tree[0]
    if k == "X":
        return fill(tree[2], v)
    if k in ("Q", "W"):
        out = []
        for m, x in zip(tree[2], v[1]):
            if m[0] == "P":
                out.append(x if x[0] == "_" else ("!", fill(m[1], x[1])))
            elif m[0] == "D":
                out.append(("!", m[1]) if x[0] == "_" else x)
            else:
                out.append(fill(m, x))
        return ("S", out)
    return v


def parse_val(s):
    """inverse of val_str (the model front end prints values in that syntax)"""
    def p(i):
        c = s[i]
        if c == "T":
            return True, i + 1
        if c == "F":
            return False, i + 1
        if c == "N":
            return None, i + 1
        if c == "I":
            j = s.index(";", i)
            return int(s[i + 1:j]), j + 1
        if c == "O":
            j = s.index(";", i)
            return bytes.fromhex(s[i + 1:j]), j + 1
        if c in "SL":
            i += 2
            out = []
            while s[i] != "}":
                x, i = p(i)
                out.append(x)
            return (c, out), i + 1
        if c == "C":
            j = s.index(":", i)
            x, k = p(j + 1)
            return ("C", int(s[i + 1:j]), x), k
        if c == "_":
            return ("_",), i + 1
        if c == "!":
            x, k = p(i + 1)
            return ("!", x), k
        raise ValueError(s[i:i + 20])
    v, i = p(0)
    if i != len(s):
        raise ValueError("trailing " + s[i:i + 20])
    return v


# ---------------------------------------------------------------- XER text (canonical: no white space)

class NoXer(Exception):
    pass


def xer_base(name, t, v, env):
    """XER of a value of a base dict type under the element name"""
    while t["k"] == "ref":
        t = env[t["ref"]]
    k = t["k"]
    if k == "bool":
        return "<%s>%s</%s>" % (name, "<true/>" if v else "<false/>", name)
    if k == "null":
        return "<%s></%s>" % (name, name)
    if k == "int":
        return "<%s>%d</%s>" % (name, v, name)
    if k == "oct":
        return "<%s>%s</%s>" % (name, v.hex().upper(), name)
    if k == "seq":
        body = ""
        for (n, mt, opt), x in zip(t["ms"], v[1]):
            if opt:
                if x[0] == "_":
                    continue
                x = x[1]
            body += xer_base(n, mt, x, env)
        return "<%s>%s</%s>" % (name, body, name)
    if k == "choice":
        n, mt, _ = t["ms"][v[1]]
        return "<%s>%s</%s>" % (name, xer_base(n, mt, v[2], env), name)
    raise NoXer(k)


def min_tag_key(tree):
    return min(tag_key(x) for x in first_tags(tree))


def xer(name, t, tree, v, env, canonical=True):
    """XER of a value of a type of this layer; SET members in canonical tag order (CANONICAL-XER)"""
    while t["k"] == "ref":
        t = env[t["ref"]]
    if not is_c(t):
        return xer_base(name, t, v, env)
    while tree[0] == "X":
        tree = tree[2]
    items = []
    for (n, mt, mark), mtree, x in zip(t["ms"], tree[2], v[1]):
        if mark:
            if x[0] == "_":
                continue
            x, mtree = x[1], mtree[-1]
        items.append((min_tag_key(mtree), xer(n, mt, mtree, x, env, canonical)))
    if t["k"] == "cset" and canonical:
        items.sort(key=lambda p: p[0])
    body = "".join(p[1] for p in items)
    return "<%s>%s</%s>" % (name, body, name)


# ---------------------------------------------------------------- BER variants (python side: TLV surgery)

def tlv_split(b, pos=0):
    """(tag octets, length octets, content start, content end) of the definite-length TLV at pos"""
    i = pos
    first = b[i]
    i += 1
    if first & 31 == 31:
        while b[i] & 128:
            i += 1
        i += 1
    tag_end = i
    l = b[i]
    i += 1
    if l < 128:
        n = l
    else:
        k = l & 127
        n = int.from_bytes(b[i:i + k], "big")
        i += k
    return b[pos:tag_end], b[tag_end:i], i, i + n


def tlv_children(b):
    tagb, lenb, s, e = tlv_split(b)
    out = []
    p = s
    while p < e:
        _, _, cs, ce = tlv_split(b, p)
        out.append(b[p:ce])
        p = ce
    return tagb, out


def der_len(n):
    if n < 128:
        return bytes([n])
    k = (n.bit_length() + 7) // 8
    return bytes([128 + k]) + n.to_bytes(k, "big")


def rewrap(tagb, children, indefinite=False):
    body = b"".join(children)
    if indefinite:
        return tagb + b"\x80" + body + b"\x00\x00"
    return tagb + der_len(len(body)) + body


# ---------------------------------------------------------------- modules

def leaf(kind, con=None, tag=None):
    t = {"k": kind, "tag": tag}
    if con:
        t["con"] = con
    return t


def mk(kind, members, tag=None):
    return {"k": kind, "tag": tag, "ms": members}


def finish(name, default, defs):
    env = dict(defs)
    mod = {"name": name, "default": default, "defs": defs, "text": module_text(name, default, defs), "trees": {}, "env": env, "sd": {}}
    for n, t in defs:
        tree = resolve(t, default, env)
        if not tree_valid(tree):
            raise ValueError("invalid tree for %s.%s" % (name, n))
        mod["trees"][n] = tree
        if tree[0] != "B":
            mod["sd"][n] = {"t": t, "tree": tree, "cty": model_str(tree)}
    return mod


DFLT_INT = [0, 1, -1, 5, 127, 128, -128, -129, 255, 256, 32767, 32768, 65535, 65536, 2147483647, -2147483648, 2147483648, 4294967295, 4294967296,
            -3, 7]


def gen_modules(rng, tier):
    mods = []
    C = lambda n, mode=None: ("CONTEXT", n, mode)
    A = lambda n, mode=None: ("APPLICATION", n, mode)
    P = lambda n, mode=None: ("PRIVATE", n, mode)

    # ---- SA: SET, tag order vs definition order (IMPLICIT TAGS)
    defs = []
    defs.append(("S1", mk("cset", [("a", leaf("int", tag=C(2)), None), ("b", leaf("bool", tag=C(0)), "opt"),
                                   ("c", leaf("oct", tag=A(1)), None), ("d", leaf("int"), ("dflt", 5))])))
    # every class, definition order the reverse of the canonical order; tag numbers around the long-form boundary
    defs.append(("S2", mk("cset", [("p", leaf("int", tag=P(31)), None), ("q", leaf("bool", tag=P(30)), None),
                                   ("c", leaf("null", tag=C(128)), None), ("d", leaf("int", tag=C(127)), None),
                                   ("e", leaf("oct", tag=A(31)), None), ("f", leaf("bool", tag=A(0)), None),
                                   ("u", leaf("oct"), None), ("v", leaf("int"), None), ("w", leaf("bool"), None)])))
    # untagged CHOICE members: the order depends on the chosen alternatives
    ch1 = mk("choice", [("x", leaf("int", tag=C(1)), False), ("y", leaf("bool", tag=C(5)), False), ("z", leaf("null", tag=A(9)), False)])
    ch2 = mk("choice", [("m", leaf("int", tag=C(0)), False), ("n", leaf("oct", tag=C(7)), False)])
    defs.append(("S3", mk("cset", [("a", leaf("int"), None), ("ch", ch1, None), ("k", leaf("null", tag=C(3)), "opt"), ("ci", ch2, None)])))
    defs.append(("S4", mk("cset", [("ch", ch1, "opt"), ("k", leaf("int", tag=C(3)), ("dflt", -1)), ("ci", ch2, "opt")])))
    # a single member, no member
    defs.append(("S5", mk("cset", [("only", leaf("bool"), None)])))
    defs.append(("S6", mk("cset", [("only", leaf("int", con=(0, 255, False)), "opt")])))
    # nested: SET in SEQUENCE, SEQUENCE in SET, SET in SET, EXPLICIT / IMPLICIT tagged SET
    inner_set = mk("cset", [("y", leaf("int", tag=C(1)), None), ("x", leaf("bool", tag=C(0)), "opt")])
    inner_seq = {"k": "seq", "tag": None, "ms": [("i", leaf("int"), False), ("o", leaf("oct"), True)]}
    defs.append(("Q1", mk("cseq", [("s", {"k": "ref", "ref": "S1", "tag": None}, None), ("t", leaf("bool"), None), ("u", inner_set, "opt")])))
    defs.append(("S7", mk("cset", [("sq", inner_seq, None), ("st", dict(inner_set, tag=C(4, "IMPLICIT")), None),
                                   ("se", dict(inner_set, tag=C(2, "EXPLICIT")), "opt"), ("b", leaf("bool"), ("dflt", True))])))
    defs.append(("S8", mk("cset", [("l", {"k": "seqof", "tag": None, "el": leaf("int"), "con": None}, None),
                                   ("m", {"k": "setof", "tag": None, "el": leaf("bool"), "con": None}, "opt"), ("n", leaf("null"), None)])))
    mods.append(finish("SA", "IMPLICIT", defs))

    # ---- SB: SET member counts 7, 8, 9, 31, 32, 33 (presence map words, mandatory map octets), AUTOMATIC TAGS
    defs = []
    counts = [7, 8, 9, 32, 33] if tier == "quick" else [7, 8, 9, 15, 16, 17, 31, 32, 33, 64, 65]
    for n in counts:
        ms = []
        for i in range(n):
            kind = ["bool", "int", "null"][i % 3]
            mark = None if i % 4 == 0 else ("opt" if i % 4 in (1, 3) else (("dflt", (i % 2 == 0)) if kind == "bool" else (("dflt", i) if kind == "int" else "opt")))
            ms.append(("m%d" % i, leaf(kind), mark))
        defs.append(("N%d" % n, mk("cset", ms)))
    mods.append(finish("SB", "AUTOMATIC", defs))

    # ---- DA: DEFAULT members of a SEQUENCE: every representation of the default value
    defs = []
    defs.append(("D1", mk("cseq", [("a", leaf("int", tag=C(0)), ("dflt", 0)), ("b", leaf("bool", tag=C(1)), ("dflt", True)),
                                   ("c", leaf("int", con=(0, 255, False), tag=C(2)), ("dflt", 7)), ("d", leaf("bool", tag=C(3)), ("dflt", False)),
                                   ("e", leaf("int", tag=C(4)), ("dflt", -3)), ("f", leaf("oct"), None)])))
    for i, d in enumerate(DFLT_INT):
        con = None
        if i % 3 == 1:
            con = (min(d, 0) - (i % 5), max(d, 0) + 300, False)
        elif i % 3 == 2 and -2147483648 <= d <= 2147483647:
            con = (-2147483648, 2147483647, False)
        defs.append(("I%d" % i, mk("cseq", [("h", leaf("null"), None), ("v", leaf("int", con=con), ("dflt", d)), ("t", leaf("bool"), "opt")])))
    defs.append(("B1", mk("cseq", [("v", leaf("bool"), ("dflt", True))])))
    defs.append(("B2", mk("cseq", [("v", leaf("bool"), ("dflt", False)), ("w", leaf("bool", tag=C(9)), ("dflt", True))])))
    defs.append(("X1", mk("cseq", [("v", leaf("int", tag=C(0, "EXPLICIT")), ("dflt", 9)), ("w", leaf("int", con=(1, 10, True)), ("dflt", 10))])))
    mods.append(finish("DA", "IMPLICIT", defs))

    # ---- DB: number of OPTIONAL / DEFAULT members 0..17 (preamble 7|8|9, 15|16|17), EXPLICIT TAGS
    defs = []
    ks = [0, 1, 7, 8, 9, 16, 17] if tier == "quick" else list(range(0, 18)) + [24, 25]
    for k in ks:
        ms = [("z", leaf("bool"), None)]
        for i in range(k):
            if i % 2 == 0:
                ms.append(("d%d" % i, leaf("int", con=(0, 255, False), tag=C(i)), ("dflt", i % 256)))
            else:
                ms.append(("o%d" % i, leaf("bool", tag=C(i)), ("dflt", True) if i % 4 == 1 else "opt"))
        ms.append(("e", leaf("int", con=(0, 255, False)), None))
        defs.append(("K%d" % k, mk("cseq", ms)))
    mods.append(finish("DB", "EXPLICIT", defs))

    # ---- SR*: random SET / SEQUENCE-with-DEFAULT types over random base members
    nrand = 2 if tier == "quick" else 6
    for r in range(nrand):
        default = rng.choice(["IMPLICIT", "EXPLICIT", "AUTOMATIC"])
        g = modgen.Gen(rng, maxdepth=2)
        defs = []
        for j in range(4 if tier == "quick" else 6):
            for attempt in range(20):
                t = random_ctype(g, rng, default, depth=0)
                try:
                    tree = resolve(t, default, {})
                except ValueError:
                    continue
                if tree_valid(tree):
                    defs.append(("R%d" % j, t))
                    break
        mods.append(finish("SR%d" % r, default, defs))
    return mods


def random_member_type(g, rng, default, depth):
    if depth < 1 and rng.chance(1, 4):
        return random_ctype(g, rng, default, depth + 1)
    for _ in range(50):
        t = g.ty(1, default, [])
        if not contains_semi(t):
            return t
    return leaf("bool")


def contains_semi(t):
    """avoid what the base generator's callers classify separately (semi-constrained INTEGER in UPER)"""
    k = t["k"]
    if k == "int":
        c = t.get("con")
        return bool(c and c[0] is not None and c[1] is None)
    if k in ("seq", "choice"):
        return any(contains_semi(m[1]) for m in t["ms"])
    if k in ("seqof", "setof"):
        return contains_semi(t["el"])
    return False


def random_ctype(g, rng, default, depth):
    kind = rng.choice(["cset", "cset", "cseq"])
    n = 1 + rng.below(5)
    ms = []
    used = set()
    for i in range(n):
        r = rng.below(10)
        if r < 3:
            # DEFAULT member
            if rng.chance(1, 2):
                c = rng.choice([None, (0, 255, False), (-128, 127, False), (0, 7, True), (-5, 5, False)])
                lo, hi = (c[0], c[1]) if c else (-70000, 70000)
                d = rng.choice([lo, hi, 0, rng.range(lo, hi)])
                mt, mark = leaf("int", con=c), ("dflt", d)
            else:
                mt, mark = leaf("bool"), ("dflt", rng.chance(1, 2))
        else:
            mt = random_member_type(g, rng, default, depth)
            mark = "opt" if r < 6 else None
        if default != "AUTOMATIC":
            # distinct tags: an own context tag for every member but an untagged CHOICE now and then
            if not (mt["k"] == "choice" and not mt.get("tag") and rng.chance(1, 2)):
                num = rng.choice([x for x in range(0, 40) if x not in used])
                used.add(num)
                mt = dict(mt, tag=("CONTEXT", num, None))
                c = mt.get("con")
                if mt["k"] == "int" and c and c[0] is not None and c[0] >= 0 and (c[1] is None or c[1] >= 2**31) and default == "EXPLICIT":
                    mt["con"] = (0, 255, False)     # known finding C02-explicit-tag-unsigned-member: exercised elsewhere
        ms.append(("f%d" % i, mt, mark))
    return mk(kind, ms)
