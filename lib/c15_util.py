"""c15_util — adversarial input generators and the child-process runner of checks/c15.py.

Every generator returns bytes; nesting generators take the depth d and build the
encoding a conforming encoder would produce for a value nested d levels deep
(so the input is VALID unless stated: the decoder's only reason to refuse it is
the stack limit)."""
import os, re, resource, signal, subprocess


# ---------------------------------------------------------------- BER helpers
def ber_len(n):
    if n < 128:
        return bytes([n])
    b = n.to_bytes((n.bit_length() + 7) // 8, "big")
    return bytes([0x80 | len(b)]) + b


def ber_nest_def(d, heads, innermost, prefix=b""):
    """d levels; every level wraps the inner encoding into the TLV headers `heads`
    (list of tag octets, outermost first), definite lengths; `prefix` = content octets
    that precede the inner encoding at every level"""
    parts = []          # built inside-out as a list of header chunks, reversed at the end
    size = len(innermost)
    for _ in range(d):
        for h in reversed(heads):
            hdr = h + ber_len(size + len(prefix)) + prefix
            parts.append(hdr)
            size += len(hdr)
    return b"".join(reversed(parts)) + innermost


def ber_nest_indef(d, heads, innermost):
    k = len(heads)
    return b"".join(h + b"\x80" for h in heads) * d + innermost + b"\x00\x00" * (d * k)


# ---------------------------------------------------------------- bit strings
def bits_to_bytes(bits):
    """bits: str of '0'/'1'"""
    bits = bits + "0" * (-len(bits) % 8)
    return int(bits, 2).to_bytes(len(bits) // 8, "big") if bits else b""


# ---------------------------------------------------------------- nesting generators per type
# Each entry: type name -> {syntax: fn(d) -> bytes}
def gen_nest():
    g = {}
    # T ::= SEQUENCE { next T OPTIONAL }   (IMPLICIT TAGS module, member untagged: UNIVERSAL 16)
    g["T"] = {
        "ber": lambda d: ber_nest_def(d, [b"\x30"], b"\x30\x00"),
        "beri": lambda d: ber_nest_indef(d, [b"\x30"], b"\x30\x00"),
        "uper": lambda d: bits_to_bytes("1" * d + "0"),
        "oer": lambda d: b"\x80" * d + b"\x00",
        "xer": lambda d: b"<T>" + b"<next>" * d + b"</next>" * d + b"</T>",
    }
    # L ::= SEQUENCE OF L, S ::= SET OF S
    for n, tag in (("L", b"\x30"), ("S", b"\x31")):
        nm = n.encode()
        g[n] = {
            "ber": lambda d, tag=tag: ber_nest_def(d, [tag], tag + b"\x00"),
            "beri": lambda d, tag=tag: ber_nest_indef(d, [tag], tag + b"\x00"),
            "uper": lambda d: b"\x01" * d + b"\x00",
            "oer": lambda d: b"\x01\x01" * d + b"\x01\x00",
            "xer": lambda d, nm=nm: (b"<" + nm + b">") * (d + 1) + (b"</" + nm + b">") * (d + 1),
        }
    # C ::= CHOICE { c [0] C, n [1] NULL }
    g["C"] = {
        "ber": lambda d: ber_nest_def(d, [b"\xa0"], b"\x81\x00"),
        "beri": lambda d: ber_nest_indef(d, [b"\xa0"], b"\x81\x00"),
        "uper": lambda d: bits_to_bytes("0" * d + "1"),
        "oer": lambda d: b"\x80" * d + b"\x81",
        "xer": lambda d: b"<C>" + b"<c>" * d + b"<n/>" + b"</c>" * d + b"</C>",
    }
    # X ::= SEQUENCE { x [0] EXPLICIT X OPTIONAL }
    g["X"] = {
        "ber": lambda d: ber_nest_def(d, [b"\x30", b"\xa0"], b"\x30\x00"),
        "beri": lambda d: ber_nest_indef(d, [b"\x30", b"\xa0"], b"\x30\x00"),
        "uper": lambda d: bits_to_bytes("1" * d + "0"),
        "oer": lambda d: b"\x80" * d + b"\x00",
        "xer": lambda d: b"<X>" + b"<x>" * d + b"</x>" * d + b"</X>",
    }
    # M ::= CHOICE { s [0] SEQUENCE { m M OPTIONAL }, n [1] NULL }
    g["M"] = {
        "ber": lambda d: ber_nest_def(d, [b"\xa0"], b"\x81\x00"),
        "beri": lambda d: ber_nest_indef(d, [b"\xa0"], b"\x81\x00"),
        "uper": lambda d: bits_to_bytes("01" * d + "1"),
        "oer": lambda d: b"\x80\x80" * d + b"\x81",
        "xer": lambda d: b"<M>" + b"<s><m>" * d + b"<n/>" + b"</m></s>" * d + b"</M>",
    }
    # O ::= OCTET STRING, B ::= BIT STRING: nested constructed segments (BER only)
    g["O"] = {
        "ber": lambda d: ber_nest_def(d, [b"\x24"], b"\x04\x01A"),
        "beri": lambda d: ber_nest_indef(d, [b"\x24"], b"\x04\x01A"),
    }
    g["B"] = {
        "ber": lambda d: ber_nest_def(d, [b"\x23"], b"\x03\x02\x00A"),
        "beri": lambda d: ber_nest_indef(d, [b"\x23"], b"\x03\x02\x00A"),
    }
    # A ::= SEQUENCE { a ANY }: the ANY is a deeply nested TLV (skipped by ber_skip_length)
    g["A"] = {
        "ber": lambda d: (lambda inner: b"\x30" + ber_len(len(inner)) + inner)(ber_nest_def(d, [b"\x30"], b"\x05\x00")),
        "beri": lambda d: b"\x30\x80" + ber_nest_indef(d, [b"\x30"], b"\x05\x00") + b"\x00\x00",
    }
    # Y ::= SEQUENCE { a BOOLEAN, ... }: an unknown extension that is a deeply nested TLV
    g["Y"] = {
        "ber": lambda d: (lambda inner: b"\x30" + ber_len(3 + len(inner)) + b"\x01\x01\xff" + inner)(ber_nest_def(d, [b"\xbf\x1f"], b"\x05\x00")),
        "beri": lambda d: b"\x30\x80\x01\x01\xff" + ber_nest_indef(d, [b"\xbf\x1f"], b"\x05\x00") + b"\x00\x00",
    }
    # E ::= SEQUENCE { a BOOLEAN, ..., e E OPTIONAL }: recursion through an extension addition
    # (an open type in PER and OER: every level is length-prefixed and copied)
    g["E"] = {
        "ber": lambda d: ber_nest_def(d, [b"\x30"], b"\x30\x03\x01\x01\xff", prefix=b"\x01\x01\xff"),
        "beri": lambda d: b"\x30\x80\x01\x01\xff" * d + b"\x30\x03\x01\x01\xff" + b"\x00\x00" * d,
        "uper": uper_E,
        "oer": oer_E,
        "xer": lambda d: b"<E>" + b"<a><true/></a><e>" * d + b"<a><true/></a>" + b"</e>" * d + b"</E>",
    }
    return g


def uper_len_prefixed(content):
    """X.691 10.9 length determinant (octets) + content, with 16K fragmentation"""
    out = []
    i, rem = 0, len(content)
    while rem >= 16384:
        m = min(4, rem // 16384)
        out.append(bytes([0xC0 | m]) + content[i:i + m * 16384])
        i += m * 16384
        rem -= m * 16384
    if rem < 128:
        out.append(bytes([rem]))
    else:
        out.append(bytes([0x80 | (rem >> 8), rem & 0xFF]))
    out.append(content[i:])
    return b"".join(out)


def uper_E(d):
    """ext bit, a, [count of additions (normally small length 1), bitmap '1', open type]"""
    cur = bytes([0x40])                         # innermost: bits 0 1 -> one octet
    for _ in range(d):
        body = uper_len_prefixed(cur)           # octets, to be placed after 10 header bits
        bits = "1" + "1" + "0000000" + "1"
        v = (int(bits, 2) << (8 * len(body))) | int.from_bytes(body, "big")
        nb = 10 + 8 * len(body)
        pad = -nb % 8
        cur = (v << pad).to_bytes((nb + pad) // 8, "big")
    return cur


def oer_len(n):
    if n < 128:
        return bytes([n])
    b = n.to_bytes((n.bit_length() + 7) // 8, "big")
    return bytes([0x80 | len(b)]) + b


def oer_E(d):
    parts = []
    size = 2                                    # innermost 00 ff
    for _ in range(d):
        hdr = b"\x80\xff\x02\x07\x80" + oer_len(size)
        parts.append(hdr)
        size += len(hdr)
    return b"".join(reversed(parts)) + b"\x00\xff"


# ---------------------------------------------------------------- type graphs of the check's modules
# node ids as in coq/Rt/Depth.v; kind selects the decoder; "tagged" = entered through a tagged
# member / has own tags (matters for CHOICE_decode_ber only); edges by syntax class:
#   "direct" edges exist in every syntax; "ext" edges go through the open-type reader in uper/oer
NODES = {
    0: ("T", "seq", True), 1: ("L", "seqof", True), 2: ("S", "setof", True), 3: ("C", "choice", True),
    4: ("X", "seq", True), 5: ("M", "choice", False), 6: ("M.s", "seq", True), 7: ("E", "seq", True),
    8: ("opentype", "opentype", False),
}
EDGES = [(0, 0), (1, 1), (2, 2), (3, 3), (4, 4), (5, 6), (6, 5), (7, 7), (7, 8), (8, 7)]
ROOT = {"T": 0, "L": 1, "S": 2, "C": 3, "X": 4, "M": 5, "E": 7}


def scan_guards(skel, table):
    """re-extract the guard facts from the skeleton sources: function -> class"""
    facts = {}
    for fn, ent in table["functions"].items():
        path = os.path.join(skel, ent["file"])
        try:
            src = open(path, errors="replace").read()
        except OSError:
            facts[fn] = "missing-file"
            continue
        src = re.sub(r"/\*.*?\*/", " ", src, flags=re.S)
        m = re.search(r"^%s\s*\(" % re.escape(fn), src, flags=re.M)
        if not m:
            facts[fn] = "missing-function"
            continue
        i = src.index("{", m.end())
        depth, j = 0, i
        while j < len(src):
            if src[j] == "{":
                depth += 1
            elif src[j] == "}":
                depth -= 1
                if depth == 0:
                    break
            j += 1
        body = src[i:j]
        used = re.search(r"if\s*\(\s*ASN__STACK_OVERFLOW_CHECK\s*\(", body)
        if used:
            # the failure must follow: ASN__DECODE_FAILED / return -1 / RETURN(RC_FAIL) within the next statement
            tail = body[used.end():used.end() + 160]
            facts[fn] = "direct" if re.search(r"ASN__DECODE_FAILED|return\s+-1|RETURN\s*\(\s*RC_FAIL|RC_FAIL", tail) else "direct-no-failure"
        elif "ASN__STACK_OVERFLOW_CHECK" in body:
            facts[fn] = "discarded"
        elif re.search(r"\bber_check_tags\s*\(", body):
            cond = re.search(r"if\s*\(\s*tag_mode\s*\|\|\s*td->tags_count\s*\)\s*\{[^}]*?ber_check_tags", body, flags=re.S)
            facts[fn] = "cond:ber_check_tags" if cond else "via:ber_check_tags"
        else:
            facts[fn] = "none"
    return facts


def guarded_nodes(facts, table, syn):
    """the set G of the model for one syntax, from the extracted facts"""
    g = []
    direct_ok = lambda fn: facts.get(fn) == "direct"
    for nid, (name, kind, tagged) in NODES.items():
        fn = table["decoder_of"].get(kind, {}).get(syn)
        if fn is None:
            continue
        f = facts.get(fn)
        if f == "direct":
            g.append(nid)
        elif f and f.startswith("via:") and direct_ok(f[4:]):
            g.append(nid)
        elif f and f.startswith("cond:") and direct_ok(f[5:]) and tagged:
            g.append(nid)
    return sorted(g)


def edges_for(syn):
    if syn in ("uper", "oer"):
        return [e for e in EDGES if e != (7, 7)]
    return [e for e in EDGES if 8 not in e]


def reach(edges, root):
    seen, todo = {root}, [root]
    while todo:
        u = todo.pop()
        for a, b in edges:
            if a == u and b not in seen:
                seen.add(b)
                todo.append(b)
    return seen


def some_cycle(edges, root):
    """a cycle through root, as the node list root..last (last -> root is an edge)"""
    best = None
    def dfs(u, path, seen):
        nonlocal best
        for a, b in edges:
            if a != u:
                continue
            if b == root:
                if best is None or len(path) < len(best):
                    best = list(path)
            elif b not in seen:
                dfs(b, path + [b], seen | {b})
    dfs(root, [root], {root})
    return best or [root]


def find_unguarded_cycle(edges, guarded, root):
    """(pre, cyc) of unguarded nodes reachable from root through unguarded nodes, or None"""
    if root in guarded:
        return None
    path, on = [], set()

    def dfs(u):
        path.append(u)
        on.add(u)
        for a, b in edges:
            if a != u or b in guarded:
                continue
            if b in on:
                k = path.index(b)
                return path[:k], path[k:]
            r = dfs(b)
            if r:
                return r
        path.pop()
        on.discard(u)
        return None
    return dfs(root)


# ---------------------------------------------------------------- child process
def run_child(exe, line, stack_kb, timeout=60, env=None):
    """one moddrv process, one command, RLIMIT_STACK = stack_kb KiB.
    Returns dict(rc, sig, out, err, asan_stack_overflow)"""
    def pre():
        lim = stack_kb * 1024
        resource.setrlimit(resource.RLIMIT_STACK, (lim, lim))
        resource.setrlimit(resource.RLIMIT_CORE, (0, 0))
    try:
        p = subprocess.run([exe], input=(line + "\n").encode(), stdout=subprocess.PIPE, stderr=subprocess.PIPE,
                           timeout=timeout, env=env, preexec_fn=pre)
    except subprocess.TimeoutExpired:
        return {"rc": None, "sig": None, "out": "", "err": "", "timeout": True, "crash": True, "why": "timeout %ss" % timeout}
    out = p.stdout.decode("latin-1").strip()
    err = p.stderr.decode("latin-1")
    r = {"rc": p.returncode, "sig": -p.returncode if p.returncode < 0 else None, "out": out, "err": err[-3000:], "timeout": False}
    why = None
    if p.returncode < 0:
        try:
            why = "signal " + signal.Signals(-p.returncode).name
        except ValueError:
            why = "signal %d" % -p.returncode
    elif "stack-overflow" in err:
        why = "ASan stack-overflow report"
    elif "AddressSanitizer" in err or "runtime error" in err or "LeakSanitizer" in err:
        why = "sanitizer report"
    elif p.returncode != 0:
        why = "exit code %d" % p.returncode
    elif not out:
        why = "no output"
    r["crash"] = why is not None
    r["why"] = why
    r["stack_overflow"] = bool(why) and ("SIGSEGV" in why or "SIGBUS" in why or "stack-overflow" in why)
    return r


def parse_dmeter(out):
    """'<RC> <consumed> n=.. peak=.. maxreq=.. allocs=.. left=..' -> dict"""
    f = out.split()
    if len(f) < 3 or f[0] not in ("OK", "MORE", "FAIL"):
        return None
    d = {"rc": f[0], "consumed": int(f[1])}
    for kv in f[2:]:
        k, _, v = kv.partition("=")
        d[k] = int(v)
    return d
