"""c15_util — adversarial input generators and the child-process runner of checks/c15.py.

Every generator returns bytes; nesting generators take the depth d and build the
encoding a conforming encoder would produce for a value nested d levels deep
(so the input is VALID unless stated: the decoder's only reason to refuse it is
the stack limit)."""
import os, resource, signal, subprocess


# ---------------------------------------------------------------- BER helpers
def ber_len(n):
    if n < 128:
        return bytes([n])
    b = n.to_bytes((n.bit_length() + 7) // 8, "big")
    return bytes([0x80 | len(b)]) + b


def ber_nest_def(d, heads, innermost):
    """d levels; every level wraps the inner encoding into the TLV headers `heads`
    (list of tag octets, outermost first), definite lengths"""
    parts = []          # built inside-out as a list of header chunks, reversed at the end
    size = len(innermost)
    for _ in range(d):
        for h in reversed(heads):
            hdr = h + ber_len(size)
            parts.append(hdr)
            size += len(hdr)
    return b"".join(reversed(parts)) + innermost


def ber_nest_indef(d, heads, innermost):
    k = len(heads)
    return b"".join(h + b"\x80" for h in heads) * d + innermost + b"\x00\x00" * (d * k)


# ---------------------------------------------------------------- bit strings
def bits_to_bytes(bits):
    """bits: str of '0'/'1'"""
    bits = bits + "0" * (-len(bits) % 8)
    return int(bits, 2).to_bytes(len(bits) // 8, "big") if bits else b""


# ---------------------------------------------------------------- nesting generators per type
# Each entry: type name -> {syntax: fn(d) -> bytes}
def gen_nest():
    g = {}
    # T ::= SEQUENCE { next T OPTIONAL }   (IMPLICIT TAGS module, member untagged: UNIVERSAL 16)
    g["T"] = {
        "ber": lambda d: ber_nest_def(d, [b"\x30"], b"\x30\x00"),
        "beri": lambda d: ber_nest_indef(d, [b"\x30"], b"\x30\x00"),
        "uper": lambda d: bits_to_bytes("1" * d + "0"),
        "oer": lambda d: b"\x80" * d + b"\x00",
        "xer": lambda d: b"<T>" + b"<next>" * d + b"</next>" * d + b"</T>",
    }
    # L ::= SEQUENCE OF L, S ::= SET OF S
    for n, tag in (("L", b"\x30"), ("S", b"\x31")):
        nm = n.encode()
        g[n] = {
            "ber": lambda d, tag=tag: ber_nest_def(d, [tag], tag + b"\x00"),
            "beri": lambda d, tag=tag: ber_nest_indef(d, [tag], tag + b"\x00"),
            "uper": lambda d: b"\x01" * d + b"\x00",
            "oer": lambda d: b"\x01\x01" * d + b"\x01\x00",
            "xer": lambda d, nm=nm: (b"<" + nm + b">") * (d + 1) + (b"</" + nm + b">") * (d + 1),
        }
    # C ::= CHOICE { c [0] C, n [1] NULL }
    g["C"] = {
        "ber": lambda d: ber_nest_def(d, [b"\xa0"], b"\x81\x00"),
        "beri": lambda d: ber_nest_indef(d, [b"\xa0"], b"\x81\x00"),
        "uper": lambda d: bits_to_bytes("0" * d + "1"),
        "oer": lambda d: b"\x80" * d + b"\x81",
        "xer": lambda d: b"<C>" + b"<c>" * d + b"<n/>" + b"</c>" * d + b"</C>",
    }
    # X ::= SEQUENCE { x [0] EXPLICIT X OPTIONAL }
    g["X"] = {
        "ber": lambda d: ber_nest_def(d, [b"\x30", b"\xa0"], b"\x30\x00"),
        "beri": lambda d: ber_nest_indef(d, [b"\x30", b"\xa0"], b"\x30\x00"),
        "uper": lambda d: bits_to_bytes("1" * d + "0"),
        "oer": lambda d: b"\x80" * d + b"\x00",
        "xer": lambda d: b"<X>" + b"<x>" * d + b"</x>" * d + b"</X>",
    }
    # M ::= CHOICE { s [0] SEQUENCE { m M OPTIONAL }, n [1] NULL }
    g["M"] = {
        "ber": lambda d: ber_nest_def(d, [b"\xa0"], b"\x81\x00"),
        "beri": lambda d: ber_nest_indef(d, [b"\xa0"], b"\x81\x00"),
        "uper": lambda d: bits_to_bytes("01" * d + "1"),
        "oer": lambda d: b"\x80\x80" * d + b"\x81",
        "xer": lambda d: b"<M>" + b"<s><m>" * d + b"<n/>" + b"</m></s>" * d + b"</M>",
    }
    # O ::= OCTET STRING, B ::= BIT STRING: nested constructed segments (BER only)
    g["O"] = {
        "ber": lambda d: ber_nest_def(d, [b"\x24"], b"\x04\x01A"),
        "beri": lambda d: ber_nest_indef(d, [b"\x24"], b"\x04\x01A"),
    }
    g["B"] = {
        "ber": lambda d: ber_nest_def(d, [b"\x23"], b"\x03\x02\x00A"),
        "beri": lambda d: ber_nest_indef(d, [b"\x23"], b"\x03\x02\x00A"),
    }
    # A ::= SEQUENCE { a ANY }: the ANY is a deeply nested TLV (skipped by ber_skip_length)
    g["A"] = {
        "ber": lambda d: (lambda inner: b"\x30" + ber_len(len(inner)) + inner)(ber_nest_def(d, [b"\x30"], b"\x05\x00")),
        "beri": lambda d: b"\x30\x80" + ber_nest_indef(d, [b"\x30"], b"\x05\x00") + b"\x00\x00",
    }
    # Y ::= SEQUENCE { a BOOLEAN, ... }: an unknown extension that is a deeply nested TLV
    g["Y"] = {
        "ber": lambda d: (lambda inner: b"\x30" + ber_len(3 + len(inner)) + b"\x01\x01\xff" + inner)(ber_nest_def(d, [b"\xbf\x1f"], b"\x05\x00")),
        "beri": lambda d: b"\x30\x80\x01\x01\xff" + ber_nest_indef(d, [b"\xbf\x1f"], b"\x05\x00") + b"\x00\x00",
    }
    return g


# ---------------------------------------------------------------- child process
def run_child(exe, line, stack_kb, timeout=60, env=None):
    """one moddrv process, one command, RLIMIT_STACK = stack_kb KiB.
    Returns dict(rc, sig, out, err, asan_stack_overflow)"""
    def pre():
        lim = stack_kb * 1024
        resource.setrlimit(resource.RLIMIT_STACK, (lim, lim))
        resource.setrlimit(resource.RLIMIT_CORE, (0, 0))
    try:
        p = subprocess.run([exe], input=(line + "\n").encode(), stdout=subprocess.PIPE, stderr=subprocess.PIPE,
                           timeout=timeout, env=env, preexec_fn=pre)
    except subprocess.TimeoutExpired:
        return {"rc": None, "sig": None, "out": "", "err": "", "timeout": True, "crash": True, "why": "timeout %ss" % timeout}
    out = p.stdout.decode("latin-1").strip()
    err = p.stderr.decode("latin-1")
    r = {"rc": p.returncode, "sig": -p.returncode if p.returncode < 0 else None, "out": out, "err": err[-3000:], "timeout": False}
    why = None
    if p.returncode < 0:
        try:
            why = "signal " + signal.Signals(-p.returncode).name
        except ValueError:
            why = "signal %d" % -p.returncode
    elif "stack-overflow" in err:
        why = "ASan stack-overflow report"
    elif "AddressSanitizer" in err or "runtime error" in err or "LeakSanitizer" in err:
        why = "sanitizer report"
    elif p.returncode != 0:
        why = "exit code %d" % p.returncode
    elif not out:
        why = "no output"
    r["crash"] = why is not None
    r["why"] = why
    r["stack_overflow"] = bool(why) and ("SIGSEGV" in why or "SIGBUS" in why or "stack-overflow" in why)
    return r


def parse_dmeter(out):
    """'<RC> <consumed> n=.. peak=.. maxreq=.. allocs=.. left=..' -> dict"""
    f = out.split()
    if len(f) < 3 or f[0] not in ("OK", "MORE", "FAIL"):
        return None
    d = {"rc": f[0], "consumed": int(f[1])}
    for kv in f[2:]:
        k, _, v = kv.partition("=")
        d[k] = int(v)
    return d
