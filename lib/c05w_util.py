"""c05w_util — third layer of checks/c05.py: the tag_mode dimension of ber_check_tags.

Region: members / alternatives / elements that tag a REFERENCE to another type in place.  Only then does the
compiler emit tag_mode = +1 (EXPLICIT in place: one TL more than td->tags, tagno = step - 1) or -1 (IMPLICIT in
place: the first TL is not compared) in the member table; an anonymous inline type gets all its tags in its own
tags[] and tag_mode 0.  The earlier corpus had such members only by chance (modgen: a tagged reference to a
constructed type about once in 30 members), and never with every definite/indefinite form per level.

 * tagmode_module(): MT5, modgen-style (model trees available): referenced types with 1..3 own tags
   (SEQUENCE, SEQUENCE OF, SET OF, CHOICE, INTEGER, OCTET STRING, NULL, tagged references), and containers
   SE / SI / SN (SEQUENCE, every member OPTIONAL, tag in place EXPLICIT / IMPLICIT / none), CE (CHOICE),
   LE / LI / LC (SEQUENCE OF / SET OF with the element tagged in place), NE (chain directly inside a chain).
 * expected_modes(): what the member tables must say (checked against the running code: `mtab`).
 * directed_values(): per container each member alone, all, none, then random.
 * level_variants(): BER renderings with EVERY definite/indefinite combination per level of one tag chain
   (the other chains all-definite or all-indefinite), long-form lengths per level, and chains whose inner
   length contradicts the outer one (invalid: RC_FAIL one-shot; chunked must say the same).
 * chain_inputs(): header chains for ber_check_tags itself (`ctagm` / model `chainfeedm`).
"""
from modgen import resolve, module_text, tree_valid, value, val_str, model_str, tagnum
import c05_util as U


# ------------------------------------------------------------------ the module

def _ref(name, tag=None):
    return {"k": "ref", "ref": name, "tag": tag}


REFS = ["Inner", "In2", "In3", "In4", "Lst", "Sof", "Ch", "PInt", "PInt2", "POct", "POct2", "PNull"]


def tagmode_module(name="MT5"):
    I = {"k": "int", "con": None}
    B = {"k": "bool"}
    O = {"k": "oct", "con": None}
    defs = [
        ("Inner", {"k": "seq", "ms": [("x", I, False), ("y", B, False)]}),
        ("In2", {"k": "seq", "tag": ("CONTEXT", 3, "EXPLICIT"), "ms": [("x", I, False)]}),
        ("In3", _ref("In2", ("APPLICATION", 4, "EXPLICIT"))),
        ("In4", _ref("Inner", ("PRIVATE", 31, "IMPLICIT"))),
        ("Lst", {"k": "seqof", "con": None, "el": I}),
        ("Sof", {"k": "setof", "con": None, "el": B, "tag": ("APPLICATION", 1, "EXPLICIT")}),
        ("Ch", {"k": "choice", "ms": [("a", I, False), ("b", B, False), ("s", _ref("Inner", ("CONTEXT", 2, "EXPLICIT")), False)]}),
        ("PInt", I),
        ("PInt2", dict(I, tag=("CONTEXT", 9, "EXPLICIT"))),
        ("POct", O),
        ("POct2", dict(O, tag=("APPLICATION", 9, "EXPLICIT"))),
        ("PNull", {"k": "null"}),
    ]
    nums = [0, 1, 2, 30, 31, 5, 6, 127, 128, 9, 1000, 11]          # short and long tag octets for the in-place tag
    se = [("a", I, False)] + [("e%d" % i, _ref(r, ("CONTEXT", nums[i], "EXPLICIT")), True) for i, r in enumerate(REFS)] + [("z", B, False)]
    si = [("a", I, False)] + [("i%d" % i, _ref(r, ("CONTEXT", nums[i], "IMPLICIT")), True) for i, r in enumerate(REFS) if r != "Ch"] + [("z", B, False)]
    sn = [("n0", _ref("Inner"), True), ("n1", _ref("In2"), True), ("n2", _ref("In3"), True), ("n3", _ref("In4"), True),
          ("n4", _ref("PInt2"), True), ("n5", _ref("POct2"), True), ("n6", _ref("Ch"), True), ("z", {"k": "null"}, False)]
    ce = [("e0", _ref("Inner", ("CONTEXT", 0, "EXPLICIT")), False), ("e1", _ref("In3", ("CONTEXT", 1, "EXPLICIT")), False),
          ("i2", _ref("In2", ("CONTEXT", 2, "IMPLICIT")), False), ("i3", _ref("Lst", ("CONTEXT", 3, "IMPLICIT")), False),
          ("e4", _ref("Ch", ("CONTEXT", 4, None)), False), ("e5", _ref("PInt", ("CONTEXT", 1000, "EXPLICIT")), False),
          ("n6", _ref("In4"), False), ("e7", _ref("Sof", ("CONTEXT", 7, "EXPLICIT")), False)]
    defs += [
        ("SE", {"k": "seq", "ms": se}),
        ("SI", {"k": "seq", "ms": si}),
        ("SN", {"k": "seq", "ms": sn}),
        ("CE", {"k": "choice", "ms": ce}),
        ("LE", {"k": "seqof", "con": None, "el": _ref("Inner", ("CONTEXT", 5, "EXPLICIT"))}),
        ("LI", {"k": "setof", "con": None, "el": _ref("In3", ("CONTEXT", 6, "IMPLICIT"))}),
        ("LC", {"k": "seqof", "con": None, "el": _ref("Ch", ("CONTEXT", 7, "EXPLICIT"))}),
        ("SE2", {"k": "seq", "ms": [("v", _ref("Inner", ("CONTEXT", 1, "EXPLICIT")), False)]}),
        ("NE", {"k": "seq", "ms": [("w", _ref("SE2", ("CONTEXT", 5, "EXPLICIT")), False), ("t", _ref("SE2", ("CONTEXT", 6, "EXPLICIT")), True)]}),
        # (three tags: der_write_tags refuses a type with four — "System limit 4 on tags count" — so the value of a
        # four-tag type cannot be re-encoded for comparison; the four-TL chains are the members e2 / e1 on In3)
        ("TE", _ref("In2", ("PRIVATE", 7, "EXPLICIT"))),
    ]
    env = dict(defs)
    trees = {n: resolve(t, "IMPLICIT", env) for n, t in defs}
    for n, t in trees.items():
        assert tree_valid(t), n
    return {"name": name, "default": "IMPLICIT", "defs": defs, "trees": trees, "text": module_text(name, "IMPLICIT", defs)}


def own_tags(tree):
    """td->tags of a type whose resolved tree is `tree` (an untagged CHOICE has none)"""
    out = []
    t = tree
    while t[0] == "x":
        out.append(t[1])
        t = t[2]
    if t[0] != "c":
        out.append(t[1])
    return out


def expected_modes(mod):
    """{container: [(member name, tag_mode, referenced type name)]} for members that are references"""
    env = dict(mod["defs"])
    out = {}
    for n, t in mod["defs"]:
        if t["k"] in ("seq", "choice"):
            ms = t["ms"]
        elif t["k"] in ("seqof", "setof"):
            ms = [("", t["el"], False)]
        else:
            continue
        rows = []
        for (mn, mt, _) in ms:
            if mt["k"] != "ref":
                continue
            tag = mt.get("tag")
            if not tag:
                mode = 0
            else:
                kind = resolve(env[mt["ref"]], mod["default"], env)[0]
                explicit = tag[2] == "EXPLICIT" or (tag[2] is None and mod["default"] == "EXPLICIT") or kind == "c"
                mode = 1 if explicit else -1
            rows.append((mn, mode, mt["ref"]))
        out[n] = rows
    return out


# ------------------------------------------------------------------ values

def directed_values(mod, rng, quick):
    """[(type name, value)]: each OPTIONAL member alone / each alternative / 0,1,2,3 elements first, random after"""
    out = []
    for tn in ("SE", "SI", "SN"):
        tree = mod["trees"][tn]
        ms = tree[2]
        opt = [i for i, m in enumerate(ms) if m[0] == "?"]

        def mk(present):
            vs = []
            for i, m in enumerate(ms):
                if m[0] == "?":
                    vs.append(("!", value(m[1], rng)) if i in present else ("_",))
                else:
                    vs.append(value(m, rng))
            return ("S", vs)
        for i in opt:
            out.append((tn, mk({i})))
        out.append((tn, mk(set(opt))))
        out.append((tn, mk(set())))
        for _ in range(1 if quick else 4):
            out.append((tn, mk({i for i in opt if rng.chance(1, 2)})))
    tree = mod["trees"]["CE"]
    for i, a in enumerate(tree[1]):
        for _ in range(1 if quick else 3):
            out.append(("CE", ("C", i, value(a, rng))))
    for tn in ("LE", "LI", "LC"):
        tree = mod["trees"][tn]
        for k in (0, 1, 2, 3):
            out.append((tn, ("L", [value(tree[3], rng) for _ in range(k)])))
    for tn in ("NE", "SE2", "TE", "In3", "Sof", "POct2"):
        for _ in range(2 if quick else 5):
            out.append((tn, value(mod["trees"][tn], rng)))
    seen, res = set(), []
    for tn, v in out:
        k = (tn, val_str(v))
        if k not in seen:
            seen.add(k)
            res.append((tn, v))
    return res


# ------------------------------------------------------------------ renderings with a form per level

class VariantL(U.Variant):
    """U.Variant with a form per LEVEL of one chosen chain (`focus`: index in order of entry).
    mask: tuple of booleans (True = indefinite) for the levels of that chain, outermost first.  A level that cannot be
    indefinite (a primitive last TLV) stays definite.  bad: (level, delta) — the definite length of that level is
    written off by delta (an INVALID encoding).  pads: long-form padding per level of the focus chain."""

    def __init__(self, rng, indef, longp, segp, focus=None, mask=None, bad=None, pads=None, wrong=None):
        U.Variant.__init__(self, rng, indef, longp, segp)
        self.focus, self.mask, self.bad, self.pads, self.wrong = focus, mask, bad, pads, wrong
        self.counter = 0
        self.info = []          # per chain (index order): (levels, last can be indefinite)
        self.mixed = False
        self.applied = False

    def render(self, node, base=0):
        idx = self.counter
        self.counter += 1
        chain = [node]
        while chain[-1].link and len(chain[-1].kids) == 1:
            chain.append(chain[-1].kids[0])
        last = chain[-1]
        self.info.append(None)
        focus = idx == self.focus
        seg = ((last.kind == "o" or (last.kind == "?" and last.tag == b"\x04")) and not last.cons
               and len(last.content) >= 2 and self.pick(self.segp))
        can_indef = last.cons or seg
        self.info[idx] = (len(chain), bool(can_indef))
        if focus and self.mask is not None:
            forms = [bool(self.mask[i]) if i < len(self.mask) else False for i in range(len(chain))]
            if not can_indef:
                forms[-1] = False
            self.applied = True
        else:
            ind = can_indef and self.pick(self.indef)
            forms = [bool(ind)] * len(chain)
        if len(set(forms)) > 1:
            self.mixed = True
        if seg:
            self.segmented = True
            if last.tag != b"\x04" or len(chain) > 1:
                self.segmented_tagged = True
        if last.cons:
            mark = len(self.chains)
            body = b""
            for kid in last.kids:
                body += self.render(kid, len(body))
            inner_chains = self.chains[mark:]
            del self.chains[mark:]
        elif seg:
            c = last.content
            cut = sorted(set([self.rng.range(1, len(c) - 1) for _ in range(self.rng.range(1, 3))]))
            parts = [c[i:j] for i, j in zip([0] + cut, cut + [len(c)])]
            body = b"".join(b"\x04" + U.enc_len(len(x)) + x for x in parts)
            inner_chains = []
        else:
            body = last.content
            inner_chains = []
        heads = []
        total = body
        for i in range(len(chain) - 1, -1, -1):
            nd = chain[i]
            tagoct = nd.tag
            if nd is last and seg:
                tagoct = bytes([tagoct[0] | 0x20]) + tagoct[1:]
            if focus and self.wrong == i:
                tagoct = tagoct[:-1] + bytes([tagoct[-1] ^ 1])          # another tag number (INVALID for this type)
                self.applied = True
            if forms[i]:
                h = tagoct + b"\x80"
                total = h + total + b"\0\0"
                self.nindef += 1
            else:
                ln = len(total)
                if focus and self.bad is not None and self.bad[0] == i:
                    ln = max(0, ln + self.bad[1])
                    self.applied = True
                if focus and self.pads is not None:
                    pad = self.pads[i] if i < len(self.pads) else None
                else:
                    pad = self.rng.range(0, 2) if self.pick(self.longp) else None
                h = tagoct + U.enc_len(ln, pad)
                total = h + total
            heads.insert(0, h)
        ends, p = [], base
        for h in heads:
            p += len(h)
            ends.append(p)
        keeps_ctx = last.cons or last.kind in ("o", "?")
        self.chains.append((base, ends, any(forms), keeps_ctx))
        for (st, es, i2, kc) in inner_chains:
            self.chains.append((st + p, [e + p for e in es], i2, kc))
        return total


class _NoRng:
    def below(self, n):
        return 0

    def range(self, a, b):
        return a


def level_variants(tree, der, rng, quick):
    """[(label, bytes, VariantL, flags)] — flags: mixed (valid BER the C rejects: forms mixed in one chain, open C03 defect),
    invalid (contradicting lengths)"""
    root, end = U.annotate(tree, der, 0)
    assert end == len(der)
    probe = VariantL(_NoRng(), 0, 0, 0)
    probe.render(root)
    info = probe.info
    out, seen = [], set()

    def add(label, v):
        bs = v.render(root)
        if not v.applied or bs in seen:
            return
        seen.add(bs)
        out.append((label, bs, v, {"mixed": v.mixed, "invalid": v.bad is not None or v.wrong is not None}))
    multi = [i for i, (L, ci) in enumerate(info) if L >= 2]
    if not quick or len(multi) <= 4:
        pick = multi
    else:
        pick = sorted(rng.shuffle(multi)[:4])
    for idx in pick:
        L, ci = info[idx]
        for m in range(2 ** L):
            mask = tuple(bool(m >> (L - 1 - i) & 1) for i in range(L))
            if not ci and mask[-1]:
                continue
            for bg in (0, 8):
                add("lv%d:%s:%s" % (idx, "".join("i" if b else "d" for b in mask), "I" if bg else "D"),
                    VariantL(_NoRng(), bg, 0, 0, focus=idx, mask=mask))
        # long-form lengths per level (definite chain): every level alone with 1 and 3 length octets more than needed, all levels
        for lv in range(L):
            for pad in (0, 2):
                pads = [None] * L
                pads[lv] = pad
                add("lp%d:%d:%d" % (idx, lv, pad), VariantL(_NoRng(), 0, 0, 0, focus=idx, mask=(False,) * L, pads=pads))
        add("lp%d:all" % idx, VariantL(_NoRng(), 0, 0, 0, focus=idx, mask=(False,) * L, pads=[1] * L))
        # contradicting lengths: a level claims one octet more / less than its contents have
        for lv in range(L):
            for d in (-1, 1):
                add("bl%d:%d:%+d" % (idx, lv, d), VariantL(_NoRng(), 0, 0, 0, focus=idx, mask=(False,) * L, bad=(lv, d)))
        # a tag the type does not have at an inner level (the outermost one is the container's business), both forms
        for lv in range(1, L):
            for ind in (False, True):
                if ind and not ci:
                    continue
                add("xt%d:%d:%s" % (idx, lv, "i" if ind else "d"), VariantL(_NoRng(), 0, 0, 0, focus=idx, mask=(ind,) * L, wrong=lv))
    return out


# ------------------------------------------------------------------ inputs for ber_check_tags itself

def tag_octets(tg, cons):
    cls, num = tg & 3, tg >> 2
    first = (cls << 6) | (0x20 if cons else 0)
    if num < 31:
        return bytes([first | num])
    out = [num & 0x7f]
    num >>= 7
    while num:
        out.insert(0, 0x80 | (num & 0x7f))
        num >>= 7
    return bytes([first | 31] + out)


def chain_inputs(tags, mode, ltf, rng, quick):
    """byte strings for ber_check_tags(td with `tags`, tag_mode, last_tag_form): [(label, bytes)].
    Levels: mode +1: wrapper + tags; mode -1: wrapper in place of tags[0]; mode 0: tags."""
    if mode == 1:
        lv = [None] + list(tags)
    elif mode == -1:
        lv = [None] + list(tags[1:])
    else:
        lv = list(tags)
    L = len(lv)
    wrap = [tagnum("CONTEXT", 5), tagnum("CONTEXT", 1000), tagnum("PRIVATE", 31)]
    body = bytes([2, 1, 5, 1, 1, 255])
    out = []

    def build(forms, cons, tg, pads=None, bad=None, tail=b""):
        total = body
        for i in range(L - 1, -1, -1):
            t = tag_octets(tg[i], cons[i])
            if forms[i]:
                total = t + b"\x80" + total + b"\0\0"
            else:
                ln = len(total) + (bad[1] if bad and bad[0] == i else 0)
                total = t + U.enc_len(max(ln, 0), pads[i] if pads else None) + total
        return total + tail
    w0 = wrap[rng.below(len(wrap))]
    tg0 = [w0 if t is None else t for t in lv]
    last_cons = ltf != 0
    cons0 = [True] * (L - 1) + [last_cons]
    for m in range(2 ** L):
        forms = [bool(m >> (L - 1 - i) & 1) for i in range(L)]
        if forms[-1] and not last_cons:
            continue
        out.append(("f" + "".join("i" if f else "d" for f in forms), build(forms, cons0, tg0)))
    for w in wrap:
        tg = [w if t is None else t for t in lv]
        out.append(("w%d" % w, build([True] * (L - 1) + [last_cons], cons0, tg)))
        out.append(("wd%d" % w, build([False] * L, cons0, tg)))
    # long-form lengths, contradicting lengths, wrong tags (compared or not), wrong forms, something behind the chain
    out.append(("pad", build([False] * L, cons0, tg0, pads=[rng.range(0, 3) for _ in range(L)])))
    for i in range(L):
        for d in (-1, 1, 3):
            out.append(("bl%d%+d" % (i, d), build([False] * L, cons0, tg0, bad=(i, d))))
        tg = list(tg0)
        tg[i] = tg[i] + 4           # the next tag number
        out.append(("xt%d" % i, build([False] * L, cons0, tg)))
        out.append(("xti%d" % i, build([True] * (L - 1) + [last_cons], cons0, tg)))
        cons = list(cons0)
        cons[i] = not cons[i]
        out.append(("xf%d" % i, build([False] * L, cons, tg0)))
    out.append(("tail", build([False] * L, cons0, tg0, tail=b"\x05\x00")))
    out.append(("taili", build([True] * (L - 1) + [last_cons], cons0, tg0, tail=b"\0\0")))
    # a length beyond ssize_t, the reserved 0xff length octet
    out.append(("huge", tag_octets(tg0[0], True) + bytes([0x88] + [0x7f] + [0xff] * 7)))
    out.append(("ff", tag_octets(tg0[0], True) + b"\xff"))
    seen, res = set(), []
    for lab, b in out:
        if b not in seen:
            seen.add(b)
            res.append((lab, b))
    return res
