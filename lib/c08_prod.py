"""c08_prod — C08, wave 4: two regions the earlier layers sampled thinly.

Region 1, module `MU0` — the BUILT-IN alphabets / well-formedness of the restricted string types, swept:
  * UTF8String: every class of ill-formed sequence (a wrong octet 00 / 7F / C0 / E0 / F0 / FF at every continuation
    position 2..6 of every sequence length; every truncation; start octets 80..BF and F8..FF; over-long forms of every
    length; the minimal values of every length; surrogates, > U+10FFFF, the 5 / 6 octet forms) x position in the string
    (alone / first / middle / last) x constraint (none, SIZE, SIZE dropped, FROM, SIZE ^ FROM) x top level / SEQUENCE
    member / SET member / CHOICE alternative / element of SEQUENCE OF and SET OF / three levels down;
  * NumericString, PrintableString, VisibleString, IA5String: every octet 0..255, alone and in the middle, plain and
    with SIZE, and (a share) as member / element;
  * BMPString / UniversalString: every octet count 0..9 (odd ones are not strings), unit values at the edges.
  Oracle: `u8_scan` below — an independent reading of UTF-8 by bit patterns, in the generalised form asn1c implements
  (1..6 octets, values up to 0x7FFFFFFF), and `unicode_ok` = Python's strict decoder = the Unicode standard; where the two
  differ the C is expected to accept and the acceptance is reported as KNOWN-FINDING C08-utf8-accepts-non-unicode.
  Leaf tie: UTF8String_length / UTF8String_to_wcs / UTF8String_constraint on every octet string of the sweep against the
  extracted model of UTF8String__process (coq/Leaf/Utf8.v): `u8len`, `u8chk`, `u8wcs`.

Region 2, module `MP0` — the PRODUCER of the structure.  Every case of MU0, MP0 and of the wide module is also run through
`chkp` (harness/moddrv_c08.inc): the value is produced by ber_decode, by XER / OER / UPER decode of the library's own
encoding, and "by assignment" (BER-decoded, then every _presence_map of every SET cleared / all set, decoder contexts
zeroed); asn_check_constraints must give the same verdict and message for all of them, and the verdict the Spec demands.
MP0 holds SET types with OPTIONAL / DEFAULT members at every nesting position: top level, SEQUENCE member (named and
inline), SET member (itself OPTIONAL), three SETs deep, element of SEQUENCE OF / SET OF, CHOICE alternative, inside
SEQUENCE { SEQUENCE OF CHOICE }; plus the SEQUENCE twins (OER / UPER producers exist only without SET).  The all-modelled
ones (`PM*`) are also given to the extracted model `c08set` with the map as the producer leaves it."""
import re
from c08_util import tlv, int_content, PRINTABLE, NUMERIC, VISIBLE, IA5

UTAG = {"BOOLEAN": 1, "INTEGER": 2, "OCTET STRING": 4, "UTF8String": 12, "NumericString": 18, "PrintableString": 19, "IA5String": 22,
        "VisibleString": 26, "UniversalString": 28, "BMPString": 30}


# ---------------------------------------------------------------- UTF-8: two independent readings
def u8_scan(bs):
    """asn1c's reading (generalised UTF-8 by bit patterns) -> (code, values): code >= 0 number of characters,
    -1 truncated, -2 illegal start, -3 not a continuation, -4 not minimal"""
    i, n, vals = 0, len(bs), []
    while i < n:
        b = bs[i]
        if b < 0x80:
            want, v = 1, b
        elif b < 0xc0:
            return -2, vals
        elif b < 0xe0:
            want, v = 2, b & 0x1f
        elif b < 0xf0:
            want, v = 3, b & 0x0f
        elif b < 0xf8:
            want, v = 4, b & 0x07
        elif b < 0xfc:
            want, v = 5, b & 0x03
        elif b < 0xfe:
            want, v = 6, b & 0x01
        else:
            return -2, vals
        if i + want > n:
            return -1, vals
        for c in bs[i + 1:i + want]:
            if (c & 0xc0) != 0x80:
                return -3, vals
            v = (v << 6) | (c & 0x3f)
        if v < (0, 0, 0x80, 0x800, 0x10000, 0x200000, 0x4000000)[want]:
            return -4, vals
        vals.append(v)
        i += want
    return len(vals), vals


def unicode_ok(bs):
    try:
        bytes(bs).decode("utf-8")
        return True
    except UnicodeDecodeError:
        return False


def enc_gen(v, want=None):
    """generalised UTF-8 encoding of v in exactly `want` octets (default: minimal)"""
    if want is None:
        want = 1 if v < 0x80 else 2 if v < 0x800 else 3 if v < 0x10000 else 4 if v < 0x200000 else 5 if v < 0x4000000 else 6
    if want == 1:
        return bytes([v])
    lead = (0, 0, 0xc0, 0xe0, 0xf0, 0xf8, 0xfc)[want]
    out = []
    for _ in range(want - 1):
        out.append(0x80 | (v & 0x3f))
        v >>= 6
    return bytes([lead | v] + out[::-1])


def utf8_units():
    """[(class label, octets)] - ONE character position's worth of octets, well- and ill-formed"""
    out = []
    good = {2: 0xe9, 3: 0x20ac, 4: 0x1f600, 5: 0x200000 + 0x1234, 6: 0x4000000 + 0x56789}
    for want in (2, 3, 4, 5, 6):
        g = enc_gen(good[want], want)
        out.append(("good%d" % want, g))
        for pos in range(1, want):
            for bad in (0x00, 0x7f, 0xc0, 0xe0, 0xf0, 0xff):
                out.append(("cont%d@%d:%02x" % (want, pos + 1, bad), g[:pos] + bytes([bad]) + g[pos + 1:]))
            for edge in (0x80, 0xbf):
                out.append(("contedge%d@%d:%02x" % (want, pos + 1, edge), g[:pos] + bytes([edge]) + g[pos + 1:]))
        for cut in range(1, want):
            out.append(("trunc%d/%d" % (cut, want), g[:cut]))
    for b in (0x80, 0x81, 0xa0, 0xbf, 0xf8, 0xfb, 0xfc, 0xfd, 0xfe, 0xff, 0xc0, 0xc1, 0xf5, 0xf7):
        out.append(("start:%02x" % b, bytes([b])))
        out.append(("start+cont:%02x" % b, bytes([b, 0x80, 0x80, 0x80, 0x80, 0x80][:max(2, u8_want(b))])))
    mins = {2: 0x80, 3: 0x800, 4: 0x10000, 5: 0x200000, 6: 0x4000000}
    for want in (2, 3, 4, 5, 6):
        out.append(("min%d" % want, enc_gen(mins[want], want)))
        out.append(("overlong%d:max" % want, enc_gen(mins[want] - 1, want)))
        out.append(("overlong%d:zero" % want, enc_gen(0, want)))
        out.append(("overlong%d:a" % want, enc_gen(0x61, want)))
        out.append(("max%d" % want, enc_gen((0, 0, 0x7ff, 0xffff, 0x1fffff, 0x3ffffff, 0x7fffffff)[want], want)))
    for lab, v in (("d7ff", 0xd7ff), ("surrogate:d800", 0xd800), ("surrogate:dbff", 0xdbff), ("surrogate:dc00", 0xdc00), ("surrogate:dfff", 0xdfff),
                   ("e000", 0xe000), ("fffe", 0xfffe), ("ffff", 0xffff), ("10ffff", 0x10ffff), ("beyond:110000", 0x110000), ("beyond:1fffff", 0x1fffff)):
        out.append((lab, enc_gen(v)))
    for v in (0x00, 0x01, 0x7f):
        out.append(("ascii:%02x" % v, bytes([v])))
    return out


def u8_want(b):
    return 1 if b < 0xc0 else 2 if b < 0xe0 else 3 if b < 0xf0 else 4 if b < 0xf8 else 5 if b < 0xfc else 6


def utf8_strings(full=True):
    """[(label, octets)]: every unit alone, first, in the middle and last"""
    out, seen = [("empty", b"")], set([b""])
    for lab, u in utf8_units():
        for k, (where, s) in enumerate((("alone", u), ("middle", b"a" + u + b"b"), ("first", u + b"ab"), ("last", b"ab" + u), ("pair", u + u))):
            if k >= 2 and not full and (len(out) + k) % 3 and not (where == "last" and lab.startswith("trunc")):
                continue
            if s not in seen:
                seen.add(s)
                out.append(("%s/%s" % (lab, where), s))
    for s in (b"abc", b"abcd", b"abcde", "é€".encode(), "aé€\U0001f600".encode(), "é€\U0001f600ab".encode()):
        if s not in seen:
            seen.add(s)
            out.append(("text", s))
    return out


# ---------------------------------------------------------------- the type algebra of these two modules
class T:
    """kind: leaf | set | seq | seqof | setof | choice | ref"""
    def __init__(self, kind, **kw):
        self.kind = kind
        self.__dict__.update(kw)


def leaf(text, base, judge, cty=None):
    """judge(content bytes) -> list of violated constraint names"""
    return T("leaf", text=text, tag=UTAG[base], judge=judge, cty=cty, base=base)


def type_text(t):
    if t.kind == "leaf":
        return t.text
    if t.kind == "ref":
        return t.name
    if t.kind in ("set", "seq"):
        ms = []
        for n, mt, mode in t.ms:
            ms.append("%s %s%s" % (n, type_text(mt), " OPTIONAL" if mode == "opt" else (" DEFAULT %s" % mode[1]) if isinstance(mode, tuple) else ""))
        return "%s { %s }" % ("SET" if t.kind == "set" else "SEQUENCE", ", ".join(ms))
    if t.kind in ("seqof", "setof"):
        return "%s%s OF %s" % ("SEQUENCE" if t.kind == "seqof" else "SET", " (SIZE(%d..%d))" % t.size if t.size else "", type_text(t.el))
    if t.kind == "choice":
        return "CHOICE { %s }" % ", ".join("%s %s" % (n, type_text(a)) for n, a in t.alts)
    raise ValueError(t.kind)


def deref(t):
    while t.kind == "ref":
        t = t.target
    return t


def der(t, v, tag=None):
    """value: leaf -> content bytes; set/seq -> list (None = absent); of -> list; choice -> (index, value).
    tag: (class bits | number*4 form as c08_util.tlv wants) override = AUTOMATIC tagging's context tag"""
    t0 = deref(t)
    if t0.kind == "leaf":
        return tlv(tag if tag is not None else t0.tag * 4, False, bytes(v))
    if t0.kind in ("set", "seq"):
        body = b""
        for i, ((n, mt, mode), x) in enumerate(zip(t0.ms, v)):
            if x is None:
                continue
            mt0 = deref(mt)
            ctx = i * 4 + 2
            if mt0.kind == "choice":       # an untagged CHOICE gets an EXPLICIT tag under AUTOMATIC TAGS
                body += tlv(ctx, True, der(mt, x))
            else:
                body += der(mt, x, ctx)
        return tlv(tag if tag is not None else (17 if t0.kind == "set" else 16) * 4, True, body)
    if t0.kind in ("seqof", "setof"):
        items = [der(t0.el, x) for x in v]
        if t0.kind == "setof":
            items.sort()
        return tlv(tag if tag is not None else (17 if t0.kind == "setof" else 16) * 4, True, b"".join(items))
    if t0.kind == "choice":
        i, x = v
        at0 = deref(t0.alts[i][1])
        ctx = i * 4 + 2
        return tlv(ctx, True, der(t0.alts[i][1], x)) if at0.kind == "choice" else der(t0.alts[i][1], x, ctx)
    raise ValueError(t0.kind)


def judge(t, v, path=""):
    """the Spec: list of (path, violated constraint)"""
    t0 = deref(t)
    if t0.kind == "leaf":
        return [(path, w) for w in t0.judge(bytes(v))]
    if t0.kind in ("set", "seq"):
        out = []
        for (n, mt, mode), x in zip(t0.ms, v):
            if x is None:
                if mode == "man":
                    out.append((path + "." + n, "absent"))
                continue
            out += judge(mt, x, path + "." + n)
        return out
    if t0.kind in ("seqof", "setof"):
        out = []
        if t0.size and not (t0.size[0] <= len(v) <= t0.size[1]):
            out.append((path, "size"))
        for i, x in enumerate(v):
            out += judge(t0.el, x, "%s[%d]" % (path, i))
        return out
    if t0.kind == "choice":
        return judge(t0.alts[v[0]][1], v[1], path + "." + t0.alts[v[0]][0])
    raise ValueError(t0.kind)


def cty_of(t):
    """the model's type string (drv_c08.ml), or None when a leaf is outside the model's algebra; SET = s{..}"""
    t0 = deref(t)
    if t0.kind == "leaf":
        return t0.cty
    if t0.kind in ("set", "seq"):
        parts = []
        for n, mt, mode in t0.ms:
            c = cty_of(mt)
            if c is None:
                return None
            parts.append(c if mode == "man" else "?" + c)
        return "s{%s}" % "".join(parts)
    return None


def mval(t, v):
    t0 = deref(t)
    if t0.kind == "leaf":
        if t0.base == "INTEGER":
            return "I%d;" % int.from_bytes(bytes(v), "big", signed=True)
        if t0.base == "BOOLEAN":
            return "T" if v != b"\x00" else "F"
        return "O%s;" % bytes(v).hex()
    out = []
    for (n, mt, mode), x in zip(t0.ms, v):
        out.append("_" if x is None else (mval(mt, x) if mode == "man" else "!" + mval(mt, x)))
    return "S{%s}" % "".join(out)


# ---------------------------------------------------------------- leaves
def j_int(lo, hi):
    return lambda c: [] if lo <= int.from_bytes(c, "big", signed=True) <= hi else ["value"]


def j_str(base, size=None, frm=None):
    builtin = {"IA5String": IA5, "PrintableString": PRINTABLE, "NumericString": NUMERIC, "VisibleString": VISIBLE}.get(base)

    def f(c):
        bad = []
        if base == "UTF8String":
            n, _ = u8_scan(c)
            if n < 0:
                return ["utf8"]
            if not unicode_ok(c):
                bad.append("unicode")
            if size and not (size[0] <= n <= (size[1] if size[1] is not None else n)):
                bad.append("size")
            if frm is not None and unicode_ok(c) and any(ord(ch) not in frm for ch in c.decode("utf-8")):
                bad.append("from")
            return bad
        w = {"BMPString": 2, "UniversalString": 4}.get(base, 1)
        if len(c) % w:
            return ["unit"]
        n = len(c) // w
        if size and not (size[0] <= n <= (size[1] if size[1] is not None else n)):
            bad.append("size")
        units = [int.from_bytes(c[i:i + w], "big") for i in range(0, len(c), w)]
        if builtin is not None and any(u not in builtin for u in units):
            bad.append("builtin")
        if base == "UniversalString" and any(u > 0x10ffff or 0xd800 <= u <= 0xdfff for u in units):
            bad.append("unicode")
        if base == "BMPString" and any(u >= 0xfffe for u in units):
            # the two noncharacters: every generated checker refuses them (`cv <= 65533`) and so does BMPString_constraint
            # (the checker of a BMPString without constraint) since C08-fix-5; no distinction, no excuse
            bad.append("nonchar")
        if frm is not None and any(u not in frm for u in units):
            bad.append("from")
        return bad
    return f


def lf_int(lo, hi):
    return leaf("INTEGER (%d..%d)" % (lo, hi), "INTEGER", j_int(lo, hi), cty="i[%d:%d;]" % (lo, hi))


def lf_str(base, size=None, frm_text=None, frm=None):
    cs = []
    if size:
        cs.append("SIZE(%d..%s)" % (size[0], "MAX" if size[1] is None else size[1]))
    if frm_text:
        cs.append(frm_text)
    return leaf(base + (" (%s)" % " ^ ".join(cs) if cs else ""), base, j_str(base, size, frm))


I07 = lf_int(0, 7)
S14 = lf_str("IA5String", (1, 4))
FAF = lf_str("IA5String", None, 'FROM("a".."f")', set(b"abcdef"))
U12 = lf_str("UTF8String", (1, 2))
NUM = lf_str("NumericString")
OCT = leaf("OCTET STRING (SIZE(1..2))", "OCTET STRING", lambda c: [] if 1 <= len(c) <= 2 else ["size"], cty="o[1:2]")
BOO = leaf("BOOLEAN", "BOOLEAN", lambda c: [], cty="b")
IUN = leaf("INTEGER (-5..5 | 10..20)", "INTEGER", lambda c: [] if (-5 <= int.from_bytes(c, "big", signed=True) <= 5 or 10 <= int.from_bytes(c, "big", signed=True) <= 20) else ["value"],
           cty="i[-5:5,10:20;]")

SAMPLES = {   # leaf -> (valid contents, invalid contents); the DEFAULT value is never among them
    id(I07): ([b"\x03", b"\x00", b"\x07"], [b"\x09", b"\xff", b"\x08"]),
    id(S14): ([b"ab", b"a", b"abcd"], [b"abcde", b"", b"ab\x80"]),
    id(FAF): ([b"abc", b"f"], [b"xyz", b"abg", b"a\xe1"]),
    id(U12): (["é".encode(), b"ab"], [b"abc", b"", b"\xd0\xd0", b"\xe2\x82", b"a\x80"]),
    id(NUM): ([b"1 2", b""], [b"1a", b"-1"]),
    id(OCT): ([b"\x01", b"\x01\x02"], [b"", b"\x01\x02\x03"]),
    id(BOO): ([b"\xff", b"\x00"], []),
    id(IUN): ([b"\x00", b"\x0a", b"\xfb"], [b"\x06", b"\x15", b"\xfa"]),
}


def ref(name, target):
    return T("ref", name=name, target=target)


def producer_types():
    """[(name, type)] in definition order"""
    defs = []

    def define(name, t):
        defs.append((name, t))
        return ref(name, t)
    lst = T("seqof", el=I07, size=(1, 2))
    PS1 = define("PS1", T("set", ms=[("a", I07, "man"), ("b", S14, "opt"), ("c", I07, ("def", "5")), ("d", FAF, "opt"), ("e", U12, "opt"), ("f", lst, "opt"), ("g", NUM, "opt")]))
    PE1 = define("PE1", T("seq", ms=[("a", I07, "man"), ("b", S14, "opt"), ("c", I07, ("def", "5")), ("d", FAF, "opt"), ("e", U12, "opt"), ("f", lst, "opt"), ("g", NUM, "opt")]))
    PM1 = define("PM1", T("set", ms=[("a", I07, "man"), ("b", I07, "opt"), ("c", OCT, "opt"), ("d", BOO, "opt"), ("e", IUN, "opt"), ("f", I07, ("def", "5"))]))
    PM2 = define("PM2", T("set", ms=[("x", IUN, "opt"), ("inner", T("set", ms=[("p", I07, "opt"), ("q", OCT, "opt")]), "man"), ("y", I07, "man")]))
    define("PM3", T("seq", ms=[("h", I07, "opt"), ("s", PM1, "opt"), ("t", OCT, "man")]))
    define("PQ1", T("seq", ms=[("name", S14, "man"), ("inner", PS1, "man"), ("tail", I07, "opt")]))
    define("PQ2", T("seq", ms=[("x", I07, "man"), ("inl", T("set", ms=[("p", I07, "opt"), ("q", S14, "opt")]), "man"), ("y", I07, "opt")]))
    define("PT2", T("set", ms=[("m", I07, "man"), ("sub", PS1, "opt"), ("n", S14, "opt")]))
    define("PT3", T("set", ms=[("k", I07, "opt"), ("deep", T("set", ms=[("j", I07, "opt"), ("deeper", T("set", ms=[("z", I07, "opt"), ("zz", FAF, "opt")]), "opt")]), "man")]))
    define("PL1", T("seqof", el=PS1, size=None))
    define("PL2", T("setof", el=PS1, size=None))
    define("PL3", T("seqof", el=PE1, size=None))
    define("PC1", T("choice", alts=[("one", PS1), ("two", I07)]))
    define("PD1", T("seq", ms=[("items", T("seqof", el=T("choice", alts=[("s", PS1), ("i", I07)]), size=None), "man")]))
    define("PD2", T("seq", ms=[("items", T("seqof", el=T("choice", alts=[("s", PE1), ("i", I07)]), size=None), "man")]))
    define("PM4", T("seqof", el=PM2, size=None))
    return defs, dict(PS1=PS1, PE1=PE1, PM1=PM1, PM2=PM2)


def base_value(t, rng):
    """all members present and valid"""
    t0 = deref(t)
    if t0.kind == "leaf":
        return SAMPLES[id(t0)][0][0]
    if t0.kind in ("set", "seq"):
        return [base_value(mt, rng) for n, mt, mode in t0.ms]
    if t0.kind in ("seqof", "setof"):
        return [base_value(t0.el, rng)] * (t0.size[0] if t0.size else 2)
    if t0.kind == "choice":
        return (0, base_value(t0.alts[0][1], rng))


def variants(t, rng):
    """[(label, value)]: one position changed against the base value - each member of each SET / SEQUENCE at every depth
    absent, holding each other valid sample, holding each invalid sample; list sizes; each alternative.
    Labels are paths relative to t."""
    t0 = deref(t)
    base = base_value(t, rng)
    out = []
    if t0.kind == "leaf":
        good, bad = SAMPLES[id(t0)]
        return [(":good:" + g.hex(), g) for g in good[1:]] + [(":bad:" + b.hex(), b) for b in bad]
    if t0.kind in ("set", "seq"):
        for i, (n, mt, mode) in enumerate(t0.ms):
            if mode != "man":
                v = list(base)
                v[i] = None
                out.append((".%s:absent" % n, v))
            for lab, x in variants(mt, rng):
                v = list(base)
                v[i] = x
                out.append((".%s%s" % (n, lab), v))
        # only the mandatory members, and each optional member alone holding a bad sample
        opt = [i for i, (n, mt, mode) in enumerate(t0.ms) if mode != "man"]
        if opt:
            v = [None if i in opt else x for i, x in enumerate(base)]
            out.append((":mandatory-only", v))
            for i in opt:
                mt0 = deref(t0.ms[i][1])
                if mt0.kind == "leaf" and SAMPLES[id(mt0)][1]:
                    v2 = list(v)
                    v2[i] = SAMPLES[id(mt0)][1][0]
                    out.append((".%s:alone-bad" % t0.ms[i][0], v2))
        return out
    if t0.kind in ("seqof", "setof"):
        el = base_value(t0.el, rng)
        if t0.size:
            out.append((":size-low", [el] * (t0.size[0] - 1)))
            out.append((":size-high", [el] * (t0.size[1] + 1)))
        else:
            out.append((":empty", []))
        for lab, x in variants(t0.el, rng):
            out.append(("[]%s" % lab, [el, x] if rng.below(2) else [x, el]))
        return out
    if t0.kind == "choice":
        for i, (n, a) in enumerate(t0.alts):
            if i:
                out.append((".%s:base" % n, (i, base_value(a, rng))))
            for lab, x in variants(a, rng):
                out.append((".%s%s" % (n, lab), (i, x)))
        return out


def producer_module(rng, name="MP0"):
    defs, _named = producer_types()
    lines = ["%s DEFINITIONS AUTOMATIC TAGS ::= BEGIN" % name]
    cases = []
    for tn, t in defs:
        text = "%s ::= %s" % (tn, type_text(t))
        lines.append("  " + text)
        cty = cty_of(t) if t.kind in ("set",) else None
        for lab, v in [("base", base_value(t, rng))] + variants(t, rng):
            bad = judge(t, v)
            known = None
            if bad and all(w == "unicode" for _p, w in bad):
                known = "C08-utf8-accepts-non-unicode"
            cases.append({"tn": tn, "label": "prod", "der": der(t, v).hex(), "bad": ["%s %s" % pw for pw in bad], "known": known,
                          "what": "%s %s" % (tn, lab), "text": text[:1500], "cty": cty, "mval": mval(t, v) if cty else None, "must_transport": True})
    lines.append("END")
    text = "\n".join(lines) + "\n"
    seen, uniq = set(), []
    for c in cases:
        if (c["tn"], c["der"]) not in seen:
            seen.add((c["tn"], c["der"]))
            uniq.append(c)
    m = {"name": name, "default": "AUTOMATIC", "defs": [(n, None) for n, _ in defs], "text": text,
         "names": sorted(set(re.findall(r"[A-Za-z][A-Za-z0-9-]*", text)))}
    return m, uniq


# ---------------------------------------------------------------- module MU0: built-in alphabets
def strings_module(rng, tier, name="MU0"):
    lines = ["%s DEFINITIONS AUTOMATIC TAGS ::= BEGIN" % name]
    cases, defs = [], []
    AZ = set(range(0x61, 0x7b))
    ustr = utf8_strings(tier != "quick")
    u8types = [("U0", lf_str("UTF8String")), ("U1", lf_str("UTF8String", (1, 4))), ("U2", lf_str("UTF8String", (0, None))),
               ("U3", lf_str("UTF8String", None, 'FROM("a".."z")', AZ)), ("U4", lf_str("UTF8String", (2, 3), 'FROM("a".."c" | "x".."z")', set(b"abcxyz"))),
               ("U5", lf_str("UTF8String", (3, 3)))]

    def add(tn, t, v, lab, known_from=False):
        bad = judge(t, v)
        ws = set(w for _p, w in bad)
        known = None
        if bad and ws <= {"unicode"}:
            known = "C08-utf8-accepts-non-unicode" if "UTF8" in type_text(t) else "C08-universal-units-unchecked"
        elif bad and ws <= {"from", "unicode"} and known_from:
            known = "C08-utf8-from-unchecked"
        cases.append({"tn": tn, "label": lab.split("/")[0].split(":")[0].rstrip("0123456789@"), "der": der(t, v).hex(), "bad": ["%s %s" % pw for pw in bad], "known": known,
                      "what": "%s %s" % (tn, lab), "text": "%s ::= %s" % (tn, type_text(t))[:600]})

    def define(tn, t):
        lines.append("  %s ::= %s" % (tn, type_text(t)))
        defs.append((tn, None))

    for tn, t in u8types:
        define(tn, t)
    full = tier != "quick"
    for k, (lab, s) in enumerate(ustr):
        add("U0", u8types[0][1], s, lab)
        add("U1", u8types[1][1], s, lab)
        for j, (tn, t) in enumerate(u8types[2:]):
            if full or (k + j) % 4 == 0 or lab.startswith(("cont", "surrogate", "beyond")) and (k + j) % 2 == 0:
                add(tn, t, s, lab, known_from=(tn == "U3"))     # U3: FROM alone is not checked (open finding); U4 has SIZE: no alphabet check at all
    # containers: every ill-formed class reaches every container kind
    u0, u1 = u8types[0][1], u8types[1][1]
    cont = [("UQ", T("seq", ms=[("a", I07, "man"), ("t", u0, "man"), ("s", u1, "opt")])),
            ("UT", T("set", ms=[("a", I07, "man"), ("t", u0, "opt"), ("s", u1, "opt")])),
            ("UL", T("seqof", el=u0, size=None)), ("UM", T("setof", el=u1, size=None)),
            ("UC", T("choice", alts=[("t", u0), ("s", u1), ("n", I07)])),
            ("UD", T("seq", ms=[("items", T("seqof", el=T("choice", alts=[("t", u0), ("s", u1)]), size=None), "man")]))]
    for tn, t in cont:
        define(tn, t)
    ok1 = "é".encode()
    for k, (lab, s) in enumerate(ustr):
        if not full and k % 3 and not lab.startswith(("cont", "trunc")):
            continue
        which = k % 2      # the plain member / the SIZE member
        add("UQ", cont[0][1], [b"\x01", s, ok1] if which == 0 else [b"\x01", ok1, s], lab)
        add("UT", cont[1][1], [b"\x01", s, None] if which == 0 else [b"\x01", None, s], lab)
        if k % 2 == 0:
            add("UL", cont[2][1], [ok1, s] if k % 4 else [s, ok1], lab)
            add("UC", cont[4][1], (which, s), lab)
        else:
            add("UM", cont[3][1], [ok1, s], lab)
            add("UD", cont[5][1], [[(0, ok1), (which, s)]], lab)
    # the one-octet types: every octet value
    one = [("IA5String", "XI"), ("VisibleString", "XV"), ("PrintableString", "XP"), ("NumericString", "XN")]
    for base, pre in one:
        plain, sized = lf_str(base), lf_str(base, (1, 3))
        frm = lf_str(base, None, 'FROM("0".."9")', set(b"0123456789"))
        define(pre + "0", plain)
        define(pre + "1", sized)
        define(pre + "2", frm)
        seq = T("seq", ms=[("a", I07, "man"), ("t", plain, "man"), ("s", sized, "opt")])
        st = T("set", ms=[("t", plain, "opt"), ("s", sized, "opt"), ("a", I07, "man")])
        lst = T("setof", el=plain, size=None)
        define(pre + "Q", seq)
        define(pre + "T", st)
        define(pre + "L", lst)
        fill = b"1"
        for o in range(256):
            add(pre + "0", plain, bytes([o]), "octet:%02x/alone" % o)
            add(pre + "0", plain, fill + bytes([o]) + fill, "octet:%02x/middle" % o)
            add(pre + "1", sized, bytes([o]), "octet:%02x/alone" % o)
            if full or o % 4 == rng.below(4) or o in (0x1f, 0x20, 0x2f, 0x30, 0x39, 0x3a, 0x7e, 0x7f, 0x80, 0xff):
                add(pre + "1", sized, fill + fill + bytes([o]), "octet:%02x/last" % o)
                add(pre + "2", frm, bytes([o]), "octet:%02x/alone" % o)
                add(pre + "Q", seq, [b"\x01", bytes([o]), None] if o % 2 else [b"\x01", fill, bytes([o])], "octet:%02x/member" % o)
                add(pre + "T", st, [bytes([o]), None, b"\x01"] if o % 2 else [None, bytes([o]) + fill, b"\x01"], "octet:%02x/setmember" % o)
                add(pre + "L", lst, [fill, bytes([o])], "octet:%02x/element" % o)
    # BMPString / UniversalString: octet counts and unit values
    for base, pre, w in (("BMPString", "XB", 2), ("UniversalString", "XU", 4)):
        plain, sized = lf_str(base), lf_str(base, (1, 2))
        seq = T("seq", ms=[("t", plain, "man"), ("s", sized, "opt")])
        define(pre + "0", plain)
        define(pre + "1", sized)
        define(pre + "Q", seq)
        unit = (0x61).to_bytes(w, "big")
        for n in range(0, 10):
            content = (unit * 3)[:n]
            add(pre + "0", plain, content, "octets:%d" % n)
            add(pre + "1", sized, content, "octets:%d" % n)
            add(pre + "Q", seq, [content, None] if n % 2 else [unit, content], "octets:%d/member" % n)
        units = [0, 1, 0x7f, 0x80, 0xff, 0x100, 0xd7ff, 0xd800, 0xdfff, 0xe000, 0xfffd, 0xfffe, 0xffff]
        if w == 4:
            units += [0x10000, 0x10ffff, 0x110000, 0x7fffffff, 0x80000000, 0xffffffff]
        for u in units:
            c = u.to_bytes(w, "big")
            add(pre + "0", plain, c, "unit:%x/alone" % u)
            if w == 2:              # BMPString_constraint walks every unit: the unit in middle and last position of a string without constraint
                add(pre + "0", plain, unit + c + unit, "unit:%x/plainmiddle" % u)
                add(pre + "0", plain, unit + unit + c, "unit:%x/plainlast" % u)
            if u < 0x80000000:      # a first octet >= 0x80 in a GENERATED UniversalString checker: open finding C04-generated-alphabet-shift (UBSan stops the driver)
                add(pre + "1", sized, unit + c, "unit:%x/last" % u)
                add(pre + "Q", seq, [unit, c], "unit:%x/member" % u)
            add(pre + "Q", seq, [c, None], "unit:%x/plainmember" % u)
    lines.append("END")
    text = "\n".join(lines) + "\n"
    seen, uniq = set(), []
    for c in cases:
        if (c["tn"], c["der"]) not in seen:
            seen.add((c["tn"], c["der"]))
            uniq.append(c)
    m = {"name": name, "default": "AUTOMATIC", "defs": defs, "text": text, "names": sorted(set(re.findall(r"[A-Za-z][A-Za-z0-9-]*", text)))}
    return m, uniq, [s for _l, s in ustr]


# ---------------------------------------------------------------- the leaf tie of UTF8String__process
def utf8_leaf_lines(strings):
    lines = ["u8len NULL", "u8chk NULL"]
    for s in strings:
        h = bytes(s).hex() or "-"
        n = len(u8_scan(s)[1])
        lines += ["u8len " + h, "u8chk " + h, "u8wcs %s 0" % h, "u8wcs %s %d" % (h, n), "u8wcs %s %d" % (h, n + 1), "u8wcs %s %d" % (h, max(n - 1, 1)), "u8wcs %s 16" % h]
    return lines


def utf8_leaf_oracle(line, out):
    """the property clauses of the leaf, evaluated on the C's answer with the independent scanner; -> problem or None"""
    f = line.split()
    bs = b"" if f[1] in ("-", "NULL") else bytes.fromhex(f[1])
    code, vals = u8_scan(bs)
    if f[1] == "NULL":
        want = "-5" if f[0] == "u8len" else "-1"
        return None if out == want else "st->buf == NULL: expected %s" % want
    if f[0] == "u8len":
        return None if out == str(code) else "UTF8String_length returned %s, the octets say %d" % (out, code)
    if f[0] == "u8chk":
        want = "0" if code >= 0 else "-1"
        return None if out == want else "UTF8String_constraint returned %s, the octets are %s" % (out, "well-formed" if code >= 0 else "ill-formed (%d)" % code)
    dl = int(f[2])
    if code >= 0:
        cells = vals[:dl] + ([0] if len(vals) < dl else [])
        want = "%d %s" % (code, ",".join(map(str, cells)) or "-")
    else:
        want = "0 %s" % (",".join(map(str, vals[:dl])) or "-")
    return None if out == want else "UTF8String_to_wcs gave `%s`, the octets say `%s`" % (out, want)
