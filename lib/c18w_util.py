"""c18w_util — round 4 of C18: two regions the earlier corpus never entered.

(1) the SHAPE of the governing SEQUENCE.  Every generated frame used to be `{ id, open type [, open type] }`: the identifier member
    first, one member that is a class value field, names `id` / `value` / `aux`.  Here the frame is a swept dimension: several
    class-value-field members before / after / between the open types, names related by prefix, suffix, case and hyphen
    (`id`, `idx`, `id2`, `ident`, `identExt`, `iD`, `xid`, `ident-ext`), two open types governed by DIFFERENT members (and different
    identifier columns of the class), the identifier after the open type, an OPTIONAL identifier member, the `@m` / `@.m` spellings and
    the dotted ones (`@m.x`, which this asn1c must refuse).  The oracle is Python's own name resolution (exact match over the member
    list) and row lookup; nothing of it comes from the model or the C.

(2) rows whose type has a ZERO-BIT / zero-octet encoding (NULL, empty SEQUENCE, SIZE(0) string, single-value INTEGER) next to rows of
    1, 2 and 3 octets: identifier x container contents (0..4 octets of 00, non-00 patterns, every row's own encodings) x UPER, OER, BER.
    The oracle is the container-exhaustion rule evaluated in Python on top of fixed-width decoders of the palette types.
"""
from vlib import *
from modgen import *
from c18_util import der_len, int_octets

# ---------------------------------------------------------------- (1) frame shapes

# rows of the fixed object set: the two identifier columns hold the SAME numbers in another order, so that reading the wrong member,
# or the right member against the wrong column, selects ANOTHER row (not none)
SHAPE_ROWS = [{"&id": 1, "&code": 2, "&Type": "R1", "&Aux": "A1"}, {"&id": 2, "&code": 3, "&Type": "R2", "&Aux": "A2"},
              {"&id": 3, "&code": 4, "&Type": "R3", "&Aux": "A3"}, {"&id": 4, "&code": 1, "&Type": "R4", "&Aux": "A4"}]
NOROW = 9
SHAPE_COLS = ["&id", "&code", "&Type", "&Aux"]
# row types that cannot be taken for one another in any syntax: distinct widths in PER (1, 2, 3, 4 octets: the container rule
# separates them), distinct tags / member counts in BER, distinct element names in XER.   name: (ASN.1, DER, UPER, XER)
SHAPE_TYPES = {
    "R1": ("INTEGER (0..255)", "020107", "07", "<R1>7</R1>"),
    "R2": ("SEQUENCE { a INTEGER (0..255), b INTEGER (0..255) }", "3006800101810102", "0102", "<R2><a>1</a><b>2</b></R2>"),
    "R3": ("SEQUENCE { a INTEGER (0..255), b INTEGER (0..255), c INTEGER (0..255) }", "3009800101810102820103", "010203",
           "<R3><a>1</a><b>2</b><c>3</c></R3>"),
    "R4": ("SEQUENCE { a INTEGER (0..255), b INTEGER (0..255), c INTEGER (0..255), d INTEGER (0..255) }", "300c800101810102820103830104", "01020304",
           "<R4><a>1</a><b>2</b><c>3</c><d>4</d></R4>"),
    "A1": ("BOOLEAN", "0101ff", "80", "<A1><true/></A1>"),
    "A2": ("OCTET STRING (SIZE(2))", "04026869", "6869", "<A2>6869</A2>"),
    "A3": ("SEQUENCE { a INTEGER (0..255), b INTEGER (0..65535) }", "300780010181020102", "010102", "<A3><a>1</a><b>258</b></A3>"),
    "A4": ("INTEGER (0..4294967295)", "020401020304", "01020304", "<A4>16909060</A4>"),
}


def idm(name, field="&id", opt=False):
    return {"k": "idref", "name": name, "field": field, "opt": opt}


def opn(name, field, ref, sp="@"):
    return {"k": "open", "name": name, "field": field, "ref": ref, "sp": sp}


def pln(name, ty="INTEGER"):
    return {"k": "plain", "name": name, "ty": ty}


# directed shapes: (tag, members).  The names are the point.
DIRECTED_SHAPES = [
    ("prefix-before", [idm("identExt"), idm("ident"), opn("value", "&Type", "ident")]),
    ("prefix-after", [idm("ident"), idm("identExt"), opn("value", "&Type", "identExt", "@.")]),
    ("short-long", [idm("id"), idm("idx", "&code"), opn("value", "&Type", "idx"), opn("aux", "&Aux", "id", "@.")]),
    ("long-short", [idm("idx", "&code"), pln("n"), idm("id"), opn("value", "&Type", "id"), opn("aux", "&Aux", "idx")]),
    ("digits", [pln("n"), idm("id2"), idm("id", "&code"), pln("m", "BOOLEAN"), opn("value", "&Type", "id"), opn("aux", "&Aux", "id2", "@.")]),
    ("suffix", [idm("xid"), idm("id"), opn("value", "&Type", "id", "@.")]),
    ("case", [idm("iD"), idm("id", "&code"), opn("value", "&Type", "id"), opn("aux", "&Aux", "iD")]),
    ("hyphen", [idm("ident-ext"), idm("ident", "&code"), opn("value", "&Type", "ident"), opn("aux", "&Aux", "ident-ext")]),
    ("between", [idm("id"), opn("value", "&Type", "id"), idm("idx", "&code"), opn("aux", "&Aux", "idx", "@.")]),
    ("four", [idm("i"), idm("id", "&code"), idm("ide"), idm("ident", "&code"), opn("value", "&Type", "ide"), opn("aux", "&Aux", "id")]),
    ("samefield", [idm("idx"), idm("id"), idm("id2"), opn("value", "&Type", "id"), opn("aux", "&Aux", "id2")]),
    ("optional", [idm("idx", "&code", opt=True), idm("id"), opn("value", "&Type", "id"), opn("aux", "&Aux", "idx")]),
    ("optional-named-first", [idm("id", opt=True), idm("idx", "&code"), opn("value", "&Type", "id", "@."), opn("aux", "&Aux", "idx")]),
    # the identifier AFTER the open type: the selector is emitted, decoding is the recorded defect C18-identifier-after-open-type
    ("after", [idm("identExt"), opn("value", "&Type", "ident"), idm("ident")]),
    # spellings this asn1c must refuse: the reference names no member
    ("dotted", [idm("identExt"), idm("ident"), opn("value", "&Type", "ident.x")]),
    ("dotted2", [idm("ident"), idm("x"), opn("value", "&Type", "ident.x", "@.")]),
    ("nomember", [idm("identExt"), idm("idenT"), opn("value", "&Type", "ident")]),
    ("longer", [idm("id"), idm("ident"), opn("value", "&Type", "identExt")]),
]
NAME_FAMILIES = [["id", "idx", "id2", "ident", "identExt", "iD", "xid", "i"], ["key", "keyExt", "key-2", "kEy", "ke", "subkey", "keyx"],
                 ["a", "ab", "abc", "aB", "a-b", "ba"]]


def random_shape(rng):
    r = rng
    names = r.shuffle(r.choice(NAME_FAMILIES))
    nid = r.choice([2, 2, 3, 3, 4])
    ids = [idm(names[i], r.choice(["&id", "&code"]), opt=r.chance(1, 6)) for i in range(nid)]
    opens = [opn("value", "&Type", r.choice(ids)["name"], r.choice(["@", "@."]))]
    if r.chance(2, 3):
        opens.append(opn("aux", "&Aux", r.choice(ids)["name"], r.choice(["@", "@."])))
    plains = [pln("n%d" % i, r.choice(["INTEGER", "BOOLEAN"])) for i in range(r.choice([0, 0, 1, 2]))]
    head = r.shuffle(ids + plains)
    ms = list(head)
    for o in opens:
        if r.chance(1, 5):
            # a class-field member AFTER this open type (decodable as long as it is not the one an open type names)
            k = [i for i, x in enumerate(ms) if x["k"] == "idref" and x["name"] not in [q["ref"] for q in opens]]
            if k:
                ms.append(o)
                ms.append(ms.pop(k[-1]))
                continue
        ms.append(o)
    return ms


def c_name(n):
    return n.replace("-", "_")


def shape_module(name, members, tag="random"):
    ms = []
    for m in members:
        if m["k"] == "idref":
            ms.append("%s OC.%s({MySet})%s" % (m["name"], m["field"], " OPTIONAL" if m["opt"] else ""))
        elif m["k"] == "open":
            ms.append("%s OC.%s({MySet}{%s%s})" % (m["name"], m["field"], m["sp"], m["ref"]))
        else:
            ms.append("%s %s" % (m["name"], m["ty"]))
    lines = ["%s DEFINITIONS AUTOMATIC TAGS ::= BEGIN" % name,
             "  OC ::= CLASS { &id INTEGER UNIQUE, &code INTEGER UNIQUE, &Type, &Aux } WITH SYNTAX { IDENT &id CODE &code KIND &Type AUXIL &Aux }",
             "  MySet OC ::= { %s }" % " | ".join("{ IDENT %d CODE %d KIND %s AUXIL %s }" % (r["&id"], r["&code"], r["&Type"], r["&Aux"]) for r in SHAPE_ROWS),
             "  Frame ::= SEQUENCE { %s }" % ", ".join(ms)]
    lines += ["  %s ::= %s" % (tn, t[0]) for tn, t in SHAPE_TYPES.items()]
    lines.append("END")
    return {"name": name, "text": "\n".join(lines) + "\n", "defs": [("Frame", None)] + [(tn, None) for tn in SHAPE_TYPES], "members": members,
            "shape_tag": tag, "family": "frameshape", "simple": False}


# ---- Python's own reading of a shape (the oracle)

def py_named(members, o):
    """index of the member the open type o is governed by: `@m` and `@.m` name the sibling whose name EQUALS m (a dotted path is a
    name no member has); None: no such member"""
    for i, m in enumerate(members):
        if m["name"] == o["ref"]:
            return i
    return None


def py_row(members, o, vals):
    """the row the object set pairs with the value of the NAMED member (vals: member index -> value | None = absent); None = no row"""
    i = py_named(members, o)
    if i is None or members[i]["k"] != "idref" or vals.get(i) is None:
        return None
    for r, row in enumerate(SHAPE_ROWS):
        if row[members[i]["field"]] == vals[i]:
            return r
    return None


def shape_resolvable(members):
    return all(py_named(members, o) is not None and members[py_named(members, o)]["k"] == "idref" for o in members if o["k"] == "open")


def shape_decodable(members):
    """every open type comes after the member that governs it"""
    return shape_resolvable(members) and all(py_named(members, o) < i for i, o in enumerate(members) if o["k"] == "open")


def value_for(m, r):
    return NOROW if r is None else SHAPE_ROWS[r][m["field"]]


def shape_assignments(rng, members, n):
    """identifier-value combinations: the class-field members select DIFFERENT rows (every rotation), the same row, one of them no row,
    an OPTIONAL one absent; then random"""
    idx = [i for i, m in enumerate(members) if m["k"] == "idref"]
    out = []
    for s in range(4):
        out.append({i: value_for(members[i], (s + k) % 4) for k, i in enumerate(idx)})
    for s in (0, 2):
        out.append({i: value_for(members[i], s) for i in idx})
    for j in idx:
        a = {i: value_for(members[i], (1 + k) % 4) for k, i in enumerate(idx)}
        a[j] = NOROW
        out.append(a)
        if members[j]["opt"]:
            b = dict(a)
            b[j] = None
            out.append(b)
            out.append({i: (None if i == j else value_for(members[i], (2 + k) % 4)) for k, i in enumerate(idx)})
    while len(out) < n:
        out.append({i: (None if members[i]["opt"] and rng.chance(1, 4) else value_for(members[i], rng.choice([0, 1, 2, 3, 3, 2, None]))) for i in idx})
    seen, res = set(), []
    for a in out:
        k = tuple(sorted(a.items()))
        if k not in seen:
            seen.add(k)
            res.append(a)
    return res


def bits_of(b):
    return "".join("{:08b}".format(x) for x in b)


def shape_frames(members, vals, inner):
    """the frame in BER, UPER and XER, assembled in Python.  inner: open member index -> type name whose sample value the member holds.
    AUTOMATIC TAGS: member k is [k] (IMPLICIT on the primitive members, EXPLICIT around an open type); UPER: presence bits of the
    OPTIONAL members, then unconstrained INTEGERs as length + octets, BOOLEAN as one bit, open types as length + octets."""
    ber, xer = b"", "<Frame>"
    pre = "".join("0" if vals.get(i) is None else "1" for i, m in enumerate(members) if m["k"] == "idref" and m["opt"])
    ub = pre
    for k, m in enumerate(members):
        if m["k"] == "idref":
            v = vals.get(k)
            if v is None:
                continue
            c = int_octets(v)
            ber += bytes([0x80 | k, len(c)]) + c
            ub += bits_of(bytes([len(c)]) + c)
            xer += "<%s>%d</%s>" % (m["name"], v, m["name"])
        elif m["k"] == "plain":
            if m["ty"] == "INTEGER":
                ber += bytes([0x80 | k, 1, 5])
                ub += bits_of(b"\x01\x05")
                xer += "<%s>5</%s>" % (m["name"], m["name"])
            else:
                ber += bytes([0x80 | k, 1, 0xff])
                ub += "1"
                xer += "<%s><true/></%s>" % (m["name"], m["name"])
        else:
            _, d, u, x = SHAPE_TYPES[inner[k]]
            d, u = bytes.fromhex(d), bytes.fromhex(u)
            ber += bytes([0xa0 | k]) + der_len(len(d)) + d
            ub += bits_of(bytes([len(u)]) + u)
            xer += "<%s>%s</%s>" % (m["name"], x, m["name"])
    ub += "0" * (-len(ub) % 8)
    return (b"\x30" + der_len(len(ber)) + ber).hex(), bytes(int(ub[i:i + 8], 2) for i in range(0, len(ub), 8)).hex(), xer + "</Frame>"


import re as _re

_SELFN_RE = _re.compile(r"^select_(\w+?)_type\(.*?\n\}", _re.S | _re.M)


def parse_selectors(cfile):
    """per generated selector: the member it reads (`offsetof(struct T, <member>)`), whether through a pointer, the two columns"""
    text = open(cfile, errors="replace").read()
    out = {}
    for mt in _SELFN_RE.finditer(text):
        body = mt.group(0)
        off = _re.findall(r"offsetof\(struct (\w+), (\w+)\)", body)
        cc = _re.search(r"constraining_column = (\d+);", body)
        fc = _re.search(r"for_column = (\d+);", body)
        out[mt.group(1)] = {"reads": [o[1] for o in off], "struct": [o[0] for o in off], "pointer": "memb_ptr" in body,
                            "ccol": int(cc.group(1)) if cc else None, "fcol": int(fc.group(1)) if fc else None}
    return out


# ---------------------------------------------------------------- (2) rows with zero-bit encodings

# palette: name -> modgen type.  zero-bit in PER: Nul, Emp, Oz, Five; Opt has a two-bit preamble only when everything is absent.
ZERO_PALETTE = [
    ("Nul", {"k": "null"}),
    ("Emp", {"k": "seq", "ms": []}),
    ("Oz", {"k": "oct", "con": (0, 0, False)}),
    ("Five", {"k": "int", "con": (5, 5, False)}),
    ("Opt", {"k": "seq", "ms": [("a", {"k": "int", "con": (0, 255, False)}, True), ("b", {"k": "bool"}, True)]}),
    ("Boo", {"k": "bool"}),
    ("Byte", {"k": "int", "con": (0, 255, False)}),
    ("Pair", {"k": "seq", "ms": [("a", {"k": "int", "con": (0, 255, False)}, False), ("b", {"k": "int", "con": (0, 255, False)}, False)]}),
    ("Triple", {"k": "seq", "ms": [("a", {"k": "int", "con": (0, 255, False)}, False), ("b", {"k": "int", "con": (0, 255, False)}, False),
                                   ("c", {"k": "int", "con": (0, 255, False)}, False)]}),
]
ZERO_BIT = ("Nul", "Emp", "Oz", "Five")


def zero_module(name, rng, order=None, ids=None):
    """a legacy-shaped module (id, value) whose rows are the palette, in the dict format of c18_util.C18Gen.module (so the whole of
    check_module runs on it too)"""
    from c18_util import legacy_fields, legacy_egroups
    pal = list(ZERO_PALETTE)
    if order == "zero-last":
        pal = pal[4:] + pal[:4]
    elif order == "shuffled":
        pal = rng.shuffle(pal)
    elif order == "alternate":
        pal = [x for pair in zip(pal[:4], pal[5:9]) for x in pair] + [pal[4]]
    ids = ids or list(range(1, len(pal) + 1))
    default = "AUTOMATIC"
    defs, env, trees, rows = [], {}, {}, []
    for (tn, t), i in zip(pal, ids):
        defs.append((tn, t))
        env[tn] = t
        trees[tn] = resolve(t, default, env)
        rows.append({"id": i, "types": [tn]})
    idbase = ("i", tagnum("UNIVERSAL", 2), None, None, False)
    lines = ["%s DEFINITIONS AUTOMATIC TAGS ::= BEGIN" % name,
             "  MY-CLASS ::= CLASS { &id INTEGER UNIQUE, &Type } WITH SYNTAX { ID &id TYPE &Type }",
             "  MySet MY-CLASS ::= { %s }" % " | ".join("{ ID %d TYPE %s }" % (r["id"], r["types"][0]) for r in rows),
             "  Frame ::= SEQUENCE { id MY-CLASS.&id({MySet}), value MY-CLASS.&Type({MySet}{@id}) }",
             "  Wrap ::= SEQUENCE { pre BOOLEAN, inner Frame, list SEQUENCE OF Frame }"]
    for tn, t in defs:
        lines.append("  %s ::= %s" % (tn, type_text(t) if t["k"] != "seq" or t["ms"] else "SEQUENCE {}"))
    lines.append("END")
    m = {"name": name, "default": default, "defs": [("Frame", None), ("Wrap", None)] + defs, "trees": trees, "text": "\n".join(lines) + "\n",
         "idkind": "int", "idtree": retag(idbase, tagnum("CONTEXT", 0)), "open_tags": [tagnum("CONTEXT", 1)], "groups": [rows], "rows": rows, "ncols": 1, "mcols": [0],
         "ext": False, "lone": False, "untagged": False, "simple": False, "idcon": None, "members": ["value"],
         "fields": legacy_fields(1), "ic": 0, "tcols": [1], "shape": "legacy", "setstyle": "plain", "classname": "MY-CLASS", "zero": True}
    m["egroups"] = legacy_egroups(m)
    return m


def _int_der(v, tag=2):
    c = int_octets(v)
    return bytes([tag, len(c)]) + c


def _seq_der(vs):
    body = b"".join(_int_der(v, 0x80 + k) for k, v in enumerate(vs))
    return b"\x30" + bytes([len(body)]) + body


def zero_decode(tn, syn, c):
    """Python's fixed-width decoder of a palette type from the container contents c (bytes), syn in uper|oer:
    None = the type does not decode; else (units consumed: bits for uper, octets for oer; DER of the value or None = not judged)"""
    if syn == "uper":
        bits = bits_of(c)
        if tn in ("Nul", "Emp", "Oz", "Five"):
            return 0, {"Nul": b"\x05\x00", "Emp": b"\x30\x00", "Oz": b"\x04\x00", "Five": b"\x02\x01\x05"}[tn]
        if tn == "Boo":
            return (1, b"\x01\x01" + (b"\xff" if bits[0] == "1" else b"\x00")) if len(bits) >= 1 else None
        if tn in ("Byte", "Pair", "Triple"):
            n = {"Byte": 1, "Pair": 2, "Triple": 3}[tn]
            if len(c) < n:
                return None
            return 8 * n, (_int_der(c[0]) if tn == "Byte" else _seq_der(list(c[:n])))
        if tn == "Opt":
            if len(bits) < 2:
                return None
            pos, body = 2, b""
            if bits[0] == "1":
                if len(bits) < pos + 8:
                    return None
                body += _int_der(int(bits[pos:pos + 8], 2), 0x80)
                pos += 8
            if bits[1] == "1":
                if len(bits) < pos + 1:
                    return None
                body += b"\x81\x01" + (b"\xff" if bits[pos] == "1" else b"\x00")
                pos += 1
            return pos, b"\x30" + bytes([len(body)]) + body
    else:
        if tn in ("Nul", "Emp", "Oz"):
            return 0, {"Nul": b"\x05\x00", "Emp": b"\x30\x00", "Oz": b"\x04\x00"}[tn]
        if tn == "Five":
            return (1, b"\x02\x01\x05" if c[0] == 5 else None) if len(c) >= 1 else None
        if tn == "Boo":
            return (1, {0: b"\x01\x01\x00", 255: b"\x01\x01\xff"}.get(c[0])) if len(c) >= 1 else None
        if tn in ("Byte", "Pair", "Triple"):
            n = {"Byte": 1, "Pair": 2, "Triple": 3}[tn]
            if len(c) < n:
                return None
            return n, (_int_der(c[0]) if tn == "Byte" else _seq_der(list(c[:n])))
        if tn == "Opt":
            if len(c) < 1:
                return None
            pos, body, judged = 1, b"", (c[0] & 0x3f) == 0
            if c[0] & 0x80:
                if len(c) < pos + 1:
                    return None
                body += _int_der(c[pos], 0x80)
                pos += 1
            if c[0] & 0x40:
                if len(c) < pos + 1:
                    return None
                judged = judged and c[pos] in (0, 255)
                body += b"\x81\x01" + (b"\xff" if c[pos] else b"\x00")
                pos += 1
            return pos, (b"\x30" + bytes([len(body)]) + body) if judged else None
    raise ValueError(tn)


def container_rule(syn, c, consumed):
    """the container-exhaustion rule, in Python.  UPER (X.691 10.2 + 10.1.3, per_opentype.c): everything up to at most 7 zero padding
    bits is consumed, or the type took no bits and the container is exactly one 00 octet.  OER / BER: consumed = the container."""
    if syn == "uper":
        rest = bits_of(c)[consumed:]
        return (len(rest) < 8 or (consumed == 0 and len(c) == 1)) and "1" not in rest
    return consumed == len(c)


def zero_encodings(syn):
    """sample encodings of every palette row (contents of the container), per syntax"""
    if syn == "uper":
        return {"Nul": ["00"], "Emp": ["00"], "Oz": ["00"], "Five": ["00"], "Opt": ["00", "8000", "40", "60", "c1c0", "8380"], "Boo": ["00", "80"],
                "Byte": ["00", "07", "ff"], "Pair": ["0000", "0102", "0001"], "Triple": ["000000", "010203", "000001"]}
    if syn == "oer":
        return {"Nul": [""], "Emp": [""], "Oz": [""], "Five": ["05"], "Opt": ["00", "8000", "40ff", "4000", "c007ff"], "Boo": ["00", "ff"],
                "Byte": ["00", "07", "ff"], "Pair": ["0000", "0102", "0001"], "Triple": ["000000", "010203", "000001"]}
    return {"Nul": ["0500"], "Emp": ["3000"], "Oz": ["0400"], "Five": ["020105"], "Opt": ["3000", "3003800100", "3003810100", "30068001008101ff"], "Boo": ["010100", "0101ff"],
            "Byte": ["020100", "020107", "020200ff"], "Pair": ["3006800100810100", "3006800101810102"], "Triple": ["3009800100810100820100", "3009800101810102820103"]}


def zero_patterns(syn):
    """container contents: 0..4 octets of 00, the same with one bit set (first, last, middle), all ones, and every row's own encodings"""
    pats = ["", "00", "0000", "000000", "00000000"]
    for k in range(1, 5):
        z = bytearray(k)
        for pos in sorted({0, 8 * k - 1, 4 * k, 7}):
            if pos < 8 * k:
                b = bytearray(z)
                b[pos // 8] |= 0x80 >> (pos % 8)
                pats.append(bytes(b).hex())
        pats.append("ff" * k)
    for v in zero_encodings(syn).values():
        pats += v
    if syn == "ber":
        pats += ["0500" + "00" * k for k in (1, 2)] + ["30000000", "040000", "02010500"]       # (no indefinite length inside the definite
        # EXPLICIT tag: "mixed definite/indefinite lengths in one tag chain" is a recorded defect of another property)
    seen, out = set(), []
    for p in pats:
        if p not in seen:
            seen.add(p)
            out.append(p)
    return out


def zero_frame(syn, idv, c):
    """Frame ::= SEQUENCE { id INTEGER, value <open type> } with the container contents c, in the syntax"""
    if syn == "ber":
        body = b"\x80\x01" + bytes([idv]) + b"\xa1" + der_len(len(c)) + c
        return (b"\x30" + der_len(len(body)) + body).hex()
    return (b"\x01" + bytes([idv]) + bytes([len(c)]) + c).hex()


def zero_frame_der(idv, der):
    body = b"\x80\x01" + bytes([idv]) + b"\xa1" + der_len(len(der)) + der
    return (b"\x30" + der_len(len(body)) + body).hex()
