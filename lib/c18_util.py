"""c18_util — generator of ASN.1 modules with an information object class, an
object set and a SEQUENCE ("Frame") whose open-type members are tied to an
identifier member by a component relation constraint; the frame descriptions
given to the model (ocaml/drv_c18.ml); a runner that survives driver crashes.

The syntax generated is the one the asn1c of /repo accepts (found by experiment,
see notes/design/C18.md):
   MY-CLASS ::= CLASS { &id INTEGER UNIQUE, &Type [, &Aux] } WITH SYNTAX { ... }
   MySet MY-CLASS ::= { obj | obj | ... [, ... [, obj | obj]] }
   Frame ::= SEQUENCE { id [tag] MY-CLASS.&id({MySet}),
                        value [tag] MY-CLASS.&Type({MySet}{@id}) [, aux ...] }
Row types are always references to named types of the modelled algebra
(lib/modgen.py), distinct within a column.
"""
from vlib import *
from modgen import *

INT_IDS = [0, 1, 2, 3, 4, 5, 7, 9, 10, 100, 127, 128, 255, 256, 300, 32767, 32768, 65535, 65536, 70000,
           -1, -2, -5, -128, -129, -32768, -32769, 2**31 - 1, 2**31, -2**31, -2**31 - 1, 2**32, 2**40, 2**62, -2**62]
# identifiers at the boundaries of every representation an identifier cell can have (one / two / three / four / five
# content octets, signed and unsigned reading, int / long), both signs
BOUNDARY_IDS = [0, 1, 127, 128, 255, 256, 32767, 32768, 65535, 65536, 2**31 - 1, 2**31, 2**32 - 1,
                -1, -128, -129, -32768, -32769]
# what asn1c accepts under -fwide-types (INTEGER_t cells): 0..32767; boundaries first, then pairs that differ by 256 / in one octet
WIDE_BOUNDARY_IDS = [0, 1, 127, 128, 255, 256, 32767]
WIDE_IDS = WIDE_BOUNDARY_IDS + [2, 3, 5, 100, 126, 129, 200, 254, 257, 300, 383, 384, 511, 512, 1000, 16383, 16384, 32512, 32639, 32640, 32766]
ENUM_IDS = [0, 1, 2, 5, 127, 128, 200, 255, 256, 300, 32767, 32768, 65535, 65536, -1, -3, -128, -129, -32768, -32769, 2**31 - 1, -2**31]
OID_IDS = [(1, 2, 3), (1, 2, 840, 113549), (2, 999, 1), (0, 0), (1, 3, 6, 1, 4, 1), (2, 5, 4, 3), (1, 2, 3, 4), (0, 39, 16383),
           (2, 100, 3), (1, 0, 8571, 2), (1, 2), (2, 5, 29, 15)]


def oid_contents(arcs):
    out = []
    vals = [arcs[0] * 40 + arcs[1]] + list(arcs[2:])
    for v in vals:
        ds = [v % 128]
        v //= 128
        while v:
            ds.insert(0, 128 + v % 128)
            v //= 128
        out += ds
    return bytes(out)


def der_len(n):
    if n <= 127:
        return bytes([n])
    b = n.to_bytes((n.bit_length() + 7) // 8, "big")
    return bytes([0x80 | len(b)]) + b


def id_universal_der(kind, v):
    """the identifier value under its universal tag (what `sel` is given); bytes = raw contents octets"""
    if kind in ("int", "enum"):
        c = v if isinstance(v, bytes) else int_octets(v)
        return bytes([2 if kind == "int" else 10]) + der_len(len(c)) + c
    c = oid_contents(v) if isinstance(v, tuple) else v
    return bytes([6]) + der_len(len(c)) + c


def int_octets(v):
    """minimal two's-complement contents octets (an independent reading: Python's own conversion)"""
    n = max(1, (v.bit_length() + 8) // 8) if v >= 0 else max(1, ((-v - 1).bit_length() + 8) // 8)
    return v.to_bytes(n, "big", signed=True)


def derived_ids(r):
    """identifiers a truncated, sign-flipped or re-interpreted cell of identifier r would answer to"""
    b = int_octets(r)
    out = {r - 256, r + 256, -r, r - 1, r + 1, r - 65536, r + 65536, r ^ 0x80, r ^ 0x8000,
           int.from_bytes(b, "big", signed=False),                       # the octets read as unsigned
           int.from_bytes(b[-1:], "big", signed=True), b[-1],           # the last octet alone
           int.from_bytes(b[:1], "big", signed=True), b[0],             # the first octet alone
           int.from_bytes(b[-2:], "big", signed=True), int.from_bytes(b[-2:], "big", signed=False),
           int.from_bytes(b[:2], "big", signed=True), int.from_bytes(b[:2], "big", signed=False),
           (r & 0xffffffff), ((r & 0xffffffff) ^ 0x80000000) - 0x80000000,   # int / unsigned int
           (r & 0xffff), ((r & 0xffff) ^ 0x8000) - 0x8000, (r & 0xff), ((r & 0xff) ^ 0x80) - 0x80}
    if len(b) > 1 and b[0] == 0:
        out.add(int.from_bytes(b[1:], "big", signed=True))               # the leading 00 dropped: 00 c8 -> c8 = -56
    if len(b) > 1:
        out.add(int.from_bytes(b[1:], "big", signed=False))
    out.discard(r)
    return sorted(x for x in out if -2**63 <= x < 2**63)


def nonminimal(v):
    """non-minimal BER contents for v (invalid by X.690 8.3.2, accepted by ber_decode_primitive)"""
    b = int_octets(v)
    pad = b"\xff" if v < 0 else b"\x00"
    return [pad + b, pad + pad + b]


def id_val_str(kind, v):
    if kind in ("int", "enum"):
        return "I%d;" % v
    c = oid_contents(v) if isinstance(v, tuple) else v
    return "O%s;" % c.hex()


def enum_name(v):
    return "e%s%d" % ("m" if v < 0 else "", abs(v))


def id_text(kind, v):
    if kind == "enum":
        return enum_name(v)
    return str(v) if kind == "int" else "{ %s }" % " ".join(str(a) for a in v)


def id_xer(kind, v):
    if kind == "enum":
        return "<%s/>" % enum_name(v)
    return str(v) if kind == "int" else ".".join(str(a) for a in v)


class C18Gen:
    def __init__(self, rng):
        self.rng = rng
        self.g = Gen(rng, maxdepth=2)

    def row_type(self, default, env):
        """a named type of the modelled algebra, not a bare reference"""
        r = self.rng
        for _ in range(200):
            t = self.g.ty(r.choice([0, 0, 1, 2]), default, list(env.keys()) if r.chance(1, 2) else [])
            if t["k"] == "ref":
                continue
            try:
                tree = resolve(t, default, env)
            except ValueError:
                continue
            if tree_valid(tree):
                return t, tree
        raise RuntimeError("could not generate a row type")

    SIMPLE = [{"k": "int"}, {"k": "bool"}, {"k": "oct"}, {"k": "null"}, {"k": "int", "con": (0, 255, False)},
              {"k": "seq", "ms": [("a", {"k": "int"}, False), ("b", {"k": "bool"}, True)]}, {"k": "seqof", "el": {"k": "int"}},
              {"k": "oct", "con": (0, 4, False)}, {"k": "int", "con": (-5, None, True)}, {"k": "choice", "ms": [("x", {"k": "int"}, False), ("y", {"k": "null"}, False)]}]

    def module(self, name, idkind="int", ncols=None, lone=False, untagged=None, nrows=None, ids=None, idpool=None, order=None,
               simple=False, samecol=False):
        """lone: the set contains an element set made of one object alone (asn1c drops it);
        untagged: True = non-AUTOMATIC module, open-type members without tags;
        idkind: int | oid | enum (identifier field `&id Kind`, Kind an ENUMERATED type);
        ids: the identifiers of the rows, in row order (else drawn from idpool and put in `order`: None = as drawn, asc, desc);
        simple: row types from a small fixed palette (many-row modules); samecol: two open-type members on the column &Type"""
        r = self.rng
        if untagged is None:
            untagged = r.chance(1, 6)
        default = r.choice(["EXPLICIT", "IMPLICIT"]) if untagged else r.choice(["AUTOMATIC", "AUTOMATIC", "EXPLICIT", "IMPLICIT"])
        ncols = 1 if samecol else (ncols or r.choice([1, 1, 2]))
        mcols = [0, 0] if samecol else list(range(ncols))
        if ids is None:
            nrows = nrows or r.choice([2, 2, 3, 3, 4, 5, 6, 7, 8])
            pool = idpool or {"int": INT_IDS, "oid": OID_IDS, "enum": ENUM_IDS}[idkind]
            ids = r.shuffle(pool)[:nrows]
            if order == "asc":
                ids = sorted(ids)
            elif order == "desc":
                ids = sorted(ids, reverse=True)
        ids = list(ids)
        nrows = len(ids)
        defs, env, trees = [], {}, {}
        rows = []
        for i in range(nrows):
            tns = []
            for c in range(ncols):
                tn = "%s%d" % ("RA"[c], i + 1)
                if simple:
                    t = self.SIMPLE[(i * ncols + c + r.below(3)) % len(self.SIMPLE)]
                    tree = resolve(t, default, env)
                else:
                    t, tree = self.row_type(default, env)
                defs.append((tn, t))
                env[tn] = t
                trees[tn] = tree
                tns.append(tn)
            rows.append({"id": ids[i], "types": tns})
        # element sets: a root union, optionally the marker, optionally a union of additions
        ext = r.chance(1, 2)
        groups = [rows]
        if lone:
            # (the grammar allows one element set before the marker and one after it)
            k = r.choice([0, 1])
            if nrows == 1:
                groups = [rows]
            elif k == 0:
                groups, ext = [rows[:-1], rows[-1:]], True        # a lone addition after the marker
            else:
                groups, ext = [rows[:1], rows[1:]], True          # a lone root object, additions in a union
        elif ext and nrows >= 4 and r.chance(1, 2):
            k = r.range(2, nrows - 2)
            groups = [rows[:k], rows[k:]]
        # tags of the frame members
        # a range constraint on the identifier field changes the C type of the identifier member (long / unsigned long) and its PER encoding
        idcon = None
        if idkind == "int" and r.chance(1, 3):
            fits = [c for c in [(0, 255), (0, 32767), (0, 65535), (-128, 127), (-32768, 32767), (0, 4294967295), (-2147483648, 2147483647)]
                    if all(c[0] <= x <= c[1] for x in ids)]
            if fits:
                idcon = r.choice(fits)
        idbase = {"int": ("i", tagnum("UNIVERSAL", 2), idcon[0] if idcon else None, idcon[1] if idcon else None, False), "enum": ("i", tagnum("UNIVERSAL", 10), None, None, False),
                  "oid": ("o", tagnum("UNIVERSAL", 6), 0, None, False)}[idkind]
        nmem = len(mcols)
        idtag_text, open_tag_text, open_tags = "", [], []
        if default == "AUTOMATIC":
            idtree = retag(idbase, tagnum("CONTEXT", 0))
            open_tags = [tagnum("CONTEXT", 1 + j) for j in range(nmem)]
            open_tag_text = [""] * nmem
        else:
            idtree = idbase
            if r.chance(1, 2):
                cls, num = r.choice(["CONTEXT", "APPLICATION", "PRIVATE"]), r.choice([0, 3, 30, 31, 200])
                mode = r.choice([None, "IMPLICIT", "EXPLICIT"])
                idtag_text = tag_text((cls, num, mode))
                eff = mode or default
                idtree = ("x", tagnum(cls, num), idbase) if eff == "EXPLICIT" else retag(idbase, tagnum(cls, num))
            for j in range(nmem):
                if untagged:
                    open_tags.append(None)
                    open_tag_text.append("")
                else:
                    cls, num = r.choice(["CONTEXT", "CONTEXT", "APPLICATION", "PRIVATE"]), [5, 31, 1000][j] if r.chance(1, 2) else 1 + j
                    open_tags.append(tagnum(cls, num))
                    open_tag_text.append(tag_text((cls, num, r.choice([None, "EXPLICIT"]))))
        # text
        style = r.choice(["A", "B"])
        if ncols == 1:
            syntax = "{ ID &id TYPE &Type }" if style == "A" else "{ &Type IDENTIFIED BY &id }"
            obj = (lambda i, t: "{ ID %s TYPE %s }" % (i, t[0])) if style == "A" else (lambda i, t: "{ %s IDENTIFIED BY %s }" % (t[0], i))
        else:
            syntax = "{ ID &id TYPE &Type AUX &Aux }" if style == "A" else "{ &Type IDENTIFIED BY &id WITH &Aux }"
            obj = (lambda i, t: "{ ID %s TYPE %s AUX %s }" % (i, t[0], t[1])) if style == "A" else (lambda i, t: "{ %s IDENTIFIED BY %s WITH %s }" % (t[0], i, t[1]))
        idtype = {"int": "INTEGER", "oid": "OBJECT IDENTIFIER", "enum": "Kind"}[idkind]
        idfield = idtype + (" (%d..%d)" % idcon if idcon else "")
        lines = ["%s DEFINITIONS %s TAGS ::= BEGIN" % (name, default)]
        if idkind == "enum":
            lines.append("  Kind ::= ENUMERATED { %s }" % ", ".join("%s(%d)" % (enum_name(v), v) for v in r.shuffle(ids)))
        lines.append("  MY-CLASS ::= CLASS { &id %s UNIQUE, &Type%s } WITH SYNTAX %s" % (idfield, ", &Aux" if ncols == 2 else "", syntax))
        extra, gtexts = [], []
        n = 0
        for g in groups:
            objs = []
            for row in g:
                n += 1
                idt = id_text(idkind, row["id"])
                if idkind != "enum" and r.chance(1, 4):
                    extra.append("  idv%d %s ::= %s" % (n, idtype, idt))
                    idt = "idv%d" % n
                o = obj(idt, row["types"])
                if r.chance(1, 4):
                    extra.append("  obj%d MY-CLASS ::= %s" % (n, o))
                    o = "obj%d" % n
                objs.append(o)
            gtexts.append(" | ".join(objs))
        settext = gtexts[0]
        if ext:
            settext += ", ..."
            if len(gtexts) > 1:
                settext += ", " + ", ".join(gtexts[1:])
        elif len(gtexts) > 1:
            settext = ", ".join(gtexts)
        lines.append("  MySet MY-CLASS ::= { %s }" % settext)
        lines += extra
        at = r.choice(["@id", "@.id"])
        ms = ["id %sMY-CLASS.&id({MySet})" % idtag_text, "value %sMY-CLASS.&Type({MySet}{%s})" % (open_tag_text[0], at)]
        if ncols == 2:
            ms.append("aux %sMY-CLASS.&Aux({MySet}{%s})" % (open_tag_text[1], at))
        if samecol:
            ms.append("value2 %sMY-CLASS.&Type({MySet}{%s})" % (open_tag_text[1], at))
        lines.append("  Frame ::= SEQUENCE { %s }" % ", ".join(ms))
        # the frame inside other types: a member and the elements of a SEQUENCE OF (the selector works on the right parent)
        lines.append("  Wrap ::= SEQUENCE { pre BOOLEAN, inner Frame, list SEQUENCE OF Frame }")
        for tn, t in defs:
            lines.append("  %s ::= %s" % (tn, type_text(t)))
        lines.append("END")
        m = {"name": name, "default": default, "defs": [("Frame", None), ("Wrap", None)] + defs, "trees": trees, "text": "\n".join(lines) + "\n",
             "idkind": idkind, "idtree": idtree, "open_tags": open_tags, "groups": groups, "rows": rows, "ncols": ncols, "mcols": mcols,
             "ext": ext, "lone": lone, "untagged": untagged, "simple": simple, "idcon": idcon, "members": ["value", "aux" if not samecol else "value2"][:nmem]}
        m.update({"fields": legacy_fields(ncols), "ic": 0, "tcols": list(range(1, 1 + ncols)), "shape": "legacy", "setstyle": "plain", "classname": "MY-CLASS"})
        m["egroups"] = legacy_egroups(m)
        return m


# ---------------------------------------------------------------- information object classes of any shape (round 3)

# the literal of WITH SYNTAX for each field: no word is part of another, of a type name or of a value text
# (asn1fix_cws.c finds the end of a setting with strstr on the next literal)
WORDS = {"&id": "IDENT", "&Type": "KIND", "&Aux": "AUXIL", "&crit": "CRIT", "&prio": "PRIO", "&level": "LEVEL", "&Extra": "EXTRA"}
CRIT_NAMES = ["reject", "ignore", "notify"]          # Crit ::= ENUMERATED { reject(0), ignore(1), notify(2) }
PRIO_POOL = [0, 1, 7, 9, 42, 99, 127, 128, 255, 256, 1000, 32767]


def syntax_fields(items):
    out = []
    for it in items:
        out += [it[1]] if it[0] == "f" else syntax_fields(it[1])
    return out


def syntax_text(fields, items):
    parts = []
    for it in items:
        if it[0] == "f":
            parts.append("%s %s" % (WORDS[fields[it[1]]["name"]], fields[it[1]]["name"]))
        else:
            parts.append("[%s]" % syntax_text(fields, it[1]))
    return " ".join(parts)


def presence_choices(items):
    """every set of fields an object may set under a WITH SYNTAX tree: the direct fields of a group come together,
    a nested group only inside its parent"""
    outs = [frozenset()]
    for it in items:
        if it[0] == "f":
            outs = [o | {it[1]} for o in outs]
        else:
            inner = presence_choices(it[1])
            outs = [o | i for o in outs for i in [frozenset()] + inner]
    return sorted(set(outs), key=lambda o: (len(o), sorted(o)))


def object_text(fields, items, texts):
    """the object as the WITH SYNTAX tree spells it; texts: field index -> setting text (set fields only)"""
    parts = []
    for it in items:
        if it[0] == "f":
            parts.append("%s %s" % (WORDS[fields[it[1]]["name"]], texts[it[1]]))
        else:
            first = [x for x in it[1] if x[0] == "f"][0][1]
            if first in texts:
                parts.append(object_text(fields, it[1], texts))
    return " ".join(parts)


def shape_of(rng, ncols=1, nvals=None, idpos=None, optional_types=(), directed=None):
    """a class shape: fields in class order and a WITH SYNTAX tree over a permutation of them.
    directed: None (random) | 'one' (one OPTIONAL value field after the others) | 'first' (an OPTIONAL value field BEFORE the identifier)
    | 'two' (two independent optional groups) | 'nested' ([CRIT &crit [PRIO &prio]]) | 'joint' ([CRIT &crit PRIO &prio])
    | 'auxopt' (an OPTIONAL type field no member uses) | 'typefirst' (type field, then identifier, then optional field)"""
    r = rng
    fid = {"name": "&id", "kind": "id", "opt": None}
    ftypes = [{"name": n, "kind": "type", "opt": ("OPTIONAL" if j in optional_types else None)} for j, n in enumerate(["&Type", "&Aux"][:ncols])]
    crit = lambda opt: {"name": "&crit", "kind": "val", "vtype": "Crit", "opt": opt}
    prio = lambda opt: {"name": "&prio", "kind": "val", "vtype": "INTEGER", "opt": opt}
    level = lambda opt: {"name": "&level", "kind": "val", "vtype": "INTEGER", "opt": opt}
    extra = lambda opt: {"name": "&Extra", "kind": "type", "opt": opt, "unused": True}
    od = lambda: r.choice(["OPTIONAL", "DEFAULT"])
    grp = None
    if directed == "one":
        fields = [fid] + ftypes + [crit("OPTIONAL")]
    elif directed == "first":
        fields = [prio(od()), fid] + ftypes
    elif directed == "typefirst":
        fields = ftypes[:1] + [fid] + ftypes[1:] + [crit(od())]
    elif directed == "two":
        fields = [fid, crit(od())] + ftypes + [prio(od())]
    elif directed in ("nested", "joint"):
        fields = [fid] + ftypes + [crit(od()), prio("OPTIONAL")]
        grp = directed
    elif directed == "auxopt":
        fields = [fid] + ftypes + [extra("OPTIONAL"), level(None)]
    else:
        vals = r.shuffle([crit, prio, level])[:r.choice([0, 1, 1, 2, 2, 3]) if nvals is None else nvals]
        fields = [fid] + ftypes + [v(r.choice([None, "OPTIONAL", "OPTIONAL", "DEFAULT"])) for v in vals]
        if r.chance(1, 4):
            fields.append(extra(r.choice([None, "OPTIONAL"])))
        fields = r.shuffle(fields)
        if idpos is not None:
            fields.remove(fid)
            fields.insert(min(idpos, len(fields)), fid)
    # WITH SYNTAX: a permutation of the fields; optional ones in groups of their own, two of them sometimes joined or nested
    idx = list(range(len(fields)))
    order = idx if directed in ("one", "nested", "joint") else r.shuffle(idx)
    opt = [i for i in order if fields[i]["opt"]]
    man = [i for i in order if not fields[i]["opt"]]
    if grp is None and len(opt) >= 2 and r.chance(1, 3):
        grp = r.choice(["nested", "joint"])
    groups = []
    if grp and len(opt) >= 2:
        a, b = opt[0], opt[1]
        groups.append(("g", [("f", a), ("f", b)]) if grp == "joint" else ("g", [("f", a), ("g", [("f", b)])]))
        opt = opt[2:]
    groups += [("g", [("f", i)]) for i in opt]
    items = [("f", i) for i in man]
    for g in groups:                                   # an optional group anywhere, also first
        items.insert(r.below(len(items) + 1), g)
    for g in groups:
        # asn1fix_cws.c:asn1f_next_literal_chunk climbs ONE level only: a group that ends with a nested group must end the whole
        # syntax, or the setting before the `]]` swallows the rest of the object (clean refusal, exit 65; seen, avoided)
        if any(x[0] == "g" for x in g[1]):
            items.remove(g)
            items.append(g)
    return fields, items


def field_text(f, idfield):
    if f["kind"] == "id":
        return "&id %s" % idfield
    if f["kind"] == "type":
        return f["name"] + (" OPTIONAL" if f["opt"] else "")
    dflt = {"Crit": "ignore", "INTEGER": "7"}[f["vtype"]]
    return "%s %s%s" % (f["name"], f["vtype"], {None: "", "OPTIONAL": " OPTIONAL", "DEFAULT": " DEFAULT " + dflt}[f["opt"]])


def legacy_fields(ncols):
    return [{"name": "&id", "kind": "id", "opt": None}] + [{"name": n, "kind": "type", "opt": None} for n in ["&Type", "&Aux"][:ncols]]


def row_cells(m, row):
    """the settings of an object by field index: ('val', int) | ('type', name); unset fields are absent"""
    if "cells" in row:
        return row["cells"]
    out = {m["ic"]: ("val", row["id"])}
    for j, fi in enumerate(m["tcols"]):
        out[fi] = ("type", row["types"][j])
    return out


def obj_token(m, row):
    cells = row_cells(m, row)
    order = row.get("order") or sorted(cells)
    if not order:
        return "o:-"
    return "o:" + ",".join("%d=%s" % (k, ("T:" + cells[k][1]) if cells[k][0] == "type" else
                                      (id_val_str(m["idkind"], cells[k][1]) if k == m["ic"] else "I%d;" % cells[k][1])) for k in order)


def eset_tokens(m):
    """the set as written for the matrix model (ocaml/drv_c18.ml: c18mx, c18msel, c18alts)"""
    toks = [str(len(m["egroups"]))]
    for g in m["egroups"]:
        toks.append(str(len(g)))
        for e in g:
            if e[0] == "o":
                toks.append(obj_token(m, e[1]))
            else:
                toks.append("r:%d:%d" % (len(e[1]), len(e[2])))
                toks += [obj_token(m, x) for x in e[1]] + [obj_token(m, x) for x in e[2]]
    return " ".join(toks)


def legacy_egroups(m):
    return [[("o", row) for row in g] for g in m["groups"]]


def shape_module(gen, name, directed=None, presence="every", rowsorder=None, setstyle="plain", ncols=None, idkind="int", idpool=None, nrows=None,
                 optional_types=(), idopt=False, members=None, untagged=False, bigvals=False):
    """a module whose class has any shape (shape_of) and whose objects set any subset of the optional fields.
    presence: 'every' = one object per subset the syntax allows (then complete objects up to nrows) | 'random' | 'complete'
    rowsorder: None (shuffled) | 'incomplete-first' | 'complete-first' | 'alternate'
    setstyle: plain | objrefs (every object by reference) | refs (Set1 ::= { SetA | SetB }) | refsext ({ SetA, ..., SetB }) | mixed ({ SetA | obj | {..} })
    optional_types: type columns declared OPTIONAL (and left unset by some objects): the recorded defect C18-unset-type-cell
    idopt: the identifier field OPTIONAL and unset by some object: C18-unset-identifier-cell"""
    r = gen.rng
    default = "AUTOMATIC" if not untagged else r.choice(["EXPLICIT", "IMPLICIT"])
    ncols = ncols or r.choice([1, 1, 2])
    fields, items = shape_of(r, ncols=ncols, optional_types=optional_types, directed=directed)
    if idopt:
        fields, items = shape_of(r, ncols=ncols, directed="one")
        fields = [dict(f) for f in fields]
        fields[0]["opt"] = "OPTIONAL"
        items = [("f", 1)] + [("f", i) for i in range(2, len(fields) - 1)] + [("g", [("f", 0)]), ("g", [("f", len(fields) - 1)])]
    ic = [i for i, f in enumerate(fields) if f["kind"] == "id"][0]
    tcols = [i for i, f in enumerate(fields) if f["kind"] == "type" and not f.get("unused")]
    choices = presence_choices(items)
    full = choices[-1]
    assert len(full) == len(fields)
    if presence == "complete":
        pres = [full] * (nrows or r.choice([3, 4, 5]))
    elif presence == "every":
        pres = list(choices)
        while len(pres) < (nrows or 0):
            pres.append(r.choice([full, full, r.choice(choices)]))
        if len(pres) < 3:
            pres += [full] * (3 - len(pres))
    else:
        pres = [r.choice(choices) for _ in range(nrows or r.choice([3, 4, 5, 6, 8]))]
        if all(p == full for p in pres):
            pres[r.below(len(pres))] = choices[0]
    inc = [p for p in pres if p != full]
    com = [p for p in pres if p == full]
    if rowsorder == "incomplete-first":
        pres = inc + com
    elif rowsorder == "complete-first":
        pres = com + inc
    elif rowsorder == "alternate":
        pres = []
        while inc or com:
            if inc:
                pres.append(inc.pop(0))
            if com:
                pres.append(com.pop(0))
    else:
        pres = r.shuffle(pres)
    nr = len(pres)
    pool = idpool or {"int": INT_IDS, "enum": ENUM_IDS}[idkind]
    ids = r.shuffle(pool)[:nr]
    assert len(ids) == nr
    defs, env, trees, rows = [], {}, {}, []
    for i, p in enumerate(pres):
        cells, tns = {}, []
        for c, fi in enumerate(tcols):
            tn = "%s%d" % ("RA"[c], i + 1)
            t = gen.SIMPLE[(i * len(tcols) + c + r.below(3)) % len(gen.SIMPLE)] if r.chance(1, 2) else gen.row_type(default, env)[0]
            tree = resolve(t, default, env)
            defs.append((tn, t))
            env[tn] = t
            trees[tn] = tree
            tns.append(tn if fi in p else None)
            if fi in p:
                cells[fi] = ("type", tn)
        for fi, f in enumerate(fields):
            if fi not in p:
                continue
            if f["kind"] == "id":
                cells[fi] = ("val", ids[i])
            elif f.get("unused"):
                tn = "X%d" % (i + 1)
                t = gen.SIMPLE[(i + 3) % len(gen.SIMPLE)]
                defs.append((tn, t))
                env[tn] = t
                trees[tn] = resolve(t, default, env)
                cells[fi] = ("type", tn)
            elif f["kind"] == "val" and f["vtype"] == "Crit":
                cells[fi] = ("val", r.below(3))
            elif f["kind"] == "val":
                taken = {abs(ids[i])} | {abs(v[1]) for k, v in cells.items() if v[0] == "val"}
                vp = [x for x in (PRIO_POOL + ([65536, 2**31, -3] if bigvals else [])) if abs(x) not in taken]
                cells[fi] = ("val", r.choice(vp))
        rows.append({"id": ids[i] if ic in p else None, "types": tns, "cells": cells, "order": [fi for fi in syntax_fields(items) if fi in cells]})
    # the set
    ext = r.chance(1, 2)
    extra, n = [], 0
    idtype = {"int": "INTEGER", "enum": "Kind"}[idkind]

    def otext(row, byref=None):
        texts = {}
        for fi, (k, v) in row["cells"].items():
            f = fields[fi]
            if k == "type":
                texts[fi] = v
            elif f["kind"] == "id":
                texts[fi] = id_text(idkind, v)
            elif f["vtype"] == "Crit":
                texts[fi] = CRIT_NAMES[v]
            else:
                texts[fi] = str(v)
        o = "{ %s }" % object_text(fields, items, texts)
        if byref if byref is not None else r.chance(1, 4):
            extra.append("  obj%d OC ::= %s" % (rows.index(row) + 1, o))
            o = "obj%d" % (rows.index(row) + 1)
        return o

    compiled, cgroups = rows, None
    if setstyle in ("plain", "objrefs"):
        groups = [rows]
        if ext and nr >= 4 and r.chance(1, 2):
            k = r.range(2, nr - 2)
            groups = [rows[:k], rows[k:]]
        egroups = [[("o", row) for row in g] for g in groups]
        gt = [" | ".join(otext(row, True if setstyle == "objrefs" else None) for row in g) for g in groups]
        settext = gt[0] + (", ..." if ext else "") + ("".join(", " + x for x in gt[1:]) if len(gt) > 1 else "")
        if len(gt) > 1 and not ext:
            settext = ", ".join(gt)
    else:
        # SetA / SetB hold two rows or more each; the rest (mixed) stands next to the references
        assert nr >= (6 if setstyle == "mixed" else 4)
        k = 2 if setstyle == "mixed" else r.range(2, nr - 2)
        ra, rb = rows[:k], rows[k:k + 2] if setstyle == "mixed" else rows[k:]
        rest = rows[k + 2:] if setstyle == "mixed" else []
        extra.append("  SetA OC ::= { %s%s }" % (" | ".join(otext(x) for x in ra), r.choice(["", ", ..."])))
        extra.append("  SetB OC ::= { %s }" % " | ".join(otext(x) for x in rb))
        ea, eb = ("r", ra, ra), ("r", rb, rb)
        if setstyle == "refs":
            settext, egroups, ext = "SetA | SetB", [[ea, eb]], False
        elif setstyle == "refsext":
            settext, egroups, ext = "SetA, ..., SetB", [[ea], [eb]], True
        else:
            pos = r.below(3)            # the references first, last, or around the objects
            objs = [("o", x) for x in rest]
            ot = [otext(x) for x in rest]
            el = [[ea] + objs + [eb], objs + [ea, eb], [ea, eb] + objs][pos]
            tx = [["SetA"] + ot + ["SetB"], ot + ["SetA", "SetB"], ["SetA", "SetB"] + ot][pos]
            settext, egroups = " | ".join(tx) + (", ..." if ext else ""), [el]
            compiled = ra + rb
        groups = [ra, rb] + ([rest] if rest else [])
        cgroups = [ra, rb]
    # the frame
    nmem_cols = list(range(len(tcols)))
    idtag_text, open_tag_text = "", [""] * len(tcols)
    idbase = {"int": ("i", tagnum("UNIVERSAL", 2), None, None, False), "enum": ("i", tagnum("UNIVERSAL", 10), None, None, False)}[idkind]
    if default == "AUTOMATIC":
        idtree = retag(idbase, tagnum("CONTEXT", 0))
        open_tags = [tagnum("CONTEXT", 1 + j) for j in nmem_cols]
    else:
        idtree = idbase
        open_tags = [None] * len(tcols)
    lines = ["%s DEFINITIONS %s TAGS ::= BEGIN" % (name, default)]
    if idkind == "enum":
        lines.append("  Kind ::= ENUMERATED { %s }" % ", ".join("%s(%d)" % (enum_name(v), v) for v in r.shuffle(ids)))
    lines.append("  Crit ::= ENUMERATED { reject(0), ignore(1), notify(2) }")
    uniq = r.chance(3, 4)
    idfield = idtype + (" UNIQUE" if uniq else "") + (" OPTIONAL" if idopt else "")
    lines.append("  OC ::= CLASS { %s } WITH SYNTAX { %s }" % (", ".join(field_text(f, idfield) for f in fields), syntax_text(fields, items)))
    lines.append("  MySet OC ::= { %s }" % settext)
    lines += extra
    at = r.choice(["@id", "@.id"])
    memnames = ["value", "aux"][:len(tcols)]
    ms = ["id OC.&id({MySet})"] + ["%s OC.%s({MySet}{%s})" % (mn, fields[fi]["name"], at) for mn, fi in zip(memnames, tcols)]
    lines.append("  Frame ::= SEQUENCE { %s }" % ", ".join(ms))
    lines.append("  Wrap ::= SEQUENCE { pre BOOLEAN, inner Frame, list SEQUENCE OF Frame }")
    for tn, t in defs:
        lines.append("  %s ::= %s" % (tn, type_text(t)))
    lines.append("END")
    m = {"name": name, "default": default, "defs": [("Frame", None), ("Wrap", None)] + defs, "trees": trees, "text": "\n".join(lines) + "\n",
            "idkind": idkind, "idtree": idtree, "open_tags": open_tags, "groups": groups, "rows": rows, "ncols": len(tcols), "mcols": nmem_cols,
            "ext": ext, "lone": False, "untagged": untagged, "simple": False, "idcon": None, "members": memnames,
            "fields": fields, "ic": ic, "tcols": tcols, "egroups": egroups, "compiled": compiled, "syntax": syntax_text(fields, items),
            "shape": directed or "random", "setstyle": setstyle, "unique": uniq,
            "incomplete": sum(1 for p in pres if p != full), "classname": "OC"}
    if cgroups:
        m["cgroups"] = cgroups
    return m


def mtypes(m, row):
    """the type cells an identifier selects, one per open-type MEMBER of the frame"""
    return [row["types"][c] for c in m["mcols"]]


def der_split(b):
    """(header length, contents length) of the TLV at the start of b (definite lengths)"""
    i = 1
    if b[0] & 0x1f == 0x1f:
        while b[i] & 0x80:
            i += 1
        i += 1
    if b[i] < 0x80:
        return i + 1, b[i]
    n = b[i] & 0x7f
    return i + 1 + n, int.from_bytes(b[i + 1:i + 1 + n], "big")


def wrap_der(m, inner, elems):
    """DER of Wrap ::= SEQUENCE { pre BOOLEAN, inner Frame, list SEQUENCE OF Frame } from the DER of the frames"""
    def body(f):
        h, n = der_split(f)
        return f[h:h + n]
    lst = b"".join(elems)
    if m["default"] == "AUTOMATIC":
        c = b"\x80\x01\xff" + b"\xa1" + der_len(len(body(inner))) + body(inner) + b"\xa2" + der_len(len(lst)) + lst
    else:
        c = b"\x01\x01\xff" + inner + b"\x30" + der_len(len(lst)) + lst
    return b"\x30" + der_len(len(c)) + c


def frame_tokens(m, mode):
    """mode: spec (the set as written) | comp (the emitted table, long cells) | wide (the emitted table, INTEGER_t cells)"""
    groups = m["groups"] if mode == "spec" else m.get("cgroups", m["groups"])      # (objects next to a set reference never reach the table)
    toks = [mode, model_str(m["idtree"]), ",".join("-" if t is None else str(t) for t in m["open_tags"]), str(len(m["mcols"])), str(len(groups))]
    for g in groups:
        toks.append(str(len(g)))
        for row in g:
            toks.append(id_val_str(m["idkind"], row["id"]))
            toks += [model_str(m["trees"][tn]) for tn in mtypes(m, row)]
    return " ".join(toks)


def comp_rows(m):
    """the rows asn1c keeps, in table order (a lone object is dropped; objects next to a reference to another set are dropped)"""
    if "compiled" in m:
        return m["compiled"]
    out = []
    for g in m["groups"]:
        if len(g) != 1:
            out += g
    return out


def run_resilient(exe, lines, timeout=900):
    """feed lines to a moddrv; when it dies, note the line, restart after it.
    returns (outputs with 'CRASH' entries, {line index: stderr tail}, stderr of a non-zero exit with every line answered)"""
    outs, crashes, leak = [], {}, None
    pos = 0
    while pos < len(lines):
        rc, out, err = run_lines(exe, lines[pos:], timeout=timeout, env=SAN_ENV)
        want = len(lines) - pos
        if len(out) >= want:
            outs += out[:want]
            if rc != 0:
                leak = err
            break
        outs += out
        crashes[pos + len(out)] = err
        outs.append("CRASH")
        pos += len(out) + 1
    return outs, crashes, leak


# ---------------------------------------------------------------- the emitted table, read back from the generated C

import re as _re

_VAL_RE = _re.compile(r"^static const ([A-Za-z_ ]+?) (asn_VAL_\w+) = (.*?);[ \t]*(?:/\*.*?\*/)?[ \t]*$", _re.M)
_ROWS_RE = _re.compile(r"static const asn_ioc_cell_t (asn_IOS_\w+_rows)\[\] = \{(.*?)\n\};", _re.S)
# a cell; an unset field is emitted as `{ "&field",  }` (kind, descriptor and value zero)
_CELL_RE = _re.compile(r'\{ "([^"]*)",\s*(?:(aioc__value|aioc__type), &asn_DEF_(\w+)(?:, &(asn_VAL_\w+))?)?\s*\}')
_SET_RE = _re.compile(r"static const asn_ioc_set_t (asn_IOS_\w+)\[\] = \{\s*(\d+), (\d+), (\w+)\s*\};")
_SEL_RE = _re.compile(r"^select_(\w+?)_type\(.*?const asn_ioc_set_t \*itable = (\w+);\s*size_t constraining_column = (\d+);[^\n]*\n\s*size_t for_column = (\d+);"
                      r".*?const ([A-Za-z_ ]+?) \*constraining_value = ", _re.S | _re.M)


def c_string(lit):
    """the bytes of a C string literal body (between the quotes), escapes as a C compiler reads them"""
    out, i = bytearray(), 0
    simple = {"n": 10, "t": 9, "r": 13, "0": 0, "\\": 92, '"': 34, "'": 39, "a": 7, "b": 8, "f": 12, "v": 11, "?": 63}
    while i < len(lit):
        ch = lit[i]
        if ch != "\\":
            out.append(ord(ch))
            i += 1
            continue
        i += 1
        e = lit[i]
        if e == "x":
            j = i + 1
            while j < len(lit) and lit[j] in "0123456789abcdefABCDEF":
                j += 1                                      # a hex escape takes every hex digit that follows
            out.append(int(lit[i + 1:j], 16) & 0xff)
            i = j
        elif e in "01234567":
            j = i
            while j < len(lit) and j < i + 3 and lit[j] in "01234567":
                j += 1
            out.append(int(lit[i:j], 8) & 0xff)
            i = j
        else:
            out.append(simple[e])
            i += 1
    return bytes(out)


def parse_cell_value(ctype, init):
    """value of one `static const <ctype> asn_VAL_x = <init>;`: ('long', z) | ('octets', bytes) | ('bad', why)"""
    init = init.strip()
    if ctype in ("long", "unsigned long"):
        mt = _re.match(r"^\(?\s*(-?\d+)[uUlL]*\s*\)?$", init)
        if not mt:
            mt2 = _re.match(r"^\(\s*(-?\d+)[lL]*\s*-\s*1\s*\)$", init)
            if mt2:
                return ("long", int(mt2.group(1)) - 1)
            return ("bad", "unreadable integer constant: " + init)
        z = int(mt.group(1))
        if not (-2**63 <= z < 2**64):
            return ("bad", "constant does not fit the C type: " + init)
        return ("long", z)
    mt = _re.match(r'^\{\s*"((?:[^"\\]|\\.)*)"\s*,\s*(\d+)\s*\}$', init)
    if not mt:
        return ("bad", "unreadable initializer: " + init)
    lit, size = c_string(mt.group(1)), int(mt.group(2))
    if size > len(lit) + 1:
        return ("bad", "size %d beyond the %d octets of the literal" % (size, len(lit)))
    return ("octets", (lit + b"\0")[:size])


def parse_ioc_tables(cfile):
    """every object-set table of a generated .c file:
    {set name: {rows, cols, cells: [[{field, kind, def, value}]]}}, {member: (set, constraining column, for column)}"""
    text = open(cfile, errors="replace").read()
    vals = {name: (ctype.strip(), parse_cell_value(ctype.strip(), init)) for ctype, name, init in _VAL_RE.findall(text)}
    rowsets = {}
    for name, body in _ROWS_RE.findall(text):
        cells = []
        for field, kind, d, v in _CELL_RE.findall(body):
            if not kind:
                cells.append({"field": field, "kind": None, "def": None, "ctype": None, "value": None})
                continue
            cells.append({"field": field, "kind": kind, "def": d, "ctype": vals.get(v, (None, None))[0] if v else None,
                          "value": vals.get(v, (None, ("bad", "no definition of " + v)))[1] if v else None})
        ncells_text = body.count("{ \"")
        rowsets[name] = (cells, ncells_text)
    tables = {}
    for name, nrows, ncols, rowsname in _SET_RE.findall(text):
        cells, ntext = rowsets.get(rowsname, ([], -1))
        nrows, ncols = int(nrows), int(ncols)
        t = {"rows": nrows, "cols": ncols, "ncells": len(cells), "ncells_text": ntext,
             "cells": [cells[i * ncols:(i + 1) * ncols] for i in range(nrows)] if ncols and len(cells) == nrows * ncols else None}
        tables[name] = t
    sels = {}
    for member, setname, ccol, fcol, ctype in _SEL_RE.findall(text):
        sels[member] = (setname, int(ccol), int(fcol), ctype.strip())
    return tables, sels
