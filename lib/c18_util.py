"""c18_util — generator of ASN.1 modules with an information object class, an
object set and a SEQUENCE ("Frame") whose open-type members are tied to an
identifier member by a component relation constraint; the frame descriptions
given to the model (ocaml/drv_c18.ml); a runner that survives driver crashes.

The syntax generated is the one the asn1c of /repo accepts (found by experiment,
see notes/design/C18.md):
   MY-CLASS ::= CLASS { &id INTEGER UNIQUE, &Type [, &Aux] } WITH SYNTAX { ... }
   MySet MY-CLASS ::= { obj | obj | ... [, ... [, obj | obj]] }
   Frame ::= SEQUENCE { id [tag] MY-CLASS.&id({MySet}),
                        value [tag] MY-CLASS.&Type({MySet}{@id}) [, aux ...] }
Row types are always references to named types of the modelled algebra
(lib/modgen.py), distinct within a column.
"""
from vlib import *
from modgen import *

INT_IDS = [0, 1, 2, 3, 4, 5, 7, 9, 10, 100, 127, 128, 255, 256, 300, 32767, 32768, 65535, 65536, 70000,
           -1, -2, -5, -128, -129, -32768, -32769, 2**31 - 1, 2**31, -2**31, -2**31 - 1, 2**32, 2**40, 2**62, -2**62]
OID_IDS = [(1, 2, 3), (1, 2, 840, 113549), (2, 999, 1), (0, 0), (1, 3, 6, 1, 4, 1), (2, 5, 4, 3), (1, 2, 3, 4), (0, 39, 16383),
           (2, 100, 3), (1, 0, 8571, 2), (1, 2), (2, 5, 29, 15)]


def oid_contents(arcs):
    out = []
    vals = [arcs[0] * 40 + arcs[1]] + list(arcs[2:])
    for v in vals:
        ds = [v % 128]
        v //= 128
        while v:
            ds.insert(0, 128 + v % 128)
            v //= 128
        out += ds
    return bytes(out)


def der_len(n):
    if n <= 127:
        return bytes([n])
    b = n.to_bytes((n.bit_length() + 7) // 8, "big")
    return bytes([0x80 | len(b)]) + b


def id_universal_der(kind, v):
    """the identifier value under its universal tag (what `sel` is given)"""
    if kind == "int":
        n = max(1, (v.bit_length() + 8) // 8) if v >= 0 else max(1, ((-v - 1).bit_length() + 8) // 8)
        c = v.to_bytes(n, "big", signed=True)
        return bytes([2]) + der_len(len(c)) + c
    c = oid_contents(v) if isinstance(v, tuple) else v
    return bytes([6]) + der_len(len(c)) + c


def id_val_str(kind, v):
    if kind == "int":
        return "I%d;" % v
    c = oid_contents(v) if isinstance(v, tuple) else v
    return "O%s;" % c.hex()


def id_text(kind, v):
    return str(v) if kind == "int" else "{ %s }" % " ".join(str(a) for a in v)


def id_xer(kind, v):
    return str(v) if kind == "int" else ".".join(str(a) for a in v)


class C18Gen:
    def __init__(self, rng):
        self.rng = rng
        self.g = Gen(rng, maxdepth=2)

    def row_type(self, default, env):
        """a named type of the modelled algebra, not a bare reference"""
        r = self.rng
        for _ in range(200):
            t = self.g.ty(r.choice([0, 0, 1, 2]), default, list(env.keys()) if r.chance(1, 2) else [])
            if t["k"] == "ref":
                continue
            try:
                tree = resolve(t, default, env)
            except ValueError:
                continue
            if tree_valid(tree):
                return t, tree
        raise RuntimeError("could not generate a row type")

    def module(self, name, idkind="int", ncols=None, lone=False, untagged=None, nrows=None):
        """lone: the set contains an element set made of one object alone (asn1c drops it);
        untagged: True = non-AUTOMATIC module, open-type members without tags (BER cannot decode them)"""
        r = self.rng
        if untagged is None:
            untagged = r.chance(1, 6)
        default = r.choice(["EXPLICIT", "IMPLICIT"]) if untagged else r.choice(["AUTOMATIC", "AUTOMATIC", "EXPLICIT", "IMPLICIT"])
        ncols = ncols or r.choice([1, 1, 2])
        nrows = nrows or r.choice([2, 2, 3, 3, 4, 5, 6, 7, 8])
        ids = r.shuffle(INT_IDS if idkind == "int" else OID_IDS)[:nrows]
        defs, env, trees = [], {}, {}
        rows = []
        for i in range(nrows):
            tns = []
            for c in range(ncols):
                tn = "%s%d" % ("RA"[c], i + 1)
                t, tree = self.row_type(default, env)
                defs.append((tn, t))
                env[tn] = t
                trees[tn] = tree
                tns.append(tn)
            rows.append({"id": ids[i], "types": tns})
        # element sets: a root union, optionally the marker, optionally a union of additions
        ext = r.chance(1, 2)
        groups = [rows]
        if lone:
            # (the grammar allows one element set before the marker and one after it)
            k = r.choice([0, 1])
            if nrows == 1:
                groups = [rows]
            elif k == 0:
                groups, ext = [rows[:-1], rows[-1:]], True        # a lone addition after the marker
            else:
                groups, ext = [rows[:1], rows[1:]], True          # a lone root object, additions in a union
        elif ext and nrows >= 4 and r.chance(1, 2):
            k = r.range(2, nrows - 2)
            groups = [rows[:k], rows[k:]]
        # tags of the frame members
        idbase = ("i", tagnum("UNIVERSAL", 2), None, None, False) if idkind == "int" else ("o", tagnum("UNIVERSAL", 6), 0, None, False)
        idtag_text, open_tag_text, open_tags = "", [], []
        if default == "AUTOMATIC":
            idtree = retag(idbase, tagnum("CONTEXT", 0))
            open_tags = [tagnum("CONTEXT", 1 + j) for j in range(ncols)]
            open_tag_text = [""] * ncols
        else:
            idtree = idbase
            if r.chance(1, 2):
                cls, num = r.choice(["CONTEXT", "APPLICATION", "PRIVATE"]), r.choice([0, 3, 30, 31, 200])
                mode = r.choice([None, "IMPLICIT", "EXPLICIT"])
                idtag_text = tag_text((cls, num, mode))
                eff = mode or default
                idtree = ("x", tagnum(cls, num), idbase) if eff == "EXPLICIT" else retag(idbase, tagnum(cls, num))
            for j in range(ncols):
                if untagged:
                    open_tags.append(None)
                    open_tag_text.append("")
                else:
                    cls, num = r.choice(["CONTEXT", "CONTEXT", "APPLICATION", "PRIVATE"]), [5, 31, 1000][j] if r.chance(1, 2) else 1 + j
                    open_tags.append(tagnum(cls, num))
                    open_tag_text.append(tag_text((cls, num, r.choice([None, "EXPLICIT"]))))
        # text
        style = r.choice(["A", "B"])
        if ncols == 1:
            syntax = "{ ID &id TYPE &Type }" if style == "A" else "{ &Type IDENTIFIED BY &id }"
            obj = (lambda i, t: "{ ID %s TYPE %s }" % (i, t[0])) if style == "A" else (lambda i, t: "{ %s IDENTIFIED BY %s }" % (t[0], i))
        else:
            syntax = "{ ID &id TYPE &Type AUX &Aux }" if style == "A" else "{ &Type IDENTIFIED BY &id WITH &Aux }"
            obj = (lambda i, t: "{ ID %s TYPE %s AUX %s }" % (i, t[0], t[1])) if style == "A" else (lambda i, t: "{ %s IDENTIFIED BY %s WITH %s }" % (t[0], i, t[1]))
        idtype = "INTEGER" if idkind == "int" else "OBJECT IDENTIFIER"
        lines = ["%s DEFINITIONS %s TAGS ::= BEGIN" % (name, default),
                 "  MY-CLASS ::= CLASS { &id %s UNIQUE, &Type%s } WITH SYNTAX %s" % (idtype, ", &Aux" if ncols == 2 else "", syntax)]
        extra, gtexts = [], []
        n = 0
        for g in groups:
            objs = []
            for row in g:
                n += 1
                idt = id_text(idkind, row["id"])
                if r.chance(1, 4):
                    extra.append("  idv%d %s ::= %s" % (n, idtype, idt))
                    idt = "idv%d" % n
                o = obj(idt, row["types"])
                if r.chance(1, 4):
                    extra.append("  obj%d MY-CLASS ::= %s" % (n, o))
                    o = "obj%d" % n
                objs.append(o)
            gtexts.append(" | ".join(objs))
        settext = gtexts[0]
        if ext:
            settext += ", ..."
            if len(gtexts) > 1:
                settext += ", " + ", ".join(gtexts[1:])
        elif len(gtexts) > 1:
            settext = ", ".join(gtexts)
        lines.append("  MySet MY-CLASS ::= { %s }" % settext)
        lines += extra
        at = r.choice(["@id", "@.id"])
        ms = ["id %sMY-CLASS.&id({MySet})" % idtag_text, "value %sMY-CLASS.&Type({MySet}{%s})" % (open_tag_text[0], at)]
        if ncols == 2:
            ms.append("aux %sMY-CLASS.&Aux({MySet}{%s})" % (open_tag_text[1], at))
        lines.append("  Frame ::= SEQUENCE { %s }" % ", ".join(ms))
        for tn, t in defs:
            lines.append("  %s ::= %s" % (tn, type_text(t)))
        lines.append("END")
        m = {"name": name, "default": default, "defs": [("Frame", None)] + defs, "trees": trees, "text": "\n".join(lines) + "\n",
             "idkind": idkind, "idtree": idtree, "open_tags": open_tags, "groups": groups, "rows": rows, "ncols": ncols,
             "ext": ext, "lone": lone, "untagged": untagged}
        return m


def frame_tokens(m, mode):
    toks = [mode, model_str(m["idtree"]), ",".join("-" if t is None else str(t) for t in m["open_tags"]), str(m["ncols"]), str(len(m["groups"]))]
    for g in m["groups"]:
        toks.append(str(len(g)))
        for row in g:
            toks.append(id_val_str(m["idkind"], row["id"]))
            toks += [model_str(m["trees"][tn]) for tn in row["types"]]
    return " ".join(toks)


def comp_rows(m):
    """the rows asn1c keeps, in table order (a lone object is dropped)"""
    out = []
    for g in m["groups"]:
        if len(g) != 1:
            out += g
    return out


def run_resilient(exe, lines, timeout=900):
    """feed lines to a moddrv; when it dies, note the line, restart after it.
    returns (outputs with 'CRASH' entries, {line index: stderr tail}, stderr of a non-zero exit with every line answered)"""
    outs, crashes, leak = [], {}, None
    pos = 0
    while pos < len(lines):
        rc, out, err = run_lines(exe, lines[pos:], timeout=timeout, env=SAN_ENV)
        want = len(lines) - pos
        if len(out) >= want:
            outs += out[:want]
            if rc != 0:
                leak = err
            break
        outs += out
        crashes[pos + len(out)] = err
        outs.append("CRASH")
        pos += len(out) + 1
    return outs, crashes, leak
