"""c14_util - what checks/c14.py and lib/c14x_layer.py share: running `hist` lines through a module's
moddrv (resuming after crashes), parsing result lines, history templates of the base corpus, the
alternative BER forms, and the C14 ORACLE on one parsed result line (check_history)."""
import sys, os, re, json, subprocess, time
from vlib import *

WRAP = ["-Wl,--wrap=malloc,--wrap=calloc,--wrap=realloc,--wrap=free"]
INC = os.path.join(HARNESS, "moddrv_c14.inc")
RESTARTABLE = ("ber", "oer", "xer")
# a crash costs a process restart: the UBSan stack trace (0.14 s of symbolizer per report) is left out of the
# bulk runs; the first line of the report carries file:line
FAST_ENV = dict(SAN_ENV, UBSAN_OPTIONS="print_stacktrace=0:halt_on_error=1:exitcode=78")
ENC_SYNS = ["der", "uper", "cper", "oer", "coer", "xer", "cxer"]


# ------------------------------------------------------------------ running histories

def run_resume(exe, lines, timeout=45, env=None):
    """feed lines; when the driver dies on a line, record the crash and go on with the next one.
    returns list of (output line | None, stderr tail | None)"""
    res, exits = [], []
    i = 0
    while i < len(lines):
        data = "\n".join(lines[i:]) + "\n"
        try:
            p = subprocess.run([exe], input=data, stdout=subprocess.PIPE, stderr=subprocess.PIPE, text=True,
                               errors="replace", timeout=timeout, env=env or FAST_ENV)
            rc, so, se = p.returncode, p.stdout, p.stderr
        except subprocess.TimeoutExpired as e:
            rc, so, se = -9, (e.stdout or b"").decode(errors="replace") if isinstance(e.stdout, bytes) else (e.stdout or ""), "TIMEOUT"
        out = so.split("\n")
        partial = out.pop()          # text after the last newline ('' normally)
        out = out[:len(lines) - i]
        res += [(o, None) for o in out]
        i += len(out)
        if i < len(lines):
            res.append((None, "rc=%s partial=%s\n%s" % (rc, partial[-300:], se[-3000:])))
            i += 1
        elif rc != 0:
            # all lines answered but the exit status is bad (a report at exit): blame the batch
            exits.append("rc=%s\n%s" % (rc, se[-3000:]))
    return res, exits


OPRE = re.compile(r"^(\w+)((?: \S+=\S+)*)( OVERCONSUME)?$")


def parse_hist(out):
    """result line -> list of dicts (one per op) + end dict; None if unparsable"""
    parts = out.split(" | ")
    ops = []
    for p in parts:
        f = p.split(" ")
        d = {"op": f[0]}
        for x in f[1:]:
            if "=" in x:
                a, b = x.split("=", 1)
                d[a] = b
            else:
                d[x] = True
        ops.append(d)
    if not ops or ops[-1]["op"] != "end":
        return None
    return ops


# ------------------------------------------------------------------ history generation

def mutate(rng, b):
    """garbage derived from a valid encoding"""
    b = bytearray(b)
    kind = rng.below(6)
    if len(b) == 0:
        return bytes(rng.bytes(rng.range(1, 6)))
    if kind == 0:
        i = rng.below(len(b)); b[i] ^= 1 << rng.below(8)
    elif kind == 1:
        i = rng.below(len(b)); b[i] = rng.below(256)
    elif kind == 2:
        i = rng.below(len(b)); b = b[:i] + bytearray(rng.bytes(rng.range(1, 4))) + b[i:]
    elif kind == 3:
        i = rng.below(len(b)); del b[i]
        if not b:
            b = bytearray(b"\xff")
    elif kind == 4:
        i = rng.below(len(b)); b[i:] = rng.bytes(len(b) - i)
    else:
        b = bytearray(rng.bytes(rng.range(1, max(2, len(b)))))
    return bytes(b)


# ------------------------------------------------------------------ alternative BER forms of a value
# (constructed / segmented OCTET STRING, indefinite and long-form lengths): they reach the decoder paths
# that keep state between calls (the OCTET STRING decode stack in ctx->ptr, left behind by a starved decode)

def parse_val(s, pos=0):
    ch = s[pos]
    if ch == "T":
        return True, pos + 1
    if ch == "F":
        return False, pos + 1
    if ch == "N":
        return None, pos + 1
    if ch == "I":
        j = s.index(";", pos)
        return int(s[pos + 1:j]), j + 1
    if ch == "O":
        j = s.index(";", pos)
        return bytes.fromhex(s[pos + 1:j]), j + 1
    if ch in "SL":
        pos += 2
        xs = []
        while s[pos] != "}":
            v, pos = parse_val(s, pos)
            xs.append(v)
        return (ch, xs), pos + 1
    if ch == "C":
        j = s.index(":", pos)
        v, p2 = parse_val(s, j + 1)
        return ("C", int(s[pos + 1:j]), v), p2
    if ch == "_":
        return ("_",), pos + 1
    if ch == "!":
        v, p2 = parse_val(s, pos + 1)
        return ("!", v), p2
    raise ValueError(s[pos:])


def ber_tag(tg, constructed):
    cls, num = tg % 4, tg // 4
    b0 = (cls << 6) | (0x20 if constructed else 0)
    if num <= 30:
        return bytes([b0 | num])
    ds = []
    while True:
        ds.insert(0, num % 128)
        num //= 128
        if num == 0:
            break
    return bytes([b0 | 31] + [d | 0x80 for d in ds[:-1]] + [ds[-1]])


def ber_len(n, rng, allow_long=True):
    if n <= 127 and not (allow_long and rng.chance(1, 3)):
        return bytes([n])
    b = n.to_bytes(max(1, (n.bit_length() + 7) // 8), "big")
    if allow_long and rng.chance(1, 3):
        b = b"\x00" + b                      # non-minimal long form
    return bytes([0x80 | len(b)]) + b


def ber_cons(tg, content, rng):
    if rng.chance(1, 2):
        return ber_tag(tg, True) + b"\x80" + content + b"\x00\x00"
    return ber_tag(tg, True) + ber_len(len(content), rng) + content


def ber_alt(tree, v, rng):
    k = tree[0]
    if k == "b":
        return ber_tag(tree[1], False) + b"\x01" + (bytes([rng.range(1, 255)]) if v else b"\x00")
    if k == "n":
        return ber_tag(tree[1], False) + b"\x00"
    if k == "i":
        n = max(1, (v.bit_length() + 8) // 8)
        return ber_tag(tree[1], False) + ber_len(n, rng) + v.to_bytes(n, "big", signed=True)
    if k == "o":
        if rng.chance(2, 3):
            # constructed: segments are universal OCTET STRINGs, possibly nested one level
            segs, i = b"", 0
            while i < len(v) or (i == 0 and rng.chance(1, 2)):
                j = min(len(v), i + rng.range(0, 3))
                piece = b"\x04" + ber_len(j - i, rng) + v[i:j]
                if rng.chance(1, 4):
                    piece = b"\x24\x80" + piece + b"\x00\x00"
                segs += piece
                if j == i and i >= len(v):
                    break
                i = j
            return ber_cons(tree[1], segs, rng)
        return ber_tag(tree[1], False) + ber_len(len(v), rng) + v
    if k == "s":
        out = b""
        for m, x in zip(tree[2], v[1]):
            if m[0] == "?":
                if x[0] == "!":
                    out += ber_alt(m[1], x[1], rng)
            else:
                out += ber_alt(m, x, rng)
        return ber_cons(tree[1], out, rng)
    if k in ("q", "t"):
        return ber_cons(tree[1], b"".join(ber_alt(tree[3], x, rng) for x in v[1]), rng)
    if k == "c":
        return ber_alt(tree[1][v[1]], v[2], rng)
    if k == "x":
        return ber_cons(tree[1], ber_alt(tree[2], v, rng), rng)
    if k == "?":
        return ber_alt(tree[1], v[1], rng) if v[0] == "!" else b""
    raise ValueError(k)


def hx(b):
    return b.hex() if len(b) else "-"


def histories(rng, case, enc, tier):
    """enc: {syn: bytes} valid encodings of the case's value.  Returns list of (kind, syn, [ops])"""
    hs = []
    syns = [s for s in ("ber", "uper", "oer", "xer") if enc.get(s) is not None]
    ber = enc["ber"]
    hs.append(("encode-a", "ber", ["dec:ber:" + hx(ber), "enc:der", "enc:uper", "enc:oer", "enc:xer", "free"]))
    hs.append(("encode-b", "ber", ["dec:ber:" + hx(ber), "enc:cper", "enc:coer", "enc:cxer", "chk", "free"]))
    if enc.get("alt") is not None:
        A = enc["alt"]
        cut = rng.range(0, len(A) - 1)
        hs.append(("alt-ber", "ber", ["dec:ber:" + hx(A), "enc:der", "free"]))
        hs.append(("alt-ber-starve-rest", "ber", ["dec:ber:%s:%d" % (hx(A), cut), "print", "decr:ber", "enc:der", "free"]))
        hs.append(("alt-ber-starve-free", "ber", ["dec:ber:%s:%d" % (hx(A), cut), "free"]))
        hs.append(("alt-ber-starve-reset-redecode", "ber", ["dec:ber:%s:%d" % (hx(A), cut), "reset", "dec:ber:" + hx(ber), "enc:der", "free"]))
        if tier != "quick":
            hs.append(("alt-ber-starve-garbage", "ber", ["dec:ber:%s:%d" % (hx(A), cut), "dec:ber:" + hx(mutate(rng, A[cut:])), "free"]))
    for s in syns:
        B = enc[s]
        hs.append(("fresh", s, ["dec:%s:%s" % (s, hx(B)), "enc:der", "print", "free"]))
        cands = []
        cut = rng.range(0, len(B) - 1) if len(B) >= 1 else 0
        G = mutate(rng, B)
        if s in RESTARTABLE:
            cands.append(("starve-rest", ["dec:%s:%s:%d" % (s, hx(B), cut), "decr:" + s, "enc:der", "free"]))
            cands.append(("starve-garbage", ["dec:%s:%s:%d" % (s, hx(B), cut), "dec:%s:%s" % (s, hx(mutate(rng, B[cut:]))), "print", "free"]))
        cands.append(("starve-reset-redecode", ["dec:%s:%s:%d" % (s, hx(B), cut), "print", "reset", "dec:%s:%s" % (s, hx(B)), "enc:der", "free"]))
        cands.append(("garbage-reset-redecode", ["dec:%s:%s" % (s, hx(G)), "print", "reset", "dec:%s:%s" % (s, hx(B)), "enc:der", "free"]))
        cands.append(("garbage-free", ["dec:%s:%s" % (s, hx(G)), "chk", "free"]))
        cands.append(("starve-free", ["dec:%s:%s:%d" % (s, hx(B), cut), "free", "free"]))
        s2 = rng.choice(syns)
        cands.append(("valid-reset-redecode", ["dec:%s:%s" % (s, hx(B)), "reset", "dec:%s:%s" % (s2, hx(enc[s2])), "enc:der", "free"]))
        cands.append(("reset-reset-encode", ["dec:%s:%s" % (s, hx(B)), "reset", "reset", "enc:der", "free"]))
        cands.append(("free-redecode", ["dec:%s:%s" % (s, hx(B)), "free", "dec:%s:%s" % (s, hx(B)), "reset", "free"]))
        if tier == "quick":
            cands = [cands[i] for i in sorted(set(rng.below(len(cands)) for _ in range(2)))]
        for kind, ops in cands:
            hs.append((kind, s, ops))
    return hs


def with_fail(ops, i, k):
    o = ops[i]
    name, rest = o.split(":", 1) if ":" in o else (o, "")
    return ops[:i] + ["%s@%d%s" % (name, k, (":" + rest) if rest else "")] + ops[i + 1:]


def ks_for(rng, n, tier):
    cap = 20 if tier == "quick" else 120
    if n <= cap:
        return list(range(n))
    head = list(range(cap * 3 // 4))
    rest = sorted(set(rng.range(len(head), n - 1) for _ in range(cap // 4)))
    return head + rest



READ_OPS = ("enc", "print", "chk", "nb", "unb", "xeq", "xfp")       # operations that only read the structure


def hex_digest(hexs):
    """the form the harness uses for long outputs: #<len>.<fnv1a-64>"""
    if hexs is None or hexs.startswith("#"):
        return hexs
    b = bytes.fromhex(hexs) if hexs not in ("-", "") else b""
    if len(b) <= 256:
        return hexs if b else "-"
    hsh = 0xcbf29ce484222325
    for c in b:
        hsh = ((hsh ^ c) * 0x100000001b3) & 0xffffffffffffffff
    return "#%d.%016x" % (len(b), hsh)


def check_history(run, rep, h, p, x, fresh):
    """the C14 oracle on one parsed result line; x = failing replay descriptor or None"""
    c = h["case"]
    ops = x["ops"] if x else h["ops"]
    kindtag = "alloc-failure" if x else "history"
    end = p[-1]
    bad = []
    # blocks already attributed to a leaking op (reported once, at the op where live grew)
    ex_n = ex_b = 0

    def live_of(d):
        a, b = d.get("live", "0/0").split("/")
        return int(a) - ex_n, int(b) - ex_b

    prev = (0, 0)
    for i, d in enumerate(p[:-1]):
        name = ops[i].split(":")[0]
        if d.get("v", "-") != "-":
            bad.append(("ledger", i, "op %d (%s): %s" % (i, name, d["v"])))
        if d.get("OVERCONSUME"):
            bad.append(("overconsume", i, "op %d consumed more than presented" % i))
        if "BADOP" in d:
            bad.append(("harness", i, "bad op %d" % i))
            continue
        cur = live_of(d)
        if d["op"] in READ_OPS and cur != prev:
            # an operation that only reads the structure must leave the heap as it found it
            bad.append(("leak-in-%s" % d["op"], i, "op %d (%s): live went from %d/%d to %d/%d across a call that only reads the structure"
                        % (i, name, prev[0], prev[1], cur[0], cur[1])))
            ex_n += cur[0] - prev[0]
            ex_b += cur[1] - prev[1]
            cur = prev
        if d["op"] == "free" and cur != (0, 0):
            bad.append(("leak", i, "op %d: after ASN_STRUCT_FREE %d/%d blocks/bytes are still live" % (i, cur[0], cur[1])))
            ex_n += cur[0]
            ex_b += cur[1]
            cur = (0, 0)
        if d["op"] == "reset":
            if d.get("zero") != "1":
                bad.append(("reset-not-zero", i, "op %d: after ASN_STRUCT_RESET the top block (%s bytes) is not all zero: first non-zero byte at offset %s%s"
                            % (i, d.get("top"), d.get("nz"), (" (bytes after: %s)" % d["post"]) if d.get("post") else "")))
            top = int(d.get("top", "0"))
            ss, cs = int(d.get("ss", "-1")), int(d.get("cs", "-1"))
            if top and i > 0 and not x:
                # the block the DECODER allocated for the type must have the size the descriptor's specifics record
                # (what RESET wipes) and, for a leaf type, at least the size of the C type
                if ss >= 0 and top != ss:
                    bad.append(("reset-size", i, "op %d: the decoder allocated %d bytes for the structure, the specifics' struct_size (the span RESET wipes) is %d" % (i, top, ss)))
                if cs >= 0 and top < cs:
                    bad.append(("reset-size", i, "op %d: the decoder allocated %d bytes, the C type has %d" % (i, top, cs)))
            want = (1, top) if top else (0, 0)
            if cur != want:
                bad.append(("reset-leak", i, "op %d: after ASN_STRUCT_RESET live is %d/%d, the top block alone would be %d/%d" % (i, cur[0], cur[1], want[0], want[1])))
                ex_n += cur[0] - want[0]
                ex_b += cur[1] - want[1]
                cur = want
        if d["op"] == "mrt" and "skip" not in d:
            nodec = d.get("nodec") == "1"
            who = "op %d: member %s (%s, %s) through %s" % (i, d.get("i"), d.get("k"), "pointee" if d.get("boxed") == "1" else "inline", ops[i].split(":")[-1])
            if d.get("zero") != "1":
                bad.append(("member-reset-not-zero", i, "%s: after ASN_STRUCT_RESET of the member byte %s of its %s-byte extent is not zero%s"
                            % (who, d.get("nz"), d.get("ext"), (" (bytes after: %s)" % d["post"]) if d.get("post") else "")))
            if d.get("ra") != "0":
                bad.append(("member-reset-allocates", i, "%s: ASN_STRUCT_RESET requested %s allocations" % (who, d.get("ra"))))
            if not nodec and d.get("moved") != "0":
                bad.append(("member-reset-moved", i, "%s: decoding into the reset member replaced the storage" % who))
            if "frc" in d:
                if (d.get("rc"), d.get("c")) != (d.get("frc"), d.get("fc")):
                    bad.append(("member-reset-not-fresh", i, "%s: decode after RESET gives %s/%s, the same bytes into a fresh structure %s/%s"
                                % (who, d.get("rc"), d.get("c"), d.get("frc"), d.get("fc"))))
                elif d.get("rc") == "OK" and (d.get("same") != "1" or d.get("cmp") != "0"):
                    bad.append(("member-reset-not-fresh", i, "%s: the value decoded after RESET differs from the value decoded from the same bytes into a fresh structure (DER equal: %s, compare_struct: %s)"
                                % (who, d.get("same"), d.get("cmp"))))
                elif d.get("rc") == "OK" and int(d.get("a", 0)) != int(d.get("fa", 0)) - 1:
                    bad.append(("member-reset-not-fresh", i, "%s: decode after RESET makes %s allocations, into a fresh structure %s (one more expected: the structure itself)" % (who, d.get("a"), d.get("fa"))))
                if d.get("fl") != "0/0":
                    bad.append(("leak", i, "%s: the fresh reference structure left %s blocks/bytes after ASN_STRUCT_FREE" % (who, d.get("fl"))))
        if d["op"] == "nb" and "skip" not in d:
            # asn_encode_to_new_buffer: a buffer is returned iff the call succeeded; it holds what the callback API delivers
            syn = ops[i].split(":")[-1]
            ret, buf = int(d.get("ret", "-1")), d.get("buf")
            if ret < 0 and buf != "0":
                bad.append(("newbuf-on-failure", i, "op %d: asn_encode_to_new_buffer(%s) failed (%s) and still returned a buffer" % (i, syn, d.get("errno"))))
            if ret >= 0 and buf != "1" and d.get("f") == "0":
                bad.append(("newbuf-missing", i, "op %d: asn_encode_to_new_buffer(%s) reports %d octets and returns no buffer although no allocation failed" % (i, syn, ret)))
            if buf == "1" and d.get("z") == "0":
                bad.append(("newbuf-unterminated", i, "op %d: the returned buffer is not NUL-terminated after %d octets" % (i, ret)))
            if buf == "1" and d.get("bs") == "-1":
                bad.append(("newbuf-foreign", i, "op %d: the returned buffer is not a live block of the allocator" % i))
            ref = [j for j in range(i) if p[j]["op"] == "enc" and ops[j].split("@")[0] == "enc" and ops[j].split(":")[-1] == syn]
            if ref and "skip" not in p[ref[-1]] and p[ref[-1]].get("f") == "0" and d.get("f") == "0":
                e = p[ref[-1]]
                if (int(e.get("ret", "-1")) < 0) != (ret < 0):
                    bad.append(("newbuf-differs", i, "op %d: asn_encode(%s) returns %s, asn_encode_to_new_buffer %s on the same structure" % (i, syn, e.get("ret"), ret)))
                elif ret >= 0 and buf == "1" and hex_digest(e.get("hex")) != d.get("hex"):
                    bad.append(("newbuf-differs", i, "op %d: the new buffer of asn_encode_to_new_buffer(%s) differs from what asn_encode hands to a callback" % (i, syn)))
        if d["op"] == "unb" and "skip" not in d:
            ret, buf = int(d.get("ret", "-1")), d.get("buf")
            if ret < 0 and buf == "1":
                bad.append(("newbuf-on-failure", i, "op %d: uper_encode_to_new_buffer failed and still stored a buffer pointer" % i))
            if ret > 0 and (buf != "1" or d.get("bs") == "-1"):
                bad.append(("newbuf-missing", i, "op %d: uper_encode_to_new_buffer returns %d and no live buffer" % (i, ret)))
            ref = [j for j in range(i) if p[j]["op"] == "enc" and ops[j] == "enc:uper"]
            if ref and p[ref[-1]].get("f") == "0" and d.get("f") == "0":
                e = p[ref[-1]]
                if (int(e.get("ret", "-1")) < 0) != (ret < 0):
                    bad.append(("newbuf-differs", i, "op %d: asn_encode(uper) returns %s, uper_encode_to_new_buffer %s on the same structure" % (i, e.get("ret"), ret)))
                elif ret > 0 and buf == "1" and hex_digest(e.get("hex") if e.get("hex") != "-" else "00") != d.get("hex"):
                    bad.append(("newbuf-differs", i, "op %d: the new buffer of uper_encode_to_new_buffer differs from what asn_encode(uper) hands to a callback" % i))
        prev = cur
    if live_of(end) != (0, 0) or end.get("st") != "0":
        bad.append(("leak", len(p) - 1, "at the end of the history live=%s st=%s" % (end.get("live"), end.get("st"))))
    if x:
        d = p[x["i"]]
        if d.get("f") != "1":
            bad.append(("replay-nondeterministic", x["i"], "allocation %d of op %d was not reached in the replay (a=%s)" % (x["k"], x["i"], d.get("a"))))
        b = h["parsed"][x["i"]]
        if d["op"] in ("dec", "decr") and d.get("rc") == "OK" and b.get("rc") == "OK":
            # a decode that reports success although an allocation failed must deliver the same value
            nxt = [j for j in range(x["i"] + 1, len(p) - 1) if p[j]["op"] == "enc" and ops[j] == "enc:der"]
            if nxt and p[nxt[0]].get("hex") != h["parsed"][nxt[0]].get("hex"):
                bad.append(("unclean-success", x["i"], "decode reports RC_OK with a failed allocation and the value differs from the undisturbed decode"))
        if d["op"] == "enc" and int(d.get("ret", "-1")) >= 0 and d.get("hex") != b.get("hex"):
            bad.append(("unclean-success", x["i"], "encode reports success with a failed allocation and different bytes"))
        if d["op"] in ("nb", "unb") and d.get("buf") == "1" and d.get("hex") != b.get("hex"):
            bad.append(("unclean-success", x["i"], "%s returns a buffer with a failed allocation and different bytes" % d["op"]))
        if d["op"] == "xeq" and d.get("ret") == "0" and b.get("ret") != "0":
            bad.append(("unclean-success", x["i"], "xer_equivalent reports equivalence with a failed allocation, and not without"))
    else:
        # "a decode after RESET behaves exactly as into a fresh structure": every complete-input dec that follows a reset
        # is compared with the history that decodes the same bytes into a NULL pointer (fresh[(module, type, op text)])
        for i, d in enumerate(p[:-1]):
            o = ops[i].split(":")
            if d["op"] == "dec" and len(o) == 3 and i > 0 and p[i - 1]["op"] == "reset" and "skip" not in d:
                fr = fresh.get((c["tn"], ops[i]))
                if not fr:
                    continue
                f0, fp = fr["p"][0], fr["p"]
                reused = p[i - 1].get("top", "0") != "0"
                if (d.get("rc"), d.get("c")) != (f0.get("rc"), f0.get("c")):
                    bad.append(("reset-not-fresh", i, "decode after reset: rc/consumed %s/%s, into a fresh structure %s/%s" % (d.get("rc"), d.get("c"), f0.get("rc"), f0.get("c"))))
                elif int(d.get("a", 0)) != int(f0.get("a", 0)) - (1 if reused else 0):
                    bad.append(("reset-not-fresh", i, "decode after reset makes %s allocations, into a fresh structure %s (top block reused: %s)" % (d.get("a"), f0.get("a"), reused)))
                # the encodings of the result (the ops that follow in both histories, as far as they are the same ops)
                j = 1
                while i + j < len(p) - 1 and j < len(fp) - 1 and ops[i + j] == fr["ops"][j] and ops[i + j].startswith("enc:"):
                    if (p[i + j].get("ret"), p[i + j].get("hex")) != (fp[j].get("ret"), fp[j].get("hex")):
                        bad.append(("reset-not-fresh", i, "value decoded after reset differs from the value decoded into a fresh structure (%s: %s vs %s)"
                                    % (ops[i + j], p[i + j].get("hex"), fp[j].get("hex"))))
                        break
                    j += 1
        if h["kind"] == "alt-ber":
            run.count("alt_ber_dec_%s" % p[0].get("rc"))
            if p[0].get("rc") == "OK" and c.get("der") and p[1].get("hex") != hex_digest(c["der"]):
                bad.append(("value", 0, "an alternative BER form decodes to a different value"))
        if h["kind"] == "fresh":
            run.count("fresh_dec_%s_%s" % (h["syn"], p[0].get("rc")))
            own = c.get("own_oer") if h["syn"] == "oer" else c.get("own")
            if p[0].get("rc") == "OK" and own:
                # faithfulness: the C's ledger after a successful decode holds as many blocks as the model's structure owns
                nC = p[0].get("live", "0/0").split("/")[0]
                run.count("owned_blocks_%s" % (own["n"] if int(own["n"]) < 8 else "8+"))
                if nC != own["n"]:
                    run.violation("correspondence:Heap.owned", dict(rep, what="after a successful %s decode the C holds %s live blocks, the model's structure owns %s (%s)"
                                                                    % (h["syn"], nC, own["n"], " ".join("%s=%s" % kv for kv in own.items())),
                                                                    c=h["out"][:600]), no_input=True)
            if p[0].get("rc") == "OK" and c.get("der") and p[1].get("hex") != hex_digest(c["der"]):
                bad.append(("value", 0, "valid %s encoding decodes to a different value" % h["syn"]))
    for kind, opi, what in bad:
        run.violation("oracle:%s(%s)" % (kind, kindtag), dict(rep, what=what, c=" | ".join("%s %s" % (d["op"], " ".join("%s=%s" % kv for kv in d.items() if kv[0] not in ("op", "hex", "pre", "post"))) for d in p)))


