"""c14w_layer - the third layer of C14 (round c14w): the two regions seeded/C14-6 and seeded/C14-7 showed to be unsampled.

 D  DECODER-INTERNAL REFUSALS of well-formed hostile input.  The earlier layers fault the library's own encodings (cuts, corrupted
    bytes, failing allocations); a decoder that REFUSES a readable input by policy after it has allocated or linked something
    (bomb guards, stack guard, unknown CHOICE index, out-of-range field, too many announced elements / additions, repeated SET
    member, unknown member) was reached only by luck.  Module WD: lists whose element encodes in ZERO bits (NULL, INTEGER (5..5),
    SEQUENCE {}, OCTET STRING (SIZE(0)), one-item ENUMERATED, one-alternative CHOICE, ...) at every holder position (top level,
    member, extension addition = open type, CHOICE alternative root / extension, list element), with size constraints of every
    encoding form, lists with refusable elements, SET, CHOICE, extensible SEQUENCE, three recursive types.
    Inputs (lib/c14w_enc.py, encoders that can lie, checked against the C on the honest values):
      counts    honest lists of N elements, N over the boundaries 0,1,4,5 (array growth), 127/128, 199..202 (the guards), 255/256,
                300, 16384 (fragmented determinant) ...
      lies      at every list / CHOICE / constrained field / SEQUENCE node of a value: announced count +1, +200, +70000, -1;
                unknown CHOICE index / tag; out-of-range field value; repeated / unknown member (BER); extension bitmap announcing
                more additions than the type has
      depth     recursive values of depth 5 .. 3000 (the stack guard trips somewhere in between, per syntax)
      xml       XER: every element of the honest text repeated / renamed / dropped / its end tag renamed
    each followed by free, by print + free, and by reset + valid re-decode + encode + free; the refused decode is replayed with
    every allocation failing.
 E  the ENCODER side of the lifecycle.  Module EB: a value that cannot be encoded (a CHOICE the application reset and did not
    refill: present = 0, refused by every encoder; an INTEGER outside its PER/OER-visible range) placed AFTER 0/3/31/32/33/40/200/5000
    octets of output, at every inner position (root member, pointer member, extension addition = open type, CHOICE extension
    alternative, list element, SET OF element (the sorting encoders buffer elements), open type inside an open type), through
    every dynamic-buffer entry point: asn_encode_to_new_buffer x 7 syntaxes (harness op nb), uper_encode_to_new_buffer (unb),
    xer_equivalent (xeq), xer_fprint (xfp), next to the callback API (enc); every allocation of every op is made to fail in turn.
 Model tie (coq/Rt/HeapW.v): blocks live after a refused list decode = `list_run` of the script (k appends, exit kind);
    allocations / final block size / live blocks of uper_encode_to_new_buffer = `dyn_run` over the chunk sizes the C's own
    uper_encode() hands to a callback for that value.
Violation kinds: those of c14_util.check_history (+ newbuf-*), correspondence:HeapW.list, correspondence:HeapW.dyn."""
import os, re, sys
from vlib import *
from modbuild import *
from c14_util import *
from c14w_enc import *

SYNS = ("ber", "uper", "oer", "xer")
sys.setrecursionlimit(max(sys.getrecursionlimit(), 40000))      # the recursive values (depth sweeps) are encoded recursively


def own_rng(run, salt):
    return Rng(run.seed * 1000003 + 99000 + salt)


# ---------------------------------------------------------------- module WD

def wd_env():
    In5 = T_int(0, 5)
    e = {}
    # lists whose element takes no bits in UPER (and no octets in OER)
    e["LNull"] = T_list(T_null())
    e["SNull"] = T_list(T_null(), set_=True)
    e["LFix"] = T_list(T_int(5, 5))
    e["LEmpty"] = T_list(T_seq([]))
    e["LOct0"] = T_list(T_oct(0), set_=True)
    e["LEnum1"] = T_list(T_enum(1))
    e["LSeqZ"] = T_list(T_seq([("a", T_null(), False), ("b", T_int(7, 7), False)]))
    e["LCho1"] = T_list(T_cho([("a", T_null())]))
    e["LNullC"] = T_list(T_null(), size=(0, 300, False))
    e["LNullX"] = T_list(T_null(), size=(0, 3, True))
    e["LNullF"] = T_list(T_null(), size=(250, 250, False))
    # ... at every holder position
    e["HoldL"] = T_seq([("a", T_int(0, 255), False), ("l", T_list(T_null()), False), ("b", T_oct(), False)])
    e["HoldP"] = T_seq([("a", T_int(0, 255), False), ("l", T_list(T_int(5, 5)), True), ("b", T_oct(), False)])
    e["HoldX"] = T_seq([("a", T_int(0, 255), False)], x=[("l", T_list(T_null())), ("m", T_utf8())])
    e["ChoL"] = T_cho([("a", T_null()), ("l", T_list(T_null()))], x=[("x", T_list(T_int(5, 5)))])
    e["LL"] = T_list(T_ref("LNull"))
    # lists with refusable elements
    e["LSmall"] = T_list(In5)
    e["LEnum3"] = T_list(T_enum(3))
    e["LCh"] = T_list(T_cho([("a", In5), ("b", T_utf8()), ("c", T_null())]))
    e["LChN"] = T_list(T_cho([("a", In5), ("c", T_null()), ("d", T_bool())]))        # (elements without blocks of their own: the model tie)
    e["LInner"] = T_list(T_seq([("n", In5, False), ("s", T_utf8(), True)]), set_=True)
    e["LFixN"] = T_list(T_utf8(), size=(3, 3, False))
    e["LRange"] = T_list(T_utf8(), size=(2, 5, False))
    e["LRangeX"] = T_list(T_utf8(), size=(1, 2, True))
    # SET, CHOICE, extensible SEQUENCE
    e["DSet"] = T_seq([("a", T_utf8(), False), ("b", T_oct(), True), ("c", T_list(T_utf8()), False)], set_=True)
    e["DSeq"] = T_seq([("a", T_utf8(), False), ("b", T_oct(), True), ("c", T_list(T_utf8()), False), ("d", T_cho([("x", T_utf8()), ("y", In5)]), False)])
    e["DCh"] = T_cho([("a", T_utf8()), ("b", T_list(T_utf8())), ("c", T_null())])
    e["DChX"] = T_cho([("a", T_utf8())], x=[("b", T_list(T_utf8())), ("c", T_seq([("s", T_utf8(), False), ("k", T_cho([("u", T_utf8()), ("v", In5), ("w", T_null())]), False)]))])
    e["DExt"] = T_seq([("a", T_utf8(), False)], x=[("b", T_utf8()), ("c", T_list(T_utf8())), ("d", T_seq([("s", T_utf8(), False), ("e", T_enum(3), False)]))])
    # recursion: the stack guard
    e["Rec"] = T_seq([("s", T_utf8(), False), ("next", T_ref("Rec"), True)])
    e["RecL"] = T_seq([("s", T_utf8(), False), ("l", T_list(T_ref("RecL")), False)])
    e["RecC"] = T_cho([("leaf", T_utf8()), ("node", T_seq([("s", T_utf8(), False), ("c", T_ref("RecC"), False)]))])
    return e


ZERO_BIT_LISTS = ("LNull", "SNull", "LFix", "LEmpty", "LOct0", "LEnum1", "LSeqZ", "LCho1", "LNullC", "LNullX")
ZERO_HOLDERS = ("HoldL", "HoldP", "HoldX", "ChoL", "LL", "LNullF")
COUNTS_QUICK = (0, 1, 4, 5, 128, 200, 201, 202, 300)
COUNTS = (0, 1, 3, 4, 5, 8, 9, 127, 128, 199, 200, 201, 202, 255, 256, 300, 1000, 16384, 16385)


def module_text(name, env):
    return "%s DEFINITIONS AUTOMATIC TAGS ::= BEGIN\n%s\nEND\n" % (name, "\n".join("  %s ::= %s" % (n, asn(t)) for n, t in env.items()))


# ---------------------------------------------------------------- module EB

SIZES = (0, 3, 31, 32, 33, 40, 200, 5000)


def eb_env():
    bad = T_cho([("a", T_null()), ("b", T_int())])
    small = T_int(0, 7)
    inn = T_seq([("blob2", T_oct(), False), ("bad", bad, False), ("n", small, False)])
    e = {}
    e["ERoot"] = T_seq([("blob", T_oct(), False), ("blob2", T_oct(), False), ("bad", bad, False), ("n", small, False), ("after", T_utf8(), False)])
    e["EOpt"] = T_seq([("blob", T_oct(), False), ("in", inn, True)])
    e["EAdd"] = T_seq([("blob", T_oct(), False)], x=[("add", inn)])
    e["EAlt"] = T_cho([("plain", T_oct())], x=[("alt", inn)])
    e["EList"] = T_list(inn)
    e["ESetOf"] = T_list(inn, set_=True)
    e["ENest"] = T_seq([("blob", T_oct(), False)], x=[("add", T_seq([("blob3", T_oct(), False)], x=[("deep", inn)]))])
    return e


def eb_value(tn, b1, b2, n):
    inn = {"blob2": b2, "bad": (1, 77), "n": n}
    if tn == "ERoot":
        return {"blob": b1, "blob2": b2, "bad": (1, 77), "n": n, "after": b"tail"}
    if tn == "EOpt":
        return {"blob": b1, "in": inn}
    if tn == "EAdd":
        return {"blob": b1, "add": inn}
    if tn == "EAlt":
        return (1, inn)
    if tn in ("EList", "ESetOf"):
        return [{"blob2": b1, "bad": (0, None), "n": 1}, inn, {"blob2": b"\x01", "bad": (0, None), "n": 2}]
    if tn == "ENest":
        return {"blob": b1, "add": {"blob3": b"\x07" * 3, "deep": inn}}
    raise KeyError(tn)


# where `bad` sits, as a path of the harness op mz
EB_BADPATH = {"ERoot": "2", "EOpt": "1.1", "EAdd": "1.1", "EAlt": "p.1", "EList": "e1.1", "ESetOf": "e1.1", "ENest": "1.1.1"}


# ---------------------------------------------------------------- values of WD

def honest(t, env, rng, depth=0, nlist=None):
    t = deref(t, env)
    k = t["k"]
    if k == "null":
        return None
    if k == "bool":
        return rng.chance(1, 2)
    if k == "int":
        return rng.range(t["lo"], t["hi"]) if t.get("lo") is not None else rng.choice([0, 1, -1, 127, 128, -129, 70000, -2 ** 31, 2 ** 40])
    if k == "enum":
        return rng.below(t["n"])
    if k == "utf8":
        return bytes(rng.choice(list(b"abcdefghij")) for _ in range(rng.choice([0, 1, 3, 6])))
    if k == "oct":
        return bytes(rng.bytes(t["fix"] if t.get("fix") is not None else rng.choice([0, 1, 2, 5])))
    if k == "seq":
        v = {}
        for n, mt, o in t["m"]:
            if o and (depth > 3 or rng.chance(1, 3)):
                continue
            v[n] = honest(mt, env, rng, depth + 1, nlist)
        for n, mt in t["x"] or []:
            if rng.chance(2, 3):
                v[n] = honest(mt, env, rng, depth + 1, nlist)
        return v
    if k == "cho":
        alts = t["a"] + (t["x"] or [])
        cand = list(range(len(alts)))
        if depth > 3:
            cand = [i for i in cand if alts[i][1]["k"] not in ("seq", "ref")] or cand
        if nlist is not None:
            cand = [i for i in cand if alts[i][1]["k"] == "list"] or cand
        i = rng.choice(cand)
        return (i, honest(alts[i][1], env, rng, depth + 1, nlist))
    if k == "list":
        lo, hi = (t["size"][0], t["size"][1]) if t["size"] else (0, 6)
        n = nlist if nlist is not None else (rng.range(lo, min(hi, lo + 6)) if depth <= 3 else lo)
        if t["size"] and not t["size"][2]:
            n = max(lo, min(hi, n))
        return [honest(t["e"], env, rng, depth + 1, None if nlist is None else 2) for _ in range(n)]
    raise EncErr(k)


def deep_value(tn, d):
    if tn == "Rec":
        v = {"s": b"z"}
        for _ in range(d):
            v = {"s": b"x", "next": v}
        return v
    if tn == "RecL":
        v = {"s": b"z", "l": []}
        for _ in range(d):
            v = {"s": b"x", "l": [v]}
        return v
    v = (0, b"z")
    for _ in range(d):
        v = (1, {"s": b"x", "c": v})
    return v


def deep_xer(tn, d):
    if tn == "Rec":
        return b"<Rec>" + b"<s>x</s><next>" * d + b"<s>z</s>" + b"</next>" * d + b"</Rec>"
    if tn == "RecL":
        return b"<RecL>" + b"<s>x</s><l><RecL>" * d + b"<s>z</s><l/>" + b"</RecL></l>" * d + b"</RecL>"
    return b"<RecC>" + b"<node><s>x</s><c>" * d + b"<leaf>z</leaf>" + b"</c></node>" * d + b"</RecC>"


def nodes(t, v, env, path=()):
    """(path, deref'd type, value) of every node of a value"""
    t = deref(t, env)
    out = [(path, t, v)]
    k = t["k"]
    if k == "seq":
        for n, mt in [(n, mt) for n, mt, _ in t["m"]] + list(t["x"] or []):
            if n in v:
                out += nodes(mt, v[n], env, path + (n,))
    elif k == "cho":
        alts = t["a"] + (t["x"] or [])
        out += nodes(alts[v[0]][1], v[1], env, path + ("alt",))
    elif k == "list":
        for i, x in enumerate(v[:6]):
            out += nodes(t["e"], x, env, path + (i,))
    return out


def has_list(t, env, seen=()):
    t0 = t
    if t["k"] == "ref":
        if t["n"] in seen:
            return False
        return has_list(env[t["n"]], env, seen + (t["n"],))
    k = t["k"]
    if k == "list":
        return True
    if k == "seq":
        return any(has_list(mt, env, seen) for _, mt, _ in t["m"]) or any(has_list(mt, env, seen) for _, mt in (t["x"] or []))
    if k == "cho":
        return any(has_list(mt, env, seen) for _, mt in t["a"] + (t["x"] or []))
    return False


def lies_of(t, v, env, tier):
    """[(label, syntaxes, lie)] - one overridden decision each"""
    out = []
    for path, nt, nv in nodes(t, v, env):
        if len(path) > 4:
            continue
        k = nt["k"]
        if path and len(path) <= 3:
            for lab in ("tagbomb", "lenbomb", "wrongtag", "longer") + (("badeoc",) if k in ("seq", "list") else ()):
                out.append(("ber:" + lab, ("ber",), {path: {lab: 1}}))
        if k == "cho" and nt["x"] is not None:
            out.append(("choice:xindex=n", ("uper",), {path: {"xindex": len(nt["x"])}}))
            out.append(("choice:xindex=64", ("uper",), {path: {"xindex": 64}}))
        if k == "list":
            n = len(nv)
            for lab, a in (("announce+1", n + 1), ("announce+200", n + 200), ("announce+70000", n + 70000), ("announce-1", n - 1), ("announce=201", 201)):
                if a >= 0 and a != n:
                    out.append(("list:" + lab, ("uper", "oer"), {path: {"announce": a}}))
        elif k == "cho":
            na = len(nt["a"])
            out.append(("choice:index=n", ("uper", "oer", "ber"), {path: {"index": na + len(nt["x"] or [])}}))
            out.append(("choice:index=max", ("uper",), {path: {"index": (1 << range_bits(na)) - 1}}))
            out.append(("choice:index=62", ("oer", "ber"), {path: {"index": 62}}))
        elif k == "int" and nt.get("lo") is not None:
            nb = range_bits(nt["hi"] - nt["lo"] + 1)
            if nb and (1 << nb) - 1 > nt["hi"] - nt["lo"]:
                out.append(("field:raw=max", ("uper",), {path: {"raw": (1 << nb) - 1}}))
            out.append(("field:raw=200", ("oer",), {path: {"raw": 200}}))
        elif k == "enum":
            nb = range_bits(nt["n"])
            if nb and (1 << nb) - 1 >= nt["n"]:
                out.append(("field:raw=max", ("uper",), {path: {"raw": (1 << nb) - 1}}))
            out.append(("field:raw=100", ("oer",), {path: {"raw": 100}}))
        elif k == "seq":
            for n in list(nv)[:3]:
                out.append(("member:repeated", ("ber",), {path: {"dup": n}}))
            out.append(("member:unknown", ("ber",), {path: {"unknown": 1}}))
            if nt["x"] is not None:
                for c in (len(nt["x"]) + 1, 64, 65, 300):
                    out.append(("additions:announced=%d" % c, ("uper", "oer"), {path: {"extbits": c}}))
    return out


def xml_lies(x, rng, cap):
    """XER text-level: an element repeated / renamed / dropped / its end tag renamed"""
    out = []
    spans = []
    stack = []
    for m in re.finditer(rb"<(/?)([A-Za-z0-9-]+)(/?)>", x):
        if m.group(3):
            spans.append((m.start(), m.end(), m.group(2), len(stack)))
        elif m.group(1):
            if stack:
                s, nm = stack.pop()
                spans.append((s, m.end(), nm, len(stack)))
        else:
            stack.append((m.start(), m.group(2)))
    spans = [s for s in spans if 0 < s[3] <= 3]
    if len(spans) > cap:
        spans = rng.shuffle(spans)[:cap]
    for s, e, nm, d in spans:
        out.append(("xml:repeated", x[:e] + x[s:e] + x[e:]))
        out.append(("xml:renamed", x[:s] + x[s:e].replace(nm, b"zz" + nm[:1]) + x[e:]))
        if not x[s:e].endswith(b"/>"):
            out.append(("xml:endtag", x[:e - len(nm) - 1] + b"q" + x[e - len(nm) - 1:]))
        out.append(("xml:dropped", x[:s] + x[e:]))
    return out


# ---------------------------------------------------------------- building

def build(run, tier):
    wd = {"name": "WD", "env": wd_env(), "layer": "WD", "opts": ("-fcompound-names",)}
    eb = {"name": "EB", "env": eb_env(), "layer": "EB", "opts": ("-fcompound-names",)}
    for m in (wd, eb):
        m["text"] = module_text(m["name"], m["env"])
        m["defs"] = [(t, None) for t in m["env"]]
    build_asn1c()
    build_skeleton_lib(True)
    build_modules([wd, eb], tag="c14w", opts=("-fcompound-names",), extra_ldflags=WRAP, moddrv_extra=INC)
    out = []
    for m in (wd, eb):
        if not m.get("exe"):
            run.violation("build", {"what": "a module of the c14w layer does not build", "module": m["text"], "asn1c_rc": m.get("asn1c_rc"),
                                    "log": (m.get("build_log") or m.get("asn1c_out") or "")[-2500:]}, no_input=True)
        else:
            out.append(m)
    return out


def ask(m, lines):
    res, _ = run_resume(m["exe"], lines, timeout=600)
    return [o if o is not None else "CRASH" for o, _ in res]


def c_encodings(run, m, items):
    """items: [(tn, ber bytes)] -> [{syn: hex|None}] through the C (xcode from BER)"""
    lines = []
    for tn, b in items:
        lines += ["xcode %s ber %s %s" % (tn, b.hex() or "-", s) for s in ("der", "uper", "oer", "xer")]
    out = ask(m, lines)
    res = []
    for i in range(len(items)):
        d = {}
        for j, s in enumerate(("der", "uper", "oer", "xer")):
            f = out[4 * i + j].split()
            d[s] = (f[1] if f[1] != "-" else "") if len(f) >= 2 and f[0] == "OK" else None
        res.append(d)
    return res


def hxs(h):
    return h if h else "-"


TAIL = ["enc:der", "enc:xer", "free"]
PYENC = {"ber": ber, "uper": uper, "oer": oer}


def wd_histories(run, m, rng, tier):
    env = m["env"]
    hs = []
    quick = tier == "quick"

    def add(case, kind, syn, ops, **kw):
        hs.append(dict({"case": case, "kind": kind, "syn": syn, "ops": ops, "enc": {}, "layer": "WD"}, **kw))

    # ---- honest values: random + list counts + depths
    vals = []          # (tn, value, label)
    for tn, t in env.items():
        if tn in ("Rec", "RecL", "RecC"):
            for d in ((5, 40, 150, 400, 1200) if quick else (5, 20, 40, 80, 150, 250, 400, 700, 1200, 2000)):
                vals.append((tn, deep_value(tn, d), "depth=%d" % d))
            continue
        for _ in range(2 if quick else 5):
            vals.append((tn, honest(t, env, rng), "random"))
        if has_list(t, env):
            zero = tn in ZERO_BIT_LISTS or tn in ZERO_HOLDERS
            cs = (COUNTS_QUICK if quick else COUNTS) if zero else ((0, 4, 5, 201) if quick else (0, 1, 4, 5, 8, 9, 200, 201, 300))
            for n in cs:
                tries = 2 if deref(t, env)["k"] == "cho" else 1
                for _ in range(tries):
                    vals.append((tn, honest(t, env, rng, nlist=n), "count=%d" % n))
    bers = []
    for tn, v, lab in vals:
        try:
            bers.append((tn, ber(env[tn], v, env)))
        except (EncErr, OverflowError, ValueError):
            bers.append((tn, b""))
    encs = c_encodings(run, m, bers)
    good = []
    for (tn, v, lab), (_, b), e in zip(vals, bers, encs):
        if e["der"] is None and lab.startswith("depth="):
            # the C refuses the BER form already (the stack guard): the other syntaxes come from the Python encoders alone
            e = {"der": None, "uper": None, "oer": None, "xer": deep_xer(tn, int(lab.split("=")[1])).hex()}
            for s in ("uper", "oer"):
                try:
                    e[s] = PYENC[s](env[tn], v, env).hex()
                except (EncErr, OverflowError, ValueError, KeyError):
                    pass
            e["ber"] = b.hex()
            run.count("c14w_depth_beyond_ber_guard")
            good.append((tn, v, lab, e))
            continue
        if e["der"] is None:
            run.count("c14w_value_rejected_%s" % tn)
            continue
        e["ber"] = b.hex()
        # the Python encoders against the C on the honest value
        for s in ("uper", "oer"):
            if e[s] is None:
                continue
            try:
                mine = PYENC[s](env[tn], v, env).hex()
            except (EncErr, OverflowError, ValueError, KeyError):
                mine = None
            if s == "uper" and e[s] == "":
                e[s] = "00"
            ok = mine == e[s]
            run.count("c14w_pyenc_%s_%s" % (s, "agrees" if ok else "differs"))
            if not ok:
                run.count("c14w_pyenc_differs_%s_%s" % (s, tn))
                if os.environ.get("C14W_DEBUG"):
                    log("pyenc %s %s %s: mine %s C %s" % (s, tn, lab, (mine or "")[:80], e[s][:80]))
            e["py_" + s] = ok
        good.append((tn, v, lab, e))
    m["vals"] = good
    # ---- histories over the honest values (among them the counts and depths a decoder refuses by policy)
    seen = set()
    for tn, v, lab, e in good:
        case = {"tn": tn, "ts": "(wd) " + tn, "vs": lab}
        for s in SYNS:
            if e.get(s) is None or len(e[s]) > 24000:
                continue
            key = (tn, s, e[s])
            if key in seen:
                continue
            seen.add(key)
            valid = "dec:%s:%s" % (s, hxs(e[s]))
            big = len(e[s]) > 1200
            l0 = "honest:" + lab.split("=")[0]
            add(case, "fresh-x", s, [valid] + TAIL, nofail=big, label=l0, honest=lab)
            if not big or lab.startswith("depth") or lab.startswith("count"):
                add(case, "w-honest-reset", s, [valid, "reset", valid] + TAIL, label=l0, sig=True, fail_ops=(0,), honest=lab)
                add(case, "w-honest-free", s, [valid, "print", "free"], label=l0, sig=True, nofail=True, honest=lab)
    # ---- lies
    nper = 2 if quick else 4
    by_tn = {}
    for tn, v, lab, e in good:
        if lab == "random" or lab in ("count=4", "count=5", "count=1"):
            by_tn.setdefault(tn, []).append((v, lab, e))
    for tn, lst in by_tn.items():
        t = env[tn]
        for v, lab, e in lst[:nper]:
            case = {"tn": tn, "ts": "(wd) " + tn, "vs": lab}
            for label, syns, lie in lies_of(t, v, env, tier):
                for s in syns:
                    if s != "ber" and not e.get("py_" + s):
                        continue
                    if e.get(s) is None:
                        continue
                    try:
                        H = PYENC[s](t, v, env, lie)
                    except (EncErr, OverflowError, ValueError, KeyError, IndexError):
                        run.count("c14w_lie_not_encodable")
                        continue
                    if len(H) > 12000 or H.hex() == e[s]:
                        continue
                    key = (tn, s, H.hex())
                    if key in seen:
                        continue
                    seen.add(key)
                    hostile = "dec:%s:%s" % (s, hxs(H.hex()))
                    valid = "dec:%s:%s" % (s, hxs(e[s]))
                    add(case, "w-refuse-free", s, [hostile, "print", "free"], label=label, sig=True, fail_ops=(0,), lie=lie)
                    add(case, "w-refuse-reset", s, [hostile, "reset", valid] + TAIL, label=label, sig=True, fail_ops=(0,))
            # XER text level
            if e.get("xer"):
                X = bytes.fromhex(e["xer"])
                valid = "dec:xer:%s" % hxs(e["xer"])
                for label, H in xml_lies(X, rng, 4 if quick else 12):
                    key = (tn, "xer", H.hex())
                    if key in seen:
                        continue
                    seen.add(key)
                    hostile = "dec:xer:%s" % hxs(H.hex())
                    add(case, "w-refuse-free", "xer", [hostile, "print", "free"], label=label, sig=True, fail_ops=(0,))
                    if rng.chance(1, 2):
                        add(case, "w-refuse-reset", "xer", [hostile, "reset", valid] + TAIL, label=label, sig=True, fail_ops=(0,))
    return hs


def eb_histories(run, m, rng, tier):
    env = m["env"]
    hs = []
    quick = tier == "quick"
    combos = [(n, 2) for n in SIZES] + [(2, n) for n in SIZES] + [(40, 40), (33, 200)] + ([] if quick else [(5000, 5000), (200, 31), (32, 32), (31, 33)])
    items = []
    for tn in env:
        for b1, b2 in combos:
            for nval in (5, 100):
                if nval == 100 and quick and (b1, b2) not in ((0, 2), (2, 0), (40, 2), (2, 40), (40, 40), (2, 5000)):
                    continue
                v = eb_value(tn, bytes((i * 7 + 1) & 0xff for i in range(b1)), bytes((i * 5 + 3) & 0xff for i in range(b2)), nval)
                items.append((tn, b1, b2, nval, ber(env[tn], v, env)))

    def add(case, kind, ops, **kw):
        hs.append(dict({"case": case, "kind": kind, "syn": "ber", "ops": ops, "enc": {}, "layer": "EB", "fail_ops": None}, **kw))
    for tn, b1, b2, nval, B in items:
        dec = "dec:ber:%s" % B.hex()
        for bad in (("none", "mz") if nval == 5 else ("range",)):
            case = {"tn": tn, "ts": "(eb) " + tn, "vs": "blob=%d blob2=%d n=%d bad=%s" % (b1, b2, nval, bad)}
            pre = [dec] + (["mz:" + EB_BADPATH[tn]] if bad == "mz" else [])
            meta = {"eb": (tn, b1, b2, nval, bad), "label": "enc:%s" % bad}
            add(case, "e-newbuf-a", pre + ["enc:uper", "nb:uper", "enc:oer", "nb:oer", "enc:der", "nb:der", "enc:xer", "nb:xer", "free"], **meta)
            add(case, "e-newbuf-b", pre + ["enc:cxer", "nb:cxer", "enc:cper", "nb:cper", "enc:coer", "nb:coer", "enc:uper", "unb", "xeq", "xfp", "free"], **meta)
    return hs


def units(run, tier, model):
    mods = build(run, tier)
    out = []
    for k, m in enumerate(mods):
        rng = own_rng(run, k)
        hs = wd_histories(run, m, rng, tier) if m["layer"] == "WD" else eb_histories(run, m, rng, tier)
        out.append((m, hs))
    return out


# ---------------------------------------------------------------- after the run: coverage of the regions, model tie

LIST_MODEL_TYPES = ("LNull", "SNull", "LFix", "LEnum1", "LNullC")      # elements without blocks of their own
DYN_MODEL_TYPES = ("ERoot", "EOpt", "EList")                           # encoders that allocate nothing themselves (no open type, no sorting)


def post(run, results, model):
    lines, meta = [], []
    for m, hs, reps, exits in results:
        if m.get("layer") not in ("WD", "EB"):
            continue
        for h in hs:
            p = h.get("parsed")
            if not p:
                continue
            if m["layer"] == "WD" and h["kind"] in ("w-refuse-free", "w-honest-free"):
                d = p[0]
                lab = h.get("label", "?")
                live = int(d.get("live", "0/0").split("/")[0])
                run.count("c14w_dec_%s_%s_%s%s" % (h["syn"], lab, d.get("rc"), "_holding" if d.get("rc") == "FAIL" and live > 1 else ""))
                t = h["case"]["tn"]
                # the list model: zero-bit lists refused by the bomb guard; unknown CHOICE index in element k
                if d.get("rc") == "FAIL" and h["syn"] in ("uper", "oer") and h["kind"] == "w-honest-free" and t in LIST_MODEL_TYPES \
                        and h.get("honest", "").startswith("count="):
                    n = int(h["honest"].split("=")[1])
                    # UPER refuses at the first element once more than 200 are announced; OER after the 202nd was appended
                    lines.append("c14wlist correct %d bomb" % (0 if h["syn"] == "uper" else 201))
                    meta.append(("list", m, h, d))
                if d.get("rc") == "FAIL" and h["syn"] in ("uper", "oer") and h["kind"] == "w-refuse-free" and t == "LChN" and lab.startswith("choice:index"):
                    path = list(h["lie"])[0]
                    if len(path) == 1:
                        lines.append("c14wlist correct %d decfail" % path[0])
                        meta.append(("list", m, h, d))
            if m["layer"] == "EB":
                for i, d in enumerate(p[:-1]):
                    if d["op"] == "unb" and "cbs" in d and "more" not in d["cbs"] and h["case"]["tn"] in DYN_MODEL_TYPES:
                        d["_delta"] = int(d.get("live", "0/0").split("/")[0]) - int(p[i - 1].get("live", "0/0").split("/")[0])
                        sizes = d["cbs"].replace(",", " ") if d["cbs"] != "-" else ""
                        lines.append(("c14wdyn correct %s %s" % ("ok" if int(d.get("cr", "-1")) >= 0 else "fail", sizes)).strip())
                        meta.append(("dyn", m, h, d))
                    if d["op"] in ("nb", "unb", "xeq") and "skip" not in d:
                        ok = (d.get("ret") != "-1") if d["op"] != "xeq" else d.get("ret") == "0"
                        run.count("c14w_%s_%s_%s" % (d["op"], h["ops"][i].split(":")[-1] if d["op"] == "nb" else "-", "ok" if ok else "fails"))
                        if not ok and d["op"] != "xeq":
                            tn, b1, b2, nval, bad = h["eb"]
                            run.count("c14w_failing_encode_%s_after_%d" % (tn, max(b1, b2)))
    if not lines:
        return
    rcm, mo, me = run_lines(model, lines, timeout=600)
    if rcm != 0 or len(mo) != len(lines):
        run.violation("model:HeapW", {"what": "model driver failed", "stderr": me[-1500:], "answered": len(mo), "asked": len(lines)}, no_input=True)
        return
    seen = set()
    for (what, m, h, d), line, o in zip(meta, lines, mo):
        f = dict(x.split("=", 1) for x in o.split() if "=" in x)
        cl = "hist %s %s" % (h["case"]["tn"], ";".join(h["ops"]))
        if line not in seen:
            seen.add(line)
            run.case(line)
        if what == "list":
            run.count("c14w_model_list")
            nC = d.get("live", "0/0").split("/")[0]
            if f.get("violation") != "none" or f.get("live") != nC:
                run.violation("correspondence:HeapW.list", {
                    "what": "after the refused %s decode the C holds %s live blocks; the model of the element loop (%s) holds %s (ledger: %s): top structure + array + the appended elements, "
                            "the element at hand released by the exit only if it was NOT appended" % (h["syn"], nC, line, f.get("live"), f.get("violation")),
                    "module": m["text"], "type": h["case"]["tn"], "command_line": cl[:3000], "model_line": line, "model": o, "c": (h["out"] or "")[:400]}, no_input=True)
        else:
            run.count("c14w_model_dyn")
            okC = d.get("ret") != "-1"
            okM = f.get("result") == "buffer"
            # live across the op (the harness has released a returned buffer by then) against the model's ledger after the caller's free
            bad = okC != okM or str(int(d.get("a", "0")) - int(d.get("ca", "0"))) != f.get("allocs") or (okC and d.get("bs") != f.get("bs")) or f.get("violation") != "none" or str(d.get("_delta")) != f.get("leak")
            if bad:
                run.violation("correspondence:HeapW.dyn", {
                    "what": "uper_encode_to_new_buffer: the C reports success=%s with %s allocations (the encoder's own, counted on uper_encode() with a plain callback, included) and a result block of %s bytes; the model of the accumulating callback + wrapper over the chunk sizes "
                            "uper_encode() produces for this value (%s) gives result=%s allocs=%s block=%s ledger=%s; blocks left behind: C %s, model %s" % (okC, d.get("a"), d.get("bs"), d.get("cbs"), f.get("result"), f.get("allocs"), f.get("bs"), f.get("violation"), d.get("_delta"), f.get("leak")),
                    "module": m["text"], "type": h["case"]["tn"], "command_line": cl[:3000], "model_line": line, "model": o}, no_input=True)
