"""c07w_util — the PRIMITIVE-BODY layer of the C07 check (encoder API contract).

Region closed (seeded/C07-7): the size-accounting oracle `reported size == bytes delivered to the callback`
was only ever evaluated on structures whose primitive bodies fit in ONE internal scratch buffer of the
text encoders, and only on native-integer builds.  This file generates the module C07P (every primitive
whose XER body is produced through a local buffer or a per-item callback loop) and, per FLAG SET
(native / -fwide-types), values whose body LENGTH is swept across every internal boundary:

  skeletons routine                      buffer / flush rule                          swept here
  INTEGER__dump  (wide)                  scratch[32], flushed every 10 octets         content 1..45 octets, both signs, padded
  NativeInteger_encode_xer               scratch[32], one snprintf                    1..20 digits, both signs, unsigned specifics
  asn__format_to_callback                scratch[64], malloc above 63 characters      ENUMERATED / named-number names 1..130 chars
  REAL__dump                             local_buf[64], malloc above 63 characters    10^k, k = -20..60, 100, 300, specials
  OBJECT_IDENTIFIER__dump_body           scratch[32], one invocation per arc          2..130 arcs, arcs of 1..10 digits, > 32 bits
  RELATIVE_OID__dump_body                the same                                     0..130 arcs
  BIT_STRING_encode_xer                  scratch[128], flush at 118 (15 octets),      0..48, 59..66, 119..122, 200 octets x unused bits
                                         rows of 8 octets with indentation in BASIC
  OCTET_STRING_encode_xer                scratch[52] (C07B sweeps the lengths)        inside containers here
  OCTET_STRING_encode_xer_utf8           no buffer: runs between escapes              escapes at every position, control characters
  BMPString__dump                        scratch[128], flush when < 3 octets free     1/2/3-octet characters around 125..128
  UniversalString__dump                  scratch[128], flush when < 6 octets free     1..6-octet characters around 122..128
  GeneralizedTime / UTCTime _encode_xer  buf[32] of the canonical re-formatting       fractions of 0..12 digits, zones, invalid
  long element / type names              (no buffer; ASN__CALLBACK3)                  names of 1..300 characters

Values reach the C as DER (built here, octet by octet: no model is involved); the oracles of checks/c07.py
(size accounting, callback failure at EVERY index, asn_encode_to_buffer at EVERY size, asn_encode_to_new_buffer)
run on them in all five syntaxes.  The INTEGER hex dump additionally has a Coq model (Rt/XerChunk.v)
whose chunk list is compared with the C's."""
import math
from c07_util import tlv, der_len, pat

U = lambda n: 4 * n            # universal tag n in the ber_tlv_tag_t form (number * 4 + class)
CTX = lambda n: 4 * n + 2      # context tag

ENUM_NAME_LENS = [1, 2, 31, 32, 33, 56, 57, 58, 59, 60, 61, 62, 63, 64, 65, 100, 121, 122, 123, 124, 125, 126, 127, 128, 130]
MEMBER_NAME_LENS = [1, 31, 32, 33, 63, 64, 65, 127, 128, 129, 300]


def ident(n, salt):
    """an ASN.1 identifier of exactly n characters (lowercase first; letters, digits, single hyphens)"""
    base = "e%s" % salt
    if n <= len(base):
        return ("abcdefghijklmnopqrstuvwxyz"[salt % 26] + "x" * n)[:n]
    s = base + "-"
    i = 0
    while len(s) < n:
        s += "abcdefghij0123456789"[i % 20]
        i += 1
        if len(s) < n - 1 and i % 9 == 0:
            s += "-"
    s = s[:n]
    if s.endswith("-"):
        s = s[:-1] + "z"
    return s


ENUM_NAMES = [ident(n, i) for i, n in enumerate(ENUM_NAME_LENS)]
MEMBER_NAMES = [ident(n, 50 + i) for i, n in enumerate(MEMBER_NAME_LENS)]
LONG_TYPE = "T" + ident(199, 90)[1:].replace("-", "x")        # (hyphen-free: harness/pdu_table.c uses it as a C identifier)


def prim_text(name):
    en = ", ".join("%s(%d)" % (nm, i) for i, nm in enumerate(ENUM_NAMES))
    nn = ", ".join("%s(%d)" % (nm, i + 1) for i, nm in enumerate(ENUM_NAMES[:12]))
    lm = ", ".join("%s INTEGER OPTIONAL" % nm for nm in MEMBER_NAMES)
    return """%s DEFINITIONS AUTOMATIC TAGS ::= BEGIN
  WI ::= INTEGER
  WJ ::= INTEGER (0..18446744073709551615)
  WP ::= INTEGER (0..4294967295)
  WN ::= INTEGER { %s }
  WE ::= ENUMERATED { %s }
  WR ::= REAL
  WO ::= OBJECT IDENTIFIER
  WL ::= RELATIVE-OID
  WB ::= BIT STRING
  WU ::= UTF8String
  WA ::= IA5String
  WM ::= BMPString
  WV ::= UniversalString
  WG ::= GeneralizedTime
  WT ::= UTCTime
  WQ ::= SEQUENCE { a INTEGER, b BOOLEAN }
  WF ::= SEQUENCE OF INTEGER
  WH ::= SET OF INTEGER
  WK ::= SEQUENCE { %s }
  %s ::= SEQUENCE { a INTEGER OPTIONAL, e WE OPTIONAL }
  WX ::= SEQUENCE { i INTEGER OPTIONAL, r REAL OPTIONAL, o OBJECT IDENTIFIER OPTIONAL, b BIT STRING OPTIONAL,
                    u UTF8String OPTIONAL, m BMPString OPTIONAL, v UniversalString OPTIONAL, g GeneralizedTime OPTIONAL,
                    e WE OPTIONAL, l RELATIVE-OID OPTIONAL,
                    inner SEQUENCE { bs BIT STRING OPTIONAL, os OCTET STRING OPTIONAL, i INTEGER OPTIONAL,
                                     deeper SEQUENCE { bs BIT STRING OPTIONAL, i INTEGER OPTIONAL, v UniversalString OPTIONAL } OPTIONAL } OPTIONAL }
  WC ::= CHOICE { i INTEGER, b BIT STRING, r REAL, o OBJECT IDENTIFIER, m BMPString }
  WD ::= SET OF BIT STRING
END
""" % (name, nn, en, lm, LONG_TYPE)


PRIM_TYPES = ["WI", "WJ", "WP", "WN", "WE", "WR", "WO", "WL", "WB", "WU", "WA", "WM", "WV", "WG", "WT", "WQ", "WF", "WH", "WK", LONG_TYPE, "WX", "WC", "WD"]


def prim_module(name):
    return {"name": name, "default": "AUTOMATIC", "defs": [(n, None) for n in PRIM_TYPES], "trees": {}, "text": prim_text(name)}


# ---------------------------------------------------------------- contents octets

def c_int(v):
    n = 1
    while not (-(1 << (8 * n - 1)) <= v < (1 << (8 * n - 1))):
        n += 1
    return v.to_bytes(n, "big", signed=True)


def int_of_len(n, neg, salt=0):
    """a minimal two's-complement content of exactly n octets"""
    if n == 1:
        return bytes([0x85 if neg else 0x45])
    body = bytes((37 * i + 11 * n + salt) % 256 for i in range(n - 1))
    if neg:
        first = 0x80 | ((n * 5 + salt) % 0x7f)
        if first == 0xff and body[0] & 0x80:
            first = 0xfe
        return bytes([first]) + body
    first = (n * 3 + salt) % 0x80
    if first == 0 and not body[0] & 0x80:
        first = 0x01
    return bytes([first]) + body


def c_real(d):
    """DER contents of a REAL (binary form, base 2, odd mantissa)"""
    if d != d:
        return b"\x42"
    if d == float("inf"):
        return b"\x40"
    if d == float("-inf"):
        return b"\x41"
    if d == 0:
        return b"\x43" if math.copysign(1.0, d) < 0 else b""
    m, e = math.frexp(abs(d))
    M = int(m * (1 << 53))
    E = e - 53
    while M % 2 == 0:
        M //= 2
        E += 1
    ex = c_int(E)
    assert len(ex) <= 3
    first = 0x80 | (0x40 if d < 0 else 0) | (len(ex) - 1)
    return bytes([first]) + ex + M.to_bytes((M.bit_length() + 7) // 8, "big")


def b128(v):
    out = [v & 0x7f]
    v >>= 7
    while v:
        out.append(0x80 | (v & 0x7f))
        v >>= 7
    return bytes(out[::-1])


def c_oid(arcs):
    return b128(40 * arcs[0] + arcs[1]) + b"".join(b128(a) for a in arcs[2:])


def c_roid(arcs):
    return b"".join(b128(a) for a in arcs)


def c_bits(nbytes, unused, salt=0):
    if nbytes == 0:
        return b"\x00"
    body = bytearray((i * 29 + nbytes * 7 + salt + 0x5a) % 256 for i in range(nbytes))
    body[-1] &= (0xff << unused) & 0xff
    return bytes([unused]) + bytes(body)


def c_bmp(cps):
    return b"".join(c.to_bytes(2, "big") for c in cps)


def c_univ(cps):
    return b"".join(c.to_bytes(4, "big") for c in cps)


# ---------------------------------------------------------------- the values

REAL_VALUES = ([0.0, -0.0, 1.0, -1.0, 0.1, -0.1, 3.141592653589793, 123456789.12345679, 65537.0, 1e15, 1e16, -1e16,
                1.7976931348623157e308, -1.7976931348623157e308, 5e-324, 2.2250738585072014e-308, 1e-300, 1e100, -1e100, 1e300,
                float("inf"), float("-inf"), float("nan")]
               + [10.0 ** k for k in range(40, 56)] + [-(10.0 ** k) for k in range(44, 52)] + [10.0 ** -k for k in (1, 5, 15, 16, 20)]
               + [float(2 ** k) for k in (52, 53, 63, 64, 100, 155, 156, 157, 158, 159, 160, 161, 162, 163, 164, 1023)])

DIGIT_ARCS = [0, 9, 10, 99, 127, 128, 999, 16383, 16384, 99999, 2097151, 2097152, 9999999, 99999999, 268435455, 268435456, 999999999, 4294967295]

GT_VALUES = ["20260101120000Z", "2026010112Z", "202601011200Z", "20260101120000", "20260101120000.5Z", "20260101120000.123Z",
             "20260101120000.123456Z", "20260101120000.123456789Z", "20260101120000.123456789012Z", "20260101120000.000Z",
             "20260101120000+0130", "20260101120000.25-0800", "2026010112+01", "19700101000000Z", "99991231235959.999Z",
             "00010101000000Z", "2026", "", "20261301120000Z", "2026010112000", "20260101120000.Z", "20260101120000,5Z"]
UT_VALUES = ["260101120000Z", "2601011200Z", "260101120000+0130", "2601011200-0800", "700101000000Z", "491231235959Z", "500101000000Z",
             "26", "", "261301120000Z", "2601011200"]


def utf8_values():
    out = [b"", b"a", b"<", b"&", b">", b"<>&", b"a<b", b"<a", b"a<", b"plain text of some length, no escapes at all 0123456789",
           bytes(range(0, 32)), bytes(range(32, 128)), bytes([0]) * 40, b"&" * 64, b"ab&" * 30,
           "grüße 世界 \U0001f600".encode("utf-8"), b"\xff\xfe\x80 invalid utf-8 \xc0"]
    for n in (15, 16, 17, 31, 32, 33, 63, 64, 65, 127, 128, 129, 255, 256, 257, 1000):
        out.append(bytes(0x61 + (i % 26) for i in range(n)))
        s = bytearray(0x41 + (i % 26) for i in range(n))
        for p in (0, n // 2, n - 1):
            s[p] = b"<&>"[p % 3]
        out.append(bytes(s))
    return out


def bmp_values():
    out = [[], [0x41], [0x3c], [0x26], [0xe9], [0x4e16], [0x41, 0x3c, 0x42, 0x26, 0x43, 0x3e], [0] * 5]
    for n in list(range(120, 134)) + [250, 251, 252, 253, 254, 255, 256, 257, 378, 379, 380, 1000]:
        out.append([0x61 + (i % 26) for i in range(n)])                       # 1 octet each
    for n in list(range(60, 67)) + [124, 125, 126, 127, 128]:
        out.append([0x400 + (i % 200) for i in range(n)])                     # 2 octets each
    for n in list(range(40, 46)) + [82, 83, 84, 85, 86, 126, 127]:
        out.append([0x4e00 + i for i in range(n)])                            # 3 octets each
    for n in range(122, 130):
        out.append([0x61] * n + [0x4e16, 0x62, 0xe9, 0x63])                   # the multi-octet character meets the end
        out.append([0x61] * (n - 2) + [0x3c, 0x26] + [0x4e16] + [0x3e] * 3)   # escapes around the flush
        out.append([0x3c] * n)                                                # every character escaped
    return out


def univ_values():
    out = [[], [0x41], [0x3c], [0xe9], [0x4e16], [0x1f600], [0x3ffffff], [0x7fffffff], [0xffffffff], [0x41, 0x26, 0x1f600, 0x3c]]
    for n in list(range(116, 132)) + [244, 245, 246, 247, 248, 249, 250, 366, 367, 368, 1000]:
        out.append([0x61 + (i % 26) for i in range(n)])
    for w, cp in ((2, 0x400), (3, 0x4e00), (4, 0x10000), (5, 0x200000), (6, 0x4000000)):
        k = 122 // w
        for n in range(k - 2, k + 4):
            out.append([cp + i for i in range(n)])
        for n in range(2 * (122 // w) - 1, 2 * (122 // w) + 4):
            out.append([cp + i for i in range(n)])
        for n in range(117, 124):
            out.append([0x61] * n + [cp, 0x62, cp + 1])
    for n in range(118, 126):
        out.append([0x61] * (n - 2) + [0x3c, 0x26, 0x7fffffff, 0x3e])
        out.append([0x26] * n)
    return out


def prim_values(flag, tier, rng):
    """[(type, DER hex, label)] for one flag set ('native' | 'wide')"""
    quick = tier == "quick"
    out = []

    def add(tn, tag, content, label, constructed=False):
        out.append((tn, tlv(tag, constructed, content).hex(), label))

    wide = flag == "wide"
    # ---- INTEGER: the hex dump (wide: beyond intmax_t), the decimal text (1..20 digits)
    maxlen = 45 if wide else 8
    ints = []
    for n in range(1, maxlen + 1):
        for neg in (False, True):
            ints.append(int_of_len(n, neg))
    for k in range(0, 19):
        ints += [c_int(10 ** k), c_int(10 ** k - 1), c_int(-(10 ** k))]
    ints += [c_int(2 ** 63 - 1), c_int(-2 ** 63), c_int(0), c_int(-1)]
    if wide:
        ints += [c_int(2 ** 63), c_int(-2 ** 63 - 1), c_int(2 ** 64 - 1), c_int(2 ** 64), c_int(10 ** 19), c_int(10 ** 20), c_int(-(10 ** 20)),
                 b"\x00" * 3 + int_of_len(12, False), b"\xff" * 4 + int_of_len(11, True), b"\x00" * 20 + b"\x7f", b"\x00" * 9 + int_of_len(10, True),
                 int_of_len(64, False), int_of_len(100, True), int_of_len(127, False), int_of_len(128, False), int_of_len(300, True),
                 b"\x00" * 11, b"\xff" * 11, b"\x00" + b"\xff" * 10, b"\x80" + b"\x00" * 10]
    for c in ints:
        add("WI", U(2), c, "int")
    for v in [0, 1, 9, 10, 255, 2 ** 32, 2 ** 63 - 1, 2 ** 63, 10 ** 19, 2 ** 64 - 1]:
        add("WJ", U(2), c_int(v), "uint")
    if wide:
        add("WJ", U(2), c_int(2 ** 64), "uint")        # beyond the constraint, beyond uintmax_t: the hex dump
        add("WJ", U(2), int_of_len(21, False), "uint")
    # unsigned specifics (native: unsigned long; wide: INTEGER_t read through asn_INTEGER2umax, "%ju")
    for v in [0, 1, 9, 10, 127, 128, 255, 65535, 2 ** 31 - 1, 2 ** 31, 10 ** 9, 2 ** 32 - 1]:
        add("WP", U(2), c_int(v), "uint32")
    if wide:
        for c in (c_int(2 ** 32), c_int(2 ** 63), c_int(2 ** 64 - 1), c_int(10 ** 19), b"\x00" * 5 + c_int(2 ** 64 - 1), c_int(2 ** 64), int_of_len(9, True),
                  int_of_len(11, False), int_of_len(21, False), int_of_len(31, True)):
            add("WP", U(2), c, "uint32-big")          # (beyond uintmax_t the BER decoder of this type refuses the value)
    for v in list(range(0, 14)) + [40, -1, 2 ** 40]:
        add("WN", U(2), c_int(v), "named")
    if wide:
        add("WN", U(2), int_of_len(15, False), "named")
    # ---- ENUMERATED: "<%s/>" through asn__format_to_callback (64-octet scratch, malloc above)
    for i in range(len(ENUM_NAMES)):
        add("WE", U(10), c_int(i), "enum")
    for v in (len(ENUM_NAMES), -1, 1000):
        add("WE", U(10), c_int(v), "enum-unknown")
    # ---- REAL
    for d in REAL_VALUES:
        add("WR", U(9), c_real(d), "real")
    # ---- OBJECT IDENTIFIER / RELATIVE-OID: one invocation per arc
    oids = [[0, 0], [1, 39], [2, 0], [2, 999], [2, 4294967295 - 80], [1, 2, 3], [2, 100, 3], [1, 3, 6, 1, 4, 1, 9363, 1, 5, 0]]
    for a in DIGIT_ARCS:
        oids.append([1, 2] + [a] * 3)
        oids.append([2, 5] + [a] * 12)
    for n in (8, 9, 10, 11, 12, 16, 17, 31, 32, 33, 64, 129, 130):
        oids.append([1, 3] + [(i * 7919) % (10 ** (1 + i % 9)) for i in range(n - 2)])
    oids.append([1, 2] + [4294967295] * 40)
    for a in oids:
        add("WO", U(6), c_oid(a), "oid")
    add("WO", U(6), c_oid([1, 2, 3]) + b128(2 ** 32) + b"\x05", "oid-arc-too-large")
    add("WO", U(6), c_oid([1, 2, 3]) + b"\x85", "oid-truncated")
    add("WO", U(6), b"", "oid-empty")
    add("WO", U(6), b128(2 ** 32 + 80), "oid-first-too-large")
    roids = [[], [0], [5], [4294967295], [1, 2, 3]]
    for a in DIGIT_ARCS:
        roids.append([a] * 3)
        roids.append([a] * 13)
    for n in (9, 10, 11, 16, 31, 32, 33, 64, 130):
        roids.append([(i * 104729) % (10 ** (1 + i % 10)) for i in range(n)])
    for a in roids:
        add("WL", U(13), c_roid(a), "roid")
    add("WL", U(13), c_roid([1, 2]) + b128(2 ** 32), "roid-arc-too-large")
    add("WL", U(13), c_roid([1, 2]) + b"\x85", "roid-truncated")
    # ---- BIT STRING: "0101.." through a 128-octet scratch (flush at 118 = 15 octets), rows of 8 octets in BASIC-XER
    bl = list(range(0, 49)) + [59, 60, 61, 62, 63, 64, 65, 66, 75, 76, 89, 90, 91, 105, 106, 119, 120, 121, 122, 200]
    for n in bl:
        us = (0, 1, 4, 7) if (n <= 18 or n in (30, 31, 32, 45, 46, 120, 121)) else ((n * 3) % 8, 0)
        for u in sorted(set(us)):
            if n == 0 and u:
                continue
            add("WB", U(3), c_bits(n, u), "bits")
    add("WB", U(3), b"", "bits-no-octet")
    # ---- character strings
    for s in utf8_values():
        add("WU", U(12), s, "utf8")
    for s in utf8_values()[:24]:
        add("WA", U(22), bytes(x & 0x7f for x in s), "ia5")
    for cps in bmp_values():
        add("WM", U(30), c_bmp(cps), "bmp")
    add("WM", U(30), c_bmp([0x61] * 127) + b"\x00", "bmp-odd")
    add("WM", U(30), b"\x41", "bmp-odd")
    for cps in univ_values():
        add("WV", U(28), c_univ(cps), "univ")
    for extra in (1, 2, 3):
        add("WV", U(28), c_univ([0x61] * 123) + b"\x00" * extra, "univ-odd")
    # ---- time types
    for s in GT_VALUES:
        add("WG", U(24), s.encode(), "gtime")
    for s in UT_VALUES:
        add("WT", U(23), s.encode(), "utime")
    # ---- the bodies inside constructed types (indentation level >= 1, CANONICAL-XER SET OF buffers)
    inside = [int_of_len(n, neg) for n in ((1, 8, 9, 10, 11, 12, 20, 21, 30, 31, 40) if wide else (1, 2, 7, 8)) for neg in (False, True)]
    for c in inside:
        add("WQ", U(16), tlv(CTX(0), False, c) + tlv(CTX(1), False, b"\xff"), "seq-int", True)
        add(LONG_TYPE, U(16), tlv(CTX(0), False, c) + tlv(CTX(1), False, c_int(len(c) % len(ENUM_NAMES))), "long-type-name", True)
    for k in (0, 1, 2, 5):
        els = [inside[(3 * i + k) % len(inside)] for i in range(k * 3)]
        add("WF", U(16), b"".join(tlv(U(2), False, c) for c in els), "seqof-int", True)
        add("WH", U(17), b"".join(sorted(tlv(U(2), False, c) for c in els)), "setof-int", True)
    for k in (0, 1, 3, 4):
        els = [c_bits(n, (n * 5) % 8 if n else 0) for n in [0, 7, 8, 9, 15, 16, 17, 31][k:k + 4]]
        add("WD", U(17), b"".join(sorted(tlv(U(3), False, c) for c in els)), "setof-bits", True)
    for i in range(len(MEMBER_NAMES)):
        add("WK", U(16), tlv(CTX(i), False, c_int(10 ** (i % 9) - i)), "long-member-name", True)
    add("WK", U(16), b"".join(tlv(CTX(i), False, c_int(i)) for i in range(len(MEMBER_NAMES))), "long-member-name", True)
    add("WK", U(16), b"", "long-member-name", True)
    big = int_of_len(23 if wide else 8, True)
    bodies = {0: big, 1: c_real(1e50), 2: c_oid([1, 2] + [99999] * 14), 3: c_bits(17, 3), 4: b"a<b&c>" * 5, 5: c_bmp([0x61] * 127 + [0x4e16, 0x3c]),
              6: c_univ([0x61] * 121 + [0x7fffffff, 0x26]), 7: b"20260101120000.123456Z", 8: c_int(ENUM_NAME_LENS.index(62)), 9: c_roid([7] * 20)}
    deeper = tlv(CTX(3), True, tlv(CTX(0), False, c_bits(33, 5)) + tlv(CTX(1), False, big) + tlv(CTX(2), False, c_univ([0x4e16] * 45)))
    inner = tlv(CTX(10), True, tlv(CTX(0), False, c_bits(9, 1)) + tlv(CTX(1), False, pat(40)) + tlv(CTX(2), False, big) + deeper)
    add("WX", U(16), b"".join(tlv(CTX(i), False, c) for i, c in sorted(bodies.items())) + inner, "mixed", True)
    add("WX", U(16), inner, "mixed", True)
    add("WX", U(16), b"", "mixed", True)
    for i, c in sorted(bodies.items()):
        add("WX", U(16), tlv(CTX(i), False, c), "mixed", True)
    for i, c in enumerate([big, c_bits(16, 0), c_real(-1e48), c_oid([2, 999, 4294967295]), c_bmp([0x3c] * 126)]):
        out.append(("WC", tlv(CTX(i), False, c).hex(), "choice"))
    # ---- random after the directed ones
    for _ in range(12 if quick else 80):
        n = 1 + rng.below(maxlen)
        add("WI", U(2), int_of_len(n, rng.chance(1, 2), rng.below(200)), "int-random")
        add("WB", U(3), c_bits(rng.below(70), rng.below(8), rng.below(99)), "bits-random")
        add("WO", U(6), c_oid([rng.below(3), rng.below(40)] + [rng.below(2 ** (1 + rng.below(32))) for _ in range(rng.below(20))]), "oid-random")
        add("WM", U(30), c_bmp([rng.choice([0x41, 0x3c, 0xe9, 0x4e16, 0x26, 0x7a]) for _ in range(100 + rng.below(60))]), "bmp-random")
        add("WV", U(28), c_univ([rng.choice([0x41, 0x3c, 0xe9, 0x4e16, 0x1f600, 0x3ffffff, 0x7fffffff]) for _ in range(20 + rng.below(110))]), "univ-random")
        add("WR", U(9), c_real((rng.below(2 ** 53) + 1) * 2.0 ** (rng.below(400) - 200) * (-1 if rng.chance(1, 2) else 1)), "real-random")
    return out


# ---------------------------------------------------------------- the INTEGER hex dump: what the check predicts itself

def int_dump_strip(content):
    """INTEGER__dump: 'the text does not depend on the leading superfluous octets'"""
    b = bytes(content)
    i = 0
    while i + 1 < len(b):
        if b[i] == 0x00 and not b[i + 1] & 0x80:
            i += 1
            continue
        if b[i] == 0xff and b[i + 1] & 0x80:
            i += 1
            continue
        break
    return b[i:]


def int_dump_text(content):
    return ":".join("%02X" % x for x in int_dump_strip(content)).encode()


# types whose code is the same under both flag sets (quick tier: each value under ONE of them, rotating with the seed)
FLAG_INDEPENDENT = {"WO", "WL", "WB", "WU", "WA", "WM", "WV", "WG", "WT", "WK", "WD"}
