"""c01_width — INTEGER value constraints whose BOTH bounds sit on the width boundaries of OER / PER
(notes/design/C01.md, "width-boundary layer").

The region: lib/modgen.py / lib/modcorpus.py draw INTEGER constraints from short lists in which a negative lower bound
only ever meets an upper bound just BELOW a power of two (-128..127, -32768..32767, -129..127 ...): the decision
"how many octets does (lb..ub) need" (asn1c_C.c emit_single_member_OER_constraint_value, X.696 10.2; the PER range
in emit_single_member_PER_constraint) was never evaluated with the lower bound on one side of a signed boundary and
the upper bound on, or one above, the boundary of the same or another width.

This module writes the whole product lb x ub (LBS x UBS below; MIN / MAX = no bound), each combination
  * as a top-level type  W<i>U<j> ::= INTEGER (lb..ub)                         (descriptor of the type itself)
  * as a member of       Q<i> ::= SEQUENCE { u<j> INTEGER (lb_i..ub_j) ..., z BOOLEAN }   (member constraint tables)
in two builds of the same text: native integers and -fwide-types (INTEGER_t).  Values: both bounds and bound -+ 1
(inside the type), 0 and -1; for an open side the width edges near the closed one.  The types are inside the modelled
algebra (coq/Rt/Oer.v oer_int_ct / oer_int, coq/Rt/Uper.v), so the modules are handed to the EXISTING model tie of
checks/c01.py (round trip in five syntaxes; the C decoders on the model's octets; transcoding chains): a compiler that
emits another width than oer_int_ct makes model != code there (correspondence:Rt.oer_dec) and the encoder's refusal
is seen by the oracle (oracle:roundtrip(coer), oracle:transcode).  No new Coq was needed for that: oer_int_ct is the
decision, and Rt/OerTotal.v oer_int_total / C01_oer_encode_decode already depend on it.
In addition, independent of model AND library, `expected_oer` below computes the X.696 octets of a top-level value in
Python and `check_oer` compares them with what the C encoder wrote (oracle:oer-width)."""
import os
from vlib import *
from modgen import *
from modbuild import *

LBS = [0, -1, -128, -129, -32768, -32769, -2**31, -2**31 - 1, None]
UBS = [127, 128, 255, 256, 32767, 32768, 65535, 65536, 2**31 - 1, 2**31, 2**32 - 1, 2**32, None]
EDGES = [0, -1, 127, 128, -128, -129, 255, 256, 32767, 32768, -32768, -32769, 65535, 65536, 2**31 - 1, 2**31, -2**31, -2**31 - 1,
         2**32 - 1, 2**32]
# the chains into and out of the two syntaxes whose width depends on the bounds, + one XER pair (quick)
PAIRS_QUICK = [("der", "coer"), ("xer", "coer"), ("cper", "coer"), ("coer", "cper"), ("coer", "der"), ("der", "cper"), ("coer", "cxer"), ("cxer", "cper")]


def int_vals(lo, hi):
    c = [0, -1]
    for b in (lo, hi):
        if b is not None:
            c += [b, b + 1, b - 1]
    if lo is None or hi is None:
        c += EDGES + [2**62, -2**62, 2**63 - 1, -2**63]
    return sorted(set(x for x in c if (lo is None or x >= lo) and (hi is None or x <= hi) and -2**63 <= x < 2**63))


def defs():
    ds = []
    for i, lo in enumerate(LBS):
        for j, hi in enumerate(UBS):
            ds.append(("W%dU%d" % (i, j), {"k": "int", "con": (lo, hi, False)}))
    for i, lo in enumerate(LBS):
        ms = [("u%d" % j, {"k": "int", "con": (lo, hi, False)}, False) for j, hi in enumerate(UBS)] + [("z", {"k": "bool"}, False)]
        ds.append(("Q%d" % i, {"k": "seq", "ms": ms}))
    return ds


def module(name):
    d = defs()
    env = dict(d)
    trees = {n: resolve(t, "EXPLICIT", env) for n, t in d}
    return {"name": name, "default": "EXPLICIT", "defs": d, "trees": trees, "text": module_text(name, "EXPLICIT", d),
            "c01_width": True}


def values(tn, tree):
    if tree[0] == "i":
        return int_vals(tree[2], tree[3])
    # SEQUENCE: every member walks through its own values while the others sit on their upper / lower bound alternately
    ms = tree[2][:-1]
    per = [int_vals(m[2], m[3]) for m in ms]
    out = []
    for r in range(max(len(p) for p in per)):
        out.append(("S", [p[r % len(p)] if (k + r) % 2 == 0 else p[-1 - (r % len(p))] for k, p in enumerate(per)] + [bool(r % 2)]))
    return out


def corpus(run, rng, tier):
    """-> (modules, cases) in the shape of modcorpus.build_corpus: the two builds of the directed module"""
    from modcorpus import model_build, run_lines
    mods = [module("WBN"), module("WBW")]
    build_modules(mods[:1], tag="c01wn", opts=("-fcompound-names",))
    build_modules(mods[1:], tag="c01ww", opts=("-fcompound-names", "-fwide-types"))
    cases = []
    for m in mods:
        m["chain_pairs"] = PAIRS_QUICK if tier == "quick" else None
        for tn, _t in m["defs"]:
            tree = m["trees"][tn]
            ts = model_str(tree)
            for v in values(tn, tree):
                cases.append({"mod": m, "tn": tn, "ts": ts, "vs": val_str(v), "py": v, "tree": tree})
    model = model_build()
    lines = []
    for c in cases:
        lines += ["der %s %s" % (c["ts"], c["vs"]), "uper 0 %s %s" % (c["ts"], c["vs"]), "uper 1 %s %s" % (c["ts"], c["vs"]), "oer %s %s" % (c["ts"], c["vs"])]
    rcm, mo, me = run_lines(model, lines, timeout=1200)
    if rcm != 0 or len(mo) != len(lines):
        raise RuntimeError("model driver failed: %s %s" % (rcm, me))
    for i, c in enumerate(cases):
        c["der"], c["uper"], c["uperstd"], c["oer"] = mo[4 * i:4 * i + 4]
    cases = [c for c in cases if c["der"] != "NONE"]
    run.count("width_types", sum(len(m["defs"]) for m in mods))
    run.count("width_values", len(cases))
    return mods, cases


# ---------------------------------------------------------------- the independent oracle (X.696 10.2 - 10.4)

def twos(v, n=None):
    if n is None:
        n = 1
        while not -(1 << (8 * n - 1)) <= v < (1 << (8 * n - 1)):
            n += 1
    return (v & ((1 << (8 * n)) - 1)).to_bytes(n, "big")


def oer_width(lo, hi):
    """(octets or 0 = length-prefixed, unsigned?) of INTEGER (lo..hi), no extension marker"""
    if lo is not None and lo >= 0:
        if hi is None:
            return 0, True
        for n in (1, 2, 4, 8):
            if hi <= 2**(8 * n) - 1:
                return n, True
        return 0, True
    if lo is None or hi is None:
        return 0, False
    for n in (1, 2, 4, 8):
        if lo >= -2**(8 * n - 1) and hi <= 2**(8 * n - 1) - 1:
            return n, False
    return 0, False


def expected_oer(lo, hi, v):
    w, pos = oer_width(lo, hi)
    if w:
        return (v.to_bytes(w, "big") if pos else twos(v, w)).hex()
    body = v.to_bytes(max(1, (v.bit_length() + 7) // 8), "big") if pos else twos(v)
    return (bytes([len(body)]) + body).hex()


def check_oer(run, mods, cases, run_mod):
    """the C encoder's OER octets of every top-level value against the octets computed here"""
    for m in mods:
        if not m.get("exe"):
            continue
        cs = [c for c in cases if c["mod"] is m and c["tree"][0] == "i"]
        lines = ["xcode %s der %s coer" % (c["tn"], c["der"]) for c in cs]
        out = run_mod(run, m, lines, "C01-width")
        for c, l, o in zip(cs, lines, out):
            run.case(l)
            exp = "OK " + expected_oer(c["tree"][2], c["tree"][3], c["py"])
            if o != exp:
                run.violation("oracle:oer-width", {"what": "canonical OER of a value on a width boundary: the C encoder does not write the X.696 10.2-10.4 octets",
                                                   "module": m["text"][:400], "build": m["name"], "type": c["tn"], "constraint": [c["tree"][2], c["tree"][3]],
                                                   "value": c["py"], "command_line": l, "c": o, "expected": exp})
