"""c19_zoo — the type zoo of the C19 dynamic tie, derived from the branch conditions of the
skeleton sources instead of from "one type per constructed kind".

Region this closes (seeded change C19-5): the battery swept operations x descriptors, but the
descriptors were one per KIND; the decisions the constructed codecs take on the *contents* of the
specifics / member tables (tag2el_count != elements_count, first_extension, ATF_* flags, aoms,
canonical-order maps, tag_mode, DEFAULT hooks, the SET presence map, enum map sizes, string
subvariants, PER constraint shapes ...) select code that no type of C19K/C19X ever reached, e.g.
the own-tag-map branch of SET_encode_der (a SET with an untagged CHOICE member).

SHAPES below is that list of decisions: one key per thing a codec function branches on, the sides
it can take, and where it is tested in the skeletons.  harness/c19drv.c `shapes` evaluates every key
on every descriptor of the built modules (from the tables themselves, not from the ASN.1 text);
the check reports the sides no descriptor with a value source exhibits (`shape_sides_missing`).
Module C19Z holds at least one type per side; PEERS gives, per type, other types whose encodings
are also decoded as that type (newer/older versions of an extensible type, the same structure
without constraints, the same members all OPTIONAL, another member order): directed INVALID and
foreign-version inputs, after which the decoded (possibly constraint-violating) value is sent
through every encoder again."""

# (key, {side: meaning}, where the skeletons branch on it, sides that generated code cannot exhibit {side: why})
SHAPES = [
    ("kind", {"SEQUENCE": "", "SET": "", "CHOICE": "", "SEQUENCE_OF": "", "SET_OF": "", "OPEN_TYPE": "", "prim": ""},
     "op table", {}),
    # ---- members (constr_SEQUENCE.c, constr_SET.c, constr_CHOICE.c: every codec loops over td->elements)
    ("memb.pointer", {"0": "inline member", "1": "ATF_POINTER"}, "SEQUENCE/SET/CHOICE *: elm->flags & ATF_POINTER", {}),
    ("memb.open_type", {"0": "", "1": "ATF_OPEN_TYPE"}, "SEQUENCE_decode_ber/uper/oer, OPEN_TYPE_*_get: elm->flags & ATF_OPEN_TYPE", {}),
    ("memb.any_type", {"0": "", "1": "ATF_ANY_TYPE"}, "SEQUENCE_decode_ber, CHOICE_decode_ber: (flags & ATF_ANY_TYPE) && tag == -1", {}),
    ("memb.optional", {"0": "", "1": "OPTIONAL/DEFAULT"}, "elm->optional", {}),
    ("memb.optional_run_gt8", {"0": "", "1": "more than 8 members may be skipped at one point"},
     "SEQUENCE_decode_ber: opt_edx_end - edx > 8 -> bsearch in tag2el (_t2e_cmp)", {}),
    ("memb.tag_mode", {"-1": "IMPLICIT [n]", "0": "no tag at the member", "1": "EXPLICIT [n]"}, "der_encoder/ber_decoder via elm->tag_mode", {}),
    ("memb.untagged_choice", {"0": "", "1": "member tag == -1 (untagged CHOICE member)"},
     "SEQUENCE_decode_ber: elements[n].tag == -1; CHOICE_decode_ber: nested tag2el; SET: tag2el_count != elements_count", {}),
    ("memb.default", {"0": "", "1": "default_value_cmp/default_value_set present"},
     "SEQUENCE/SET_encode_der: default_value_cmp; SEQUENCE_decode/encode_uper, SEQUENCE_encode_xer: default_value_set", {}),
    ("memb.own_constraint", {"0": "member checker inherited from its type", "1": "member has a checker of its own"},
     "SEQUENCE/SET/CHOICE_constraint: elm->encoding_constraints.general_constraints", {}),
    ("memb.named", {"0": "empty member name (anonymous OF element)", "1": "named"}, "SET_OF_encode_xer / SET_OF_decode_xer: *elm->name", {}),
    # ---- SEQUENCE specifics
    ("seq.extensible", {"0": "first_extension < 0", "1": "first_extension >= 0"},
     "IN_EXTENSION_GROUP in SEQUENCE_decode_ber/xer/uper/oer, SEQUENCE_encode_uper/oer, SEQUENCE__handle_extensions", {}),
    ("seq.ext_members", {"0": "nothing after the marker", "1": "extension additions exist"}, "SEQUENCE_encode_uper: n_extensions; SEQUENCE_decode_uper", {}),
    ("seq.roms", {"0": "no optional root member", "1": "roms_count > 0"}, "SEQUENCE_decode_uper/oer: presence bitmap of the root", {}),
    ("seq.aoms", {"0": "", "1": "aoms_count > 0"}, "SEQUENCE specifics aoms_count (PER extension additions that are optional)", {}),
    ("seq.tag2el_dup", {"0": "", "1": "one tag maps to several members (toff_first/toff_last != 0)"}, "SEQUENCE_decode_ber: t2m_f..t2m_l scan", {}),
    # ---- SET specifics
    ("set.own_tagmap", {"0": "tag2el_count == elements_count", "1": "tag2el_count != elements_count (untagged CHOICE member)"},
     "SET_encode_der: t2m_build_own (per-call tag map, qsort)", {}),
    ("set.extensible", {"0": "", "1": ""}, "SET_decode_ber / SET_decode_xer: specs->extensible (skip unknown)", {}),
    ("set.presence_words", {"1": "<= 32 members", "2+": "more than one word of _presence_map"}, "ASN_SET_ISPRESENT2 / _SET_is_populated", {}),
    ("set.all_optional", {"0": "some bit set in _mandatory_elements", "1": "no mandatory member"}, "_SET_is_populated", {}),
    ("set.cxer_map_differs", {"0": "", "1": "tag2el_cxer order != tag2el order"}, "SET_encode_xer (canonical): specs->tag2el_cxer", {}),
    # ---- CHOICE specifics
    ("choice.extensible", {"0": "ext_start == -1", "1": "ext_start >= 0"}, "CHOICE_decode_ber/xer/uper/oer, CHOICE_encode_uper: specs->ext_start", {}),
    ("choice.canonical_order", {"0": "to/from_canonical_order == NULL", "1": "maps present"}, "CHOICE_encode_uper/CHOICE_decode_uper", {}),
    ("choice.pres_size", {"1": "", "2": "", "4": "sizeof(enum)"}, "_fetch_present_idx/_set_present_idx",
     {"1": "generated presence selectors are C enums: always sizeof(int)", "2": "generated presence selectors are C enums: always sizeof(int)"}),
    ("choice.tagged", {"0": "tags_count == 0", "1": "the CHOICE itself carries (explicit) tags"}, "CHOICE_encode_der: tag_mode == 1 || td->tags_count; CHOICE_decode_ber: ber_check_tags", {}),
    ("choice.alt_tag_ge63", {"0": "", "1": "an alternative's tag number needs the multi-octet OER form"}, "CHOICE_decode_oer: oer_fetch_tag (val & 0x3F) == 0x3F; CHOICE_encode_oer: oer_put_tag", {}),
    ("choice.tag2el_more", {"0": "", "1": "tag2el_count > elements_count (nested untagged CHOICE alternative)"}, "CHOICE_decode_ber: bsearch in tag2el, CHOICE_outmost_tag", {}),
    # ---- SET OF / SEQUENCE OF specifics
    ("of.xml_value_list", {"0": "", "1": "as_XMLValueList == 1 (ENUMERATED/BOOLEAN/NULL elements)", "2": "as_XMLValueList == 2 (CHOICE elements)"},
     "SET_OF_encode_xer / SET_OF_decode_xer", {}),
    ("of.size_per", {"none": "no PER size constraint", "fixed": "lb == ub", "range": "", "ext": "APC_EXTENSIBLE", "semi": "semi-constrained or ub >= 64K"},
     "SET_OF_decode_uper/SET_OF_encode_uper: ct->flags, effective_bits", {}),
    ("of.elem_untagged_choice", {"0": "", "1": "element tag == -1"}, "SET_OF_decode_ber: elm->tag", {}),
    # ---- tags of the type itself
    ("tags.count", {"0": "", "1": "", "2+": "more than one tag to write (EXPLICIT over tagged)"}, "der_write_tags / ber_check_tags loops", {}),
    ("tags.all_differs", {"0": "", "1": "all_tags != tags (IMPLICIT over a tagged type)"}, "td->all_tags (ANY_fromType, outmost tag)", {}),
    ("tags.long_form", {"0": "", "1": "a tag number >= 31"}, "ber_tlv_tag_serialize / ber_fetch_tag multi-octet form", {}),
    # ---- INTEGER / ENUMERATED specifics and PER/OER constraints
    ("int.specifics", {"0": "td->specifics == NULL", "1": ""}, "INTEGER__dump, NativeInteger_*: specs ? ... : ...", {}),
    ("int.map", {"0": "map_count == 0", "small": "1..8 names", "big": "more than 8 names (deeper bsearch)"}, "INTEGER_map_value2enum / INTEGER_map_enum2value / INTEGER_st_prealloc", {}),
    ("int.map_extension", {"0": "", "1": "specs->extension"}, "NativeEnumerated_decode/encode_uper, _oer", {}),
    ("int.strict_enum", {"0": "", "1": ""}, "INTEGER__dump / INTEGER__xer_body_decode: specs->strict_enumeration", {}),
    ("int.unsigned", {"0": "", "1": "field_unsigned"}, "NativeInteger_*: specs->field_unsigned; INTEGER_decode/encode_uper", {}),
    ("int.per", {"none": "unconstrained", "0bits": "single value", "le16": "range_bits 1..16", "gt16": "constrained with a length determinant",
                 "semi": "semi-constrained", "ext": "extensible"}, "INTEGER_decode_uper/INTEGER_encode_uper, NativeInteger_*", {}),
    ("int.oer_width", {"0": "variable length", "1": "", "2": "", "4": "", "8": ""}, "INTEGER_decode_oer/encode_oer, NativeInteger_*_oer: ct.width", {}),
    # ---- OCTET STRING family
    ("str.subvariant", {"ANY": "", "BIT": "", "STR": "", "U16": "", "U32": ""}, "OCTET_STRING_decode_ber/xer/uper, OCTET_STRING_encode_*: specs->subvariant", {}),
    ("str.size_per", {"none": "", "fixed_le2": "fixed, at most two octets", "fixed": "", "range": "", "ext": "", "semi": "ub >= 64K or MAX"},
     "OCTET_STRING_decode_uper/encode_uper: csiz->effective_bits, APC_EXTENSIBLE, upper_bound", {}),
    ("str.alphabet_per", {"none": "", "range": "value range only", "map": "value2code/code2value tables"}, "OCTET_STRING_per_get/put_characters: pc->value2code", {}),
    ("real.float", {"0": "double", "1": "float_size == 4 specifics"}, "NativeReal_*: specs->float_size", {}),
]


Z0 = """C19Z DEFINITIONS IMPLICIT TAGS ::= BEGIN
  -- ---- SET: own DER tag map (untagged CHOICE member), extension, DEFAULT, big presence map, all-optional, recursion
  ZCh ::= CHOICE { x [0] INTEGER, y [1] IA5String, z [5] NULL }
  ZChU ::= CHOICE { i INTEGER, s UTF8String, b BOOLEAN }
  ZSetCh ::= SET { a [3] INTEGER, c ZCh, b [2] BOOLEAN OPTIONAL }
  ZSetCh2 ::= SET { c ZChU, d [9] ZCh OPTIONAL, e [10] INTEGER DEFAULT 4, f [11] SET { g ZCh, h REAL } OPTIONAL }
  ZSetChOpt ::= SET { a [3] INTEGER OPTIONAL, c ZCh OPTIONAL, b [2] BOOLEAN OPTIONAL }
  ZSeqAsSet ::= SEQUENCE { b [2] BOOLEAN OPTIONAL, c ZCh, a [3] INTEGER }
  ZSetExtV1 ::= SET { a [0] INTEGER, b [1] BOOLEAN DEFAULT FALSE, ... }
  ZSetExtV2 ::= SET { a [0] INTEGER, b [1] BOOLEAN DEFAULT FALSE, ..., c [2] UTF8String OPTIONAL, d [3] SEQUENCE OF INTEGER }
  ZSetBig ::= SET { m0 [0] INTEGER, m1 [1] BOOLEAN OPTIONAL, m2 [2] INTEGER OPTIONAL, m3 [3] NULL OPTIONAL, m4 [4] INTEGER (0..7) OPTIONAL,
     m5 [5] BOOLEAN OPTIONAL, m6 [6] INTEGER OPTIONAL, m7 [7] BOOLEAN OPTIONAL, m8 [8] INTEGER OPTIONAL, m9 [9] BOOLEAN OPTIONAL,
     m10 [10] INTEGER OPTIONAL, m11 [11] BOOLEAN OPTIONAL, m12 [12] INTEGER OPTIONAL, m13 [13] BOOLEAN OPTIONAL, m14 [14] INTEGER OPTIONAL,
     m15 [15] BOOLEAN OPTIONAL, m16 [16] INTEGER OPTIONAL, m17 [17] BOOLEAN OPTIONAL, m18 [18] INTEGER OPTIONAL, m19 [19] BOOLEAN OPTIONAL,
     m20 [20] INTEGER OPTIONAL, m21 [21] BOOLEAN OPTIONAL, m22 [22] INTEGER OPTIONAL, m23 [23] BOOLEAN OPTIONAL, m24 [24] INTEGER OPTIONAL,
     m25 [25] BOOLEAN OPTIONAL, m26 [26] INTEGER OPTIONAL, m27 [27] BOOLEAN OPTIONAL, m28 [28] INTEGER OPTIONAL, m29 [29] BOOLEAN OPTIONAL,
     m30 [30] INTEGER OPTIONAL, m31 [31] BOOLEAN OPTIONAL, m32 [32] INTEGER, m33 [33] IA5String (SIZE(1..3)), m34 [34] BOOLEAN OPTIONAL }
  ZSetAllOpt ::= SET { p [0] INTEGER OPTIONAL, q [1] BOOLEAN OPTIONAL }
  ZRecSet ::= SET { v [0] INTEGER, next [1] ZRecSet OPTIONAL, many [2] SET OF ZRecSet OPTIONAL }
  ZSetOrd ::= SET { z [APPLICATION 2] INTEGER, y [1] BOOLEAN, x UTF8String, w [PRIVATE 0] NULL }
  -- ---- SEQUENCE: untagged CHOICE members, long optional run, extension shapes, DEFAULT kinds, ANY
  ZSeqCh ::= SEQUENCE { c ZCh, d ZChU OPTIONAL, e REAL }
  ZSeqOpt9 ::= SEQUENCE { m0 [0] INTEGER OPTIONAL, m1 [1] INTEGER OPTIONAL, m2 [2] BOOLEAN OPTIONAL, m3 [3] INTEGER OPTIONAL, m4 [4] NULL OPTIONAL,
     m5 [5] INTEGER OPTIONAL, m6 [6] IA5String OPTIONAL, m7 [7] INTEGER OPTIONAL, m8 [8] INTEGER DEFAULT 8, m9 [9] ZCh OPTIONAL, m10 [10] INTEGER OPTIONAL, last BOOLEAN }
  ZSeqDup ::= SEQUENCE { a INTEGER OPTIONAL, b BOOLEAN, c INTEGER, d BOOLEAN OPTIONAL, e INTEGER OPTIONAL }
  ZSeqExtV1 ::= SEQUENCE { a [0] INTEGER, o [1] BOOLEAN OPTIONAL, ... }
  ZSeqExtV2 ::= SEQUENCE { a [0] INTEGER, o [1] BOOLEAN OPTIONAL, ..., b [2] BOOLEAN, c [3] OCTET STRING OPTIONAL, [[ d [4] INTEGER, e [5] NULL OPTIONAL ]], f [6] ZCh OPTIONAL }
  ZSeqExtV3 ::= SEQUENCE { a [0] INTEGER, o [1] BOOLEAN OPTIONAL, ..., b [2] BOOLEAN, c [3] OCTET STRING OPTIONAL, [[ d [4] INTEGER, e [5] NULL OPTIONAL ]], f [6] ZCh OPTIONAL,
                           g [7] UTF8String, h [8] SEQUENCE OF BOOLEAN OPTIONAL }
  ZSeqMid ::= SEQUENCE { a [0] INTEGER, ..., b [1] BOOLEAN, ..., c [2] IA5String }
  ZSeqExtOnly ::= SEQUENCE { ..., x [0] INTEGER OPTIONAL }
  ZSeqDef ::= SEQUENCE { i [0] INTEGER DEFAULT 3, n [1] INTEGER (-5..5) DEFAULT -2, b [2] BOOLEAN DEFAULT FALSE, t [3] BOOLEAN DEFAULT TRUE, e [4] ZEnumS DEFAULT blue,
                         s [5] IA5String DEFAULT "xy", k [6] ZNamed DEFAULT hi, z [7] NULL OPTIONAL }
  ZSeqAnyOpt ::= SEQUENCE { id INTEGER, body ANY OPTIONAL }
  ZSeqAnyBy ::= SEQUENCE { id OBJECT IDENTIFIER, body [0] EXPLICIT ANY DEFINED BY id }
  ZSeqOptAll ::= SEQUENCE { i INTEGER OPTIONAL, s IA5String OPTIONAL, o OCTET STRING OPTIONAL, b BIT STRING OPTIONAL, l SEQUENCE OF INTEGER, e INTEGER OPTIONAL }
  ZLoose ::= SEQUENCE { i INTEGER, s IA5String, o OCTET STRING, b BIT STRING, l SEQUENCE OF INTEGER, e INTEGER }
  ZTight ::= SEQUENCE { i INTEGER (0..7), s IA5String (SIZE(1..2)) (FROM("a".."c")), o OCTET STRING (SIZE(2)), b BIT STRING (SIZE(4)),
                        l SEQUENCE (SIZE(1..2)) OF INTEGER (0..3), e ZEnumS }
  -- ---- CHOICE: nested untagged, canonical order, extension, tagged, indirect
  ZChNest ::= CHOICE { p INTEGER, inner CHOICE { q BOOLEAN, r NULL }, t [3] ZChU, u [4] ZCh }
  ZChOrd ::= CHOICE { a [5] INTEGER, b [1] BOOLEAN, c [3] NULL, d [0] OCTET STRING }
  ZChExtV1 ::= CHOICE { a [0] INTEGER, ... }
  ZChExtV2 ::= CHOICE { a [0] INTEGER, ..., b [1] BOOLEAN, c [2] IA5String, d [3] INTEGER (0..7) }
  ZChTagE ::= [APPLICATION 7] EXPLICIT ZCh
  ZChTag2 ::= [APPLICATION 8] EXPLICIT ZChTagE
  ZChOne ::= CHOICE { only SEQUENCE { v INTEGER } }
  ZChHigh ::= CHOICE { a [70] INTEGER, b [APPLICATION 300] BOOLEAN, c [2] NULL, d [PRIVATE 20000] IA5String }
  ZChCon ::= CHOICE { small [0] INTEGER (0..3), txt [1] IA5String (SIZE(1..2)), free [2] INTEGER, lst [3] SEQUENCE (SIZE(0..2)) OF BOOLEAN }
  -- ---- SET OF / SEQUENCE OF: XML list forms, named element, size shapes
  ZEnumS ::= ENUMERATED { red(0), green(1), blue(2) }
  ZSofEnum ::= SEQUENCE OF ZEnumS
  ZSofBool ::= SET OF BOOLEAN
  ZSofNull ::= SEQUENCE OF NULL
  ZSofCh ::= SEQUENCE OF ZCh
  ZSetOfCh ::= SET OF ZChU
  ZSofNamed ::= SEQUENCE OF item INTEGER
  ZSofFix ::= SEQUENCE (SIZE(2)) OF INTEGER (0..3)
  ZSofExt ::= SEQUENCE (SIZE(0..2, ...)) OF BOOLEAN
  ZSofSemi ::= SET (SIZE(1..MAX)) OF BOOLEAN
  ZSofBig ::= SET (SIZE(0..70000)) OF NULL
  ZSofSof ::= SEQUENCE OF ZSofFix
  ZSetOfSet ::= SET OF ZSetCh
  ZSofTag ::= [APPLICATION 20] SEQUENCE OF [1] EXPLICIT INTEGER
  -- ---- tags of the type itself
  ZTagE ::= [5] EXPLICIT INTEGER
  ZTagII ::= [APPLICATION 9] ZTagE
  ZTagEE ::= [APPLICATION 10] EXPLICIT ZTagE
  ZTagHigh ::= [APPLICATION 16384] OCTET STRING
  ZTag31 ::= [31] EXPLICIT BOOLEAN
  -- ---- INTEGER / ENUMERATED: PER and OER shapes, name maps
  ZI0 ::= INTEGER (5)
  ZI8 ::= INTEGER (0..255)
  ZI8s ::= INTEGER (-128..127)
  ZI16 ::= INTEGER (0..65535)
  ZI16s ::= INTEGER (-32768..32767)
  ZI17 ::= INTEGER (0..65536)
  ZI32s ::= INTEGER (-2147483648..2147483647)
  ZI32u ::= INTEGER (0..4294967295)
  ZI64s ::= INTEGER (-4611686018427387904..4611686018427387903)
  ZIsemi ::= INTEGER (1..MAX)
  ZIsemiN ::= INTEGER (-10..MAX)
  ZIupper ::= INTEGER (MIN..100)
  ZIext ::= INTEGER (0..7, ...)
  ZIextW ::= INTEGER (0..100000, ...)
  ZIhole ::= INTEGER (1..3 | 10..12)
  ZNamed ::= INTEGER { lo(0), mid(5), hi(10) }
  ZEnumBig ::= ENUMERATED { e0(-7), e1(-3), e2(0), e3(1), e4(2), e5(3), e6(5), e7(8), e8(13), e9(21), e10(34), e11(55), e12(89), e13(144), e14(233),
                            e15(377), e16(610), e17(987), e18(1597), e19(100000) }
  ZEnumExt ::= ENUMERATED { a(0), b(1), ..., c(2), d(70) }
  ZEnumExtV1 ::= ENUMERATED { a(0), b(1), ... }
  ZEnumOne ::= ENUMERATED { only(0) }
  -- ---- strings: subvariants x PER size shapes x alphabets
  ZOsFix2 ::= OCTET STRING (SIZE(2))
  ZOsFix3 ::= OCTET STRING (SIZE(3))
  ZOsRange ::= OCTET STRING (SIZE(1..300))
  ZOsExt ::= OCTET STRING (SIZE(1..4, ...))
  ZOsSemi ::= OCTET STRING (SIZE(2..MAX))
  ZOsBig ::= OCTET STRING (SIZE(0..70000))
  ZOs0 ::= OCTET STRING (SIZE(0))
  ZIaExt ::= IA5String (SIZE(1..4, ...))
  ZIaAlpha ::= IA5String (FROM("A".."Z"))
  ZIaAlphaSz ::= IA5String (FROM("A".."D")) (SIZE(0..6))
  ZPrAlpha ::= PrintableString (FROM("0".."9" | "a".."c")) (SIZE(1..8))
  ZVisFix ::= VisibleString (SIZE(3))
  ZNumFix ::= NumericString (SIZE(3))
  ZNumFree ::= NumericString
  ZBmpAlpha ::= BMPString (FROM("a".."z")) (SIZE(0..5))
  ZBmpFree ::= BMPString
  ZUniAlpha ::= UniversalString (FROM("a".."z")) (SIZE(1..3))
  ZUniFree ::= UniversalString
  ZUtfSz ::= UTF8String (SIZE(1..4))
  ZGen ::= GeneralString
  ZGraph ::= GraphicString
  ZT61 ::= T61String
  ZVideo ::= VideotexString
  ZOd ::= ObjectDescriptor
  ZBitsFix ::= BIT STRING (SIZE(8))
  ZBitsFix20 ::= BIT STRING (SIZE(20))
  ZBitsExt ::= BIT STRING (SIZE(1..20, ...))
  ZBitsNamed ::= BIT STRING { a(0), b(3) } (SIZE(1..8))
  ZBitsFree ::= BIT STRING
  -- ---- REAL, NULL, BOOLEAN, times, OIDs on their own
  ZFloat ::= REAL (WITH COMPONENTS { mantissa (-16777215..16777215), base (2), exponent (-149..104) })
  ZDouble ::= REAL (WITH COMPONENTS { mantissa (-9007199254740991..9007199254740991), base (2), exponent (-1074..971) })
  ZReal ::= REAL
  ZNull ::= NULL
  ZBool ::= BOOLEAN
  ZGt ::= GeneralizedTime
  ZUt ::= UTCTime
  ZOid ::= OBJECT IDENTIFIER
  ZRoid ::= RELATIVE-OID
  ZAny ::= ANY
  -- ---- open types: several object sets / field kinds
  ZCLS ::= CLASS { &id INTEGER UNIQUE, &crit ZEnumS DEFAULT red, &Type } WITH SYNTAX { ID &id [CRIT &crit] TYPE &Type }
  ZObjs ZCLS ::= { { ID 1 CRIT green TYPE ZI8 } | { ID 2 TYPE ZCh } | { ID 3 CRIT blue TYPE ZSetCh } | { ID 4 TYPE ZSofBool }, ... }
  ZField ::= SEQUENCE { id ZCLS.&id({ZObjs}), crit ZCLS.&crit({ZObjs}{@id}), val ZCLS.&Type({ZObjs}{@id}) }
  ZFields ::= SEQUENCE (SIZE(0..3)) OF ZField
END
"""

Z0_TYPES = ("ZCh ZChU ZSetCh ZSetCh2 ZSetChOpt ZSeqAsSet ZSetExtV1 ZSetExtV2 ZSetBig ZSetAllOpt ZRecSet ZSetOrd "
            "ZSeqCh ZSeqOpt9 ZSeqDup ZSeqExtV1 ZSeqExtV2 ZSeqExtV3 ZSeqMid ZSeqExtOnly ZSeqDef ZSeqAnyOpt ZSeqAnyBy ZSeqOptAll ZLoose ZTight "
            "ZChNest ZChOrd ZChExtV1 ZChExtV2 ZChTagE ZChTag2 ZChOne ZChHigh ZChCon "
            "ZEnumS ZSofEnum ZSofBool ZSofNull ZSofCh ZSetOfCh ZSofNamed ZSofFix ZSofExt ZSofSemi ZSofBig ZSofSof ZSetOfSet ZSofTag "
            "ZTagE ZTagII ZTagEE ZTagHigh ZTag31 "
            "ZI0 ZI8 ZI8s ZI16 ZI16s ZI17 ZI32s ZI32u ZI64s ZIsemi ZIsemiN ZIupper ZIext ZIextW ZIhole ZNamed ZEnumBig ZEnumExt ZEnumExtV1 ZEnumOne "
            "ZOsFix2 ZOsFix3 ZOsRange ZOsExt ZOsSemi ZOsBig ZOs0 ZIaExt ZIaAlpha ZIaAlphaSz ZPrAlpha ZVisFix ZNumFix ZNumFree ZBmpAlpha ZBmpFree ZUniAlpha ZUniFree "
            "ZUtfSz ZGen ZGraph ZT61 ZVideo ZOd ZBitsFix ZBitsFix20 ZBitsExt ZBitsNamed ZBitsFree "
            "ZFloat ZDouble ZReal ZNull ZBool ZGt ZUt ZOid ZRoid ZAny ZField ZFields").split()

# ---- hand-made DER values: where asn_random_fill is not available (ANY / open type inside), where it never produces a value that
# passes the type's own checker (PrintableString / NumericString / ObjectDescriptor contents, and every structure holding one), and a
# few directed INVALID ones (BER decoding does not look at constraints, so these reach the checkers and encoders as structures)


def tlv(tag, *content):
    """tag: hex string of the identifier octets; content: hex strings / nested tlv() results -> hex string (definite, minimal length)"""
    body = "".join(content).replace(" ", "")
    n = len(body) // 2
    ln = "%02x" % n if n < 128 else "81%02x" % n if n < 256 else "82%04x" % n
    return tag + ln + body


def txt(s):
    return s.encode("ascii").hex()


_STRS_HEAD = [tlv("80", txt("hi")), tlv("81", txt("ia")), tlv("82", txt("Pr 1")), tlv("83", txt("abc")), tlv("84", txt("12 3")),
              tlv("85", "00610062"), tlv("86", "00000061")]
_STRS_TAIL = [tlv("89", "04a0"), tlv("8a", "0081"), tlv("8b", "dead"), tlv("8c", txt("20240115103000Z")), tlv("8d", txt("240115103000Z")),
              tlv("8e", "2a8648"), tlv("8f", "0801"), tlv("90", "800001"), tlv("91")]
K0_MORE_SEEDS = {
    # Call ::= SEQUENCE { code, arg <open type> }: DER as before, and OER input (decode-only for open types): code 1 / ArgA 42, code 2 / ArgB "abc"
    "Call": ["3008800101a10302012a", "300a800102a1051603616263", "300a800103a1053003800109", "oer:0101" "02002a", "oer:0102" "0403616263", "oer:0109" "0100"],
    "Strs": [tlv("30", *(_STRS_HEAD + _STRS_TAIL)), tlv("30", *(_STRS_HEAD + [tlv("87", txt("g")), tlv("88", txt("t"))] + _STRS_TAIL)),
             # invalid: NumericString member longer than SIZE(0..5), VisibleString outside FROM("a".."f")
             tlv("30", *(_STRS_HEAD[:3] + [tlv("83", txt("xyz")), tlv("84", txt("1234567"))] + _STRS_HEAD[5:] + _STRS_TAIL))],
    "SeqCF": [tlv("30", tlv("80", "32"), tlv("81", txt("abc")), tlv("82", txt("12")), tlv("83", "04a0"), tlv("84", "ff"), tlv("85", "03"),
                  tlv("86", txt("hi")), tlv("a7", "0101ff"), tlv("88", "07")),
              tlv("30", tlv("80", "01"), tlv("81", txt("f")), tlv("82"), tlv("83", "00"), tlv("84"), tlv("86", txt("u")), tlv("a7"), tlv("88", "ff")),
              # invalid: b = 0 outside (1..100); w = 77 outside (0..9); three list elements for SIZE(0..2)
              tlv("30", tlv("80", "00"), tlv("81", txt("abc")), tlv("82", txt("12")), tlv("83", "04a0"), tlv("84", "ff"), tlv("85", "4d"),
                  tlv("86", txt("hi")), tlv("a7", "0101ff", "010100", "0101ff"), tlv("88", "07"))],
}
# built-in descriptors that get their values only through the closure: give them values that pass their checker, too
BUILTIN_SEEDS = {
    "NumericString": [tlv("12", txt("123")), tlv("12", txt("1 2")), tlv("12", txt("12x"))],
    "PrintableString": [tlv("13", txt("ABc 1")), tlv("13", txt("a*b"))],
    "ObjectDescriptor": [tlv("07", txt("abc"))],
}

Z0_SEEDS = {
    "ZSeqAnyOpt": [tlv("30", "020105"), tlv("30", "020105", tlv("04", txt("abc"))), tlv("30", "020105", tlv("a1", "020107", "0500"))],
    "ZSeqAnyBy": [tlv("30", tlv("06", "550403"), tlv("a0", "020107")), tlv("30", tlv("06", "2a0304"), tlv("a0", tlv("0c", txt("abc"))))],
    "ZAny": ["020107", "30060201010101ff", "0500"],
    # ZField ::= SEQUENCE { id INTEGER, crit ENUMERATED, val <open type selected by id> }   (IMPLICIT TAGS module, no tags written)
    "ZField": [tlv("30", "020101", "0a0101", "020107"), tlv("30", "020102", "0a0100", "800109"),
               tlv("30", "020103", "0a0102", tlv("31", "800101", "830105")), tlv("30", "020104", "0a0100", tlv("31", "0101ff", "010100")),
               # invalid: ZI8 value 300 for ID 1
               tlv("30", "020101", "0a0101", "0202012c"),
               # OER (the library can decode an open type member from OER but not encode one): id 1, crit green, val ZI8 7; then id 2 / ZCh.x 9
               "oer:0101" "01" "0107", "oer:0102" "00" "03800109", "oer:0105" "00" "0107"],
    "ZFields": ["3000", tlv("30", tlv("30", "020101", "0a0101", "020107"), tlv("30", "020102", "0a0100", "800109"))],
    "ZNumFree": [tlv("12", txt("0123 4")), tlv("12", txt("9"))],
    "ZPrAlpha": [tlv("13", txt("1ab")), tlv("13", txt("0")), tlv("13", txt("zzz"))],
    "ZUtfSz": [tlv("0c", txt("ab")), tlv("0c", "c3a9"), tlv("0c", txt("toolong"))],
    "ZOd": [tlv("07", txt("descr"))],
    # a SET whose mandatory members are missing / doubled, and one with an unknown member (not extensible): decoder failure paths
    "ZSetCh": [tlv("31", "800101", "830105"), tlv("31", "830105", "820101ff", tlv("81", txt("y"))), tlv("31", "830105"), tlv("31", "800101", "800102", "830105"),
               tlv("31", "800101", "830105", "9f2a0100")],
    "ZSetExtV1": [tlv("31", "800105"), tlv("31", "800105", "8101ff", "9f630101", tlv("bf64", "020101"))],
    "ZSeqExtV1": [tlv("30", "800105"), tlv("30", "800105", "8101ff", "8201ff", tlv("a6", "800101"), "9f630101")],
    "ZChExtV1": ["800105", "9f630101", tlv("bf64", "020101")],
}

# type -> types whose encodings are ALSO decoded as this type (then checked, printed and re-encoded in every syntax)
Z0_PEERS = {
    "ZSeqExtV1": ["ZSeqExtV2", "ZSeqExtV3"], "ZSeqExtV2": ["ZSeqExtV1", "ZSeqExtV3"], "ZSeqExtV3": ["ZSeqExtV2"],
    "ZSetExtV1": ["ZSetExtV2"], "ZSetExtV2": ["ZSetExtV1"],
    "ZChExtV1": ["ZChExtV2"], "ZChExtV2": ["ZChExtV1"],
    "ZEnumExtV1": ["ZEnumExt"], "ZEnumExt": ["ZEnumExtV1"],
    "ZTight": ["ZLoose", "ZSeqOptAll"], "ZLoose": ["ZSeqOptAll"],
    "ZSetCh": ["ZSetChOpt", "ZSeqAsSet"], "ZSeqAsSet": ["ZSetCh"],
    "ZI8": ["ZI16s", "ZIextW"], "ZIext": ["ZIextW"], "ZI0": ["ZI8"], "ZIhole": ["ZI8"],
    "ZOsFix2": ["ZOsRange"], "ZIaAlphaSz": ["ZIaExt"], "ZBitsFix": ["ZBitsExt"], "ZSofFix": ["ZSofNamed"], "ZEnumS": ["ZEnumBig"],
}
