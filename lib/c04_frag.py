"""c04_frag — fragmented PER lengths (X.691 11.9.3.8) in EVERY order, for the fragmentation layer of checks/c04.py.

An encoder emits the fragments of a value of 16K units or more largest first (C4 C4 .. Cm, then the rest): every
input the other layers derive from encoder output has that one shape, and the reassembly loops of the decoders
(uper_open_type_get_simple, OCTET_STRING_decode_uper, BIT_STRING_decode_uper, INTEGER_decode_uper, ANY_decode_uper,
SET_OF_decode_uper) never meet a later fragment that is larger than what came before.  This generator builds the
encodings itself: a type is a small tree of bit-string constructors, each length determinant of it a LEVEL whose
fragmentation (multipliers m1..mk in {1..4}^k in any order, the final part, the form of the final length) is chosen
freely.  The inputs (16K .. 400K octets) do not travel as hex: a line carries a PROGRAM that harness/moddrv_c04.inc
(`d4f`) expands; `expand()` below is the same expander, used to cross-check the C one (`in=` length / CRC-32)."""
import zlib

FRAG = 16384

MODULE_TEXT = """FR DEFINITIONS AUTOMATIC TAGS ::= BEGIN
  Os ::= OCTET STRING
  Ow ::= OCTET STRING (SIZE(0..300000))
  Ox ::= OCTET STRING (SIZE(1..8, ...))
  Bs ::= BIT STRING
  Ia ::= IA5String
  Nu ::= NumericString
  Ut ::= UTF8String
  Bm ::= BMPString
  Un ::= UniversalString
  In ::= INTEGER
  Ay ::= SEQUENCE { a BOOLEAN, x ANY }
  Lb ::= SEQUENCE OF BOOLEAN
  Li ::= SEQUENCE OF INTEGER (0..255)
  Sb ::= SET OF BOOLEAN
  Lx ::= SEQUENCE (SIZE(1..4, ...)) OF BOOLEAN
  Ea ::= SEQUENCE { a BOOLEAN, ..., b OCTET STRING }
  E0 ::= SEQUENCE { a BOOLEAN, ... }
  Eb ::= SEQUENCE { a BOOLEAN, ..., b SEQUENCE OF BOOLEAN, c OCTET STRING }
  E1 ::= SEQUENCE { a BOOLEAN, ..., b SEQUENCE OF BOOLEAN }
  Ec ::= SEQUENCE { a BOOLEAN, ..., b OCTET STRING, c BOOLEAN }
  El ::= SEQUENCE { a BOOLEAN, ..., b SEQUENCE OF INTEGER (0..255) }
  Ca ::= CHOICE { a NULL, ..., b OCTET STRING }
  En ::= SEQUENCE { a BOOLEAN, ..., e Ea }
  FR-CLASS ::= CLASS { &id INTEGER UNIQUE, &Type } WITH SYNTAX { ID &id TYPE &Type }
  FrSet FR-CLASS ::= { { ID 1 TYPE Os } | { ID 2 TYPE Li } | { ID 3 TYPE Ea } }
  Io ::= SEQUENCE { id FR-CLASS.&id({FrSet}), value FR-CLASS.&Type({FrSet}{@id}) }
END
"""
DEFS = ["Os", "Ow", "Ox", "Bs", "Ia", "Nu", "Ut", "Bm", "Un", "In", "Ay", "Lb", "Li", "Sb", "Lx", "Ea", "E0", "Eb", "E1", "Ec", "El", "Ca", "En", "Io"]


def module():
    return {"name": "FR", "text": MODULE_TEXT, "defs": [(n, None) for n in DEFS], "trees": {}}


# ---------------------------------------------------------------------------------------------------------------
# constructor trees.  ("units", count, ub) | ("bits", "0101") | ("len", ub, inner, level) | ("pad", inner) | ("seq", [..])

def units(n, ub):
    return ("units", n, ub)


def bits(s):
    return ("bits", s)


def lenf(ub, inner, level):
    return ("len", ub, inner, level)


def pad(x):
    return ("pad", x)


def seq(*xs):
    return ("seq", list(xs))


def opent(inner, level):
    """an open type: the octets of the (padded) inner encoding behind a general length determinant"""
    return lenf(8, pad(inner), level)


def canonical(n):
    """the fragmentation uper_put_length() produces for n units: (multipliers, final, form)"""
    ms = [4] * (n // (4 * FRAG))
    r = n % (4 * FRAG)
    if r // FRAG:
        ms.append(r // FRAG)
    fin = n % FRAG
    return (ms, fin, "s" if fin < 128 else "l")


def form_of(fin):
    return "s" if fin < 128 else "l"


def nbits(t, fr):
    """size in bits of the encoding of tree t under the fragmentations fr = {level: (ms, fin, form)} (None: canonical)"""
    k = t[0]
    if k == "units":
        return t[1] * t[2]
    if k == "bits":
        return len(t[1])
    if k == "pad":
        return (nbits(t[1], fr) + 7) // 8 * 8
    if k == "seq":
        return sum(nbits(x, fr) for x in t[1])
    inner = nbits(t[2], fr)
    ms, fin, form = frag_of(t, fr, inner)
    return inner + 8 * len(ms) + {"s": 8, "l": 16, "n": 0}[form]


def frag_of(t, fr, inner_bits):
    n = inner_bits // t[1]
    f = fr.get(t[3])
    if f is None:
        return canonical(n)
    return f


def consistent(t, fr):
    """every chosen fragmentation accounts for exactly the units of its level"""
    k = t[0]
    if k in ("units", "bits"):
        return True
    if k == "pad":
        return consistent(t[1], fr)
    if k == "seq":
        return all(consistent(x, fr) for x in t[1])
    if not consistent(t[2], fr):
        return False
    inner = nbits(t[2], fr)
    if inner % t[1]:
        return False
    ms, fin, form = frag_of(t, fr, inner)
    return FRAG * sum(ms) + fin == inner // t[1] and 0 <= fin < FRAG and not (form == "s" and fin > 127)


def program(t, fr):
    """the `d4f` program of tree t, its size in bits, and the bit offsets of every length determinant in the result"""
    ops = []
    n, marks = _prog(t, fr, ops)
    return ";".join(ops), n, sorted(marks)


def _prog(t, fr, ops):
    """appends the ops that leave the encoding of t on the stack; returns (nbits, marks)"""
    k = t[0]
    if k == "units":
        ops.append("u%d.%d.0" % (t[1], t[2]))
        return t[1] * t[2], []
    if k == "bits":
        n = len(t[1])
        v = int(t[1] + "0" * (-n % 8), 2) if n else 0
        ops.append("b%d.%s" % (n, ("%0*x" % ((n + 7) // 8 * 2, v)) if n else "-"))
        return n, []
    if k == "pad":
        n, mk = _prog(t[1], fr, ops)
        ops.append("z")
        return (n + 7) // 8 * 8, mk
    if k == "seq":
        tot, marks = 0, []
        for i, x in enumerate(t[1]):
            n, mk = _prog(x, fr, ops)
            marks += [tot + p for p in mk]
            tot += n
            if i:
                ops.append("c")
        return tot, marks
    n, mk = _prog(t[2], fr, ops)
    ub = t[1]
    ms, fin, form = frag_of(t, fr, n)
    ops.append("f%d.%s.%d.%s" % (ub, "".join(str(m) for m in ms) or "-", fin, form))
    # where each length determinant lands, and where the marks of the inner encoding move to
    starts, own, off, out = [], [], 0, 0
    for m in ms:
        starts.append((off * ub, out))           # (inner bit offset where this fragment starts, output offset of its length octet)
        own.append(out)
        out += 8 + m * FRAG * ub
        off += m * FRAG
    own.append(out)
    fl = {"s": 8, "l": 16, "n": 0}[form]
    starts.append((off * ub, out))

    def move(p):
        shift = 0
        for j, (ib, ob) in enumerate(starts):
            if p >= ib:
                shift = 8 * (j + 1) if j < len(ms) else 8 * len(ms) + fl
        return p + shift
    return n + 8 * len(ms) + fl, own + [move(p) for p in mk]


# ---------------------------------------------------------------------------------------------------------------
# the same expander in Python (bit strings as (int, nbits))

def expand(prog, pat):
    st = []
    for op in prog.split(";"):
        c = op[0]
        if c == "u":
            cnt, ub, start = (int(x) for x in op[1:].split("."))
            n = len(pat)
            if ub == 8:
                reps = (start + cnt) // n + 2
                b = (bytes(pat) * reps)[start % n:start % n + cnt]
                st.append((int.from_bytes(b, "big") if cnt else 0, cnt * 8))
            else:
                mask = (1 << ub) - 1
                s = "".join(format(pat[(start + i) % n] & mask, "0%db" % ub) for i in range(cnt))
                st.append((int(s, 2) if s else 0, cnt * ub))
        elif c == "b":
            nb, h = op[1:].split(".")
            nb = int(nb)
            hb = b"" if h == "-" else bytes.fromhex(h)
            v = int.from_bytes(hb, "big") >> (len(hb) * 8 - nb) if nb else 0
            st.append((v, nb))
        elif c == "f":
            ub, ms, fin, form = op[1:].split(".")
            ub, fin = int(ub), int(fin)
            x, xn = st.pop()
            assert xn % ub == 0
            v, vn, off = 0, 0, 0

            def take(a, b):      # bits [a, b) of x
                return (x >> (xn - b)) & ((1 << (b - a)) - 1)
            for ch in ms:
                if ch == "-":
                    continue
                m = int(ch)
                n = m * FRAG * ub
                v = (((v << 8) | (0xC0 | m)) << n) | take(off, off + n)
                vn += 8 + n
                off += n
            assert off + fin * ub == xn, (off, fin, ub, xn)
            if form == "s":
                v, vn = (v << 8) | (fin & 0xff), vn + 8
            elif form == "l":
                v, vn = (v << 16) | 0x8000 | fin, vn + 16
            v, vn = (v << (fin * ub)) | take(off, xn), vn + fin * ub
            st.append((v, vn))
        elif c == "z":
            v, n = st.pop()
            k = -n % 8
            st.append((v << k, n + k))
        elif c == "c":
            b, bn = st.pop()
            a, an = st.pop()
            st.append(((a << bn) | b, an + bn))
        else:
            raise ValueError(op)
    assert len(st) == 1
    v, n = st[0]
    k = -n % 8
    return (v << k).to_bytes((n + k) // 8, "big")


def crc(b):
    return "%d/%08x" % (len(b), zlib.crc32(b) & 0xffffffff)


# ---------------------------------------------------------------------------------------------------------------
# DER of the values (built here, independently of the C)

def dlen(n):
    if n < 128:
        return bytes([n])
    b = n.to_bytes((n.bit_length() + 7) // 8, "big")
    return bytes([0x80 | len(b)]) + b


def tlv(tag, content):
    return bytes([tag]) + dlen(len(content)) + content


def content_units(pat, n, ub):
    m = len(pat)
    mask = (1 << ub) - 1 if ub < 8 else 0xff
    p = bytes(x & mask for x in pat)
    return (p * (n // m + 2))[:n]


def der_string(kind, u):
    if kind in ("Os", "Ow", "Ox"):
        return tlv(0x04, u)
    if kind == "Ia":
        return tlv(0x16, u)
    if kind == "Ut":
        return tlv(0x0c, u)
    if kind == "Bm":
        return tlv(0x1e, b"".join(b"\x00" + bytes([x]) for x in u))
    if kind == "Un":
        return tlv(0x1c, b"".join(b"\x00\x00\x00" + bytes([x]) for x in u))
    if kind == "Bs":
        n = len(u)
        s = "".join("1" if x & 1 else "0" for x in u) + "0" * (-n % 8)
        body = int(s, 2).to_bytes(len(s) // 8, "big") if s else b""
        return tlv(0x03, bytes([-n % 8]) + body)
    raise KeyError(kind)


def bool_list(u):
    return b"".join(b"\x01\x01\xff" if x & 1 else b"\x01\x01\x00" for x in u)


def int_list(u):
    return b"".join((b"\x02\x01" + bytes([x])) if x < 128 else (b"\x02\x02\x00" + bytes([x])) for x in u)


# ---------------------------------------------------------------------------------------------------------------
# the types: tree (as a function of the number of content units), content unit width, pattern limit, the levels that can
# be fragmented (outermost first) with what reassembles them, expected DER, weight

A_TRUE = "1"


class T:
    def __init__(self, name, ub, patmax, tree, der, loops, heavy=False, maxsum=12, reader=None, canon_re=True):
        self.name, self.ub, self.patmax, self.tree, self.der, self.loops, self.heavy, self.maxsum = name, ub, patmax, tree, der, loops, heavy, maxsum
        self.reader = reader or name       # the type that decodes (an older version of the writer: the skip path)
        self.canon_re = canon_re           # the UPER re-encoding of the result is the canonical fragmentation of the same tree
        self.nlevels = len(loops)


def string_type(name, ub, patmax, prefix=""):
    tr = (lambda n: seq(bits(prefix), lenf(ub, units(n, ub), 0))) if prefix else (lambda n: lenf(ub, units(n, ub), 0))
    # (C01-uper-numericstring-range: what a NumericString decodes to is not what X.691 says; no expectation of our own there)
    return T(name, ub, patmax, tr, (None if name == "Nu" else (lambda u: der_string(name, u))), [("str", {8: 1, 7: 1, 4: 1, 16: 2, 32: 4, 1: 0}[ub])], maxsum=(6 if ub == 32 else 12),
             canon_re=(name != "Bs"))      # (C01-uper-bitstring-trailing-zero: the encoder's BIT STRING is not the value's)


def ext_prefix(nadd, present):
    # extension bit, a = TRUE, normally-small count of additions - 1 (0 + 6 bits), presence bits
    return "1" + A_TRUE + "0" + format(nadd - 1, "06b") + present


TYPES = [
    string_type("Os", 8, 255),
    string_type("Ow", 8, 255),
    string_type("Ox", 8, 255, prefix="1"),
    string_type("Bs", 1, 255),
    string_type("Ia", 7, 127),
    string_type("Nu", 4, 10),
    string_type("Ut", 8, 127),
    string_type("Bm", 16, 255),
    string_type("Un", 32, 255),
    # an unconstrained INTEGER of 16K octets and more: all zero, so that the native decoder can keep it
    T("In", 8, 0, lambda n: lenf(8, units(n, 8), 0), lambda u: b"\x02\x01\x00", [("int", 1)], canon_re=False),
    # ANY_decode_uper: the loop of the strings, behind one bit of the enclosing SEQUENCE
    T("Ay", 8, 255, lambda n: seq(bits(A_TRUE), lenf(8, units(n, 8), 0)), lambda u: tlv(0x30, b"\x80\x01\xff" + tlv(0xa1, u)), [("str", 1)]),
    T("Lb", 1, 255, lambda n: lenf(1, units(n, 1), 0), lambda u: tlv(0x30, bool_list(u)), [("list", 0)], heavy=True, maxsum=4),
    T("Li", 8, 255, lambda n: lenf(8, units(n, 8), 0), lambda u: tlv(0x30, int_list(u)), [("list", 0)], heavy=True, maxsum=4),
    T("Sb", 1, 255, lambda n: lenf(1, units(n, 1), 0), lambda u: tlv(0x31, bool_list(sorted(x & 1 for x in u))), [("list", 0)], heavy=True, maxsum=3, canon_re=False),
    T("Lx", 1, 255, lambda n: seq(bits("1"), lenf(1, units(n, 1), 0)), lambda u: tlv(0x30, bool_list(u)), [("list", 0)], heavy=True, maxsum=3),
    # extension additions: an open type (level 0) around what the addition's own decoder reassembles (level 1)
    T("Ea", 8, 255, lambda n: seq(bits(ext_prefix(1, "1")), opent(lenf(8, units(n, 8), 1), 0)),
      lambda u: tlv(0x30, b"\x80\x01\xff" + tlv(0x81, u)), [("ot", 1), ("str", 1)]),
    T("E0<Ea", 8, 255, lambda n: seq(bits(ext_prefix(1, "1")), opent(lenf(8, units(n, 8), 1), 0)),
      lambda u: tlv(0x30, b"\x80\x01\xff"), [("ot", 1), ("none", 0)], reader="E0", canon_re=False),
    T("Eb", 8, 255, lambda n: seq(bits(ext_prefix(2, "11")), bits("00000010" + "00000011" + "10100000"), opent(lenf(8, units(n, 8), 1), 0)),
      lambda u: tlv(0x30, b"\x80\x01\xff" + tlv(0xa1, bool_list([1, 0, 1])) + tlv(0x82, u)), [("ot", 1), ("str", 1)]),
    T("E1<Eb", 8, 255, lambda n: seq(bits(ext_prefix(2, "11")), bits("00000010" + "00000011" + "10100000"), opent(lenf(8, units(n, 8), 1), 0)),
      lambda u: tlv(0x30, b"\x80\x01\xff" + tlv(0xa1, bool_list([1, 0, 1]))), [("ot", 1), ("none", 0)], reader="E1", canon_re=False),
    # the fragmented addition is FOLLOWED by another one (what the reassembly leaves behind is read on), also for a reader
    # that knows only the first of the two
    T("Ec", 8, 255, lambda n: seq(bits(ext_prefix(2, "11")), opent(lenf(8, units(n, 8), 1), 0), bits("00000001" + "10000000")),
      lambda u: tlv(0x30, b"\x80\x01\xff" + tlv(0x81, u) + b"\x82\x01\xff"), [("ot", 1), ("str", 1)]),
    T("Ea<Ec", 8, 255, lambda n: seq(bits(ext_prefix(2, "11")), opent(lenf(8, units(n, 8), 1), 0), bits("00000001" + "10000000")),
      lambda u: tlv(0x30, b"\x80\x01\xff" + tlv(0x81, u)), [("ot", 1), ("str", 1)], reader="Ea", canon_re=False),
    T("El", 8, 255, lambda n: seq(bits(ext_prefix(1, "1")), opent(lenf(8, units(n, 8), 1), 0)),
      lambda u: tlv(0x30, b"\x80\x01\xff" + tlv(0xa1, int_list(u))), [("ot", 1), ("list", 0)], heavy=True, maxsum=4),
    T("Ca", 8, 255, lambda n: seq(bits("1" + "0000000"), opent(lenf(8, units(n, 8), 1), 0)),
      lambda u: tlv(0x81, u), [("ot", 1), ("str", 1)]),
    # (an extensible CHOICE that meets an alternative it does not know is RC_FAIL in UPER before any open type is read)
    T("En", 8, 255, lambda n: seq(bits(ext_prefix(1, "1")), opent(seq(bits(ext_prefix(1, "1")), opent(lenf(8, units(n, 8), 2), 1)), 0)),
      lambda u: tlv(0x30, b"\x80\x01\xff" + tlv(0xa1, b"\x80\x01\xff" + tlv(0x81, u))), [("ot", 1), ("ot", 1), ("str", 1)]),
    # information-object open types: id (unconstrained INTEGER: length 1, value) selects the row
    T("Io:1", 8, 255, lambda n: seq(bits("00000001" + "00000001"), opent(lenf(8, units(n, 8), 1), 0)),
      lambda u: tlv(0x30, b"\x80\x01\x01" + tlv(0xa1, tlv(0x04, u))), [("ot", 1), ("str", 1)], reader="Io"),
    T("Io:2", 8, 255, lambda n: seq(bits("00000001" + "00000010"), opent(lenf(8, units(n, 8), 1), 0)),
      lambda u: tlv(0x30, b"\x80\x01\x02" + tlv(0xa1, tlv(0x30, int_list(u)))), [("ot", 1), ("list", 0)], reader="Io", heavy=True, maxsum=4),
    T("Io:3", 8, 255, lambda n: seq(bits("00000001" + "00000011"), opent(seq(bits(ext_prefix(1, "1")), opent(lenf(8, units(n, 8), 2), 1)), 0)),
      lambda u: tlv(0x30, b"\x80\x01\x03" + tlv(0xa1, tlv(0x30, b"\x80\x01\xff" + tlv(0x81, u)))), [("ot", 1), ("ot", 1), ("str", 1)], reader="Io"),
]
BYNAME = {t.name: t for t in TYPES}


# ---------------------------------------------------------------------------------------------------------------
# choosing the content size so that a level has exactly the wanted fragmentation

def level_node(t, level):
    k = t[0]
    if k == "len":
        return t if t[3] == level else level_node(t[2], level)
    if k == "pad":
        return level_node(t[1], level)
    if k == "seq":
        for x in t[1]:
            r = level_node(x, level)
            if r:
                return r
    return None


def level_units(tree, level, fr):
    nd = level_node(tree, level)
    b = nbits(nd[2], fr)
    return (b // nd[1]) if b % nd[1] == 0 else None


def solve(ty, level, ms, fin):
    """-> (content units n, actual final) such that, all other levels canonical, `level` holds FRAG*sum(ms)+final units with
    final as close to `fin` as the arithmetic allows; None when impossible"""
    want = FRAG * sum(ms) + fin
    inner_ub = ty.ub
    lvl_ub = level_node(ty.tree(0), level)[1]
    est = max(0, (want * lvl_ub) // inner_ub)
    best = None
    for n in range(max(0, est - 40), est + 9):
        u = level_units(ty.tree(n), level, {})
        if u is None:
            continue
        f = u - FRAG * sum(ms)
        if 0 <= f < FRAG and (best is None or abs(f - fin) < abs(best[1] - fin)):
            best = (n, f)
            if f == fin:
                break
    return best


def sequences(kmax, maxsum):
    out = [[]]
    res = []
    for k in range(kmax):
        out = [s + [m] for s in out for m in (1, 2, 3, 4)]
        res += [s for s in out if sum(s) <= maxsum]
    return res


FINALS = [0, 1, 127, 128, 16383]


def is_canonical(ms, fin, form):
    return (ms, fin, form) == canonical(FRAG * sum(ms) + fin)


def cut_points(marks, size):
    """truncations: around every length determinant (the octet before it, at it, behind it, behind the next one) and the last octet"""
    s = set()
    for p in marks:
        b = p // 8
        for d in (-1, 0, 1, 2):
            if 0 <= b + d < size:
                s.add(b + d)
    if size:
        s.add(size - 1)
    return sorted(s)


# ---------------------------------------------------------------------------------------------------------------
# what the reassembly loops ask of realloc(): the Python side only names the loops and their chunk sizes; the
# capacities come from the extracted coq/Rt/SafetyFrag.v (`fragot`, `fragstr`) and, for the pointer array of a list,
# from the doubling rule of asn_set_add()

def chunks_of(ms, fin):
    return [m * FRAG for m in ms] + [fin]


def list_growth(count):
    out, size = [], 0
    while size < count:
        size = size * 2 if size else 4
        out.append(size * 8)
    return out
