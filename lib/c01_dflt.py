"""c01_dflt — C01 where DEFAULT components meet extension additions (the region seeded/C01-7 showed to be unsampled:
lib/extgen.py writes additions without DEFAULT, the base corpus has no DEFAULT at all, the wide layer draws its values
from asn_random_fill and never stores a component with its DEFAULT value next to a present addition).

Model: coq/Rt/CanonicalDefault.v (encoders: a stored component equal to its DEFAULT is absent at every place an encoder
looks) + coq/Rt/DefaultRt.v (decoders: which absent components `default_value_set` fills in, per syntax); theorems
coq/Rt/DefaultRtProofs.v; front end ocaml/drv_c01d.ml; driver commands harness/moddrv_c01d.inc (drt, dchain).

Sweep: extensible SEQUENCE families (the DEFAULT at every position among 2..4 additions, every addition a DEFAULT, root
DEFAULTs kept by pointer and in line, 9 additions = presence bitmap of two octets, 9 omissible root members = preamble of
two octets, no root, random) x per DEFAULT component {absent pointer, stored with the DEFAULT value, stored with another
value} x per OPTIONAL component {absent, present} (complete product when small; else each DEFAULT component in each state
against the others all-absent / all-stored-default / all-non-default and the OPTIONAL ones none / all / only earlier /
only later, then random) x the five syntaxes x transcoding chains over ordered pairs of syntaxes.
A value reaches the C as BER that spells out exactly the components to be stored (ber_decode keeps what it is given and
fills nothing in).

Oracle, on the C alone: every encoder succeeds; the decoder returns RC_OK and consumes what was produced; the DER of the
result is the canonical DER computed HERE (components at their DEFAULT left out: absent = default); compare_struct = 0;
the same after every chain.  Tie: DER / UPER / OER octets = the model's on the same stored structure, byte for byte; after
decoding, which pointers are set (`pres`) and how much was consumed = the model's decoder on the same octets.
Violation kinds are prefixed `dflt:`."""
import os, re, time, itertools
from vlib import *
from modbuild import *
from modcorpus import run_mod
from c06_util import dmember, dtype_text, dvalue_octets, dnondefault, dx_model, dx_model_value, dx_random, uni, ctx, hand_module

INC = os.path.join(HARNESS, "moddrv_c01d.inc")
SYNS = ["der", "cper", "coer", "xer", "cxer"]
TIMES = {}


# ---------------------------------------------------------------- types

def directed_types():
    z = dmember("z", "bool")
    T = []
    # the shape of seeded/C01-7
    T.append(("DS", [dmember("id", "int", con=(0, 255)), dmember("level", "int", 5, ext=True, con=(0, 100)), dmember("flag", "bool", True, ext=True),
                     dmember("note", "int", optional=True, ext=True)]))
    # one DEFAULT addition at every position among OPTIONAL additions
    for n in (2, 3, 4):
        for p in range(n):
            ms = [z]
            for j in range(n):
                if j == p:
                    ms.append(dmember("d", ["int", "bool", "enum"][(n + p) % 3], [7, True, 1][(n + p) % 3], ext=True, con=(0, 255) if (n + p) % 3 == 0 else None))
                else:
                    ms.append(dmember("o%d" % j, ["int", "bool", "enum"][j % 3], optional=True, ext=True))
            T.append(("A%dP%d" % (n, p), ms))
    # every addition has a DEFAULT: all kinds; 0 / FALSE and others
    T.append(("AD", [z, dmember("a", "int", 0, ext=True), dmember("b", "int", -1, ext=True), dmember("c", "int", 100, ext=True, con=(1, 100)),
                     dmember("f", "bool", False, ext=True), dmember("t", "bool", True, ext=True), dmember("e", "enum", 0, ext=True), dmember("g", "enum", 2, ext=True)]))
    # root DEFAULTs (kept by pointer; 0 and FALSE: kept in line) and a root OPTIONAL next to additions with DEFAULT
    T.append(("RD", [dmember("r0", "int", 1), dmember("r1", "int", 0, con=(0, 255)), dmember("r2", "bool", True), dmember("r3", "bool", False), z,
                     dmember("ro", "int", optional=True), dmember("a", "int", 1, ext=True), dmember("m", "bool", optional=True, ext=True), dmember("e", "enum", 1, ext=True)]))
    # presence bitmap of the additions over one octet: nine additions, DEFAULTs at the first bit, the last of the first octet, the first of the second
    T.append(("B9", [z] + [dmember("d%d" % j, "int", j + 1, ext=True, con=(0, 255)) if j in (0, 7, 8) else dmember("o%d" % j, "bool", optional=True, ext=True)
                           for j in range(9)]))
    # preamble over one octet: nine omissible root members, DEFAULT and OPTIONAL alternating
    T.append(("P9", [dmember("r%d" % j, "int", j + 1, con=(0, 255)) if j % 2 == 0 else dmember("r%d" % j, "bool", optional=True) for j in range(9)] + [z] +
              [dmember("d", "int", 3, ext=True), dmember("o", "bool", optional=True, ext=True)]))
    # no root component
    T.append(("NR", [dmember("d", "int", 5, ext=True), dmember("o", "bool", optional=True, ext=True), dmember("e", "bool", True, ext=True)]))
    return T


def gen_types(rng, tier):
    T = directed_types()
    for i in range(3 if tier == "quick" else 10):
        tn, ms = dx_random(rng, i)
        for m in ms:
            m["grp"] = None
        T.append((tn, ms))
    return T


# kinds outside the model (no leaf_eqb for them in Rt/CanonicalDefault.v): character and octet strings with a DEFAULT; judged on the C alone
XKIND = {"ia5": ("IA5String", '"ab"', [b"", b"a", b"ab ", b"abc", b"AB", b"b"]), "oct": ("OCTET STRING", "'ABCD'H", [b"", b"\xab", b"\xab\xcd\x00", b"\xcd\xab"]),
         "utf": ("UTF8String", '"x"', [b"", b"xy", b"\xc3\xa9"])}
XDEF = {"ia5": b"ab", "oct": b"\xab\xcd", "utf": b"x"}
ELIDED_XKINDS = ("ia5",)


def xtypes():
    """extensible SEQUENCEs whose DEFAULT components are strings (root and additions), next to modelled kinds"""
    z = dmember("z", "bool")
    return [
        ("XS", [z, dmember("s", "ia5", XDEF["ia5"], ext=True), dmember("o", "int", optional=True, ext=True), dmember("u", "oct", XDEF["oct"], ext=True)]),
        ("XR", [dmember("s", "utf", XDEF["utf"]), z, dmember("d", "int", 5, ext=True), dmember("u", "oct", XDEF["oct"], ext=True), dmember("o", "bool", optional=True, ext=True)]),
    ]


def member_text(m):
    if m["kind"] in XKIND:
        t, d, _ = XKIND[m["kind"]]
        return "%s %s%s" % (m["name"], t, (" DEFAULT " + d) if m["default"] is not None else " OPTIONAL" if m["optional"] else "")
    txt = dtype_text("T", [dict(m, ext=False, grp=None)])
    return txt[txt.index("{") + 1:txt.rindex("}")].strip()


def type_text(tn, ms):
    parts, in_ext = [], False
    for m in ms:
        if m["ext"] and not in_ext:
            parts.append("...")
            in_ext = True
        parts.append(member_text(m))
    return "  %s ::= SEQUENCE { %s }" % (tn, ", ".join(parts))


WRAPPED = ["DS", "AD", "RD", "NR", "A3P1"]


def wrapper_texts():
    """the extensible types where other data FOLLOWS them: element of a SEQUENCE OF, member of a SEQUENCE (misframing shows as a shifted neighbour)"""
    out = []
    for tn in WRAPPED:
        out.append("  L%s ::= SEQUENCE OF %s" % (tn, tn))
        out.append("  S%s ::= SEQUENCE { h %s, t INTEGER (0..255), g %s OPTIONAL, u BOOLEAN }" % (tn, tn, tn))
    return out


def module_text(types, name="D-RT", extra=()):
    return name + " DEFINITIONS AUTOMATIC TAGS ::= BEGIN\n" + "\n".join([type_text(tn, ms) for tn, ms in types] + list(extra)) + "\nEND\n"


# ---------------------------------------------------------------- values

def states_of(ms, rng, cap):
    """assignments {member index: 'abs' | 'dfl' | 'non'} ('dfl' only for components with a DEFAULT)"""
    D = [i for i, m in enumerate(ms) if m["default"] is not None]
    O = [i for i, m in enumerate(ms) if m["default"] is None and m["optional"]]
    total = 3 ** len(D) * 2 ** len(O)
    out, seen = [], set()

    def add(a):
        k = tuple(sorted(a.items()))
        if k not in seen:
            seen.add(k)
            out.append(dict(a))
    if total <= cap:
        for ds in itertools.product(("abs", "dfl", "non"), repeat=len(D)):
            for os_ in itertools.product(("abs", "non"), repeat=len(O)):
                add(dict(list(zip(D, ds)) + list(zip(O, os_))))
        return out
    for i in D:
        for s in ("dfl", "abs", "non"):
            for others in ("abs", "dfl", "non"):
                for op in ("none", "all", "earlier", "later"):
                    a = {j: others for j in D}
                    a[i] = s
                    for j in O:
                        a[j] = "non" if (op == "all" or (op == "earlier" and j < i) or (op == "later" and j > i)) else "abs"
                    add(a)
    core = out[:]
    if len(core) > cap:
        # keep, for every DEFAULT component, its three states against the three uniform contexts (OPTIONAL all / none), sample the rest
        keep = [a for a in core if all(a[j] == "abs" for j in O) or all(a[j] == "non" for j in O)]
        rest = [a for a in core if a not in keep]
        rng.shuffle(rest)
        out = (keep + rest)[:max(cap, len(keep))]
    while len(out) < cap:
        n0 = len(out)
        add(dict([(j, rng.choice(["abs", "dfl", "non"])) for j in D] + [(j, rng.choice(["abs", "non"])) for j in O]))
        if len(out) == n0 and rng.chance(1, 8):
            break
    return out


def make_value(ms, a, rng):
    """-> (BER input, stored {index: value}, abstract {index: value or None}, canonical DER)"""
    stored, body, canon = {}, b"", b""
    for i, m in enumerate(ms):
        s = a.get(i, "non")
        if s == "abs":
            continue
        if m["kind"] in XKIND:
            v = m["default"] if s == "dfl" else rng.choice([x for x in XKIND[m["kind"]][2] if x != m["default"]])
            stored[i] = v
            body += ctx(i, v)
            # asn1c generates the DEFAULT comparison for INTEGER, ENUMERATED, BOOLEAN and the known-multiplier character strings only
            # (asn1c_C.c try_inline_default): an OCTET STRING / UTF8String stored with its DEFAULT value is an ordinary present component
            # in every syntax (never elided, never filled in) - the round trip closes; that its DER is not canonical is C06's clause
            if s == "non" or m["kind"] not in ELIDED_XKINDS:
                canon += ctx(i, v)
            continue
        v = m["default"] if s == "dfl" else dnondefault(m, rng)
        stored[i] = v
        # TRUE stored with the DEFAULT value is written as 01: the generated comparison of BOOLEAN DEFAULT TRUE knows only the
        # int 1 (open findings C01-boolean-default-true / C06-default-boolean-true-octet are about ff, not about this region)
        form = b"\x01" if (s == "dfl" and m["kind"] == "bool") else None
        body += ctx(i, dvalue_octets(m, v, form))
        if s == "non":
            canon += ctx(i, dvalue_octets(m, v))
    return uni(16, body, True), stored, uni(16, canon, True)


TOK = re.compile(r"_|!?(?:T|F|N|I-?\d+;)")


def model_pres(vstr):
    """S{...} of the model -> one character per component: 0 absent, 1 stored, m not omissible"""
    inner = vstr[2:-1]
    toks = TOK.findall(inner)
    if "".join(toks) != inner:
        return None
    return "".join("0" if t == "_" else "1" if t[0] == "!" else "m" for t in toks)


def pres_agree(cp, mp):
    """C presence string (i = in line) against the model's (m = mandatory): only pointers can tell"""
    if mp is None or len(cp) != len(mp):
        return False
    return all(c == "i" or c == q for c, q in zip(cp, mp))


# ---------------------------------------------------------------- the layer

def run(run, rng_unused, tier):
    t0 = time.time()
    rng = Rng(run.seed * 1000003 + 41)
    try:
        model = model_build()
        types = gen_types(rng, tier)
        xts = xtypes()
        wts = [w.split()[0] for w in wrapper_texts()]
        mod = hand_module("DRT", module_text(types + xts, extra=wrapper_texts()), [tn for tn, _ in types + xts] + wts)
        build_modules([mod], tag="c01dflt", opts=("-fcompound-names",), moddrv_extra=INC)
    except (BuildError, RuntimeError) as e:
        run.violation("dflt:build", {"what": str(e)[-2500:]}, no_input=True)
        return
    if not mod.get("exe"):
        run.violation("dflt:build:module", {"what": "asn1c rejected the module of extensible SEQUENCEs with DEFAULT components or its output does not compile",
                                            "module": mod["text"], "asn1c_out": (mod.get("asn1c_out") or "")[-1500:], "build_log": (mod.get("build_log") or "")[-1500:]})
        return
    TIMES["build"] = round(time.time() - t0, 1)
    cap = 48 if tier == "quick" else 250
    cases = []
    for tn, ms in types:
        ety, dr, da = dx_model(ms)
        for a in states_of(ms, rng, cap):
            ber, stored, canon = make_value(ms, a, rng)
            cases.append({"tn": tn, "ms": ms, "ety": ety, "dr": dr, "da": da, "a": a, "ber": ber.hex(), "stored": stored, "canon": canon.hex(),
                          "vs": dx_model_value(ms, stored), "model": True})
    # string DEFAULTs: outside the model, the oracle alone
    for tn, ms in xts:
        for a in states_of(ms, rng, cap):
            ber, stored, canon = make_value(ms, a, rng)
            cases.append({"tn": tn, "ms": ms, "a": a, "ber": ber.hex(), "stored": stored, "canon": canon.hex(), "vs": repr(stored), "model": False})
    # the extensible types with data after them (list element, SEQUENCE member): the oracle alone
    byname = dict(types)
    nper = 10 if tier == "quick" else 40
    for tn in WRAPPED:
        ms = byname[tn]
        pool = states_of(ms, rng, cap)

        def inner():
            a = pool[rng.below(len(pool))]
            ber, stored, canon = make_value(ms, a, rng)
            return a, ber, canon
        retag = lambda b, n: bytes([0xa0 | n]) + b[1:]
        for k in range(nper):
            els = [inner() for _ in range([0, 1, 2, 3, 2, 3][k % 6])]
            cases.append({"tn": "L" + tn, "ms": ms, "a": {}, "wrapped": [e[0] for e in els], "ber": uni(16, b"".join(e[1] for e in els), True).hex(), "stored": {},
                          "canon": uni(16, b"".join(e[2] for e in els), True).hex(), "vs": "-", "model": False})
            h, g = inner(), (inner() if k % 3 else None)
            t, u = rng.below(256), rng.chance(1, 2)
            tl_ = ctx(1, dvalue_octets({"kind": "int"}, t)) + (retag(g[1], 2) if g else b"") + ctx(3, b"\xff" if u else b"\0")
            tlc = ctx(1, dvalue_octets({"kind": "int"}, t)) + (retag(g[2], 2) if g else b"") + ctx(3, b"\xff" if u else b"\0")
            cases.append({"tn": "S" + tn, "ms": ms, "a": {}, "wrapped": [h[0]] + ([g[0]] if g else []), "ber": uni(16, retag(h[1], 0) + tl_, True).hex(), "stored": {},
                          "canon": uni(16, retag(h[2], 0) + tlc, True).hex(), "vs": "-", "model": False})
    # ---- the C: round-trip battery and chains
    pairs = [(x, y) for x in SYNS for y in SYNS if x != y]
    lines, meta = [], []
    for c in cases:
        lines.append("drt %s ber %s" % (c["tn"], c["ber"]))
        meta.append(("drt", c, None))
        ps = pairs if tier != "quick" else [pairs[rng.below(len(pairs))] for _ in range(4)]
        for (x, y) in ps:
            lines.append("dchain %s ber %s %s %s" % (c["tn"], c["ber"], x, y))
            meta.append(("chain", c, (x, y)))
        order = SYNS[:]
        rng.shuffle(order)
        lines.append("dchain %s ber %s %s" % (c["tn"], c["ber"], " ".join(order)))
        meta.append(("chain", c, tuple(order)))
    t1 = time.time()
    out = run_mod(run, mod, lines, "dflt:C01")
    TIMES["c"] = round(time.time() - t1, 1)
    # ---- the model: encoders on the stored structure
    t1 = time.time()
    mcases = [c for c in cases if c["model"]]
    ml = ["ddenc %s %s %s %s" % (c["dr"], c["da"], c["ety"], c["vs"]) for c in mcases]
    rcm, mo, me = run_lines(model, ml, timeout=900)
    if rcm != 0 or len(mo) != len(ml):
        run.violation("dflt:build", {"what": "model driver failed: rc=%s %s" % (rcm, me[-800:])}, no_input=True)
        return
    for c, o in zip(mcases, mo):
        f = o.split()
        c["m_der"], c["m_uper"], c["m_oer"] = f if len(f) == 3 else ("?", "?", "?")
    declines, decmeta = [], []

    def rp(case, **kw):
        c = case
        d = {"module": mod["text"], "asn1c_options": "-fcompound-names", "type": c["tn"], "model_type": c.get("ety"), "defaults_root": c.get("dr"), "defaults_additions": c.get("da"),
             "stored": c["vs"], "states": {c["ms"][i]["name"]: s for i, s in c["a"].items()}, "canonical_der": c["canon"]}
        if "wrapped" in c:
            d["states_of_the_wrapped_values"] = [{c["ms"][i]["name"]: s for i, s in a.items()} for a in c["wrapped"]]
        d.update(kw)
        return d

    for (kind, c, extra), line, o in zip(meta, lines, out):
        run.case("dflt:" + line)
        run.count("dflt_" + kind)
        if kind == "chain":
            f = o.split()
            what = None
            if len(f) == 4 and f[0] == "OK":
                if f[2] != c["canon"]:
                    what = "value changed by transcoding through %s (DER of the result is not the canonical DER of the value)" % " -> ".join(extra)
                elif f[3] != "cmp=0":
                    what = "compare_struct does not return 0 between the value and its image through %s" % " -> ".join(extra)
            else:
                what = "transcoding through %s failed: %s" % (" -> ".join(extra), o)
            if what:
                run.violation("dflt:oracle:transcode", rp(c, what=what, command_line=line, c=o))
            continue
        parts = o.split()
        if not parts or not parts[0].startswith("ref=") or len(parts) != 6:
            run.violation("dflt:oracle:roundtrip", rp(c, what="input not decoded or unexpected driver output", command_line=line, c=o))
            continue
        rpres, rder = parts[0][4:].split(":")
        exp_pres = "".join("1" if i in c["stored"] else "0" for i in range(len(c["ms"])))
        if rder != c["canon"]:
            run.violation("dflt:oracle:der", rp(c, what="DER of the stored structure is not the canonical DER of the value (a component at its DEFAULT encoded, or a component lost)",
                                                command_line=line, c=o))
        if "wrapped" not in c and not pres_agree(rpres, exp_pres):
            run.violation("dflt:harness:stored", rp(c, what="ber_decode did not store exactly the components spelled out in the input", command_line=line, c=o, expected=exp_pres), no_input=True)
        for part in parts[1:]:
            syn, st = part.split("=", 1)
            f = st.split(":")
            run.count("dflt_rt_" + syn)
            if f[0] == "ENCFAIL":
                run.violation("dflt:oracle:roundtrip(%s)" % syn, rp(c, what="encoder fails: " + st, syntax=syn, command_line=line, c=o))
                continue
            enc, rc, cons, pres, der, cmp_ = f
            consumed, produced = (int(x) for x in cons.split("/"))
            key = {"der": "m_der", "cper": "m_uper", "coer": "m_oer"}.get(syn) if c["model"] else None
            if key and enc != c[key]:
                run.violation("dflt:correspondence:%s" % syn, rp(c, what="C encoder output differs from the model (Rt/CanonicalDefault.v) on this stored structure", syntax=syn,
                                                                command_line=line, c=part, model=c[key]), no_input=(rc == "OK" and consumed == produced and der == c["canon"]))
            bad = None
            if rc != "OK":
                bad = "decoder returns %s on the encoder's own output" % rc
            elif consumed != produced:
                if syn == "xer" and consumed + 1 == produced:
                    run.known_finding("C01-xer-trailing-newline", line[:200])
                else:
                    bad = "decoder consumed %d of the %d octets produced" % (consumed, produced)
            if not bad and rc == "OK":
                if der != c["canon"]:
                    bad = "the decoded structure has another DER than the canonical DER of the value"
                elif cmp_ != "0":
                    bad = "compare_struct(original, decoded) = %s" % cmp_
            if bad:
                run.violation("dflt:oracle:roundtrip(%s)" % syn, rp(c, what="encode-then-decode does not return the value: " + bad, syntax=syn, command_line=line, c=part))
                continue
            if key and rc == "OK":
                cmdm = {"der": "ddberdec %s %s %s %s", "cper": "dduperdec 0 %s %s %s %s", "coer": "ddoerdec %s %s %s %s"}[syn]
                declines.append(cmdm % (c["dr"], c["da"], c["ety"], enc))
                decmeta.append((c, syn, enc, consumed, pres, line, part))
    # ---- the model: decoders on the C's octets
    rcm, mo, me = run_lines(model, declines, timeout=900)
    if rcm != 0 or len(mo) != len(declines):
        run.violation("dflt:build", {"what": "model driver failed (decoders): rc=%s %s" % (rcm, me[-800:])}, no_input=True)
        return
    TIMES["model"] = round(time.time() - t1, 1)
    for (c, syn, enc, consumed, pres, line, part), ml_, o in zip(decmeta, declines, mo):
        run.count("dflt_dec_" + syn)
        f = o.split()
        ok = (len(f) == 4 and f[0] == "OK" and int(f[1]) == consumed and pres_agree(pres, model_pres(f[2])) and f[3] == c["canon"])
        if not ok:
            run.violation("dflt:correspondence:%s_dec" % syn, rp(c, what="C decoder and model decoder (Rt/DefaultRt.v) differ on these octets: consumed count, which components are stored afterwards, or the value",
                                                                 syntax=syn, command_line=line, c=part, model_command=ml_, model=o), no_input=True)
    if cases:
        c = cases[0]
        run.sample({"dflt_type": c["ety"], "stored": c["vs"], "ber": c["ber"], "oer": c.get("m_oer")})
    run.count("dflt_types", len(types))
    run.count("dflt_wall_s", int(time.time() - t0))
