"""c08_util — C08 (constraint validation): modgen's type dicts decorated with union /
EXCEPT constraints, their ASN.1 text, their `cty` strings (syntax of ocaml/drv_c08.ml),
valid values, the single-position violations of a value, an independent Python reading
of the Spec that returns the violated positions (used only to attribute an oracle
mismatch to a known finding), and the hand-written string / BIT STRING module.

Decorated type dict (additions to lib/modgen.py's):
  int:              "parts": [(lo, hi), ...]  (None = MIN / MAX; [] = no constraint), "exc": [(lo, hi), ...]
  oct/seqof/setof:  "parts": [(lo, hi), ...]  SIZE set ([] = none)
`con` is kept only for modgen.resolve (tags / DER); constraints do not influence DER."""
from modgen import *

CAP_OCT = 70000
CAP_OF = 300
I64 = (-2**63, 2**63 - 1)

INT_UNIONS = [[(1, 10), (20, 30)], [(0, 3), (5, 5), (9, 12)], [(-10, -5), (0, 0), (7, 100)], [(5, 5), (7, 7)],
              [(1, 5), (6, 10)], [(1, 10), (5, 20)], [(20, 30), (1, 10)], [(None, -5), (5, None)], [(None, 0), (100, 200)],
              [(-3, -1), (1, None)]]
SIZE_UNIONS = [[(1, 2), (5, 6)], [(0, 0), (3, 4)], [(2, 2), (4, None)], [(0, 1), (3, 3)], [(3, 3), (1, 1)]]


# ---------------------------------------------------------------- text
def edge_text(x, lo):
    return ("MIN" if lo else "MAX") if x is None else str(x)


def parts_text(ps):
    out = []
    for a, b in ps:
        out.append(str(a) if (a is not None and a == b) else "%s..%s" % (edge_text(a, True), edge_text(b, False)))
    return " | ".join(out)


def ctype_text(t):
    k = t["k"]
    pre = tag_text(t.get("tag"))
    if k == "bool":
        return pre + "BOOLEAN"
    if k == "null":
        return pre + "NULL"
    if k == "int":
        if not t["parts"]:
            return pre + "INTEGER"
        body = parts_text(t["parts"])
        if t["exc"]:
            body += " EXCEPT " + parts_text(t["exc"])
        return pre + "INTEGER (%s)" % body
    if k == "oct":
        return pre + "OCTET STRING" + (" (SIZE(%s))" % parts_text(t["parts"]) if t["parts"] else "")
    if k == "ref":
        return pre + t["ref"]
    if k in ("seqof", "setof"):
        kw = "SEQUENCE" if k == "seqof" else "SET"
        c = " (SIZE(%s))" % parts_text(t["parts"]) if t["parts"] else ""
        if t.get("via"):
            # written as a reference to the named list type `via ::= SEQUENCE OF el` that carries the SIZE at the point of
            # use: the same type by X.680 (same tag, same constraints), but asn1c builds the checker from a reference
            return pre + t["via"] + c
        return pre + "%s%s OF %s" % (kw, c, ctype_text(t["el"]))
    if k in ("seq", "choice"):
        kw = "SEQUENCE" if k == "seq" else "CHOICE"
        ms = ["%s %s%s" % (n, ctype_text(mt), " OPTIONAL" if (opt and k == "seq") else "") for n, mt, opt in t["ms"]]
        return pre + "%s { %s }" % (kw, ", ".join(ms))
    raise ValueError(k)


def via_defs(t, out):
    """the named list types the `via` spelling of an OF refers to: {name: text of its definition}"""
    if t["k"] in ("seqof", "setof"):
        if t.get("via"):
            text = "%s OF %s" % ("SEQUENCE" if t["k"] == "seqof" else "SET", ctype_text(t["el"]))
            assert out.get(t["via"], text) == text, "two different list types named " + t["via"]
            out[t["via"]] = text
        via_defs(t["el"], out)
    for _n, mt, _o in t.get("ms", []):
        via_defs(mt, out)
    return out


def cmodule_text(name, default, defs):
    lines = ["%s DEFINITIONS %s TAGS ::= BEGIN" % (name, default)]
    vias = {}
    for n, t in defs:
        via_defs(t, vias)
    for n in sorted(vias):
        lines.append("  %s ::= %s" % (n, vias[n]))
    for n, t in defs:
        lines.append("  %s ::= %s" % (n, ctype_text(t)))
    lines.append("END")
    return "\n".join(lines) + "\n"


# ---------------------------------------------------------------- decoration of modgen's output
def decorate(t, rng, nested=False, unions=True):
    """drop extension markers (the property quantifies over non-extensible constraints) and
    turn some single ranges into unions.  Unions in nested positions stay inside the 32-bit
    signed range (modgen's avoidance of the unsigned-specifics defects C02/C10 is kept)."""
    k = t["k"]
    if k == "int":
        c = t.get("con")
        t["exc"] = []
        if c:
            t["con"] = (c[0], c[1], False)
            t["parts"] = [(c[0], c[1])]
        else:
            t["parts"] = []
        if unions and rng.chance(1, 4):
            keep_unsigned = c and c[0] is not None and c[0] >= 0 and (c[1] is None or c[1] >= 2**31)
            if not keep_unsigned:
                t["parts"] = [tuple(p) for p in rng.choice(INT_UNIONS)]
                t["con"] = None
        elif unions and c and c[0] is not None and c[1] is not None and c[1] - c[0] >= 2 and rng.chance(1, 6):
            x = rng.range(c[0], min(c[1], c[0] + 50))
            t["exc"] = [(x, x)]
    elif k == "oct":
        c = t.get("con")
        t["parts"] = []
        if c:
            t["con"] = (c[0], c[1], False)
            if not (c[0] == 0 and c[1] is None):
                t["parts"] = [(c[0], c[1])]
        if unions and rng.chance(1, 4):
            t["parts"] = [tuple(p) for p in rng.choice(SIZE_UNIONS)]
            t["con"] = None
    elif k in ("seqof", "setof"):
        c = t.get("con")
        t["parts"] = []
        if c:
            t["con"] = (c[0], c[1], False)
            if not (c[0] == 0 and c[1] is None):
                t["parts"] = [(c[0], c[1])]
        if unions and rng.chance(1, 4):
            t["parts"] = [tuple(p) for p in rng.choice(SIZE_UNIONS)]
            t["con"] = None
        decorate(t["el"], rng, True, unions)
    elif k in ("seq", "choice"):
        for _n, mt, _o in t["ms"]:
            decorate(mt, rng, True, unions)
    return t


def decorate_module(m, rng):
    for _n, t in m["defs"]:
        decorate(t, rng)
    m["text"] = cmodule_text(m["name"], m["default"], m["defs"])
    env = dict(m["defs"])
    m["trees"] = {n: resolve(t, m["default"], env) for n, t in m["defs"]}
    return m


# ---------------------------------------------------------------- the hand-made boundary module
def boundary_module(name="MC0"):
    I = lambda parts, exc=(): {"k": "int", "parts": list(parts), "exc": list(exc), "con": None}
    O = lambda parts: {"k": "oct", "parts": list(parts), "con": None}
    B = lambda **kw: dict({"k": "bool"}, **kw)
    R = lambda n, **kw: dict({"k": "ref", "ref": n}, **kw)
    SO = lambda parts, el, kind="seqof", **kw: dict({"k": kind, "parts": list(parts), "el": el, "con": None}, **kw)
    defs = []
    ints = [[(1, 10)], [(1, 10), (20, 30)], [(5, 5), (7, 7), (9, 12)], [(0, 10), (4294967290, 4294967295)], [(0, 4294967295)],
            [(1, 4294967295)], [(0, None)], [(5, None)], [(None, 10)], [(None, 5), (10, None)], [(None, 1099511627776)],
            [(-1099511627776, None)], [(-1099511627776, 1099511627776)], [(-2147483648, 2147483647)], [(-2147483649, 2147483647)],
            [(0, 2147483648)], [(0, 2147483647)], [(None, None)], [(1, 5), (6, 10)], [(1, 10), (5, 20)], [(20, 30), (1, 10)], [(0, 0)],
            [(-5, -5)], [(2147483647, None)], [(2147483648, None)], [(0, 4294967296)], [(3, 3), (1, 1), (2, 2)], []]
    for i, ps in enumerate(ints):
        defs.append(("I%d" % i, I(ps)))
    defs.append(("E0", I([(1, 10)], [(5, 5)])))
    defs.append(("E1", I([(1, 10)], [(3, 4)])))
    defs.append(("E2", I([(0, 100000)], [(0, 0)])))
    for i, ps in enumerate([[(1, 2), (5, 6)], [(0, 0)], [(3, 3)], [(2, None)], [(0, 1), (3, 3)], [(0, 300)], [(127, 128)], []]):
        defs.append(("O%d" % i, O(ps)))
    defs.append(("S1", {"k": "seq", "ms": [("a", B(), False), ("b", I([(1, 10)]), False)]}))
    defs.append(("S2", {"k": "seq", "ms": [("a", I([(0, 5)]), False), ("b", B(), False), ("c", I([(1, 10)]), False)]}))
    defs.append(("S3", {"k": "seq", "ms": [("a", dict(I([(0, 7)]), tag=("CONTEXT", 0, "IMPLICIT")), True),
                                           ("b", B(), True), ("c", I([(1, 10)]), False)]}))
    defs.append(("S4", {"k": "seq", "ms": [("a", R("I0"), False), ("b", I([(1, 10)]), False)]}))
    defs.append(("S5", {"k": "seq", "ms": [("a", I([(0, 5)]), False), ("b", O([(1, 2)]), False), ("c", I([(1, 10)]), False), ("d", B(), False)]}))
    defs.append(("S6", {"k": "seq", "ms": [("a", {"k": "seq", "ms": [("x", I([(0, 5)]), False)]}, False), ("b", I([(1, 10)]), False)]}))
    defs.append(("S7", {"k": "seq", "ms": [("a", I([(0, None)]), False), ("b", I([(None, None)]), False), ("c", I([(1, 10)]), False)]}))
    defs.append(("Q1", SO([(2, 3)], B())))
    defs.append(("Q2", R("Q1")))
    defs.append(("Q3", {"k": "seq", "ms": [("a", SO([(2, 3)], B()), False), ("b", R("Q1", tag=("CONTEXT", 1, "IMPLICIT")), False)]}))
    defs.append(("Q4", SO([(1, 2), (4, 4)], I([(0, 7)]), "setof")))
    defs.append(("Q5", {"k": "seq", "ms": [("a", R("Q2"), False)]}))
    defs.append(("Q6", R("Q1", tag=("APPLICATION", 3, "IMPLICIT"))))
    defs.append(("Q7", {"k": "seq", "ms": [("a", SO([(1, 2), (4, 4)], I([(0, 7)]), "setof"), False), ("b", SO([], I([(1, 10), (20, 30)])), False)]}))
    defs.append(("C1", {"k": "choice", "ms": [("a", SO([(2, 3)], B(), tag=("CONTEXT", 0, "IMPLICIT")), False),
                                              ("b", R("Q1", tag=("CONTEXT", 1, "IMPLICIT")), False), ("c", I([(1, 10)]), False)]}))
    defs.append(("C2", R("C1")))
    # SIZE added to a reference to a named list type, at type and at member level (the generated checker of a
    # reference has to hand over to SEQUENCE_OF_constraint / SET_OF_constraint after its own SIZE test)
    defs.append(("V1", SO([(2, 3)], I([(1, 10)]), via="VLa")))
    defs.append(("V2", {"k": "seq", "ms": [("a", SO([(1, 3)], I([(1, 10)]), via="VLa"), False), ("b", SO([], I([(1, 10)]), via="VLa"), False),
                                           ("c", SO([(1, 2), (4, 4)], O([(1, 2)]), "setof", via="VLb"), False)]}))
    defs.append(("V3", SO([(1, 2), (4, 4)], O([(1, 2)]), "setof", via="VLb")))
    defs.append(("V4", R("V1")))
    env = dict(defs)
    trees = {n: resolve(t, "IMPLICIT", env) for n, t in defs}
    return {"name": name, "default": "IMPLICIT", "defs": defs, "trees": trees, "text": cmodule_text(name, "IMPLICIT", defs), "names": ["VLa", "VLb"]}


# ---------------------------------------------------------------- systematic boundary modules
# Bounds of every constraint kind come from one set: MIN, MAX, 0, +-1 and +-(2^k-1), +-2^k, +-(2^k+1)
# for the k where a C type, a length form or an encoding changes.  (asn1c_integer_t is 128 bits wide in
# this build, so every one of them is a legal bound; the generated C compares against the literal.)
KS = (7, 8, 15, 16, 31, 32, 63)


def bounds():
    s = {0, 1, -1}
    for k in KS:
        for d in (-1, 0, 1):
            s.add(2**k + d)
            s.add(-(2**k + d))
    return sorted(s)


def mk_int(parts):
    return {"k": "int", "parts": [tuple(p) for p in parts], "exc": [], "con": None}


def mk_oct(parts):
    return {"k": "oct", "parts": [tuple(p) for p in parts], "con": None}


def hull(parts):
    los = [a for a, _ in parts]
    his = [b for _, b in parts]
    return (None if None in los else min(los)), (None if None in his else max(his))


def needs_unsigned(parts):
    """the INTEGER gets `unsigned` specifics (asn1c_type_fits_long == FL_FITS_UNSIGN without -fwide-types):
    such a type as the element of an OF nested in a structure, or behind an EXPLICIT tag, does not compile
    (recorded by C10 / C02) and is kept out of those positions"""
    lo, hi = hull(parts)
    return lo is not None and lo >= 0 and (hi is None or 2**31 <= hi < 2**32)


def int_boundary_constraints(rng, tier):
    """[(label, parts)]: every half-open range and single value over bounds(), closed ranges between
    neighbouring bounds / from 0 / symmetric / a seeded sample of arbitrary pairs, and unions of adjacent,
    touching and disjoint pieces (closed and half-open) around a seeded sample of pivots"""
    B = bounds()
    out = [("full", [(None, None)])]
    for b in B:
        out.append(("upto", [(None, b)]))
        out.append(("from", [(b, None)]))
        out.append(("single", [(b, b)]))
    for a, b in zip(B, B[1:]):
        out.append(("closed-neighbours", [(a, b)]))
    for x in B:
        if x > 0:
            out.append(("closed-from0", [(0, x)]))
        elif x < 0:
            out.append(("closed-to0", [(x, 0)]))
    for k in KS:
        out.append(("closed-symmetric", [(-(2**k), 2**k)]))
        out.append(("closed-symmetric", [(-(2**k), 2**k - 1)]))
    npairs = 24 if tier == "quick" else 160
    for _ in range(npairs):
        a, b = rng.choice(B), rng.choice(B)
        if a > b:
            a, b = b, a
        if a != b:
            out.append(("closed-pair", [(a, b)]))
    pivots = [0, 1, -1] + rng.shuffle([b for b in B if abs(b) > 1])[:(9 if tier == "quick" else 42)]
    for m in pivots:
        out.append(("union-adjacent", [(m - 3, m), (m + 1, m + 4)]))            # joinable: one interval
        out.append(("union-touching", [(m - 3, m), (m, m + 4)]))
        out.append(("union-gap1", [(m - 3, m), (m + 2, m + 4)]))
        out.append(("union-reversed", [(m + 2, m + 4), (m - 3, m)]))
        out.append(("union-open-hole1", [(None, m), (m + 2, None)]))
        out.append(("union-open-nohole", [(None, m), (m + 1, None)]))
        out.append(("union-open-left", [(None, m), (m + 2, m + 5)]))
        out.append(("union-open-right", [(m - 5, m - 2), (m, None)]))
        out.append(("union-singles-adjacent", [(m, m), (m + 1, m + 1)]))
        out.append(("union-singles-gap", [(m, m), (m + 2, m + 2)]))
        out.append(("union-three", [(m - 4, m - 3), (m - 1, m), (m + 2, m + 3)]))
    seen, res = set(), []
    for lab, ps in out:
        key = tuple(ps)
        if key in seen:
            continue
        seen.add(key)
        # libasn1fix's _range_split stops at INTMAX_MAX / INTMAX_MIN ("We've hit the limit here") although
        # asn1c_integer_t is 128 bits wide here: a union part ending exactly at 2^63-1 swallows the parts to its
        # right (starting at -2^63: to its left).  C09's subject (crange); the shape is kept out of this generator.
        if len(ps) > 1 and (any(b == 2**63 - 1 for _a, b in ps) or any(a == -2**63 for a, _b in ps)):
            continue
        core = lab in ("full", "upto", "from", "single")          # every half-open range and single value, always
        if core or tier != "quick" or rng.chance(1, 3):
            res.append((lab, ps))
    return res


SIZE_SMALL = [0, 1, 2, 127, 128, 129, 255, 256, 257]
SIZE_BIG = [32767, 65535, 65536]
SIZE_HUGE = [2**31 - 1, 2**31, 2**31 + 1, 2**32 - 1, 2**32, 2**32 + 1, 2**63 - 1, 2**63, 2**63 + 1]


def size_boundary_constraints(rng, tier, cap):
    S = [x for x in SIZE_SMALL + (SIZE_BIG if cap > 1000 else []) if x + 1 <= cap]
    out = []
    for b in S:
        out.append(("size-upto", [(0, b)]))
        out.append(("size-from", [(b, None)]))
        out.append(("size-single", [(b, b)]))
    for a, b in zip(S, S[1:]):
        out.append(("size-closed", [(a, b)]))
    for h in SIZE_HUGE:
        out.append(("size-upto-huge", [(0, h)]))
        out.append(("size-from-huge", [(h, None)]))
        out.append(("size-closed-huge", [(1, h)]))
    for m in [0, 1, 2, 128, 256]:
        out.append(("size-union-gap", [(0, m), (m + 2, m + 3)]))
        out.append(("size-union-adjacent", [(m, m), (m + 1, m + 1)]))
        out.append(("size-union-open", [(m, m), (m + 2, None)]))
        out.append(("size-union-zero", [(0, 0), (m + 2, None)]))
    seen, res = set(), []
    for lab, ps in out:
        key = tuple(ps)
        if key not in seen and ps != [(0, None)]:
            seen.add(key)
            res.append((lab, ps))
    return res


def _chunks(xs, n):
    return [xs[i:i + n] for i in range(0, len(xs), n)]


def boundary_modules(rng, tier, chunk=12):
    """the systematic modules: MBI (INTEGER value constraints), MBS (SIZE of OCTET STRING / SEQUENCE OF / SET OF).
    Every constraint appears as a SEQUENCE member; a seeded share also as a type of its own and a reference
    definition to it, as the element of a SEQUENCE OF inside a SEQUENCE (2 levels down), as a CHOICE
    alternative, and as the element of a SET OF inside a CHOICE inside two SEQUENCEs (3 levels down).
    Member names are unique in the module (the modules are also compiled without -fcompound-names)."""
    def SEQ(tn, ms):
        return {"k": "seq", "ms": [("%sm%d" % (tn.lower(), j), t, False) for j, t in enumerate(ms)]}

    def CHO(tn, ms):
        return {"k": "choice", "ms": [("%sm%d" % (tn.lower(), j), t, False) for j, t in enumerate(ms)]}

    def DEEP(tn, ms):
        low = tn.lower()
        return {"k": "seq", "ms": [(low + "a", {"k": "seq", "ms": [(low + "b", CHO(tn, ms), False)]}, False)]}
    OF = lambda el, kind="seqof", parts=(): {"k": kind, "parts": list(parts), "el": el, "con": None}
    share = (lambda: rng.chance(1, 8)) if tier == "quick" else (lambda: rng.chance(1, 3))
    mods = []
    # ---- INTEGER
    cons = int_boundary_constraints(rng, tier)
    defs = []
    for i, ch in enumerate(_chunks(cons, chunk)):
        defs.append(("BS%d" % i, SEQ("BS%d" % i, [mk_int(ps) for _l, ps in ch])))
    prio = [c for c in cons if c[0] in ("upto", "from", "single") and any(abs(x) <= 1 or abs(abs(x) - 2**31) <= 1 or abs(abs(x) - 2**63) <= 1
                                                                          for p in c[1] for x in p if x is not None)]
    tops = prio + [c for c in cons if c not in prio and share()]
    for j, (_l, ps) in enumerate(tops):
        defs.append(("BT%d" % j, mk_int(ps)))
        if j % 3 == 0:
            defs.append(("BR%d" % j, {"k": "ref", "ref": "BT%d" % j}))
    nested = [c for c in cons if not needs_unsigned(c[1]) and (c in prio or share())]
    for i, ch in enumerate(_chunks(nested, chunk)):
        defs.append(("BQ%d" % i, SEQ("BQ%d" % i, [OF(mk_int(ps)) for _l, ps in ch])))
        defs.append(("BN%d" % i, DEEP("BN%d" % i, [OF(mk_int(ps), "setof") for _l, ps in ch])))
    alts = [c for c in cons if c in prio or share()]
    for i, ch in enumerate(_chunks(alts, chunk)):
        defs.append(("BC%d" % i, CHO("BC%d" % i, [mk_int(ps) for _l, ps in ch])))
    mods.append(("MBI", defs))
    # ---- SIZE
    defs = []

    def minlen(ps, cap):
        for n in range(0, cap + 1):
            if in_parts(ps, n):
                return n
        return None
    ocons = size_boundary_constraints(rng, tier, CAP_OCT)
    short = [c for c in ocons if minlen(c[1], 600) is not None]
    long_ = [c for c in ocons if minlen(c[1], 600) is None and minlen(c[1], CAP_OCT) is not None]      # satisfiable by long strings only: types of their own
    never = [c for c in ocons if minlen(c[1], CAP_OCT) is None]                                       # no value within the cap satisfies: SEQUENCEs of their own
    for i, ch in enumerate(_chunks(short, chunk) + _chunks(never, chunk)):
        defs.append(("ZS%d" % i, SEQ("ZS%d" % i, [mk_oct(ps) for _l, ps in ch])))
    for j, (_l, ps) in enumerate(long_):
        defs.append(("ZL%d" % j, mk_oct(ps)))
    for j, (_l, ps) in enumerate([c for c in short if share()]):
        defs.append(("ZT%d" % j, mk_oct(ps)))
    qcons = size_boundary_constraints(rng, tier, CAP_OF)
    qshort = [c for c in qcons if minlen(c[1], CAP_OF) is not None]
    qnever = [c for c in qcons if minlen(c[1], CAP_OF) is None]
    for i, ch in enumerate(_chunks(qshort, chunk) + _chunks(qnever, chunk)):
        defs.append(("ZQ%d" % i, SEQ("ZQ%d" % i, [OF({"k": "bool"}, "seqof" if j % 2 else "setof", ps) for j, (_l, ps) in enumerate(ch)])))
    sub = [c for c in qshort if share()]
    for i, ch in enumerate(_chunks(sub, chunk)):
        defs.append(("ZC%d" % i, CHO("ZC%d" % i, [OF(mk_int([(0, 7)]), "seqof", ps) for _l, ps in ch])))
    sub = [c for c in short if share()]
    for i, ch in enumerate(_chunks(sub, chunk)):
        defs.append(("ZN%d" % i, DEEP("ZN%d" % i, [mk_oct(ps) for _l, ps in ch])))
    # SIZE written at a REFERENCE to a named list type (`m VLq0 (SIZE(..))`, `ZW ::= VLq0 (SIZE(..))`): asn1c generates the
    # checker from a reference; after its own SIZE test it must hand over to the element walker.  Elements carry
    # constraints of their own (value, SIZE), so that a value with a good count and ONE bad element exists.
    ELS = [mk_int([(0, 7)]), mk_oct([(1, 2)]), mk_int([(None, -1), (5, None)])]
    reach = [c for c in qshort if minlen(c[1], 4) is not None]
    vcons = reach if tier != "quick" else [c for i, c in enumerate(reach) if i % 3 == rng.below(3) or i < 6]

    def VIA(j, ps):
        kind = "seqof" if j % 2 else "setof"
        return dict(OF(ELS[j % 3], kind, ps), via="VL%s%d" % ("q" if kind == "seqof" else "t", j % 3))
    for i, ch in enumerate(_chunks(vcons, 8)):
        defs.append(("ZV%d" % i, SEQ("ZV%d" % i, [VIA(j, ps) for j, (_l, ps) in enumerate(ch)])))
    for j, (_l, ps) in enumerate(vcons[::3]):
        defs.append(("ZW%d" % j, VIA(j, ps)))
        if j % 4 == 0:
            defs.append(("ZX%d" % j, {"k": "ref", "ref": "ZW%d" % j}))
    for i, ch in enumerate(_chunks(vcons[1::4], 6)):
        defs.append(("ZU%d" % i, DEEP("ZU%d" % i, [VIA(j, ps) for j, (_l, ps) in enumerate(ch)])))
    mods.append(("MBS", defs))
    out = []
    for name, defs in mods:
        env = dict(defs)
        trees = {n: resolve(t, "AUTOMATIC", env) for n, t in defs}
        out.append({"name": name, "default": "AUTOMATIC", "defs": defs, "trees": trees, "text": cmodule_text(name, "AUTOMATIC", defs), "boundary": True,
                    "names": ["VL%s%d" % (k, j) for k in "qt" for j in range(3)]})
    return out


def lite_module(m, prefixes=("BS", "ZS", "ZQ", "ZV")):
    """the SEQUENCE-of-members part of a systematic module (every constraint once), for the secondary flag sets"""
    defs = [(n, t) for n, t in m["defs"] if n[:2] in prefixes]
    return dict(m, defs=defs, trees={n: m["trees"][n] for n, _t in defs}, text=cmodule_text(m["name"], m["default"], defs))


def int_edge_values(t):
    """values at, just inside and just outside every edge of every part, and far ones"""
    ps = t["parts"]
    vals = []
    fin = [x for p in ps for x in p if x is not None]
    for a, b in ps:
        for x in (a, b):
            if x is not None:
                vals += [x - 1, x, x + 1]
    lo = min(fin) if fin else 0
    hi = max(fin) if fin else 0
    vals += [lo - 2**33, hi + 2**33, -2**70, 2**70, 0]
    seen, out = set(), []
    for v in vals:
        if v not in seen:
            seen.add(v)
            out.append(v)
    return out


def size_edge_values(ps, cap):
    vals = [0, 1]
    fin = [x for p in ps for x in p if x is not None and x <= cap + 1]
    for x in fin:
        vals += [x - 1, x, x + 1]
    if fin:
        vals.append(max(fin) + 17)
    seen, out = set(), []
    for v in vals:
        if 0 <= v <= cap and v not in seen:
            seen.add(v)
            out.append(v)
    if sum(1 for v in out if v > 2000) > 3:           # long strings: the three nearest to the largest edge
        big = sorted(v for v in out if v > 2000)
        out = [v for v in out if v <= 2000] + big[-3:]
    return out


def fast_bytes(rng, n):
    """n pseudo-random bytes; long strings repeat a 64-byte random block (their content is irrelevant to C08)"""
    if n <= 256:
        return rng.bytes(n)
    blk = rng.bytes(64)
    return (blk * (n // 64 + 1))[:n]


def sites(t, env, rng, depth=0):
    """[(description, value)]: one value per (constraint site of the type, edge candidate), everything
    around the site valid.  Sites: INTEGER leaves, OCTET STRING sizes, OF element counts."""
    k = t["k"]
    if k == "ref":
        return sites(base_of(t, env), env, rng, depth)
    if k == "int":
        return [("value", z) for z in int_edge_values(t)] if t["parts"] else []
    if k == "oct":
        return [("size", fast_bytes(rng, n)) for n in size_edge_values(t["parts"], CAP_OCT)] if t["parts"] else []
    if k in ("seqof", "setof"):
        out = []
        if t["parts"]:
            for n in size_edge_values(t["parts"], CAP_OF):
                out.append(("count", ("L", [valid_value(t["el"], rng, env, 3) for _ in range(n)])))
        want = [n for n in (2, 1, 3) if not t["parts"] or in_parts(t["parts"], n)]
        n = want[0] if want else max(1, valid_len(t["parts"], rng, 6))
        for i, (d, x) in enumerate(sites(t["el"], env, rng, depth + 1)):
            items = [valid_value(t["el"], rng, env, 3) for _ in range(n)]
            items[i % n] = x
            out.append((d, ("L", items)))
        return out
    if k == "seq":
        out = []
        base = [valid_value(mt, rng, env, 3) for _n, mt, _o in t["ms"]]
        for i, (_n, mt, opt) in enumerate(t["ms"]):
            for d, x in sites(mt, env, rng, depth + 1):
                items = [("!", b) if o else b for b, (_n2, _t2, o) in zip(base, t["ms"])]
                items[i] = ("!", x) if opt else x
                out.append((d, ("S", items)))
        return out
    if k == "choice":
        out = []
        for i, (_n, mt, _o) in enumerate(t["ms"]):
            for d, x in sites(mt, env, rng, depth + 1):
                out.append((d, ("C", i, x)))
        return out
    return []


# ---------------------------------------------------------------- cty strings
def es(x):
    return "*" if x is None else str(x)


def parts_s(ps):
    return ",".join("%s:%s" % (es(a), es(b)) for a, b in ps)


def base_of(t, env):
    while t["k"] == "ref":
        t = env[t["ref"]]
    return t


def cty_str(t, env):
    k = t["k"]
    if k == "ref":
        tgt = env[t["ref"]]
        return "R%d%s" % (1 if (tgt["k"] == "ref" or tgt.get("via")) else 0, cty_str(base_of(tgt, env), env))
    if k == "bool":
        return "b"
    if k == "null":
        return "n"
    if k == "int":
        return "i[%s;%s]" % (parts_s(t["parts"]), parts_s(t["exc"]))
    if k == "oct":
        return "o[%s]" % parts_s(t["parts"])
    if k in ("seqof", "setof"):
        return "q[%s]%s" % (parts_s(t["parts"]), cty_str(t["el"], env))
    if k == "seq":
        return "s{%s}" % "".join(("?" if opt else "") + cty_str(mt, env) for _n, mt, opt in t["ms"])
    if k == "choice":
        return "c{%s}" % "".join(cty_str(mt, env) for _n, mt, _o in t["ms"])
    raise ValueError(k)


def def_cty(tn, env):
    """the cty of the DEFINITION tn as asn_check_constraints(&asn_DEF_tn) sees it: a definition
    that is itself a reference carries a generated checker (R1)"""
    t = env[tn]
    if t["k"] == "ref":
        return "R1" + cty_str(base_of(t, env), env)
    if t.get("via"):
        return "R1" + cty_str(t, env)              # `T ::= ListType (SIZE(..))`: a reference definition with its own constraint
    return cty_str(t, env)


# ---------------------------------------------------------------- Spec in Python, with positions
def in_parts(ps, z):
    return any((a is None or a <= z) and (b is None or z <= b) for a, b in ps)


def violated(t, v, env, slot=False, path=(), out=None):
    """list of (path, what, excuses) for every constraint of the type the value violates.
    excuses: the known findings that explain why the C does not see this violation."""
    if out is None:
        out = []
    k = t["k"]
    ex = []
    if k == "ref":
        tgt = env[t["ref"]]
        return violated(base_of(tgt, env), v, env, tgt["k"] == "ref" or bool(tgt.get("via")), path, out)
    if k == "int":
        ps = t["parts"]
        if ps and not in_parts(ps, v):
            out.append((path, "value %d not in (%s)" % (v, parts_text(ps)), ex))
        elif in_parts(t["exc"], v):
            out.append((path, "value %d excluded by EXCEPT" % v, ex + ["C08-except-ignored"]))
    elif k == "oct":
        if t["parts"] and not in_parts(t["parts"], len(v)):
            out.append((path, "length %d not in SIZE(%s)" % (len(v), parts_text(t["parts"])), ex))
    elif k in ("seqof", "setof"):
        n = len(v[1])
        if t["parts"] and not in_parts(t["parts"], n):
            out.append((path, "count %d not in SIZE(%s)" % (n, parts_text(t["parts"])), ex + ([] if slot else ["C08-of-size-unchecked"])))
        for i, x in enumerate(v[1]):
            violated(t["el"], x, env, True, path + (i,), out)
    elif k == "seq":
        for i, ((_n, mt, opt), mv) in enumerate(zip(t["ms"], v[1])):
            if opt:
                if mv[0] == "_":
                    continue
                mv = mv[1]
            violated(mt, mv, env, True, path + (i,), out)
    elif k == "choice":
        violated(t["ms"][v[1]][1], v[2], env, True, path + (v[1],), out)
    return out


def int_leaves(t, v, env, out=None):
    if out is None:
        out = []
    k = t["k"]
    if k == "ref":
        return int_leaves(base_of(t, env), v, env, out)
    if k == "int":
        out.append((t, v))
    elif k in ("seqof", "setof"):
        for x in v[1]:
            int_leaves(t["el"], x, env, out)
    elif k == "seq":
        for (_n, mt, opt), mv in zip(t["ms"], v[1]):
            if opt:
                if mv[0] == "_":
                    continue
                mv = mv[1]
            int_leaves(mt, mv, env, out)
    elif k == "choice":
        int_leaves(t["ms"][v[1]][1], v[2], env, out)
    return out


def wide_open_leaf(t, v, env):
    """an INTEGER held in an INTEGER_t whose value does not fit the (unsigned) long the generated checker
    reads it into although it satisfies the range: `value too large` is reported before the range is looked at"""
    for it, z in int_leaves(t, v, env):
        ps = it["parts"]
        if not ps or I64[0] <= z <= I64[1]:
            continue
        if in_parts(ps, z):
            return True
    return False


# ---------------------------------------------------------------- values
def int_candidates(t):
    ps = t["parts"]
    cand = []
    for a, b in ps:
        for x in (a, b):
            if x is not None:
                cand += [x - 1, x, x + 1]
        if a is not None and b is not None:
            cand.append((a + b) // 2)
        if a is None and b is not None:
            cand += [b - 1000, -2**31, -2**63]
        if b is None and a is not None:
            cand += [a + 1000, 2**31, 2**63 - 1]
    cand += INT_EDGES
    return cand


def valid_int(t, rng):
    ps = t["parts"]
    allg = [c for c in int_candidates(t) if (not ps or in_parts(ps, c)) and not in_parts(t["exc"], c)]
    good = [c for c in allg if I64[0] <= c <= I64[1]] or allg
    lo_s = [a for a, _ in ps if a is not None]
    if ps and lo_s and min(lo_s) >= 0 and all(a is not None for a, _ in ps):
        good = [c for c in good if c >= 0]
    return rng.choice(good) if good else 0


def valid_len(ps, rng, cap):
    if not ps:
        return rng.choice([0, 1, 2, 5])
    cand = []
    for a, b in ps:
        cand += [a, a + 1] + ([b, b - 1] if b is not None else [a + 3])
    cand = [c for c in cand if 0 <= c <= cap and in_parts(ps, c)]
    if cand:
        return rng.choice(cand)
    small = [n for n in range(0, min(cap, 600) + 1) if in_parts(ps, n)]
    return small[0] if small else 1          # no length within the cap satisfies: the value is invalid, and short


def valid_value(t, rng, env, depth=0):
    k = t["k"]
    if k == "ref":
        return valid_value(env[t["ref"]], rng, env, depth)
    if k == "bool":
        return rng.chance(1, 2)
    if k == "null":
        return None
    if k == "int":
        return valid_int(t, rng)
    if k == "oct":
        return rng.bytes(valid_len(t["parts"], rng, 400))
    if k in ("seqof", "setof"):
        n = valid_len(t["parts"], rng, 12 if depth < 2 else 4)
        return ("L", [valid_value(t["el"], rng, env, depth + 1) for _ in range(n)])
    if k == "seq":
        out = []
        for _n, mt, opt in t["ms"]:
            if opt:
                out.append(("!", valid_value(mt, rng, env, depth + 1)) if rng.chance(2, 3) else ("_",))
            else:
                out.append(valid_value(mt, rng, env, depth + 1))
        return ("S", out)
    if k == "choice":
        i = rng.below(len(t["ms"]))
        return ("C", i, valid_value(t["ms"][i][1], rng, env, depth + 1))
    raise ValueError(k)


def mutations(t, v, env, rng, path=()):
    """every single-position violation of a value: (path, description, replacement sub-value)"""
    out = []
    k = t["k"]
    if k == "ref":
        return mutations(base_of(t, env), v, env, rng, path)
    if k == "int":
        ps = t["parts"]
        for a, b in ps:
            if a is not None and not in_parts(ps, a - 1):
                out.append((path, "lb-1", a - 1))
            if b is not None and not in_parts(ps, b + 1):
                out.append((path, "ub+1", b + 1))
        for a, b in t["exc"]:
            for x in {a, b}:
                if in_parts(ps, x):
                    out.append((path, "except", x))
        if ps and all(a is not None for a, _ in ps) and all(b is not None for _, b in ps):
            out.append((path, "far", max(b for _, b in ps) + 2**40))
        if ps and any(a is None for a, _ in ps) != any(b is None for _, b in ps):
            out.append((path, "huge-inside", -2**70 if any(a is None for a, _ in ps) else 2**70))
    elif k == "oct":
        ps = t["parts"]
        for a, b in ps:
            if a > 0 and not in_parts(ps, a - 1):
                out.append((path, "size-lb-1", rng.bytes(a - 1)))
            if b is not None and b + 1 <= CAP_OCT and not in_parts(ps, b + 1):
                out.append((path, "size-ub+1", rng.bytes(b + 1)))
    elif k in ("seqof", "setof"):
        ps = t["parts"]
        for a, b in ps:
            if a > 0 and not in_parts(ps, a - 1):
                out.append((path, "size-lb-1", ("L", resize(v[1], a - 1, t["el"], rng, env))))
            if b is not None and b + 1 <= CAP_OF and not in_parts(ps, b + 1):
                out.append((path, "size-ub+1", ("L", resize(v[1], b + 1, t["el"], rng, env))))
        for i, x in enumerate(v[1]):
            out += mutations(t["el"], x, env, rng, path + (i,))
    elif k == "seq":
        for i, ((_n, mt, opt), mv) in enumerate(zip(t["ms"], v[1])):
            if opt:
                if mv[0] == "_":
                    continue
                mv = mv[1]
            out += mutations(mt, mv, env, rng, path + (i,))
    elif k == "choice":
        out += mutations(t["ms"][v[1]][1], v[2], env, rng, path + (v[1],))
    return out


def resize(items, n, el, rng, env):
    items = list(items[:n])
    while len(items) < n:
        items.append(valid_value(el, rng, env, 3))
    return items


def replace(t, v, env, path, new):
    """the value with the sub-value at path replaced"""
    if not path:
        return new
    k = t["k"]
    if k == "ref":
        return replace(base_of(t, env), v, env, path, new)
    i = path[0]
    if k in ("seqof", "setof"):
        items = list(v[1])
        items[i] = replace(t["el"], items[i], env, path[1:], new)
        return ("L", items)
    if k == "seq":
        items = list(v[1])
        mt, opt = t["ms"][i][1], t["ms"][i][2]
        if opt:
            items[i] = ("!", replace(mt, items[i][1], env, path[1:], new))
        else:
            items[i] = replace(mt, items[i], env, path[1:], new)
        return ("S", items)
    if k == "choice":
        return ("C", v[1], replace(t["ms"][i][1], v[2], env, path[1:], new))
    raise ValueError((k, path))


def disjoint(p, q):
    n = min(len(p), len(q))
    return p[:n] != q[:n]


# ---------------------------------------------------------------- DER for the model trees (constraints play no part)
def der_len(n):
    if n < 128:
        return bytes([n])
    b = n.to_bytes((n.bit_length() + 7) // 8, "big")
    return bytes([0x80 | len(b)]) + b


def der_tag(tg, constructed):
    cls, num = tg % 4, tg // 4
    first = (cls << 6) | (0x20 if constructed else 0)
    if num <= 30:
        return bytes([first | num])
    ds = []
    while True:
        ds.insert(0, num % 128)
        num //= 128
        if num == 0:
            break
    return bytes([first | 31] + [d | 0x80 for d in ds[:-1]] + [ds[-1]])


def tlv(tg, constructed, content):
    return der_tag(tg, constructed) + der_len(len(content)) + content


# ---------------------------------------------------------------- the string / BIT STRING module (outside the model)
PRINTABLE = set(b"ABCDEFGHIJKLMNOPQRSTUVWXYZabcdefghijklmnopqrstuvwxyz0123456789 '()+,-./:=?")
NUMERIC = set(b"0123456789 ")
VISIBLE = set(range(0x20, 0x7f))
IA5 = set(range(0, 0x80))

UTAG = {"IA5String": 22, "PrintableString": 19, "NumericString": 18, "VisibleString": 26, "UTF8String": 12, "BIT STRING": 3}
BUILTIN = {"IA5String": IA5, "PrintableString": PRINTABLE, "NumericString": NUMERIC, "VisibleString": VISIBLE}

# name, base type, SIZE parts ([] none), FROM alphabet (None = none) as (text, set of code points)
STRING_TYPES = [
    ("X0", "PrintableString", [], None),
    ("X1", "PrintableString", [(1, 5)], None),
    ("X2", "IA5String", [], ('FROM("ab")', set(b"ab"))),
    ("X3", "IA5String", [(2, 2)], None),
    ("X4", "NumericString", [(1, 5)], None),
    ("X5", "NumericString", [], None),
    ("X6", "VisibleString", [(1, 5)], ('FROM("a".."f")', set(b"abcdef"))),
    ("X7", "VisibleString", [], None),
    ("X8", "IA5String", [], None),
    ("X9", "UTF8String", [(1, 3)], None),
    ("X10", "UTF8String", [], ('FROM("a".."z")', set(b"abcdefghijklmnopqrstuvwxyz"))),
    ("X11", "UTF8String", [], None),
    ("X12", "IA5String", [(1, 2), (4, 4)], None),
    ("X13", "PrintableString", [(0, 3)], ('FROM("A".."C" | "x")', set(b"ABCx"))),
    ("X14", "UTF8String", [(2, 4)], ('FROM("a".."c" | "x".."z")', set(b"abcxyz"))),
    ("X15", "IA5String", [], ('FROM("0".."9")', set(b"0123456789"))),
    ("B0", "BIT STRING", [(3, 10)], None),
    ("B1", "BIT STRING", [(8, 8)], None),
    ("B2", "BIT STRING", [(0, 0)], None),
    ("B3", "BIT STRING", [(1, 2), (9, 9)], None),
]


def string_module(name="MX0"):
    lines = ["%s DEFINITIONS IMPLICIT TAGS ::= BEGIN" % name]
    for n, base, size, frm in STRING_TYPES:
        cs = []
        if size:
            cs.append("SIZE(%s)" % parts_text(size))
        if frm:
            cs.append(frm[0])
        lines.append("  %s ::= %s%s" % (n, base, " (%s)" % " ^ ".join(cs) if cs else ""))
    lines.append("  XS ::= SEQUENCE { a PrintableString (SIZE(1..3)), b NumericString, c IA5String (FROM(\"xy\")) }")
    lines.append("END")
    return {"name": name, "default": "IMPLICIT", "defs": [(n, None) for n, *_ in STRING_TYPES] + [("XS", None)], "text": "\n".join(lines) + "\n"}


def utf8_chars(bs):
    """number of characters, or None if not well-formed UTF-8 in asn1c's reading (UTF8String_length)"""
    try:
        s = bytes(bs).decode("utf-8")
    except UnicodeDecodeError:
        return None
    return len(s)


def string_spec(base, size, frm, content, unused=0):
    """the Spec for the string types: (satisfied, list of violated constraint names)"""
    bad = []
    if base == "BIT STRING":
        n = 8 * len(content) - unused if content else 0
        if size and not in_parts(size, n):
            bad.append("size")
        return bad
    if base == "UTF8String":
        n = utf8_chars(content)
        if n is None:
            return ["utf8"]
        if size and not in_parts(size, n):
            bad.append("size")
        if frm and any(ord(c) not in frm[1] for c in bytes(content).decode("utf-8")):
            bad.append("from")
        return bad
    if size and not in_parts(size, len(content)):
        bad.append("size")
    if any(c not in BUILTIN[base] for c in content):
        bad.append("builtin")
    if frm and any(c not in frm[1] for c in content):
        bad.append("from")
    return bad


def string_der(base, content, unused=0):
    if base == "BIT STRING":
        return tlv(UTAG[base] * 4, False, bytes([unused]) + bytes(content))
    return tlv(UTAG[base] * 4, False, bytes(content))


def int_content(z):
    n = 1
    while not (-(1 << (8 * n - 1)) <= z < (1 << (8 * n - 1))):
        n += 1
    return z.to_bytes(n, "big", signed=True)


def py_der(tree, v):
    """DER of a value of a resolved model tree (lib/modgen.resolve), for integers of any size
    (the Rt model's encoder is the C's intmax_t one); cross-checked against the model's `der`
    whenever every integer fits 64 bits"""
    k = tree[0]
    if k == "b":
        return tlv(tree[1], False, b"\xff" if v else b"\x00")
    if k == "n":
        return tlv(tree[1], False, b"")
    if k == "i":
        return tlv(tree[1], False, int_content(v))
    if k == "o":
        return tlv(tree[1], False, bytes(v))
    if k == "s":
        body = b""
        for m, x in zip(tree[2], v[1]):
            if m[0] == "?":
                if x[0] == "_":
                    continue
                body += py_der(m[1], x[1])
            else:
                body += py_der(m, x)
        return tlv(tree[1], True, body)
    if k in ("q", "t"):
        items = [py_der(tree[3], x) for x in v[1]]
        if k == "t":
            items.sort()
        return tlv(tree[1], True, b"".join(items))
    if k == "c":
        return py_der(tree[1][v[1]], v[2])
    if k == "x":
        return tlv(tree[1], True, py_der(tree[2], v))
    raise ValueError(k)


def canon_value(tree, v):
    """the value as the decoder will see it: the elements of a SET OF in the order of their DER encodings"""
    k = tree[0]
    if k == "s":
        out = []
        for m, x in zip(tree[2], v[1]):
            if m[0] == "?":
                out.append(x if x[0] == "_" else ("!", canon_value(m[1], x[1])))
            else:
                out.append(canon_value(m, x))
        return ("S", out)
    if k in ("q", "t"):
        items = [canon_value(tree[3], x) for x in v[1]]
        if k == "t":
            items.sort(key=lambda x: py_der(tree[3], x))
        return ("L", items)
    if k == "c":
        return ("C", v[1], canon_value(tree[1][v[1]], v[2]))
    if k == "x":
        return canon_value(tree[2], v)
    return v


def all_int64(v):
    if isinstance(v, bool) or v is None or isinstance(v, (bytes, bytearray)):
        return True
    if isinstance(v, int):
        return I64[0] <= v <= I64[1]
    if v[0] in ("S", "L"):
        return all(all_int64(x) for x in v[1])
    if v[0] == "C":
        return all_int64(v[2])
    if v[0] == "!":
        return all_int64(v[1])
    return True
